import sys, random, time, json, copy
sys.path.insert(0, '/verif/harness')
import mcase, impl, coqrun
from terms import otree_diff
seed = int(sys.argv[1]); N = int(sys.argv[2])
kinds = tuple(sys.argv[3].split(',')) if len(sys.argv) > 3 else ('set', 'cascade', 'pop', 'match')
rng = random.Random(seed)
def shadow_step(shadow, op):
    cx = impl.Ctx()
    try:
        if op[0] == 'set':
            impl.set_(impl.build_path(cx, op[1]), copy.deepcopy(op[2]), shadow, cascade=op[3])
        elif op[0] == 'pop':
            impl.pop(impl.build_path(cx, op[1]), shadow, default=None)
        elif op[0] == 'pop_match':
            impl.pop_match(impl.build_path(cx, op[1]), shadow)
    except Exception:
        pass
    return shadow
cases = [mcase.gen_mcase(rng, kinds, run_impl=shadow_step) for _ in range(N)]
t0 = time.time()
obs = [impl.run_mcase(c) for c in cases]
terms = [mcase.g_mcase(c) for c in cases]
t1 = time.time()
mism, details, errors = coqrun.compare(terms, obs, "(run_mcase BUDGET)", "mcase", extra_imports=" Mutate RunM")
print("impl %.2fs coq %.2fs cases %d mismatches %d errors %d" % (t1 - t0, time.time() - t1, N, len(mism), len(errors)))
for e in errors[:2]: print("ERR", e[:3000])
import collections
st = collections.Counter()
for o in obs:
    for x in o[2][1:]:
        r = x[2][0]
        st[(r[1], r[2][0][1] if r[2] else '-')] += 1
print(sorted(st.items()))
for i in mism[:6]:
    print("--- case", i, json.dumps(cases[i]['doc']), cases[i]['ops'])
    d = details.get(i)
    print("   diff (impl vs model):", otree_diff(obs[i], d) if isinstance(d, tuple) else str(d)[:1500])
