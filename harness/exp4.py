import sys, random, subprocess, os
sys.path.insert(0, '/verif/harness')
import qcase, gens, props
from terms import g_json, g_path, g_list, label_tree
seed = int(sys.argv[1]); N = int(sys.argv[2])
rng = random.Random(seed)
HEADER = """From Coq Require Import List ZArith String Bool PArith.
From TP Require Import Json PyPrim Machine Api Obs Dsl Run Spec SpecHas SpecTest.
Import ListNotations.
Open Scope string_scope.
Open Scope list_scope.
"""
cases = []
for c in props.gen_C04(rng, 'quick')[:N] + props.gen_C03(rng, 'quick')[-N:]:
    d = c['case']['doc']; p = c['case']['cmds'][0][2]
    table, _ = label_tree(d)
    cases.append("(%s, %s)" % (g_json(d, table), g_path(p, table)))
f = "/var/tmp/spectest_h_%d.v" % seed
open(f, "w").write(HEADER + "Definition cases : list (json * jpath) := %s.\n" % g_list(["\n " + c for c in cases]) +
                   "Eval vm_compute in bad_cases_h cases.\n")
p = subprocess.run(["coqc", "-Q", "/verif/coq", "TP", f], capture_output=True, text=True)
print(p.stdout[-2000:], p.stderr[-2000:])
os.remove(f)
