"""Sanity experiment: the machine's complete event stream equals the specification's `sem` (evaluated inside
Coq on random cases) -- run before investing in the proof of the refinement theorem."""
import sys, random, subprocess, os, re
sys.path.insert(0, '/verif/harness')
import qcase, gens
from terms import g_json, g_path, g_list, label_tree

seed = int(sys.argv[1]); N = int(sys.argv[2])
rng = random.Random(seed)
HEADER = """From Coq Require Import List ZArith String Bool PArith.
From TP Require Import Json PyPrim Machine Api Obs Dsl Run Spec SpecTest.
Import ListNotations.
Open Scope string_scope.
Open Scope list_scope.
"""
cases = []
for _ in range(N):
    d = gens.rand_doc(rng)
    p = gens.derive_path(rng, d, gens.CHILD + ('rec', 'parent'), maxextra=2)
    for _k in range(rng.choice([0, 1, 2])):
        i = rng.randint(0, len(p))
        p = p[:i] + [('pred', qcase.gen_user(rng))] + p[i:]
    p = qcase.fix_path(p)
    table, _ = label_tree(d)
    cases.append("(%s, %s)" % (g_json(d, table), g_path(p, table)))
f = "/var/tmp/spectest_%d.v" % seed
open(f, "w").write(HEADER + "Definition cases : list (json * jpath) := %s.\n" % g_list(["\n " + c for c in cases]) +
                   "Eval vm_compute in bad_cases cases.\n")
p = subprocess.run(["coqc", "-Q", "/verif/coq", "TP", f], capture_output=True, text=True)
print(p.stdout[-3000:], p.stderr[-3000:])
os.remove(f)
