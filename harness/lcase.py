"""List-view case family (C19): Gallina printing and generation."""
import copy

from terms import g_json, g_Z, g_nat, g_list, label_tree
from qcase import SCALARS, gen_doc

HIGH = 1000


def g_lpred(p, table):
    k = p[0]
    if k == 'const':
        return "(LpConst %s)" % ("true" if p[1] else "false")
    if k == 'truthy':
        return "LpTruthy"
    if k == 'eq':
        return "(LpEq %s)" % g_json(p[1], table)
    if k == 'lt':
        return "(LpLt %s)" % g_Z(p[1])
    if k == 'is_bool':
        return "LpIsBool"
    raise ValueError(k)


def g_lcase(case):
    case = copy.deepcopy(case)
    table, _ = label_tree(case['items'], {}, 1)
    vc = HIGH
    ops = []
    for op in case['ops']:
        k = op[0]
        if k == 'len':
            ops.append("LLen")
        elif k == 'get':
            ops.append("LGet %s" % g_Z(op[1]))
        elif k == 'set':
            table, vc = label_tree(op[2], table, vc)
            ops.append("LSet %s %s" % (g_Z(op[1]), g_json(op[2], table)))
        elif k == 'del':
            ops.append("LDel %s" % g_Z(op[1]))
        elif k == 'in':
            table, vc = label_tree(op[1], table, vc)
            ops.append("LIn %s" % g_json(op[1], table))
        elif k == 'append':
            table, vc = label_tree(op[1], table, vc)
            ops.append("LAppend %s" % g_json(op[1], table))
        elif k == 'pop':
            ops.append("LPop %s" % g_Z(op[1]))
        elif k == 'iter':
            ops.append("LIter")
        elif k == 'itermut':
            mu = op[2]
            if mu[0] == 'append':
                table, vc = label_tree(mu[1], table, vc)
                gm = "(MuAppend %s)" % g_json(mu[1], table)
            elif mu[0] == 'del':
                gm = "(MuDel %s)" % g_Z(mu[1])
            elif mu[0] == 'pop':
                gm = "(MuPop %s)" % g_Z(mu[1])
            else:
                table, vc = label_tree(mu[2], table, vc)
                gm = "(MuSet %s %s)" % (g_Z(mu[1]), g_json(mu[2], table))
            ops.append("LIterMut %s %s" % (g_nat(op[1]), gm))
        elif k == 'keep':
            ops.append("LKeep %s" % g_lpred(op[1], table))
        elif k == 'remove':
            ops.append("LRemove %s" % g_lpred(op[1], table))
        else:
            raise ValueError(k)
    items = case['items']
    body = g_json(items, table)          # (JList 1%nat [...])
    inner = body[len("(JList 1%nat "):-1]
    return "{| l_id := 1%%nat; l_items := %s; l_ops := %s; l_partial := %s |}" % (
        inner, g_list(ops), "true" if case.get('mode') == 'partial' else "false")


def gen_elem(rng):
    r = rng.random()
    if r < 0.75:
        return rng.choice(SCALARS + [1, True, 1.0, 0, False, 0.0])
    return gen_doc(rng, budget=3, depth=2)


def gen_lpred(rng, items):
    k = rng.choice(['const', 'truthy', 'eq', 'lt', 'is_bool', 'eq'])
    if k == 'const':
        return ('const', rng.random() < 0.5)
    if k == 'eq':
        return ('eq', copy.deepcopy(rng.choice(items)) if items and rng.random() < 0.7 else gen_elem(rng))
    if k == 'lt':
        return ('lt', rng.choice([0, 1, 2, 5]))
    return (k,)


def gen_lcase(rng):
    n = rng.choice([0, 0, 1, 2, 3, 5, 8])
    items = [gen_elem(rng) for _ in range(n)]
    ops = []
    cur = n
    for _ in range(rng.choice([1, 3, 5, 8, 12])):
        k = rng.choice(['len', 'get', 'set', 'del', 'in', 'append', 'append', 'pop', 'iter', 'keep', 'remove', 'itermut'])
        fresh = rng.random() < 0.5
        idx = rng.choice(list(range(-cur - 2, cur + 3)))
        if k == 'itermut':
            # a live iterator and a mutation through the view in between (C19-m11: iterating over a snapshot)
            mk = rng.choice(['append', 'del', 'pop', 'set'])
            mu = {'append': lambda: ('append', gen_elem(rng)), 'del': lambda: ('del', idx), 'pop': lambda: ('pop', idx),
                  'set': lambda: ('set', idx, gen_elem(rng))}[mk]()
            op = (k, rng.randrange(cur + 2), mu, fresh)
            if mk == 'append':
                cur += 1
            elif mk in ('del', 'pop') and -cur <= idx < cur:
                cur -= 1
        elif k == 'len' or k == 'iter':
            op = (k, fresh)
        elif k in ('get', 'del', 'pop'):
            op = (k, idx, fresh)
            if k != 'get' and -cur <= idx < cur:
                cur -= 1
        elif k == 'set':
            op = (k, idx, gen_elem(rng), fresh)
        elif k == 'in':
            op = (k, copy.deepcopy(rng.choice(items)) if items and rng.random() < 0.6 else gen_elem(rng), fresh)
        elif k == 'append':
            op = (k, gen_elem(rng), fresh)
            cur += 1
        else:
            op = (k, gen_lpred(rng, items), fresh)
        ops.append(op)
    mode = rng.choice(['custom', 'doc', 'box', 'partial'])
    if mode == 'partial':
        # a converter that raises on strings: only operations whose outcome is a single conversion (C19-m12)
        ops = [o for o in ops if o[0] in ('len', 'get', 'set', 'del', 'in', 'append', 'pop')]
    return {'items': items, 'ops': ops, 'mode': mode}
