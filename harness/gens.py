"""Generators for the read-only family: valid-biased paths derived from the document, an exhaustive small
scope, and scripts per property (DESIGN.md 4.3)."""
import itertools
import random

from qcase import (gen_doc, collect_nodes, gen_step, gen_pred, gen_user, gen_has, gen_const, fix_path, KEYS, SCALARS,
                   CHILD_KINDS, FULL, FNS, OPS)

# ----------------------------------------------------------------------------- small scope
SMALL_DOCS = [
    {}, [], 0, None, "",
    {'a': 0}, {'b': None, 'a': 1}, {'a': {}, 'b': []}, {'a': {'a': 0, 'b': ''}}, {'b': [0, 1], 'a': False},
    [0], [None, 1], [[], {}], [[0, 1], 1], [{'a': 1}, {'b': 0, 'a': ''}], [[[0]]], {'a': [{'a': 1}]},
    {'a': {'b': {'a': 0}}, 'b': 1}, [0, [1, [False, {}]]], {'b': {'a': 1}, 'a': {'b': 0}},
]

SMALL_STEPS_CHILD = (
    [('key', 'a', 'attr'), ('key', 'b', 'item')]
    + [('idx', i) for i in (0, 1, -1, 2, -3)]
    + [('slice',) + s for s in ((None, None, None), (1, None, None), (None, None, -1), (None, None, 2), (-2, None, None),
                                (5, 1, -2))]
    + [('tuple', t) for t in (['a', 'b'], ['b', 'zz', 'a', 'a'], [0, -1, 'a'], [1, 1])]
    + [('wc', False), ('lwc', False), ('gwc', True, False), ('gwc', False, True)]
)
SMALL_PREDS = [('user', 'const', True), ('user', 'const', 0), ('user', 'const', ''), ('user', 'const', [0]),
               ('user', 'const', None), ('user', 'data_eq', 1), ('user', 'raise', 1), ('user', 'data'),
               ('has', [('key', 'a', 'item')], None, None, [], 'has'),
               ('has', [('wc', False)], '==', 1, [], 'has'),
               ('not', ('has', [('key', 'b', 'item')], None, None, [], 'has'))]
SMALL_STEPS_FULL = SMALL_STEPS_CHILD + [('rec', False), ('parent',)] + [('pred', p) for p in SMALL_PREDS]


def small_scope(steps, maxlen, docs=SMALL_DOCS):
    for d in docs:
        for n in range(0, maxlen + 1):
            for p in itertools.product(steps, repeat=n):
                p = list(p)
                if any(a[0] == 'rec' and b[0] == 'rec' for a, b in zip(p, p[1:])):
                    continue
                yield d, p


# ----------------------------------------------------------------------------- paths derived from the document
def step_for(rng, container, name, kinds):
    """a step that selects member `name` of `container` (possibly among others)"""
    opts = []
    if isinstance(container, dict):
        if 'key' in kinds:
            opts += [('key', name, 'item'), ('key', name, 'item' if name in ('parent', 'rec', 'wc', 'shape') else rng.choice(['attr', 'item']))]
        if 'wc' in kinds:
            opts += [('wc', rng.random() < 0.2)]
        if 'gwc' in kinds:
            opts += [('gwc', rng.random() < 0.5, rng.random() < 0.2)]
        if 'tuple' in kinds:
            others = [rng.choice(KEYS + list(container.keys()) + [0, -1]) for _ in range(rng.choice([0, 1, 2]))]
            t = others + [name]
            rng.shuffle(t)
            opts += [('tuple', t)]
    else:
        n = len(container)
        if 'idx' in kinds:
            opts += [('idx', name), ('idx', name - n)]
        if 'lwc' in kinds:
            opts += [('lwc', rng.random() < 0.2)]
        if 'gwc' in kinds:
            opts += [('gwc', rng.random() < 0.5, rng.random() < 0.2)]
        if 'slice' in kinds:
            opts += [('slice',) + rng.choice([(None, None, None), (name, None, None), (None, name + 1, None),
                                              (None, None, -1), (name - n, None, None), (name, name + 1, None),
                                              (None, None, 2) if name % 2 == 0 else (1, None, 2), (n + 3, None, -1)])]
        if 'tuple' in kinds:
            others = [rng.choice([0, 1, -1, 2, -3, 'a', n, -n - 1]) for _ in range(rng.choice([0, 1, 2]))]
            t = others + [rng.choice([name, name - n])]
            rng.shuffle(t)
            opts += [('tuple', t)]
    return rng.choice(opts) if opts else (('key', name, 'item') if isinstance(name, str) else ('idx', name))


def truthy_pred(rng, node, depth):
    """a predicate that is likely (not certain) to accept `node`"""
    r = rng.random()
    if r < 0.3:
        return ('user', 'const', rng.choice([1, True, 'x', [0], 1.5]))
    if r < 0.4:
        return ('user', 'depth')
    if r < 0.5 and isinstance(node, dict) and node:
        k = rng.choice(list(node.keys()))
        v = node[k]
        if not isinstance(v, (dict, list)) and rng.random() < 0.6:
            return ('has', [('key', k, 'item')], '==', v, [], rng.choice(['has', 'tuple', 'bare']))
        return ('has', [('key', k, 'item')], None, None, [], rng.choice(['has', 'bare']))
    if r < 0.6 and isinstance(node, list) and node:
        return ('has', [('lwc', False)], None, None, [], 'has')
    if r < 0.7:
        return ('not', ('has', [('key', 'nope', 'item')], None, None, [], 'has'))
    return gen_pred(rng, depth)


def derive_path(rng, doc, kinds, extras=(), maxextra=2, pred_depth=2, perturb=0.15):
    """walk to a random node of the document, spelling every level with a step that selects it, optionally
    skipping levels with a recursive step, taking parent detours, inserting filters; then append extra steps
    and perturb"""
    nodes = collect_nodes(doc)
    loc, node = rng.choice(nodes)
    p = []
    cur = doc
    i = 0
    while i < len(loc):
        if 'rec' in kinds and rng.random() < 0.2 and (not p or p[-1][0] != 'rec'):
            p.append(('rec', rng.random() < 0.2))
            j = rng.randint(i, len(loc) - 1)
            for k in range(i, j):
                cur = cur[loc[k]]
            i = j
        name = loc[i]
        p.append(step_for(rng, cur, name, kinds))
        cur = cur[name]
        i += 1
        if 'parent' in kinds and rng.random() < 0.15:
            # climb and come back
            p.append(('parent',))
            p.append(('key', name, 'item') if isinstance(name, str) else ('idx', name))
        if 'pred' in kinds and rng.random() < 0.2:
            p.append(('pred', truthy_pred(rng, cur, pred_depth)))
    if 'pred' in kinds and not p and rng.random() < 0.3:
        p.append(('pred', truthy_pred(rng, cur, pred_depth)))
    for _ in range(rng.randint(0, maxextra)):
        pool = list(extras) if extras else [k for k in ('key', 'idx', 'wc', 'lwc', 'gwc', 'slice', 'tuple', 'rec', 'parent', 'pred') if k in kinds]
        k = rng.choice(pool)
        if k == 'pred':
            p.append(('pred', truthy_pred(rng, cur, pred_depth)))
        else:
            p.append(gen_step(rng, [k], pred_depth))
    p = fix_path(p)
    if p and rng.random() < perturb:
        i = rng.randrange(len(p))
        p[i] = gen_step(rng, [k for k in kinds if k in ('key', 'idx', 'wc', 'lwc', 'gwc', 'slice', 'tuple')] or ['key'], pred_depth)
    return fix_path(p)


CHILD = ('key', 'idx', 'wc', 'lwc', 'gwc', 'slice', 'tuple')


def rand_doc(rng, big=False):
    r = rng.random()
    if r < 0.08:
        return rng.choice(SMALL_DOCS)
    if big:
        return gen_doc(rng, budget=rng.choice([20, 40, 60]), depth=rng.choice([3, 5, 8]))
    return gen_doc(rng, budget=rng.choice([4, 8, 12, 20]), depth=rng.choice([2, 4, 6]))


def drain(doc, p, tr=False, extra=1, vals=False, cap=60):
    """script: iterate find_matches(p, doc) to exhaustion (the number of next() calls is fixed in advance by
    a dry run of the generator's own reference walk being unavailable: we simply ask for cap results at most)"""
    return {'doc': doc, 'cmds': [('iter', 'doc', p, vals, tr)] + [('next', 0)] * cap}


def count_results(obs):
    """number of results / values among the next() observations of a q-observation"""
    n = 0
    for x in obs[2]:
        if x[1] == 'next' and x[2] and x[2][0][1] in ('result', 'value'):
            n += 1
    return n
