"""Builder-history case family (C15): Gallina printing and generation."""
from terms import g_json, g_Z, g_nat, g_list, g_str, g_optZ, g_name, label_tree, g_pred
from qcase import gen_doc, gen_user, KEYS

RAW = ['a', 'b', 'k', 'x_y', 'a_b_c', 'zz', 'c']


def g_bstep(s, table):
    k = s[0]
    if k == 'attr':
        return "(BAttr %s)" % g_str(s[1])
    if k == 'item':
        return "(BItem %s)" % g_str(s[1])
    if k == 'idx':
        return "(BIdx %s)" % g_Z(s[1])
    if k == 'slice':
        return "(BSlice %s %s %s)" % (g_optZ(s[1]), g_optZ(s[2]), g_optZ(s[3]))
    if k == 'tuple':
        return "(BTuple %s)" % g_list([g_name(n) for n in s[1]])
    if k == 'wc':
        return "BWc"
    if k == 'lwc':
        return "BLwc"
    if k == 'gwc':
        return "(BGwc %s)" % ("true" if s[1] else "false")
    if k == 'rec':
        return "BRec"
    if k == 'parent':
        return "BParent"
    if k == 'pred':
        hu = g_pred(s[2], table)               # (HUser tag f)
        inner = hu[len("(HUser "):-1]
        tag, f = inner.split(" ", 1)
        return "(BPred %s %s %s)" % (tag, g_str(s[1]), f)
    raise ValueError(k)


def g_bcase(case):
    table, _ = label_tree(case['doc'])
    ops = []
    for op in case['ops']:
        if op[0] == 'new':
            ops.append("BNew %s" % ("true" if op[1] else "false"))
        elif op[0] == 'ext':
            ops.append("BExt %s %s" % (g_nat(op[1]), g_bstep(op[2], table)))
        else:
            ops.append("BFind %s" % g_nat(op[1]))
    return "{| b_doc := %s; b_ops := %s |}" % (g_json(case['doc'], table), g_list(ops))


def gen_bstep(rng, doc_keys):
    k = rng.choice(['attr', 'attr', 'item', 'item', 'idx', 'slice', 'tuple', 'wc', 'lwc', 'gwc', 'rec', 'parent', 'pred'])
    if k == 'attr':
        return ('attr', rng.choice(RAW))
    if k == 'item':
        return ('item', rng.choice(doc_keys + ['x-y', 'x_y', 'a-b-c', 'a_b_c']))
    if k == 'idx':
        return ('idx', rng.choice([0, 1, -1, 2]))
    if k == 'slice':
        return ('slice',) + rng.choice([(None, None, None), (1, None, None), (0, 2, None), (None, None, -1), (1, 0, -1),
                                        (0, 0, 0) if False else (None, 2, 2), (-2, None, None)])
    if k == 'tuple':
        return ('tuple', [rng.choice(doc_keys + [0, 1, -1]) for _ in range(rng.choice([1, 2, 3]))])
    if k == 'wc':
        return ('wc', rng.random() < 0.5)
    if k == 'lwc':
        return ('lwc', rng.random() < 0.5)
    if k == 'gwc':
        return ('gwc', rng.random() < 0.5, rng.random() < 0.5)
    if k == 'rec':
        return ('rec', rng.random() < 0.5)
    if k == 'parent':
        return ('parent',)
    up = gen_user(rng)
    while up[1] in ('raise', 'eq_or_raise'):
        up = gen_user(rng)
    return ('pred', rng.choice(['P1', 'is_ok', '(grouped)']), up)


def gen_bcase(rng):
    # a document whose keys contain both dashed and underscored spellings
    base = gen_doc(rng, budget=rng.choice([6, 10, 16]), depth=4, keys=['a', 'b', 'k', 'x-y', 'x_y', 'a-b-c', 'a_b_c', 'zz', 'c'])
    doc_keys = ['a', 'b', 'k', 'x-y', 'x_y', 'a-b-c', 'zz']
    ops = [('new', rng.random() < 0.5)]
    n = 1
    if rng.random() < 0.4:
        ops.append(('new', rng.random() < 0.5))
        n += 1
    for _ in range(rng.choice([3, 6, 10, 14])):
        r = rng.random()
        if r < 0.65:
            ops.append(('ext', rng.randrange(n), gen_bstep(rng, doc_keys)))
            n += 1
        else:
            ops.append(('find', rng.randrange(n)))
    return {'doc': base, 'ops': ops}
