"""Builder-history case family (C15): Gallina printing and generation."""
from terms import g_json, g_Z, g_nat, g_list, g_str, g_optZ, g_name, label_tree, g_pred
from qcase import gen_doc, gen_user, KEYS

RAW = ['a', 'b', 'k', 'x_y', 'a_b_c', 'zz', 'c', 'k_', 'class_', '_k', 'a__b', '__dict__', '__copy__', '__wrapped__', '__name__']


def g_bstep(s, table):
    k = s[0]
    if k == 'attr':
        return "(BAttr %s)" % g_str(s[1])
    if k == 'item':
        return "(BItem %s)" % g_str(s[1])
    if k == 'idx':
        return "(BIdx %s)" % g_Z(s[1])
    if k == 'slice':
        return "(BSlice %s %s %s)" % (g_optZ(s[1]), g_optZ(s[2]), g_optZ(s[3]))
    if k == 'tuple':
        return "(BTuple %s)" % g_list([g_name(n) for n in s[1]])
    if k == 'wc':
        return "BWc"
    if k == 'lwc':
        return "BLwc"
    if k == 'gwc':
        return "(BGwc %s)" % ("true" if s[1] else "false")
    if k == 'rec':
        return "BRec"
    if k == 'parent':
        return "BParent"
    if k == 'bad':
        return "BBadIdx"
    if k == 'pred':
        hu = g_pred(s[2], table)               # (HUser tag f)
        inner = hu[len("(HUser "):-1]
        tag, f = inner.split(" ", 1)
        return "(BPred %s %s %s)" % (tag, g_str(s[1]), f)
    raise ValueError(k)


def g_bcase(case):
    table, _ = label_tree(case['doc'])
    ops = []
    for op in case['ops']:
        if op[0] == 'new':
            ops.append("BNew %s" % ("true" if op[1] else "false"))
        elif op[0] == 'ext':
            ops.append("BExt %s %s" % (g_nat(op[1]), g_bstep(op[2], table)))
        elif op[0] == 'log':
            ops.append("BLog %s" % g_nat(op[1]))
        else:
            ops.append("BFind %s" % g_nat(op[1]))
    return "{| b_doc := %s; b_ops := %s |}" % (g_json(case['doc'], table), g_list(ops))


def gen_bstep(rng, doc_keys):
    k = rng.choice(['attr', 'attr', 'item', 'item', 'idx', 'slice', 'tuple', 'wc', 'lwc', 'gwc', 'rec', 'parent', 'pred', 'bad'])
    if k == 'bad':
        # unsupported index types and the reserved attribute name: PathSyntaxError when the step is built (C16)
        return rng.choice([('bad', 'float'), ('bad', 'none'), ('bad', 'dict'), ('bad', 'list'), ('attr', 'shape')])
    if k == 'attr':
        return ('attr', rng.choice(RAW))
    if k == 'item':
        # item keys are never rewritten: also not the words of the builder's own vocabulary (C15-m3)
        return ('item', rng.choice(doc_keys + ['x-y', 'x_y', 'a-b-c', 'a_b_c', 'wildcard', 'generic_wildcard', 'wc', 'gwc',
                                               'rec', 'recursive', 'parent', 'a.b', 'k.x-y', 'a[0]', 'k_', 'class_', 'class', 'k-', '_k', 'a__b', 'a--b']))
    if k == 'idx':
        return ('idx', rng.choice([0, 1, -1, 2]))
    if k == 'slice':
        return ('slice',) + rng.choice([(None, None, None), (1, None, None), (0, 2, None), (None, None, -1), (1, 0, -1),
                                        (0, 0, 0) if False else (None, 2, 2), (-2, None, None)])
    if k == 'tuple':
        return ('tuple', [rng.choice(doc_keys + [0, 1, -1]) for _ in range(rng.choice([1, 2, 3]))])
    if k == 'wc':
        return ('wc', rng.random() < 0.5)
    if k == 'lwc':
        return ('lwc', rng.random() < 0.5)
    if k == 'gwc':
        return ('gwc', rng.random() < 0.5, rng.random() < 0.5)
    if k == 'rec':
        return ('rec', rng.random() < 0.5)
    if k == 'parent':
        return ('parent',)
    up = gen_user(rng)
    while up[1] in ('raise', 'eq_or_raise'):
        up = gen_user(rng)
    return ('pred', rng.choice(['P1', 'is_ok', '(grouped)']), up)


# scalars whose repr() exercises quoting, escaping and the 20-character cut of the tracer's log lines
LOG_SCALARS = [0, 1, -1, 7, 123456789012345678901234, '', 'a', 'xy', "it's", 'say "hi"', 'a\\b', "both ' and \"", 'abcdefghijklmnopqrstuvwxyz',
               'nineteen chars long', 'twenty characters ..', None, False, True, 0.0, 1.5, -0.5, 2.0, 2.5, -3.0]


def gen_logcase(rng):
    """a chain of expressions that follows the document, each drained under the library's own tracer"""
    doc = gen_doc(rng, budget=rng.choice([8, 12, 20]), depth=4, scalars=LOG_SCALARS,
                  keys=['a', 'b', 'k', 'x-y', 'x_y', "q'", 'zz', 'c'])
    ops = [('new', rng.random() < 0.3)]
    n = 1
    node = doc
    for _ in range(rng.choice([1, 2, 3, 4, 5])):
        r = rng.random()
        if isinstance(node, dict) and node and r < 0.8:
            k = rng.choice(list(node))
            step = rng.choice([('item', k), ('item', k), ('wc', False), ('gwc', True, False), ('rec', False),
                               ('tuple', [k, rng.choice(list(node))])])
            node = node[k]
        elif isinstance(node, list) and node and r < 0.8:
            i = rng.randrange(len(node))
            step = rng.choice([('idx', i), ('idx', i - len(node)), ('lwc', False), ('gwc', False, False), ('rec', False),
                               ('slice', None, None, None), ('slice', None, None, -1), ('tuple', [i, 0])])
            node = node[i]
        else:
            step = gen_bstep(rng, ['a', 'b', 'k', 'x-y', 'zz'])
        ops.append(('ext', n - 1, step))
        n += 1
        if rng.random() < 0.4:
            ops.append(('log', n - 1))
    ops.append(('log', n - 1))
    return {'doc': doc, 'ops': ops}


def gen_oddkey_case(rng):
    """item keys that look like path syntax: they are keys, never parsed (C15-m5, C15-m3)"""
    v1, v2 = rng.choice([1, 'x', [1, 2], {'k': 0}]), rng.choice([2, 'y', [3], {'k': 1}])
    kind = rng.choice(['dot', 'idx', 'word', 'star'])
    if kind == 'dot':
        doc, key = {'a.b': v1, 'a': {'b': v2, 'c': 0}}, 'a.b'
    elif kind == 'idx':
        doc, key = {'a[0]': v1, 'a': [v2, 5]}, 'a[0]'
    elif kind == 'word':
        key = rng.choice(['wildcard', 'generic_wildcard', 'parent', 'rec', 'wc', 'gwc', 'recursive'])
        doc = {key: v1, 'a': v2, 'b': [v2]}
    else:
        doc, key = {'*': v1, 'a': v2, 'b': v2}, '*'
    if rng.random() < 0.4:
        doc = rng.choice([{'k': doc}, [doc]])
        pre = [('ext', 0, ('item', 'k') if isinstance(doc, dict) else ('idx', 0))]
    else:
        pre = []
    import copy as _copy
    import json as _json
    doc = _json.loads(_json.dumps(doc))      # the sample values are shared objects: a document is a tree
    ops = [('new', rng.random() < 0.5)] + pre
    n = len(ops)
    ops += [('ext', n - 1, ('item', key)), ('find', n), ('log', n)]
    if rng.random() < 0.5:
        ops += [('ext', n, rng.choice([('item', 'k'), ('idx', 0), ('wc', False), ('lwc', False)])), ('find', n + 1)]
    return {'doc': doc, 'ops': ops}


def gen_bcase(rng, log=False):
    if rng.random() < 0.08:
        return gen_oddkey_case(rng)
    if log and rng.random() < 0.8:
        return gen_logcase(rng)
    # a document whose keys contain both dashed and underscored spellings
    if log:
        base = gen_doc(rng, budget=rng.choice([6, 10, 16]), depth=4, scalars=LOG_SCALARS,
                       keys=['a', 'b', 'k', 'x-y', 'x_y', "q'", 'zz', 'c'])
    else:
        base = gen_doc(rng, budget=rng.choice([6, 10, 16]), depth=4,
                       keys=['a', 'b', 'k', 'x-y', 'x_y', 'a-b-c', 'a_b_c', 'zz', 'c', 'wildcard', 'generic_wildcard', 'parent', 'rec', 'a.b', 'a[0]', 'k_', 'class_', 'class', 'k-', '_k', 'a__b', 'a--b'])
    doc_keys = ['a', 'b', 'k', 'x-y', 'x_y', 'a-b-c', 'zz']
    ops = [('new', rng.random() < 0.5)]
    n = 1
    if rng.random() < 0.4:
        ops.append(('new', rng.random() < 0.5))
        n += 1
    for _ in range(rng.choice([3, 6, 10, 14])):
        r = rng.random()
        if r < 0.65:
            ops.append(('ext', rng.randrange(n), gen_bstep(rng, doc_keys)))
            n += 1
        elif log:
            ops.append(('log', rng.randrange(n)))
        else:
            ops.append(('find', rng.randrange(n)))
    if log:
        ops.append(('log', n - 1))
    return {'doc': base, 'ops': ops}
