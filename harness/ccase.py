"""Cyclic-structure case family (C20)."""
from terms import g_json, g_nat, g_list, g_str, g_path
from qcase import g_bool


def g_node(n):
    if n[0] == 'dict':
        return "HDict %s" % g_list(["(%s, %s)" % (g_str(k), g_nat(i)) for k, i in n[1]])
    if n[0] == 'list':
        return "HList %s" % g_list([g_nat(i) for i in n[1]])
    return "HScalar %s" % g_json(n[1], {})


def g_ccase(case):
    from terms import g_step
    steps = g_list([g_step(s, {}) for s in case['path']])
    return "{| c_heap := %s; c_root := %s; c_path := %s; c_vals := %s; c_nexts := %s |}" % (
        g_list([g_node(n) for n in case['heap']]), g_nat(case['root']), steps, g_bool(case['vals']), g_nat(case['nexts']))


def gen_ccase(rng):
    n = rng.choice([2, 2, 3, 4, 6])
    keys = ['a', 'x', 'k']
    heap = []
    for i in range(n):
        r = rng.random()
        if r < 0.55:
            ks = rng.sample(keys, rng.randint(1, 3))
            heap.append(['dict', [[k, rng.randrange(n)] for k in ks]])
        elif r < 0.8:
            heap.append(['list', [rng.randrange(n) for _ in range(rng.randint(1, 3))]])
        else:
            heap.append(['scalar', rng.choice([0, 1, 'a', None])])
    # make sure the root is a container on a cycle
    if heap[0][0] == 'scalar':
        heap[0] = ['dict', [['x', 1 % n]]]
    if heap[1 % n][0] == 'scalar' or n == 1:
        heap[1 % n] = ['dict', [['x', 0]]]
    if heap[0][0] == 'dict':
        heap[0][1] = [kv for kv in heap[0][1] if kv[0] != 'x'] + [['x', 1 % n]]
    else:
        heap[0][1].append(1 % n)
    if heap[1 % n][0] == 'dict':
        heap[1 % n][1] = [kv for kv in heap[1 % n][1] if kv[0] != 'x'] + [['x', 0]]
    else:
        heap[1 % n][1].append(0)
    path = rng.choice([
        [('rec', False), ('key', 'zzz', 'item')],
        [('rec', False), ('key', 'a', 'item')],
        [('rec', False), ('key', 'k', 'item'), ('key', 'nope', 'item')],
        [('rec', False), ('idx', 7)],
        [('key', 'x', 'item'), ('rec', False), ('key', 'zzz', 'item')],
        [('rec', False), ('wc', False), ('key', 'zzz', 'item')],
        [('gwc', True, False), ('rec', False), ('idx', 9)],
    ])
    return {'heap': heap, 'root': 0, 'path': path, 'vals': rng.random() < 0.5, 'nexts': rng.choice([1, 2, 3])}
