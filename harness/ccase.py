"""Cyclic-structure case family (C20)."""
from terms import g_json, g_nat, g_list, g_str, g_path
from qcase import g_bool


def g_node(n):
    if n[0] == 'dict':
        return "HDict %s" % g_list(["(%s, %s)" % (g_str(k), g_nat(i)) for k, i in n[1]])
    if n[0] == 'list':
        return "HList %s" % g_list([g_nat(i) for i in n[1]])
    return "HScalar %s" % g_json(n[1], {})


def g_ccase(case):
    from terms import g_step
    steps = g_list([g_step(s, {}) for s in case['path']])
    return "{| c_heap := %s; c_root := %s; c_path := %s; c_vals := %s; c_nexts := %s |}" % (
        g_list([g_node(n) for n in case['heap']]), g_nat(case['root']), steps, g_bool(case['vals']), g_nat(case['nexts']))


def gen_ccase(rng):
    n = rng.choice([2, 2, 3, 4, 6])
    keys = ['a', 'x', 'k']
    heap = []
    for i in range(n):
        r = rng.random()
        if r < 0.55:
            ks = rng.sample(keys, rng.randint(1, 3))
            heap.append(['dict', [[k, rng.randrange(n)] for k in ks]])
        elif r < 0.8:
            heap.append(['list', [rng.randrange(n) for _ in range(rng.randint(1, 3))]])
        else:
            heap.append(['scalar', rng.choice([0, 1, 'a', None])])
    # make sure the root is a container on a cycle
    if heap[0][0] == 'scalar':
        heap[0] = ['dict', [['x', 1 % n]]]
    if heap[1 % n][0] == 'scalar' or n == 1:
        heap[1 % n] = ['dict', [['x', 0]]]
    if heap[0][0] == 'dict':
        heap[0][1] = [kv for kv in heap[0][1] if kv[0] != 'x'] + [['x', 1 % n]]
    else:
        heap[0][1].append(1 % n)
    if heap[1 % n][0] == 'dict':
        heap[1 % n][1] = [kv for kv in heap[1 % n][1] if kv[0] != 'x'] + [['x', 0]]
    else:
        heap[1 % n][1].append(0)
    path = rng.choice([
        [('rec', False), ('key', 'zzz', 'item')],
        [('rec', False), ('key', 'a', 'item')],
        [('rec', False), ('key', 'k', 'item'), ('key', 'nope', 'item')],
        [('rec', False), ('idx', 7)],
        [('key', 'x', 'item'), ('rec', False), ('key', 'zzz', 'item')],
        [('rec', False), ('wc', False), ('key', 'zzz', 'item')],
        [('gwc', True, False), ('rec', False), ('idx', 9)],
    ])
    return {'heap': heap, 'root': 0, 'path': path, 'vals': rng.random() < 0.5, 'nexts': rng.choice([1, 2, 3])}


def gen_dagcase(rng):
    """A finite heap without cycles in which one container object is reachable along several routes (a document
    that shares sub-objects: it still serialises to a finite JSON tree).  Every occurrence is a node of its own:
    the recursive step reports each of them (C02-m10: the recursive step refusing a container it has entered
    before).  nexts is the size of the unfolding plus two, so the run is observed to its end."""
    n = rng.choice([3, 4, 5, 6])
    keys = ['a', 'x', 'k']
    heap = []
    for i in range(n):
        later = list(range(i + 1, n))
        r = rng.random()
        if not later or (i > 0 and r < 0.25):
            heap.append(['scalar', rng.choice([0, 1, 'a', None])])
        elif r < 0.65:
            ks = rng.sample(keys, rng.randint(1, 3))
            heap.append(['dict', [[k, rng.choice(later)] for k in ks]])
        else:
            heap.append(['list', [rng.choice(later) for _ in range(rng.randint(1, 3))]])
    # one container referenced twice from the root's side
    conts = [i for i in range(1, n) if heap[i][0] != 'scalar']
    if conts:
        t = rng.choice(conts)
        holders = [i for i in range(t) if heap[i][0] != 'scalar']
        for h in rng.sample(holders, min(len(holders), 2)) + [0]:
            if heap[h][0] == 'dict':
                free = [k for k in keys + ['b'] if k not in [kv[0] for kv in heap[h][1]]]
                if free:
                    heap[h][1].append([rng.choice(free), t])
            else:
                heap[h][1].append(t)

    def size(i):
        nd = heap[i]
        if nd[0] == 'dict':
            return 1 + sum(size(j) for _, j in nd[1])
        if nd[0] == 'list':
            return 1 + sum(size(j) for j in nd[1])
        return 1
    path = rng.choice([
        [('rec', False)],
        [('rec', False), ('key', 'a', 'item')],
        [('rec', False), ('key', 'x', 'item')],
        [('rec', False), ('idx', 0)],
        [('rec', False), ('wc', False)],
        [('gwc', True, False), ('rec', False)],
        [('rec', False), ('gwc', True, False), ('key', 'k', 'item')],
    ])
    return {'heap': heap, 'root': 0, 'path': path, 'vals': rng.random() < 0.3, 'nexts': min(400, size(0) * 2 + 2)}
