"""bin/check <property> [--tier quick|thorough] [--replay file]   (DESIGN.md sections 4, 5, 10)

For one property: build the Coq development, re-check the property's theorem file and its axioms, validate
the Python primitives of the model against CPython, run the correspondence between the model (evaluated in
Coq) and the implementation in /repo's working tree on generated cases, apply the property's direct
oracles to the implementation's observations, replay the known findings, write evidence."""
import argparse
import hashlib
import json
import os
import random
import re
import subprocess
import sys
import tempfile
import shutil
import time

HERE = os.path.dirname(os.path.abspath(__file__))
ROOT = os.path.dirname(HERE)
sys.path.insert(0, HERE)
COQ = os.path.join(ROOT, "coq")
REPO_SRC = os.environ.get("VERIF_REPO_SRC", "/repo/src")
PY = "/venv/bin/python"
SCRATCH = os.environ.get("VERIF_SCRATCH", "/var/tmp")

import coqrun  # noqa: E402
import terms  # noqa: E402
from terms import otree_diff, otree_to_json  # noqa: E402

FORBIDDEN = re.compile(r"\b(Admitted|admit|Axiom|Axioms|Parameter|Parameters|Conjecture|Conjectures|Admit Obligations|"
                       r"Unset Guard Checking|Unset Positivity Checking|Unset Universe Checking|bypass_check|"
                       r"type-in-type|impredicative-set)\b")


def sh(cmd, timeout, cwd=None, env=None):
    try:
        p = subprocess.run(cmd, shell=isinstance(cmd, str), cwd=cwd, env=env, capture_output=True, text=True,
                           timeout=timeout)
        return p.returncode, p.stdout, p.stderr
    except subprocess.TimeoutExpired as e:
        return 124, (e.stdout or b"").decode() if isinstance(e.stdout, bytes) else (e.stdout or ""), "timeout"


# ----------------------------------------------------------------------------- Coq side
def coq_build():
    """full .vo build of the development (no-op when up to date)"""
    if not os.path.exists(os.path.join(COQ, "Makefile")):
        rc, out, err = sh("coq_makefile -f _CoqProject -o Makefile", 120, cwd=COQ)
        if rc != 0:
            return False, "coq_makefile failed: " + err[-800:]
    rc, out, err = sh("timeout 3000 make -j16", 3100, cwd=COQ)
    if rc != 0:
        return False, (err or out)[-3000:]
    return True, ""


def scan_forbidden():
    hits = []
    for dp, _, fs in os.walk(COQ):
        for f in fs:
            if f.endswith(".v"):
                path = os.path.join(dp, f)
                txt = open(path).read()
                txt = re.sub(r"\(\*.*?\*\)", "", txt, flags=re.S)
                for m in FORBIDDEN.finditer(txt):
                    hits.append("%s: %s" % (os.path.relpath(path, ROOT), m.group(0)))
    return hits


def check_theorems(prop):
    """compile Properties/<prop>.v on its own and read the Print Assumptions output.
    Returns dict(theorems=[...], closed=[...], axioms={thm: [...]}, error=None|str)"""
    f = os.path.join(COQ, "Properties", prop + ".v")
    res = {"file": os.path.relpath(f, ROOT), "theorems": [], "partial": [], "closed": [], "axioms": {}, "error": None}
    if not os.path.exists(f):
        res["error"] = "no theorem file"
        return res
    src = open(f).read()
    src_nc = re.sub(r"\(\*.*?\*\)", "", src, flags=re.S)
    res["theorems"] = re.findall(r"^\s*(?:Theorem|Corollary)\s+(\w+)", src_nc, flags=re.M)
    res["partial"] = [t for t in res["theorems"] if t.endswith("_partial")]
    declared = re.findall(r"UNDISCHARGED:\s*(\w+)", src)
    res["undischarged_declared"] = declared
    rc, out, err = sh(["coqc", "-Q", COQ, "TP", f], 900)
    if rc != 0:
        res["error"] = "coqc failed: " + (err or out)[-2000:]
        return res
    # output is a sequence of Print Assumptions results, in the order of the commands in the file
    asked = re.findall(r"Print Assumptions\s+(\w+)", src_nc)
    chunks = re.split(r"(?=Closed under the global context|Axioms:)", out)
    chunks = [c for c in chunks if c.strip().startswith(("Closed", "Axioms"))]
    for name, c in zip(asked, chunks):
        if c.strip().startswith("Closed"):
            res["closed"].append(name)
        else:
            res["axioms"][name] = [l.strip() for l in c.splitlines()[1:] if l.strip()][:20]
    if len(chunks) != len(asked):
        res["error"] = "Print Assumptions output not understood (%d results for %d commands)" % (len(chunks), len(asked))
    return res


# ----------------------------------------------------------------------------- implementation side
def run_impl(cases, timeout=300, per_case=45):
    """cases: [{'family':..., 'case':...}] -> observations.  The runner reports its progress; a case that makes no
    progress for per_case seconds is a hang: it is recorded as such and the run continues after it."""
    d = tempfile.mkdtemp(prefix="tpimpl_", dir=SCRATCH)
    try:
        out = []
        start = 0
        while start < len(cases):
            got, hung = _run_impl(cases[start:], d, per_case)
            out.extend(got)
            start += len(got)
            if hung is not None and start < len(cases):
                out.append({"error": hung})
                start += 1
        return out[:len(cases)]
    finally:
        shutil.rmtree(d, ignore_errors=True)


def _run_impl(cases, d, per_case):
    src = os.path.join(d, "cases_%d.json" % random.randrange(10 ** 9))
    dst = src + ".out"
    json.dump(cases, open(src, "w"))
    env = dict(os.environ)
    env["PYTHONPATH"] = REPO_SRC
    env["PYTHONHASHSEED"] = "0"
    env["PYTHONDONTWRITEBYTECODE"] = "1"
    proc = subprocess.Popen([PY, os.path.join(HERE, "impl_runner.py"), src, dst], env=env,
                            stdout=subprocess.PIPE, stderr=subprocess.PIPE, text=True)
    last, last_t = None, time.time()
    hung = None
    while True:
        try:
            proc.wait(timeout=1.0)
            break
        except subprocess.TimeoutExpired:
            pass
        try:
            cur = open(dst + ".progress").read()
        except OSError:
            cur = None
        if cur != last:
            last, last_t = cur, time.time()
        elif time.time() - last_t > per_case:
            proc.kill()
            proc.wait()
            hung = "hang (no answer within %ss)" % per_case
            break
    got = []
    if os.path.exists(dst):
        for line in open(dst):
            line = line.strip()
            if line:
                try:
                    got.append(fix(json.loads(line)))
                except ValueError:
                    break
    if hung is None and proc.returncode != 0 and len(got) < len(cases):
        err = proc.stderr.read()[-600:] if proc.stderr else ""
        hung = "crash: " + err
    return got, hung


def fix(o):
    """JSON round trip turns tuples into lists; observations are ('N', tag, kids) / ('Z', n) / ('S', s)"""
    if isinstance(o, dict):
        return o
    if o[0] == 'N':
        return ('N', o[1], [fix(x) for x in o[2]])
    return (o[0], o[1])


# ----------------------------------------------------------------------------- the check
class Result:
    def __init__(self, prop, tier, seed):
        self.prop, self.tier, self.seed = prop, tier, seed
        self.violations = []      # (summary, replay dict)
        self.known = []
        self.notes = []
        self.t0 = time.time()


def write_replay(res, kind, payload):
    os.makedirs(os.path.join(ROOT, "replays"), exist_ok=True)
    blob = json.dumps(payload, sort_keys=True, default=str)
    h = hashlib.sha1(blob.encode()).hexdigest()[:10]
    path = os.path.join(ROOT, "replays", "%s-%s-%s.json" % (res.prop, kind, h))
    with open(path, "w") as fh:
        json.dump(payload, fh, indent=1, default=str)
    return path


def main(argv=None):
    ap = argparse.ArgumentParser()
    ap.add_argument("prop")
    ap.add_argument("--tier", default=os.environ.get("VERIF_TIER", "quick"))
    ap.add_argument("--replay")
    ap.add_argument("--no-build", action="store_true")
    a = ap.parse_args(argv)
    seed = int(os.environ.get("VERIF_SEED", "20260930"))
    import props
    spec = props.REGISTRY[a.prop]
    if a.replay:
        return props.replay(a.prop, a.replay)
    res = Result(a.prop, a.tier, seed)
    rng = random.Random("%s/%s/%d" % (a.prop, a.tier, seed))

    # 1. Coq development
    build_ok, build_err = (True, "") if a.no_build else coq_build()
    forbidden = scan_forbidden()
    thm = check_theorems(a.prop) if build_ok else {"error": "build failed", "theorems": [], "closed": [], "axioms": {},
                                                    "partial": [], "file": "coq/Properties/%s.v" % a.prop}
    obligations = list(spec.get("obligations", []))
    discharged = [t for t in obligations if t in thm["closed"]]
    proof_broken = []
    if not build_ok:
        proof_broken.append("Coq build failed: " + build_err[-1200:])
    if forbidden:
        proof_broken.append("forbidden vernacular: " + "; ".join(forbidden[:10]))
    if thm["error"] and obligations:
        proof_broken.append("theorem file: " + str(thm["error"]))
    for t, ax in thm["axioms"].items():
        proof_broken.append("theorem %s depends on axioms: %s" % (t, ax))
    missing = [t for t in obligations if t not in thm["closed"] and t not in thm["axioms"]]
    if missing and not thm["error"]:
        proof_broken.append("obligations without a checked theorem: %s" % missing)

    # 2. Python primitives of the model against CPython
    import pyprim_check
    pp = pyprim_check.run(build_ok)
    if pp["mismatches"]:
        res.notes.append("pyprim mismatches: %s" % pp["mismatches"][:5])

    # 3. correspondence + direct oracles
    cov = props.run_property(a.prop, spec, a.tier, rng, res, build_ok)

    # 3b. recorded findings of this property: replay the witness
    try:
        kf = json.load(open(os.path.join(ROOT, "known_findings.json")))
    except Exception as e:  # noqa
        kf = {"findings": []}
        res.notes.append("known_findings.json unreadable: %s" % e)
    for f in kf.get("findings", []):
        if f.get("property") != a.prop:
            continue
        ob = run_impl([f["witness"]], per_case=15 if f["fails_as"] == "hang" else 120)[0]
        got = "hang" if isinstance(ob, dict) and "hang" in ob.get("error", "") else (
            ob[2][0][1] if not isinstance(ob, dict) else "error: " + ob.get("error", "")[:200])
        if got == f["fails_as"]:
            res.known.append("%s: %s" % (f["id"], f["what"][:300]))
        else:
            res.notes.append("recorded finding %s no longer fails the recorded way (now: %s)" % (f["id"], got))

    # 4. protocol for a broken proof side
    if proof_broken and not res.violations:
        path = write_replay(res, "proof", {"property": a.prop, "no_failing_input_found": True,
                                           "broken": proof_broken,
                                           "searched": "correspondence and direct oracles of this check (%d cases)" % cov.get("evaluations", 0)})
        res.violations.append(("proof obligations of %s no longer check" % a.prop, path, True))
    if pp["mismatches"] and not res.violations:
        path = write_replay(res, "pyprim", {"property": a.prop, "no_failing_input_found": True, "pyprim": pp["mismatches"][:20]})
        res.violations.append(("the model's Python primitives disagree with CPython", path, True))

    # 5. evidence
    wall = time.time() - res.t0
    level = spec["level"]
    coverage = dict(cov)
    coverage.update({
        "obligations": max(1, len(obligations)),
        "discharged": len(discharged),
        "checker_cmd": "cd /verif/coq && make && coqc -Q . TP Properties/%s.v   (Print Assumptions under every theorem)" % a.prop,
        "trusted_base": props.TRUSTED_BASE + spec.get("trusted_extra", []),
        "theorems": obligations,
        "theorems_checked_closed": discharged,
        "print_assumptions": {"closed": thm["closed"], "with_axioms": thm["axioms"]},
        "undischarged": [t for t in obligations if t not in discharged] + spec.get("undischarged_note", []),
        "pyprim_validation": {"checked": pp["checked"], "mismatches": len(pp["mismatches"])},
        "proof_side_problems": proof_broken,
        "known_findings_replayed": res.known,
    })
    ev = {
        "property_id": a.prop, "tier": a.tier, "seed": seed, "level": level, "coverage": coverage,
        "assumptions": spec.get("assumptions", []) + props.COMMON_ASSUMPTIONS,
        "wall_s": round(wall, 2), "violations": len(res.violations),
    }
    os.makedirs(os.path.join(ROOT, "evidence"), exist_ok=True)
    if not os.environ.get('VERIF_NO_EVIDENCE'):     # runs against a seeded change must not overwrite the evidence
        with open(os.path.join(ROOT, "evidence", a.prop + ".json"), "w") as fh:
            json.dump(ev, fh, indent=1, default=str)

    for k in res.known:
        print("KNOWN-FINDING: property=%s %s" % (a.prop, k))
    for n in res.notes:
        print("note:", n)
    for v in res.violations:
        line = "VIOLATION property=%s replay=%s" % (a.prop, v[1])
        if len(v) > 2 and v[2]:
            line += " no-failing-input-found"
        print(v[0])
        print(line)
    print("%s %s: %d cases, %d non-trivial, obligations %d/%d, %.1fs, %s" % (
        a.prop, a.tier, cov.get("evaluations", 0), cov.get("distinct_nontrivial", 0), len(discharged),
        len(obligations), wall, "VIOLATIONS" if res.violations else "ok"))
    return 1 if res.violations else 0


def guarded_main():
    """A failure inside the machinery (an observation the printers cannot express, a crashed comparison) must not pass
    for a clean run: it is reported as a violation without a failing input, the traceback being the replay."""
    try:
        return main()
    except SystemExit:
        raise
    except BaseException as e:  # noqa
        if isinstance(e, KeyboardInterrupt):
            raise
        import traceback
        prop = next((x for x in sys.argv[1:] if not x.startswith("-")), "unknown")
        os.makedirs(os.path.join(ROOT, "replays"), exist_ok=True)
        path = os.path.join(ROOT, "replays", "%s_machinery_failure.json" % prop)
        with open(path, "w") as f:
            json.dump({"property": prop, "kind": "the check could not be completed",
                       "names": "the correspondence of %s (harness/check.py) no longer runs to the end" % prop,
                       "traceback": traceback.format_exc()}, f, indent=1)
        print("the check of %s could not be completed: %s: %s" % (prop, type(e).__name__, str(e)[:300]))
        print("VIOLATION property=%s replay=%s no-failing-input-found" % (prop, path))
        return 1


if __name__ == "__main__":
    sys.exit(guarded_main())
