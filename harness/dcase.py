"""Descriptor-history case family (C18): operations through descriptors on the implementation side, the
equivalent plain traversal functions on the model side."""
import copy

import mcase
from qcase import gen_doc, collect_nodes, KEYS
from mcase import gen_value, loc_to_path

RESERVED = ['parent', 'wc', 'wildcard', 'rec', 'gwc']      # builder properties: still plain keys for a default path


def dpath(d):
    return d['path'] if d['path'] is not None else [('key', d['name'], 'item')]


def to_mcase(case):
    ops = []
    for op in case['ops']:
        k = op[0]
        if k == 'read':
            ops.append(('get', dpath(case['decls'][op[1]]), ('notset',)))
        elif k == 'write':
            ops.append(('set', dpath(case['decls'][op[1]]), op[2], False, False))
        elif k == 'del':
            ops.append(('pop', dpath(case['decls'][op[1]]), None))
        elif k == 'class':
            ops.append(('read', 4999))
        elif k == 'tread':
            ops.append(('get', dpath(case['decls'][op[1]]) + dpath(case['inner'][op[2]]), ('notset',)))
        elif k == 'twrite':
            ops.append(('set', dpath(case['decls'][op[1]]) + dpath(case['inner'][op[2]]), op[3], False, False))
        elif k == 'tdel':
            ops.append(('pop', dpath(case['decls'][op[1]]) + dpath(case['inner'][op[2]]), None))
        elif k == 'iread':
            ops.append(('find', dpath(case['decls'][op[1]])))
        elif k == 'iwrite':
            ops.append(('set', [], op[2], False, False))
        elif k in ('pread', 'mread'):
            ops.append(('get', op[1], ('const', None)))
        elif k == 'pwrite':
            ops.append(('set', op[1], op[2], True, False))
        elif k in ('cpread', 'cmread'):
            # a property stacked on an mprop: p1 is a key/index path (at most one match), so reading p2 from that match
            # is reading p1 + p2 from the document; a missing match is None and p2 on None is the default
            ops.append(('get', op[1] + op[2], ('const', None)))
        elif k == 'cpwrite':
            ops.append(('set', op[1] + op[2], op[3], True, False))
        else:
            raise ValueError(k)
    return {'doc': case['doc'], 'ops': ops}


def g_dcase(case):
    return mcase.g_mcase(to_mcase(case))


def gen_dcase(rng):
    keys = ['a', 'b', 'k', 'zz', 'c'] + RESERVED
    doc = {}
    for k in rng.sample(keys, rng.randint(2, 6)):
        doc[k] = gen_doc(rng, budget=rng.choice([1, 3, 5]), depth=3, keys=keys)
    nodes = collect_nodes(doc)
    containers = [loc for loc, v in nodes if isinstance(v, dict) and loc]
    inner = []
    for nm in rng.sample(keys, 3):
        inner.append({'name': nm, 'kind': 'attr', 'path': None if rng.random() < 0.6 else [('key', rng.choice(keys), 'item')],
                      'conv': rng.choice(['id', 'tag'])})
    decls = []
    names = rng.sample(keys, min(len(keys), rng.randint(2, 6)))
    for nm in names:
        r = rng.random()
        if r < 0.5:
            p = None if rng.random() < 0.6 else mcase.gen_target(rng, doc)
            if p is not None and rng.random() < 0.35:
                p = mcase.odd_leaf(rng, p)      # a last step that is not a key or an index: del must raise PopError (C18-m8)
            decls.append({'name': nm, 'kind': 'attr', 'path': p, 'conv': rng.choice(['id', 'tag'])})
        elif r < 0.75 and containers:
            decls.append({'name': nm, 'kind': 'typed', 'path': loc_to_path(rng.choice(containers)), 'conv': 'id'})
        else:
            p = loc_to_path(rng.choice(nodes)[0]) + [rng.choice([('wc', False), ('lwc', False), ('gwc', True, False)])]
            if rng.random() < 0.3:
                p = None        # declared without a path: the attribute's own name as key (defect D4 was found here)
            decls.append({'name': nm, 'kind': 'iter', 'path': p, 'conv': rng.choice(['id', 'tag'])})
    typed_prefixes = [d['path'] for d in decls if d['kind'] == 'typed']

    def protects(p):
        return any(tp[:len(p)] == p for tp in typed_prefixes)
    ops = []
    shadow = copy.deepcopy(doc)

    def resolves_to_dict(p):
        cur = shadow
        try:
            for s in p:
                cur = cur[s[1]]
        except Exception:
            return False
        return isinstance(cur, dict)

    def emit(op):
        ops.append(op)
        plain = to_mcase({'doc': None, 'decls': decls, 'inner': inner, 'ops': [op]})['ops'][0]
        mcase.shadow_step(shadow, plain)

    for _ in range(rng.choice([2, 4, 8, 12])):
        i = rng.randrange(len(decls))
        d = decls[i]
        r = rng.random()
        if d['kind'] == 'attr':
            if r < 0.4:
                emit(('read', i))
            elif r < 0.7:
                if not protects(dpath(d)):
                    emit(('write', i, gen_value(rng)))
            elif r < 0.9:
                if not protects(dpath(d)):
                    emit(('del', i))
            else:
                emit(('class', i))
        elif d['kind'] == 'typed':
            j = rng.randrange(len(inner))
            if r < 0.25:
                emit(('read', i))
            elif not resolves_to_dict(d['path']):
                continue
            elif r < 0.5:
                emit(('tread', i, j))
            elif r < 0.8:
                emit(('twrite', i, j, gen_value(rng)))
            else:
                emit(('tdel', i, j))
        else:
            emit(('iread', i) if r < 0.8 else ('iwrite', i, gen_value(rng)))
        if rng.random() < 0.2:
            p = mcase.gen_target(rng, doc, cascade_bias=True)
            if not protects(p):
                emit(rng.choice([('pread', p), ('mread', p), ('pwrite', p, gen_value(rng))]))
        if rng.random() < 0.12:
            # properties stacked on an mprop, read before and after the slot they hang from is created or replaced
            # (C18-m10: the data source resolved once per instance)
            p1 = mcase.gen_target(rng, doc, cascade_bias=True)
            k2 = rng.choice(keys)
            p2 = [('key', k2, 'item')]
            if p1 and not protects(p1) and all(s[0] in ('key', 'idx') for s in p1):
                emit(rng.choice([('cpread', p1, p2), ('cmread', p1, p2)]))
                emit(('pwrite', p1, {k2: gen_value(rng), 'zz': 1} if rng.random() < 0.8 else gen_value(rng)))
                emit(rng.choice([('cpread', p1, p2), ('cmread', p1, p2)]))
                if resolves_to_dict(p1):
                    emit(('cpwrite', p1, p2, gen_value(rng)))
                    emit(('cpread', p1, p2))
                emit(('pread', p1))
    return {'doc': doc, 'decls': decls, 'inner': inner, 'ops': ops}
