"""Mutation-history case family: Gallina printing and valid-biased generation."""
import copy
import random

from terms import g_json, g_path, g_nat, g_list, label_tree
from qcase import g_default, g_bool, gen_doc, collect_nodes, gen_step, gen_pred, KEYS, SCALARS, CHILD_KINDS, fix_path

HIGH = 1000


def g_optjson(d, table):
    return "None" if d is None else "(Some %s)" % g_json(d[0], table)


def g_mcase(case):
    case = copy.deepcopy(case)
    table, n = label_tree(case['doc'])
    vc = HIGH
    ops = []
    for op in case['ops']:
        k = op[0]
        if k == 'set':
            table, vc = label_tree(op[2], table, vc)
            ops.append("MSet %s %s %s %s" % (g_path(op[1], table), g_json(op[2], table), g_bool(op[3]), g_bool(op[4])))
        elif k == 'getstore':
            d = op[2]
            if d[0] != 'notset':
                table, vc = label_tree(d[-1], table, vc)
            ops.append("MGetStore %s %s" % (g_path(op[1], table), g_default(d, table)))
        elif k == 'pop':
            if op[2] is not None:
                table, vc = label_tree(op[2][0], table, vc)
            ops.append("MPop %s %s" % (g_path(op[1], table), g_optjson(op[2], table)))
        elif k == 'pop_match':
            ops.append("MPopMatch %s %s" % (g_path(op[1], table), g_bool(op[2])))
        elif k == 'hold':
            ops.append("MHold %s %s" % (g_path(op[1], table), g_nat(op[2])))
        elif k == 'assign':
            table, vc = label_tree(op[2], table, vc)
            ops.append("MAssign %s %s" % (g_nat(op[1]), g_json(op[2], table)))
        elif k == 'del':
            ops.append("MDel %s" % g_nat(op[1]))
        elif k == 'mpop':
            if op[2] is not None:
                table, vc = label_tree(op[2][0], table, vc)
            ops.append("MMPop %s %s" % (g_nat(op[1]), g_optjson(op[2], table)))
        elif k == 'read':
            ops.append("MRead %s" % g_nat(op[1]))
        elif k == 'get':
            d = op[2]
            if d[0] != 'notset':
                table, vc = label_tree(d[-1], table, vc)
            ops.append("MGet %s %s" % (g_path(op[1], table), g_default(d, table)))
        elif k == 'find':
            ops.append("MFind %s" % g_path(op[1], table))
        elif k == 'setfrom':
            table, vc = label_tree(op[2], table, vc)
            ops.append("MSetFrom %s %s %s" % (g_path(op[1], table), g_json(op[2], table), g_bool(op[3])))
        elif k == 'popfrom':
            if op[2] is not None:
                table, vc = label_tree(op[2][0], table, vc)
            ops.append("MPopFrom %s %s" % (g_path(op[1], table), g_optjson(op[2], table)))
        elif k == 'getstorefrom':
            d = op[2]
            if d[0] != 'notset':
                table, vc = label_tree(d[-1], table, vc)
            ops.append("MGetStoreFrom %s %s" % (g_path(op[1], table), g_default(d, table)))
        else:
            raise ValueError(k)
    return "{| m_doc0 := %s; m_nl0 := %s; m_ops := %s |}" % (g_json(case['doc'], table), g_nat(n), g_list(ops))


# ----------------------------------------------------------------------------- generation
def gen_value(rng):
    r = rng.random()
    if r < 0.6:
        return rng.choice(SCALARS)
    if r < 0.8:
        return rng.choice([[], {}])
    return gen_doc(rng, budget=4, depth=2)


def loc_to_path(loc):
    return [('key', n, 'item') if isinstance(n, str) else ('idx', n) for n in loc]


def gen_target(rng, doc, cascade_bias=False):
    """a key/index path derived from the document and then perturbed: existing slots, new keys, append
    positions, out-of-range and negative indices, steps of the wrong kind, missing levels"""
    nodes = collect_nodes(doc)
    loc, node = rng.choice(nodes)
    p = loc_to_path(loc)
    r = rng.random()
    if isinstance(node, list):
        n = len(node)
        choices = [n, n, n + 1, -n - 1, -1, 0, n - 1, -n] if n else [0, 0, 1, -1]
        if r < 0.6:
            p = p + [('idx', rng.choice(choices))]
        elif r < 0.7:
            p = p + [('key', rng.choice(KEYS), 'item')]
    elif isinstance(node, dict):
        if r < 0.6:
            p = p + [('key', rng.choice(KEYS + list(node.keys())), 'item')]
        elif r < 0.7:
            p = p + [('idx', rng.choice([0, 1, -1]))]
    else:
        if r < 0.25:
            p = p + [rng.choice([('key', rng.choice(KEYS), 'item'), ('idx', rng.choice([0, -1, 1]))])]
    # negative spelling of an existing index
    if p and rng.random() < 0.15:
        i = rng.randrange(len(p))
        if p[i][0] == 'idx' and p[i][1] >= 0:
            cont = doc
            ok = True
            for s in p[:i]:
                try:
                    cont = cont[s[1]]
                except Exception:
                    ok = False
                    break
            if ok and isinstance(cont, list) and p[i][1] < len(cont):
                p[i] = ('idx', p[i][1] - len(cont))
    # extra missing levels
    extra = rng.choice([0, 0, 0, 1, 2, 3]) if cascade_bias else rng.choice([0, 0, 0, 0, 1])
    for _ in range(extra):
        p = p + [rng.choice([('key', rng.choice(KEYS), 'item'), ('idx', rng.choice([0, 0, 0, 1, -1]))])]
    return p


def fancy_parent(rng, p):
    """replace part of the parent path by multi-valued / filtered steps that still reach the same place"""
    if len(p) < 2:
        return p
    q = list(p)
    i = rng.randrange(len(q) - 1)
    r = rng.random()
    if r < 0.3:
        q[i] = ('wc', False) if q[i][0] == 'key' else ('lwc', False)
    elif r < 0.5:
        q[i] = ('gwc', rng.random() < 0.5, False)
    elif r < 0.7:
        q = q[:i] + [('rec', False)] + q[i:]
    elif r < 0.85:
        q = q[:i + 1] + [('pred', ('user', 'const', rng.choice([1, True, 'x', 0])))] + q[i + 1:]
    else:
        q = q[:i + 1] + [('parent',), q[i]] + q[i + 1:]
    return fix_path(q)


def odd_leaf(rng, p):
    leaf = rng.choice([('wc', False), ('lwc', False), ('gwc', True, False), ('slice', None, None, None),
                       ('tuple', ['a', 0]), ('rec', False), ('parent',), ('pred', ('user', 'const', 1)),
                       ('tuple', [p[-1][1]] if p and p[-1][0] in ('key', 'idx') else ['a'])])   # a comma list of one entry is not a key step (C10-m11)
    return fix_path(p[:-1] + [leaf]) if p and rng.random() < 0.5 else fix_path(p + [leaf])


def gen_mcase(rng, kinds=('set', 'cascade', 'pop', 'match'), nops=None, run_impl=None):
    """run_impl(case) evolves a shadow copy so that later operations are derived from the current state"""
    doc = gen_doc(rng, budget=rng.choice([3, 6, 10, 14]), depth=4)
    if rng.random() < 0.1:
        doc = rng.choice([{}, [], 0, None])
    ops = []
    nops = nops or rng.choice([1, 2, 3, 5, 8, 12])
    shadow = copy.deepcopy(doc)
    nheld = 0
    for _ in range(nops):
        kind = rng.choice(kinds)
        if rng.random() < 0.12:
            # hold a container of the document, then use that Match as the data source of set_ / pop (C09-m5)
            conts = [loc for loc, v in collect_nodes(shadow) if isinstance(v, (dict, list))]
            if conts:
                loc = rng.choice(conts)
                node = shadow
                for n in loc:
                    node = node[n]
                rel = gen_target(rng, node, cascade_bias='cascade' in kinds)
                hold = ('hold', loc_to_path(loc), 0)
                if 'pop' in kinds and kind == 'pop':
                    op2 = ('popfrom', rel, None if rng.random() < 0.6 else (gen_value(rng),))
                    eq = ('pop', loc_to_path(loc) + list(rel), op2[2])
                elif 'cascade' in kinds and rng.random() < 0.3:
                    op2 = ('getstorefrom', rel, rng.choice([('const', gen_value(rng)), ('call', 9, gen_value(rng)), ('notset',)]))
                    eq = ('getstore', loc_to_path(loc) + list(rel), op2[2])
                else:
                    op2 = ('setfrom', rel, gen_value(rng), 'cascade' in kinds)
                    eq = ('set', loc_to_path(loc) + list(rel), op2[2], op2[3], False)
                ops += [hold, op2]
                nheld += 1
                if run_impl is not None:
                    shadow = run_impl(shadow, eq)
                continue
        if 'cascade' in kinds and rng.random() < 0.08:
            # create through a stored path, remove the branch, create again through the same path object
            p = gen_target(rng, shadow, cascade_bias=True)
            if len(p) >= 2 and all(s[0] in ('key', 'idx') for s in p):
                cut = rng.randint(1, len(p) - 1)
                trio = [('set', p, gen_value(rng), True, False), ('pop', p[:cut], (None,)),
                        ('set', p, gen_value(rng), True, False)]
                for op in trio:
                    ops.append(op)
                    if run_impl is not None:
                        shadow = run_impl(shadow, op)
                continue
        if ops and rng.random() < 0.12:
            # the same stored path again (create / pop / create again, assign twice, ...)
            prev = rng.choice([o for o in ops if o[0] in ('set', 'getstore', 'pop', 'pop_match')] or [None])
            if prev is not None:
                p = prev[1]
                r = rng.random()
                if r < 0.5 and 'cascade' in kinds or r < 0.3:
                    op = ('set', p, gen_value(rng), 'cascade' in kinds or rng.random() < 0.5, False)
                elif r < 0.8:
                    op = ('pop', p[:rng.randint(1, len(p))] if p else p, None if rng.random() < 0.6 else (gen_value(rng),))
                else:
                    op = ('set', p, gen_value(rng), False, False)
                ops.append(op)
                if run_impl is not None:
                    shadow = run_impl(shadow, op)
                continue
        if kind == 'set':
            p = gen_target(rng, shadow)
            r = rng.random()
            if r < 0.2:
                p = fancy_parent(rng, p)
            elif r < 0.3:
                p = odd_leaf(rng, p)
            as_match = rng.random() < 0.3
            op = ('set', p, gen_value(rng), False, as_match)
            nheld += 1 if as_match else 0
        elif kind == 'cascade':
            p = gen_target(rng, shadow, cascade_bias=True)
            if rng.random() < 0.1:
                p = odd_leaf(rng, p)
            if rng.random() < 0.25:
                d = rng.choice([('const', gen_value(rng)), ('call', 9, gen_value(rng)), ('notset',)])
                op = ('getstore', p, d)
            else:
                as_match = rng.random() < 0.3
                op = ('set', p, gen_value(rng), True, as_match)
                nheld += 1 if as_match else 0
        elif kind == 'pop':
            p = gen_target(rng, shadow)
            r = rng.random()
            if r < 0.2:
                p = fancy_parent(rng, p)
            elif r < 0.3:
                p = odd_leaf(rng, p)
            if rng.random() < 0.3:
                op = ('pop_match', p, rng.random() < 0.5)
                nheld += 1
            else:
                op = ('pop', p, None if rng.random() < 0.6 else (gen_value(rng),))
        else:  # operations on held matches
            r = rng.random()
            if nheld == 0 or r < 0.35:
                nodes = collect_nodes(shadow)
                loc, _ = rng.choice(nodes)
                p = loc_to_path(loc)
                k = 0
                if rng.random() < 0.3 and p:
                    p = fancy_parent(rng, p)
                    k = rng.choice([0, 0, 1, 2])
                if rng.random() < 0.3:
                    # a match whose last step is a filter or the recursive step: it stands for the same node, behind a
                    # bookkeeping match, and m.data = v / del m.data / m.pop() must still act on the container that holds
                    # the node (C14-m12: the assignment going through real_parent instead of parent)
                    t = ('pred', ('user', 'const', rng.choice([1, True, 'x'])))
                    p = fix_path(list(p) + rng.choice([[t], [t], [('rec', False)], [t, t], [('rec', False), t]]))
                op = ('hold', p, k)
                nheld += 1
            else:
                i = rng.randrange(nheld + 1)
                if r < 0.6:
                    op = ('assign', i, gen_value(rng))
                elif r < 0.75:
                    op = ('del', i)
                    if rng.random() < 0.5:
                        # the entry is gone now: removing it again must raise PopError or give the default
                        ops.append(op)
                        op = ('mpop', i, rng.choice([None, ({},), ([],), (None,), (0,), (gen_value(rng),)]))
                elif r < 0.9:
                    op = ('mpop', i, rng.choice([None, None, ({},), ([],), (None,), (gen_value(rng),)]))
                    if rng.random() < 0.4:
                        ops.append(op)
                        op = ('mpop', i, rng.choice([None, ({},), ([],), (0,), (gen_value(rng),)]))
                else:
                    op = ('read', i)
        ops.append(op)
        if run_impl is not None:
            shadow = run_impl(shadow, op)
        if op[0] == 'hold' and op[2] == 0 and all(s[0] in ('key', 'idx') for s in op[1]) and rng.random() < 0.5:
            # the Match just held as data source of an assignment / removal (set_ / pop accept a Match; C09-m5)
            node = shadow
            try:
                for s in op[1]:
                    node = node[s[1]]
            except (KeyError, IndexError, TypeError):
                node = None
            if isinstance(node, (dict, list)):
                rel = gen_target(rng, node, cascade_bias='cascade' in kinds)
                if rng.random() < 0.15:
                    rel = odd_leaf(rng, rel)
                if rng.random() < 0.7:
                    op2 = ('setfrom', rel, gen_value(rng), 'cascade' in kinds or rng.random() < 0.3)
                    eq = ('set', list(op[1]) + list(rel), op2[2], op2[3], False)
                else:
                    op2 = ('popfrom', rel, None if rng.random() < 0.6 else (gen_value(rng),))
                    eq = ('pop', list(op[1]) + list(rel), op2[2])
                ops.append(op2)
                if run_impl is not None:
                    shadow = run_impl(shadow, eq)
    return {'doc': doc, 'ops': ops}


def shadow_step(shadow, op):
    """evolve the generator's shadow document with plain Python (keys and indices only; other steps: no change)"""
    try:
        if op[0] in ('set', 'getstore'):
            p = op[1]
            if any(s[0] not in ('key', 'idx') for s in p) or not p:
                return shadow
            v = copy.deepcopy(op[2] if op[0] == 'set' else (op[2][-1] if op[2][0] != 'notset' else None))
            cascade = op[3] if op[0] == 'set' else True
            cur = shadow
            for i, s in enumerate(p[:-1]):
                nxt = p[i + 1]
                try:
                    cur = cur[s[1]]
                except (KeyError, IndexError, TypeError):
                    if not cascade:
                        return shadow
                    new = {} if nxt[0] == 'key' else []
                    if isinstance(cur, dict) and s[0] == 'key':
                        cur[s[1]] = new
                    elif isinstance(cur, list) and s[0] == 'idx' and s[1] == len(cur):
                        cur.append(new)
                    else:
                        return shadow
                    cur = new
            s = p[-1]
            if isinstance(cur, dict) and s[0] == 'key':
                cur[s[1]] = v
            elif isinstance(cur, list) and s[0] == 'idx':
                if -len(cur) <= s[1] < len(cur):
                    cur[s[1]] = v
                elif s[1] == len(cur):
                    cur.append(v)
        elif op[0] in ('pop', 'pop_match'):
            p = op[1]
            if any(s[0] not in ('key', 'idx') for s in p) or not p:
                return shadow
            cur = shadow
            for s in p[:-1]:
                cur = cur[s[1]]
            if (isinstance(cur, dict) and p[-1][0] == 'key') or (isinstance(cur, list) and p[-1][0] == 'idx'):
                cur.pop(p[-1][1])
    except Exception:
        pass
    return shadow


