"""Evaluates the model on generated cases inside Coq (vm_compute) and compares with the implementation's
observations there; only the list of mismatching indices is read back (DESIGN.md 4.1)."""
import os
import re
import subprocess
import tempfile
import shutil
from concurrent.futures import ThreadPoolExecutor

from terms import g_otree, g_list, parse_coq_otree

COQ_DIR = os.path.join(os.path.dirname(os.path.dirname(os.path.abspath(__file__))), "coq")
HEADER = """From Coq Require Import List ZArith String Bool PArith.
From TP Require Import Json PyPrim Machine Api Obs Dsl Run%s.
Import ListNotations.
Open Scope string_scope.
Open Scope list_scope.
"""


def _coqc(vfile, timeout):
    try:
        p = subprocess.run(["coqc", "-Q", COQ_DIR, "TP", vfile], capture_output=True, text=True, timeout=timeout)
        return p.returncode, p.stdout, p.stderr
    except subprocess.TimeoutExpired:
        return 124, "", "timeout after %ss" % timeout


def compare(case_terms, observed, run_fn, case_type, extra_imports="", shard=40, jobs=16, timeout=600, workdir=None):
    """case_terms: Gallina terms (strings) of type case_type; observed: otrees from the implementation;
    run_fn: Gallina function case_type -> otree.
    Returns (mismatching indices, {index: model otree or raw text}, errors)."""
    assert len(case_terms) == len(observed)
    own = workdir is None
    if own:
        workdir = tempfile.mkdtemp(prefix="tpcorr_", dir=os.environ.get("VERIF_SCRATCH", "/var/tmp"))
    errors = []
    mism = []
    try:
        shards = [(i, min(i + shard, len(case_terms))) for i in range(0, len(case_terms), shard)]
        files = []
        for k, (a, b) in enumerate(shards):
            f = os.path.join(workdir, "cases_%d.v" % k)
            with open(f, "w") as fh:
                fh.write(HEADER % extra_imports)
                fh.write("Definition cases : list %s := %s.\n" % (case_type, g_list(["\n " + t for t in case_terms[a:b]])))
                fh.write("Definition observed : list otree := %s.\n" % g_list(["\n " + g_otree(o) for o in observed[a:b]]))
                fh.write("Eval vm_compute in mismatches (map %s cases) observed.\n" % run_fn)
            files.append(f)
        with ThreadPoolExecutor(max_workers=jobs) as ex:
            results = list(ex.map(lambda f: _coqc(f, timeout), files))
        for (a, b), f, (rc, out, err) in zip(shards, files, results):
            if rc != 0:
                errors.append("coqc failed on shard %d-%d: %s" % (a, b, (err or out)[-2000:]))
                continue
            m = re.search(r"=\s*\[(.*?)\]\s*(%nat)?\s*:\s*list nat", out, re.S)
            if not m:
                errors.append("unparsable coqc output on shard %d-%d: %s" % (a, b, out[-500:]))
                continue
            body = m.group(1).strip()
            if body:
                mism.extend(a + int(x) for x in re.findall(r"\d+", body))
        details = {}
        for i in mism[:20]:
            f = os.path.join(workdir, "detail_%d.v" % i)
            with open(f, "w") as fh:
                fh.write(HEADER % extra_imports)
                fh.write("Definition c : %s := %s.\n" % (case_type, case_terms[i]))
                fh.write("Eval vm_compute in %s c.\n" % run_fn)
            rc, out, err = _coqc(f, timeout)
            if rc == 0:
                m = re.search(r"=\s*(.*)\s*:\s*otree\s*$", out.strip(), re.S)
                try:
                    details[i] = parse_coq_otree(m.group(1)) if m else out
                except Exception as e:  # noqa
                    details[i] = "unparsed: %s\n%s" % (e, out[:2000])
            else:
                details[i] = "coqc failed: " + (err or out)[-1000:]
        return mism, details, errors
    finally:
        if own:
            shutil.rmtree(workdir, ignore_errors=True)
