"""Subprocess entry point: runs a batch of cases against the package in /repo's working tree.

usage: impl_runner.py <cases.json> <out.json>      (PYTHONPATH must put /repo/src first)
cases.json: [{"family": "q"|"m"|..., "case": {...}}, ...]; out.json: [otree or {"error": "..."}]"""
import json
import os
import sys
import traceback

sys.path.insert(0, os.path.dirname(os.path.abspath(__file__)))


def main():
    src, dst = sys.argv[1], sys.argv[2]
    sys.setrecursionlimit(20000)
    import impl
    assert os.path.realpath(impl.treepath.__file__).startswith(os.path.realpath(os.environ.get("VERIF_REPO_SRC", "/repo/src"))), \
        impl.treepath.__file__
    runners = {'q': impl.run_qcase, 'm': impl.run_mcase}
    for name in ('run_bcase', 'run_lcase', 'run_dcase', 'run_ccase', 'run_pcase', 'run_fcase'):
        if hasattr(impl, name):
            runners[name[4]] = getattr(impl, name)
    cases = json.load(open(src))
    progress = dst + ".progress"
    with open(dst, "w") as out:
        for i, c in enumerate(cases):
            with open(progress, "w") as fh:
                fh.write(str(i))
            try:
                o = runners[c['family']](c['case'])
            except BaseException as e:  # noqa
                if isinstance(e, (KeyboardInterrupt, SystemExit)):
                    raise
                o = {"error": "%s: %s\n%s" % (type(e).__name__, e, traceback.format_exc()[-1500:])}
            out.write(json.dumps(o) + "\n")
            out.flush()
    with open(progress, "w") as fh:
        fh.write("done")


if __name__ == "__main__":
    main()
