"""Writes /verif/MANIFEST.json from the registry in props.py (run after changing the registry)."""
import json
import os
import sys

HERE = os.path.dirname(os.path.abspath(__file__))
sys.path.insert(0, HERE)
import props  # noqa: E402

ROOT = os.path.dirname(HERE)
PROPS = [json.loads(l) for l in open(os.path.join(ROOT, "properties.jsonl"))]

LEVEL_NOTE = ("Trusted: Coq 8.16.1 kernel + VM; no axioms (Print Assumptions: closed under the global context); the hand-written "
              "Gallina model (modelled, not verified code) tied to /repo by the correspondence run on every invocation; "
              "PyPrim.v validated against CPython each run; the harness (generators, impl runner, canonicalisers, DSL defined twice). "
              "Assumes JSON tree documents, pure user callables, traversal within the 1 000 000-action budget.")


def main():
    checks = []
    na = []
    for p in PROPS:
        pid = p['id']
        spec = props.REGISTRY.get(pid)
        if spec is None:
            na.append({"property_id": pid, "reason": props.NOT_BUILT.get(pid, "check not built yet (see DESIGN.md)")})
            continue
        obligations = spec.get('obligations', [])
        level = spec['level']
        if level == 'proof':
            text = ("Theorems %s about the Gallina model (coq/Properties/%s.v, no axioms) decide the property for every "
                    "document, path and predicate assignment the statement quantifies over; the model is tied to /repo on every "
                    "run by an observational correspondence (model evaluated in Coq by vm_compute vs the implementation through "
                    "its public API on generated cases: %s). %s%s" % (
                        ", ".join(obligations), pid, spec['rule'][:300], spec.get('level_text', ''),
                        (" Clauses of the property that no theorem covers and that rest on the correspondence and the direct "
                         "oracles only: " + " | ".join(spec['undischarged_note'])) if spec.get('undischarged_note') else ""))
        else:
            text = ("Correspondence between the executable Gallina model and the implementation plus direct oracles on "
                    "generated cases (%s); the theorems for this property are not attached yet, so the claim is exploration "
                    "of the generated space, not proof. %s" % (spec['rule'][:300], spec.get('level_text', '')))
        checks.append({
            "property_id": pid,
            "quick_cmd": "bin/check %s --tier quick" % pid,
            "thorough_cmd": "bin/check %s --tier thorough" % pid,
            "evidence_file": "/verif/evidence/%s.json" % pid,
            "replay_cmd_template": "bin/check %s --replay {path}" % pid,
            "engine": "coq-model+correspondence",
            "level_claimed": {"category": level, "text": text, "design_ref": "DESIGN.md section 6 (%s)" % pid},
            "level_note": LEVEL_NOTE + " " + spec.get('level_note', ''),
            "technique": spec.get('technique', "machine-checked proof in Coq about a hand-written model + checked observational correspondence"),
        })
    m = {
        "version": 1,
        "setup_cmd": "cd /verif/coq && coq_makefile -f _CoqProject -o Makefile && timeout 3000 make -j16",
        "hooks": {"guard": "TREEPATH_VERIF", "enable": "no source hooks: every observation goes through the public API of /repo/src",
                  "baseline_off_cmd": "cd /repo && /venv/bin/python -m pytest -q -p no:cacheprovider",
                  "source_commits": [], "add_only": True},
        "engines": [{"name": "coq-model+correspondence", "path": "/verif/coq, /verif/harness",
                     "serves_properties": [c["property_id"] for c in checks],
                     "kind_free_text": "Coq 8.16 development (model, specification, refinement proofs) + Python harness that "
                                       "runs model (vm_compute) and implementation on the same cases"}],
        "checks": checks,
        "notes": "See DESIGN.md. Three genuine defects of the pinned commit were repaired by fix: commits in /repo "
                 "(known_findings.json lists them as fixed) and three findings are recorded there.",
        "not_applicable": na,
    }
    with open(os.path.join(ROOT, "MANIFEST.json"), "w") as fh:
        json.dump(m, fh, indent=1)
    print("checks:", len(checks), "not claimed:", [x["property_id"] for x in na])


if __name__ == "__main__":
    main()
