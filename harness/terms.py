"""Case terms shared by the generators, the implementation runner and the Gallina printer.

Documents are plain Python JSON values (floats only k/2).  Paths are lists of step tuples:
  ('key', name, style)       style in {'attr', 'item'}           path.name / path['name']
  ('idx', i)                                                     path[i]
  ('slice', a, b, c)         a, b, c int or None                 path[a:b:c]
  ('tuple', [names])         names: str | int                    path['a', 0]
  ('wc', long) ('lwc', long) long: bool (wildcard vs wc)         path.wc / path[wc]
  ('gwc', dot, long)                                             path.gwc / path[gwc]
  ('rec', long)                                                  path.rec / path.recursive
  ('parent',)
  ('pred', predspec)
Predicate specs:
  ('user', kind, *args)      see dsl.py USER
  ('has', path, op, const, [fn...], spelling)   op in {None,'==','!=','<','<=','>','>='}; spelling in
                             {'has', 'tuple', 'bare'} (the latter two only inside has_all/has_any)
  ('all', [preds]) ('any', [preds]) ('not', pred) ('getmatch', path, must)
Conversion functions: ('neg',) ('len',) ('not',) ('truth',) ('int',) ('dbl',) ('boom', n) ('is_none',)
"""
import json

# ----------------------------------------------------------------------------- labels
def label_tree(doc, table=None, start=1):
    """pre-order labels of all containers: id(obj) -> n.  Returns (table, next free label)."""
    if table is None:
        table = {}
    n = start

    def go(v):
        nonlocal n
        if isinstance(v, (list, dict)):
            if id(v) in table:
                raise ValueError("document is not a tree")
            table[id(v)] = n
            table.setdefault('__alive__', []).append(v)   # a labelled object is never freed: id() is never reused
            n += 1
            for x in (v.values() if isinstance(v, dict) else v):
                go(x)
    go(doc)
    return table, n


# ----------------------------------------------------------------------------- Gallina printing
def g_str(s):
    assert all(32 <= ord(c) < 127 for c in s), s
    return '"' + s.replace('"', '""') + '"'


def g_Z(z):
    return "(%d)%%Z" % z


def g_nat(n):
    assert 0 <= n < 5000
    return "%d%%nat" % n


def g_optZ(z):
    return "None" if z is None else "(Some %s)" % g_Z(z)


def g_list(xs):
    return "[" + "; ".join(xs) + "]"


def g_json(v, table):
    """a JSON value as a Gallina term of type json; containers carry their labels (0 when unknown)."""
    if v is None:
        return "JNull"
    if v is True:
        return "(JBool true)"
    if v is False:
        return "(JBool false)"
    if isinstance(v, int):
        return "(JInt %s)" % g_Z(v)
    if isinstance(v, float):
        h = v * 2
        assert h == int(h), v
        return "(JFloat %s)" % g_Z(int(h))
    if isinstance(v, str):
        return "(JStr %s)" % g_str(v)
    lab = table.get(id(v), 0)
    if isinstance(v, list):
        return "(JList %s %s)" % (g_nat(lab), g_list([g_json(x, table) for x in v]))
    if isinstance(v, dict):
        return "(JDict %s %s)" % (g_nat(lab), g_list(["(%s, %s)" % (g_str(k), g_json(x, table)) for k, x in v.items()]))
    raise TypeError(v)


def g_name(n):
    return "(NStr %s)" % g_str(n) if isinstance(n, str) else "(NInt %s)" % g_Z(n)


OPS = {'==': 'OEq', '!=': 'ONe', '<': 'OLt', '<=': 'OLe', '>': 'OGt', '>=': 'OGe'}
FN_TAG = {'neg': 1, 'len': 2, 'not': 3, 'truth': 4, 'int': 5, 'dbl': 6, 'boom': 7, 'is_none': 8}
USER_TAG = {'const': 1, 'raise': 2, 'data': 3, 'data_eq': 4, 'name_eq': 5, 'depth': 6, 'parent_name': 7,
            'eq_or_raise': 8, 'raise_truth': 9}


def g_fn(f):
    k = f[0]
    body = {'neg': 'f_neg', 'len': 'f_len', 'not': 'f_not', 'truth': 'f_truth', 'int': 'f_int', 'dbl': 'f_dbl',
            'is_none': 'f_is_none'}.get(k)
    if k == 'boom':
        body = "(f_boom %s)" % g_nat(f[1])
    return "(%s, %s)" % (g_nat(FN_TAG[k]), body)


def g_pred(p, table):
    k = p[0]
    if k == 'user':
        kind = p[1]
        tag = g_nat(USER_TAG[kind])
        if kind == 'const':
            f = "(u_const %s)" % g_json(p[2], table)
        elif kind in ('raise', 'raise_truth'):
            f = "(u_raise %s)" % g_nat(p[2])
        elif kind == 'data':
            f = "u_data"
        elif kind == 'data_eq':
            f = "(u_data_eq %s)" % g_json(p[2], table)
        elif kind == 'name_eq':
            f = "(u_name_eq %s)" % g_name(p[2])
        elif kind == 'depth':
            f = "u_depth"
        elif kind == 'parent_name':
            f = "u_parent_name"
        elif kind == 'eq_or_raise':
            f = "(u_eq_or_raise %s %s)" % (g_json(p[2], table), g_nat(p[3]))
        else:
            raise ValueError(kind)
        return "(HUser %s %s)" % (tag, f)
    if k == 'has':
        _, path, op, const, fns, _spelling = p
        gop = "None" if op is None else "(Some (%s, %s))" % (OPS[op], g_json(const, table))
        return "(HHas %s %s %s)" % (g_path(path, table), gop, g_list([g_fn(f) for f in fns]))
    if k == 'all':
        return "(HAll %s)" % g_list([g_pred(x, table) for x in p[1]])
    if k == 'any':
        return "(HAny %s)" % g_list([g_pred(x, table) for x in p[1]])
    if k == 'not':
        return "(HNot %s)" % g_pred(p[1], table)
    if k == 'getmatch':
        return "(HGetMatch %s %s)" % (g_path(p[1], table), "true" if p[2] else "false")
    raise ValueError(k)


def g_step(s, table):
    k = s[0]
    if k == 'key':
        return "(VKey %s)" % g_str(s[1])
    if k == 'idx':
        return "(VIdx %s)" % g_Z(s[1])
    if k == 'slice':
        return "(VSlice %s %s %s)" % (g_optZ(s[1]), g_optZ(s[2]), g_optZ(s[3]))
    if k == 'tuple':
        return "(VTuple %s)" % g_list([g_name(n) for n in s[1]])
    if k == 'wc':
        return "VKeyWild"
    if k == 'lwc':
        return "VIdxWild"
    if k == 'gwc':
        return "(VGenWild %s)" % ("true" if s[1] else "false")
    if k == 'rec':
        return "VRec"
    if k == 'parent':
        return "VParent"
    if k == 'pred':
        return "(VPred %s)" % g_pred(s[1], table)
    raise ValueError(k)


def g_path(path, table):
    return "(%s : jpath)" % g_list([g_step(s, table) for s in path])


def g_otree(t):
    k = t[0]
    if k == 'Z':
        return "OZ %s" % g_Z(t[1])
    if k == 'S':
        return "OS %s" % g_str(t[1])
    return "ON %s %s" % (g_str(t[1]), g_list([g_otree(x) for x in t[2]]))


# ----------------------------------------------------------------------------- otree helpers (Python side)
def ON(tag, kids=()):
    return ('N', tag, list(kids))


def OZ(z):
    return ('Z', int(z))


def OS(s):
    return ('S', s)


def obool(b):
    return OZ(1 if b else 0)


def oopt(f, v):
    return ON("none") if v is None else ON("some", [f(v)])


def otree_to_json(t):
    k = t[0]
    if k == 'Z':
        return t[1]
    if k == 'S':
        return "s:" + t[1]
    return {t[1]: [otree_to_json(x) for x in t[2]]}


def otree_diff(a, b, path="obs"):
    """first difference between two otrees as a short string, or None"""
    if a[0] != b[0]:
        return "%s: %r vs %r" % (path, otree_to_json(a), otree_to_json(b))
    if a[0] in 'ZS':
        return None if a[1] == b[1] else "%s: %r vs %r" % (path, a[1], b[1])
    if a[1] != b[1]:
        return "%s: tag %s vs %s" % (path, a[1], b[1])
    for i, (x, y) in enumerate(zip(a[2], b[2])):
        d = otree_diff(x, y, "%s/%s[%d]" % (path, a[1], i))
        if d:
            return d
    if len(a[2]) != len(b[2]):
        return "%s/%s: %d vs %d children; extra: %s" % (
            path, a[1], len(a[2]), len(b[2]),
            json.dumps([otree_to_json(x) for x in (a[2][len(b[2]):] or b[2][len(a[2]):])])[:400])
    return None


def parse_coq_otree(text):
    """parse an otree as Coq prints it (ON "t" [..; ..], OZ n, OZ (-n), OS "s", with %Z/%string suffixes)."""
    pos = 0
    n = len(text)

    def ws():
        nonlocal pos
        while pos < n and text[pos] in " \t\r\n":
            pos += 1

    def strlit():
        nonlocal pos
        ws()
        assert text[pos] == '"', text[pos:pos + 30]
        pos += 1
        out = []
        while True:
            c = text[pos]
            if c == '"':
                if pos + 1 < n and text[pos + 1] == '"':
                    out.append('"')
                    pos += 2
                    continue
                pos += 1
                break
            out.append(c)
            pos += 1
        if text.startswith("%string", pos):
            pos += 7
        return "".join(out)

    def node():
        nonlocal pos
        ws()
        if text[pos] == '(':
            pos += 1
            r = node()
            ws()
            assert text[pos] == ')'
            pos += 1
            return r
        if text.startswith("ON", pos):
            pos += 2
            tag = strlit()
            ws()
            kids = []
            assert text[pos] == '[', text[pos:pos + 30]
            pos += 1
            ws()
            if text[pos] == ']':
                pos += 1
            else:
                while True:
                    kids.append(node())
                    ws()
                    if text[pos] == ';':
                        pos += 1
                        continue
                    assert text[pos] == ']', text[pos:pos + 30]
                    pos += 1
                    break
            return ('N', tag, kids)
        if text.startswith("OZ", pos):
            pos += 2
            ws()
            par = text[pos] == '('
            if par:
                pos += 1
            ws()
            start = pos
            while pos < n and (text[pos].isdigit() or text[pos] == '-'):
                pos += 1
            z = int(text[start:pos])
            ws()
            if par:
                assert text[pos] == ')'
                pos += 1
            if text.startswith("%Z", pos):
                pos += 2
            return ('Z', z)
        if text.startswith("OS", pos):
            pos += 2
            return ('S', strlit())
        raise ValueError("cannot parse otree at: " + text[pos:pos + 60])

    return node()
