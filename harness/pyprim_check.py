"""Validates PyPrim.v against CPython on an exhaustive small domain (DESIGN.md 4.4).  Testing, not proof:
it keeps the "Python semantics as modelled" item of the trusted base small."""
import os
import operator
import re
import subprocess
import tempfile
import shutil

from terms import g_json, g_Z, g_optZ, g_list, g_str

COQ_DIR = os.path.join(os.path.dirname(os.path.dirname(os.path.abspath(__file__))), "coq")

VALUES = [None, False, True, 0, 1, -1, 2, 7, 0.0, 1.0, 1.5, -0.5, 2.0, '', 'a', 'b', 'ab', 'B', 'a0',
          [], [0], [1], [0, 1], [1, 0], [0, 'a'], ['a'], [[]], [[0]], [None], [1.0], [True, 2],
          {}, {'a': 1}, {'a': 1.0}, {'a': 2}, {'b': 1}, {'a': 1, 'b': 2}, {'b': 2, 'a': 1}, {'a': []}, {'a': [0]}]
A = [None] + list(range(-7, 8))
C = [None, -3, -2, -1, 1, 2, 3]
N = list(range(0, 7))
OPS = [('OEq', operator.eq), ('ONe', operator.ne), ('OLt', operator.lt), ('OLe', operator.le), ('OGt', operator.gt),
       ('OGe', operator.ge)]
KEYS3 = ['a', 'b', 'c']


def expected():
    sl = []
    for a in A:
        for b in A:
            for c in C:
                for n in N:
                    sl.append(list(range(*slice(a, b, c).indices(n))))
    # list primitives: for every n <= 4, i in -6..6: index of get / set / del / pop  (-1 = IndexError)
    li = []
    for n in range(0, 5):
        for i in range(-6, 7):
            l = list(range(n))
            try:
                li.append(l[i])
            except IndexError:
                li.append(-1)
    # dict order: every key sequence of length <= 4 over 3 keys: order after the assignments, then after popping 'b'
    do = []
    seqs = [[]]
    for _ in range(4):
        seqs = seqs + [s + [k] for s in seqs for k in KEYS3 if len(s) == _]
    seqs = [s for s in seqs]
    for s in seqs:
        d = {}
        for j, k in enumerate(s):
            d[k] = j
        before = list(d.items())
        try:
            d.pop('b')
            popped = 1
        except KeyError:
            popped = 0
        do.append((s, before, popped, list(d.items())))
    cm = []
    for x in VALUES:
        for y in VALUES:
            for _, f in OPS:
                try:
                    cm.append(1 if f(x, y) else 0)
                except TypeError:
                    cm.append(2)
    tr = [1 if v else 0 for v in VALUES]
    return sl, li, do, cm, tr


def run(build_ok=True):
    if not build_ok:
        return {"checked": 0, "mismatches": ["not run: Coq build failed"]}
    sl, li, do, cm, tr = expected()
    d = tempfile.mkdtemp(prefix="tppp_", dir=os.environ.get("VERIF_SCRATCH", "/var/tmp"))
    try:
        f = os.path.join(d, "pp.v")
        with open(f, "w") as fh:
            fh.write("From Coq Require Import List ZArith String Bool.\nFrom TP Require Import Json PyPrim.\n"
                     "Import ListNotations.\nOpen Scope string_scope.\nOpen Scope list_scope.\nOpen Scope Z_scope.\n")
            fh.write("Definition A : list (option Z) := %s.\n" % g_list([g_optZ(a) for a in A]))
            fh.write("Definition C : list (option Z) := %s.\n" % g_list([g_optZ(c) for c in C]))
            fh.write("Definition N : list nat := %s.\n" % g_list(["%d%%nat" % n for n in N]))
            fh.write("Definition sl_model : list (list Z) := flat_map (fun a => flat_map (fun b => flat_map (fun c => "
                     "map (fun n => match enumerate_slice a b c (map Z.of_nat (seq 0 n)) with Ok l => map fst l | Exn _ => [(-99)] end) N) C) A) A.\n")
            fh.write("Definition sl_expected : list (list Z) := %s.\n" % g_list([g_list(["(%d)" % i for i in l]) for l in sl]))
            fh.write("Definition zl_eqb (a b : list Z) := (Nat.eqb (List.length a) (List.length b) && forallb (fun p => Z.eqb (fst p) (snd p)) (combine a b))%bool.\n")
            fh.write("Definition count_bad {X} (eqb : X -> X -> bool) (a b : list X) : nat := "
                     "(List.length (filter (fun p => negb (eqb (fst p) (snd p))) (combine a b)) + (List.length a - List.length b) + (List.length b - List.length a))%nat.\n")
            fh.write("Definition li_model : list Z := flat_map (fun n => map (fun i => match list_get (map Z.of_nat (seq 0 n)) i with Ok v => v | Exn _ => (-1) end) "
                     "(map (fun k => Z.of_nat k - 6) (seq 0 13))) (seq 0 5).\n")
            fh.write("Definition li_model2 : list Z := flat_map (fun n => map (fun i => match list_pop (map Z.of_nat (seq 0 n)) i with Ok (v, r) => "
                     "(if Nat.eqb (List.length r) (n - 1) then v else (-7)) | Exn _ => (-1) end) (map (fun k => Z.of_nat k - 6) (seq 0 13))) (seq 0 5).\n")
            fh.write("Definition li_model3 : list Z := flat_map (fun n => map (fun i => match list_set (map Z.of_nat (seq 0 n)) i 77 with Ok r => "
                     "match list_get r i with Ok 77 => (match list_get (map Z.of_nat (seq 0 n)) i with Ok v => v | _ => (-8) end) | _ => (-7) end | Exn _ => (-1) end) (map (fun k => Z.of_nat k - 6) (seq 0 13))) (seq 0 5).\n")
            fh.write("Definition li_expected : list Z := %s.\n" % g_list(["(%d)" % i for i in li]))
            # dicts
            fh.write("Definition keys_of {X} (l : list (string * X)) := map fst l.\n")
            fh.write("Definition sl_eqb (a b : list string) := (Nat.eqb (List.length a) (List.length b) && forallb (fun p => String.eqb (fst p) (snd p)) (combine a b))%bool.\n")
            fh.write("Definition build (s : list string) := fst (fold_left (fun acc k => (dict_set (fst acc) k (snd acc), S (snd acc))) s ([], O)).\n")
            fh.write("Definition do_cases : list (list string) := %s.\n" % g_list([g_list([g_str(k) for k in s]) for s, _, _, _ in do]))
            fh.write("Definition do_before : list (list string) := %s.\n" % g_list([g_list([g_str(k) for k, _ in b]) for _, b, _, _ in do]))
            fh.write("Definition do_after : list (list string) := %s.\n" % g_list([g_list([g_str(k) for k, _ in a]) for _, _, _, a in do]))
            fh.write("Definition do_vals : list (list nat) := %s.\n" % g_list([g_list(["%d%%nat" % v for _, v in b]) for _, b, _, _ in do]))
            fh.write("Definition do_popped : list bool := %s.\n" % g_list(["true" if p else "false" for _, _, p, _ in do]))
            fh.write("Definition nl_eqb (a b : list nat) := (Nat.eqb (List.length a) (List.length b) && forallb (fun p => Nat.eqb (fst p) (snd p)) (combine a b))%bool.\n")
            fh.write("Definition after_pop (s : list string) := match dict_pop (build s) \"b\" with Ok (_, r) => (true, keys_of r) | Exn _ => (false, keys_of (build s)) end.\n")
            # comparisons
            fh.write("Definition V : list json := %s.\n" % g_list([g_json(v, {}) for v in VALUES]))
            fh.write("Definition OPS := [OEq; ONe; OLt; OLe; OGt; OGe].\n")
            fh.write("Definition cm_model : list Z := flat_map (fun x => flat_map (fun y => map (fun o => match py_cmp o x y with Ok true => 1 | Ok false => 0 | Exn _ => 2 end) OPS) V) V.\n")
            fh.write("Definition cm_expected : list Z := %s.\n" % g_list([str(i) for i in cm]))
            fh.write("Definition tr_model : list Z := map (fun v => if truthy v then 1 else 0) V.\n")
            fh.write("Definition tr_expected : list Z := %s.\n" % g_list([str(i) for i in tr]))
            fh.write("Eval vm_compute in [count_bad zl_eqb sl_model sl_expected; count_bad Z.eqb li_model li_expected; "
                     "count_bad Z.eqb li_model2 li_expected; count_bad Z.eqb li_model3 li_expected; "
                     "count_bad sl_eqb (map (fun s => keys_of (build s)) do_cases) do_before; "
                     "count_bad nl_eqb (map (fun s => map snd (build s)) do_cases) do_vals; "
                     "count_bad sl_eqb (map (fun s => snd (after_pop s)) do_cases) do_after; "
                     "count_bad Bool.eqb (map (fun s => fst (after_pop s)) do_cases) do_popped; "
                     "count_bad Z.eqb cm_model cm_expected; count_bad Z.eqb tr_model tr_expected]%nat.\n")
        p = subprocess.run(["coqc", "-Q", COQ_DIR, "TP", f], capture_output=True, text=True, timeout=600)
        if p.returncode != 0:
            return {"checked": 0, "mismatches": ["coqc failed: " + (p.stderr or p.stdout)[-800:]]}
        m = re.search(r"=\s*\[(.*?)\]", p.stdout, re.S)
        counts = [int(x) for x in re.findall(r"\d+", m.group(1))] if m else None
        names = ["slice.indices", "list get", "list pop", "list set", "dict order after set", "dict values after set",
                 "dict order after pop", "dict pop KeyError", "comparisons", "truthiness"]
        if counts is None or len(counts) != len(names):
            return {"checked": 0, "mismatches": ["unparsable output: " + p.stdout[-400:]]}
        checked = len(sl) + 3 * len(li) + 4 * len(do) + len(cm) + len(tr)
        return {"checked": checked, "mismatches": ["%s: %d disagreements" % (n, c) for n, c in zip(names, counts) if c]}
    finally:
        shutil.rmtree(d, ignore_errors=True)


if __name__ == "__main__":
    import time
    t = time.time()
    print(run(), time.time() - t)
