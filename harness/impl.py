"""Runs cases against the real package in /repo (public API only) and builds canonical observations.

Must be imported with PYTHONPATH=/repo/src so that `treepath` is the working tree's package."""
import operator
import os
import sys

import treepath
from treepath import (path, pathd, wc, wildcard, gwc, generic_wildcard, rec, recursive, find, find_matches, get,
                      get_match, has, has_all, has_any, has_not, set_, set_match, pop, pop_match, Match, log_to)

from terms import ON, OZ, OS, obool, oopt, FN_TAG, USER_TAG, label_tree


class Boom(Exception):
    def __init__(self, n):
        super().__init__(n)
        self.n = n


class Ctx:
    """per-case state: identity labels of the document's containers and the merged event log"""

    def __init__(self):
        self.table = {}
        self.next_label = 1
        self.log = []
        self.paths = {}
        self.stored = []      # (Trace object, what it showed when it was delivered): a tracer may keep the events

    def label(self, doc):
        self.table, self.next_label = label_tree(doc, self.table, self.next_label)

    def drain(self):
        evs, self.log = self.log, []
        # a Trace that was delivered keeps showing the attempt it was delivered for (C17-m7: one reused object)
        stored, self.stored = self.stored, []
        for t, shown in stored:
            try:
                now = render_trace(self, t)
            except Exception as e:  # noqa
                now = OS("unreadable:" + type(e).__name__)
            if now != shown:
                evs.append(ON("TRACE-CHANGED-AFTER-DELIVERY", [shown, now]))
        return ON("events", evs)


# ----------------------------------------------------------------------------- observations
def lval(cx, v):
    if v is None:
        return ON("null")
    if v is True or v is False:
        return ON("bool", [obool(v)])
    if isinstance(v, int):
        return ON("int", [OZ(v)])
    if isinstance(v, float):
        h = v * 2
        if h != int(h):
            return ON("float-not-half", [OS(repr(v))])
        return ON("float", [OZ(int(h))])
    if isinstance(v, str):
        return ON("str", [OS(v)])
    if isinstance(v, list):
        return ON("listref", [OZ(cx.table.get(id(v), 0))])
    if isinstance(v, dict):
        return ON("dictref", [OZ(cx.table.get(id(v), 0))])
    return ON("other", [OS(type(v).__name__)])


def snapshot(cx, v):
    if isinstance(v, list):
        return ON("list", [OZ(cx.table.get(id(v), 0))] + [snapshot(cx, x) for x in v])
    if isinstance(v, dict):
        return ON("dict", [OZ(cx.table.get(id(v), 0))] + [ON("kv", [OS(k) if isinstance(k, str) else ON("badkey", [OS(repr(k))]), snapshot(cx, x)])
                                                           for k, x in v.items()])
    return lval(cx, v)


def oname(n):
    if isinstance(n, str):
        return OS(n)
    if isinstance(n, bool) or not isinstance(n, int):
        return ON("badname", [OS(repr(n))])
    return OZ(n)


def mref(cx, m):
    return ON("m", [OS(m.path_as_str), oname(m.data_name), lval(cx, m.data)])


def mdesc(cx, m):
    pml = m.path_match_list
    parents = []
    p = m.parent
    guard = 0
    while p is not None and guard < 10000:
        parents.append(ON("p", [oname(p.data_name), lval(cx, p.data)]))
        p = p.parent
        guard += 1
    return ON("match", [
        OS(m.path_as_str),
        oname(m.data_name),
        lval(cx, m.data),
        ON("pml", [ON("e", [OS(x.path_segment), oname(x.data_name), lval(cx, x.data)]) for x in pml]),
        ON("parents", parents),
    ])


def oexn(e):
    if isinstance(e, Boom):
        return ON("Boom", [OZ(e.n)])
    name = type(e).__name__
    if isinstance(e, treepath.TreepathException):
        # C16: every library exception can be rendered, repeatedly and with the same text
        try:
            a, b, c, d = str(e), repr(e), str(e), repr(e)
            if a != c or b != d:
                return OS("UNSTABLE-MESSAGE:" + name)
        except BaseException as x:  # noqa
            return OS("UNPRINTABLE:%s:%s" % (name, type(x).__name__))
    if name == "TraversingError":
        c = e.__cause__
        return ON("TraversingError", [oexn(c) if c is not None else OS("no-cause")])
    if isinstance(e, StopIteration):
        return OS("StopIteration")
    return OS(name)


# ----------------------------------------------------------------------------- user callables (dsl)
def make_fn(cx, f):
    k = f[0]
    tag = FN_TAG[k]

    def logged(body):
        def fn(v):
            cx.log.append(ON("callf", [OZ(tag), snapshot(cx, v)]))
            return body(v)
        return fn

    def num(v):
        return isinstance(v, (bool, int, float))

    def neg(v):
        if not num(v):
            raise TypeError("neg")
        return -v

    def len_(v):
        if not isinstance(v, (str, list, dict)):
            raise TypeError("len")
        return len(v)

    def int_(v):
        if isinstance(v, str):
            raise ValueError("int")
        if not num(v):
            raise TypeError("int")
        return int(v)

    def dbl(v):
        if not (num(v) or isinstance(v, str)):
            raise TypeError("dbl")
        return v + v

    def boom(v):
        raise Boom(f[1])

    body = {'neg': neg, 'len': len_, 'not': operator.not_, 'truth': operator.truth, 'int': int_, 'dbl': dbl,
            'boom': boom, 'is_none': lambda v: v is None}[k]
    return logged(body)


def make_user(cx, p):
    kind = p[1]
    tag = USER_TAG[kind]

    def body(m):
        if kind == 'const':
            return p[2]
        if kind == 'raise_truth':
            # the answer cannot be tested for truth: the filter fails exactly as if the predicate had raised (C16-m10)
            class BadTruth:
                def __bool__(self):
                    raise Boom(p[2])
            return BadTruth()
        if kind == 'raise':
            if p[2] == 0:
                raise StopIteration()       # a predicate may fail with any exception, this one included (C03-m10)
            raise Boom(p[2])
        if kind == 'data':
            return m.data
        if kind == 'data_eq':
            return m.data == p[2]
        if kind == 'name_eq':
            return type(m.data_name) is type(p[2]) and m.data_name == p[2]
        if kind == 'depth':
            return len(m.path_match_list) - 1
        if kind == 'parent_name':
            return m.parent.data_name if m.parent else None
        if kind == 'eq_or_raise':
            if m.data == p[2]:
                if p[3] == 0:
                    raise StopIteration()
                raise Boom(p[3])
            return True
        raise ValueError(kind)

    def pred(m):
        par = m.parent
        cx.log.append(ON("call", [OZ(tag), mref(cx, m), oopt(lambda x: OS(x.path_as_str), par)]))
        return body(m)
    return pred


CMP = {'==': operator.eq, '!=': operator.ne, '<': operator.lt, '<=': operator.le, '>': operator.gt, '>=': operator.ge}


def has_args(cx, p):
    """(first argument, *functions) of has()/has_not() for a ('has', ...) spec"""
    _, pth, op, const, fns, _sp = p
    e = build_path(cx, pth)
    first = e if op is None else CMP[op](e, const)
    return (first,) + tuple(make_fn(cx, f) for f in fns)


def build_pred(cx, p, inside_these=False):
    k = p[0]
    if k == 'user':
        return make_user(cx, p)
    if k == 'has':
        args = has_args(cx, p)
        sp = p[5]
        if inside_these and sp == 'bare' and len(args) == 1:
            return args[0]
        if inside_these and sp == 'tuple':
            return args
        return has(*args)
    if k == 'all':
        return has_all(*[build_pred(cx, x, True) for x in p[1]])
    if k == 'any':
        return has_any(*[build_pred(cx, x, True) for x in p[1]])
    if k == 'not':
        inner = p[1]
        if inner[0] == 'has':
            return has_not(*has_args(cx, inner))
        return has_not(build_pred(cx, inner))
    if k == 'getmatch':
        e = build_path(cx, p[1])
        must = p[2]
        return lambda m: get_match(e, m, must_match=must)
    raise ValueError(k)


def build_path(cx, steps, root=None):
    """one path object per distinct spec and case: a repeated spec re-uses the stored path object"""
    key = repr(steps)
    hit = cx.paths.get(key) if root is None else None
    if hit is not None:
        return hit
    e = _build_path(cx, steps, root)
    if root is None:
        cx.paths[key] = e
    return e


def _build_path(cx, steps, root=None):
    e = path if root is None else root
    for s in steps:
        k = s[0]
        if k == 'key':
            e = getattr(e, s[1]) if s[2] == 'attr' else e[s[1]]
        elif k == 'idx':
            e = e[s[1]]
        elif k == 'slice':
            e = e[s[1]:s[2]:s[3]]
        elif k == 'tuple':
            e = e[tuple(s[1])]
        elif k == 'wc':
            e = e.wildcard if s[1] else e.wc
        elif k == 'lwc':
            e = e[wildcard] if s[1] else e[wc]
        elif k == 'gwc':
            if s[1]:
                e = e.generic_wildcard if s[2] else e.gwc
            else:
                e = e[generic_wildcard] if s[2] else e[gwc]
        elif k == 'rec':
            e = e.recursive if s[1] else e.rec
        elif k == 'parent':
            e = e.parent
        elif k == 'pred':
            e = e[build_pred(cx, s[1])]
        else:
            raise ValueError(k)
    return e


# ----------------------------------------------------------------------------- read-only scripts
def render_trace(cx, t):
    nv = t.next_vertex
    return ON("trace", [
        mref(cx, t.last_match),
        oopt(lambda x: mref(cx, x), t.next_match),
        OZ(len(nv.path_as_list) - 1),
        oopt(lambda x: mref(cx, x), t.predicate_match),
    ])


def make_trace(cx):
    def tr(t):
        shown = render_trace(cx, t)
        cx.log.append(shown)
        cx.stored.append((t, shown))
    return tr


def run_qcase(case):
    """case = {'doc': json, 'cmds': [...]} -> otree"""
    cx = Ctx()
    doc = case['doc']
    cx.label(doc)
    iters = []
    matches = []
    out = []
    SKIP = ON("skip")

    MISSING = object()

    def src(s):
        if s == 'doc':
            return doc
        i = s[1]
        return matches[i] if i < len(matches) else MISSING

    def guarded(tag, thunk):
        try:
            r = thunk()
        except BaseException as e:  # noqa
            if isinstance(e, (KeyboardInterrupt, SystemExit, MemoryError)):
                raise
            return ON(tag, [ON("raise", [oexn(e)]), cx.drain()])
        return ON(tag, [r, cx.drain()])

    for c in case['cmds']:
        k = c[0]
        if k == 'iter':
            _, s, p, vals, tr = c[:5]
            push = c[5] if len(c) > 5 else True
            d = src(s)
            if d is MISSING:
                out.append(SKIP)
                continue
            e = build_path(cx, p)
            t = make_trace(cx) if tr else None
            it = find(e, d, trace=t) if vals else find_matches(e, d, trace=t)
            iters.append((it, vals, push))
            out.append(ON("iter"))
        elif k == 'reiter':
            if c[1] >= len(iters):
                out.append(SKIP)
                continue
            # what a for loop or list() does first: iter(it) is the iterator itself and changes nothing
            out.append(ON("reiter", [obool(iter(iters[c[1]][0]) is iters[c[1]][0])]))
        elif k == 'next':
            if c[1] >= len(iters):
                out.append(SKIP)
                continue
            it, vals, push = iters[c[1]]

            def th():
                r = next(it)
                if vals:
                    return ON("value", [lval(cx, r)])
                if push:
                    matches.append(r)
                return ON("result", [mref(cx, r)])
            out.append(guarded("next", th))
        elif k == 'drain':
            _, ki, cap, extra = c
            if ki >= len(iters):
                out.append(SKIP)
                continue
            it, vals, push = iters[ki]
            obs = []

            def one():
                more = [False]

                def th():
                    r = next(it)
                    more[0] = True
                    if vals:
                        return ON("value", [lval(cx, r)])
                    if push:
                        matches.append(r)
                    return ON("result", [mref(cx, r)])
                obs.append(guarded("next", th))
                return more[0]
            n = 0
            while n < cap and one():
                n += 1
            for _ in range(extra):
                one()
            out.append(ON("drain", obs))
        elif k == 'get_match':
            _, s, p, must, tr = c
            d = src(s)
            if d is MISSING:
                out.append(SKIP)
                continue

            def th():
                e = build_path(cx, p)
                r = get_match(e, d, must_match=must, trace=make_trace(cx) if tr else None)
                if r is None:
                    return ON("none")
                matches.append(r)
                return ON("result", [mref(cx, r)])
            out.append(guarded("get_match", th))
        elif k == 'get':
            _, s, p, dflt, tr = c
            d = src(s)
            if d is MISSING:
                out.append(SKIP)
                continue

            def th():
                e = build_path(cx, p)
                t = make_trace(cx) if tr else None
                sentinel = object()
                if dflt[0] == 'notset':
                    r = get(e, d, trace=t)
                    return ON("value", [lval(cx, r)])
                if dflt[0] == 'const':
                    # a container default is passed as it is (a fresh copy: identity tells it from every document
                    # node, and an empty dict / list must reach the library unboxed: C05-m3); a scalar default is
                    # boxed, because scalars are interned and could not be told from a document value
                    import copy as _copy
                    box = _copy.deepcopy(dflt[1]) if isinstance(dflt[1], (list, dict)) else [dflt[1]]
                    r = get(e, d, default=box, trace=t)
                    if box is not dflt[1] and not isinstance(dflt[1], (list, dict)):
                        # direct oracle: the same call with the scalar default itself (falsy ones included) must take
                        # the same branch: the default when the boxed call fell back to it, else the same value
                        n0 = len(cx.log)
                        try:
                            r2 = get(e, d, default=dflt[1])
                            bad = not (r2 is dflt[1] or (r2 == dflt[1] and type(r2) is type(dflt[1]))) if r is box else (r2 is not r and not (r2 == r and type(r2) is type(r)))
                        except BaseException as x:  # noqa
                            if isinstance(x, (KeyboardInterrupt, SystemExit, MemoryError)):
                                raise
                            bad = True
                        del cx.log[n0:]
                        if bad:
                            return ON("RAW-DEFAULT-DIFFERS", [lval(cx, dflt[1])])
                    if r is box:
                        return ON("default", [lval(cx, dflt[1])])
                    return ON("value", [lval(cx, r)])
                # callable default
                import copy as _copy
                box = _copy.deepcopy(dflt[2]) if isinstance(dflt[2], (list, dict)) else [dflt[2]]

                def dcall():
                    cx.log.append(ON("callf", [OZ(dflt[1]), ON("null")]))
                    return box
                r = get(e, d, default=dcall, trace=t)
                if r is box:
                    return ON("default", [lval(cx, dflt[2])])
                return ON("value", [lval(cx, r)])
            out.append(guarded("get", th))
        elif k == 'eq':
            _, i, j = c
            if i >= len(matches) or j >= len(matches):
                out.append(SKIP)
                continue
            a, b = matches[i], matches[j]
            out.append(ON("eq", [obool(a == b), obool(a != b)]))
        elif k == 'roundtrip':
            i = c[1]
            if i >= len(matches):
                out.append(SKIP)
                continue
            try:
                r = get_match(matches[i].path, doc)
                out.append(ON("roundtrip", [ON("result", [mref(cx, r)])]))
            except Exception as e:  # noqa
                out.append(ON("roundtrip", [ON("raise", [oexn(e)])]))
            cx.drain()
        elif k == 'snap':
            out.append(ON("snap", [snapshot(cx, doc)]))
        elif k == 'describe':
            i = c[1]
            if i >= len(matches):
                out.append(SKIP)
                continue
            out.append(mdesc(cx, matches[i]))
        else:
            raise ValueError(k)
    return ON("q", out)


# ----------------------------------------------------------------------------- mutation histories
HIGH = 1000


def label_value(cx, v, counter):
    """labels of the containers inside a user-supplied value: counter upwards from HIGH, pre-order"""
    cx.table, n = label_tree(v, cx.table, counter)
    return n


def label_new(cx, doc):
    """containers the operation created: next labels in document pre-order"""
    def go(v):
        if isinstance(v, (list, dict)):
            if id(v) not in cx.table:
                cx.table[id(v)] = cx.next_label
                cx.table.setdefault('__alive__', []).append(v)
                cx.next_label += 1
            for x in (v.values() if isinstance(v, dict) else v):
                go(x)
    go(doc)


def run_mcase(case):
    import copy
    case = copy.deepcopy(case)
    cx = Ctx()
    doc = case['doc']
    cx.label(doc)
    vcounter = HIGH
    held = []
    out = [snapshot(cx, doc)]
    keep = []   # keeps popped / replaced objects alive so that id() values are never reused

    def attempt(tag, thunk):
        try:
            r = thunk()
        except BaseException as e:  # noqa
            if isinstance(e, (KeyboardInterrupt, SystemExit, MemoryError)):
                raise
            return ON(tag, [ON("raise", [oexn(e)]), cx.drain()])
        return ON(tag, [r, cx.drain()])

    def attempt_noev(tag, thunk):
        try:
            r = thunk()
        except BaseException as e:  # noqa
            if isinstance(e, (KeyboardInterrupt, SystemExit, MemoryError)):
                raise
            cx.drain()
            return ON(tag, [ON("raise", [oexn(e)])])
        cx.drain()
        return ON(tag, [r])

    def detached(m):
        par = m.parent
        if par is None or not isinstance(par.data, (list, dict)):
            return False
        target = par.data
        stack = [doc]
        while stack:
            v = stack.pop()
            if v is target:
                return False
            if isinstance(v, dict):
                stack.extend(v.values())
            elif isinstance(v, list):
                stack.extend(v)
        return True

    fresh = False      # the previous operation was a successful hold
    for op in case['ops']:
        k = op[0]
        was_fresh, fresh = fresh, False
        keep.append(copy.copy(doc) if isinstance(doc, (list, dict)) else doc)
        if k == 'setfrom':
            _, p, v, cascade = op
            vcounter = label_value(cx, v, vcounter)
            if not was_fresh or not held:
                ob = ON("skip")
            else:
                def th():
                    e = build_path(cx, p)
                    r = set_(e, v, held[-1], cascade=cascade)
                    return ON("value", [lval(cx, r)])
                ob = attempt("setfrom", th)
                ob[2].append(ON("fresh", [OZ(1)]))   # the model reports freshb && currentb (hypotheses of set_match_cset_from)
        elif k == 'getstorefrom':
            _, p, d = op
            if d[0] != 'notset':
                vcounter = label_value(cx, d[-1], vcounter)
            if not was_fresh or not held:
                ob = ON("skip")
            else:
                def th():
                    e = build_path(cx, p)
                    if d[0] == 'notset':
                        r = get(e, held[-1], store_default=True)
                    elif d[0] == 'const':
                        r = get(e, held[-1], default=d[1], store_default=True)
                    else:
                        def dcall():
                            cx.log.append(ON("callf", [OZ(d[1]), ON("null")]))
                            return d[2]
                        r = get(e, held[-1], default=dcall, store_default=True)
                    return ON("got", [lval(cx, r)])
                ob = attempt("getstorefrom", th)
        elif k == 'popfrom':
            _, p, d = op
            if d is not None:
                vcounter = label_value(cx, d[0], vcounter)
            if not was_fresh or not held:
                ob = ON("skip")
            else:
                def th():
                    e = build_path(cx, p)
                    r = pop(e, held[-1]) if d is None else pop(e, held[-1], default=d[0])
                    keep.append(r)
                    return ON("got", [lval(cx, r)])
                ob = attempt("popfrom", th)
        elif k == 'set':
            _, p, v, cascade, as_match = op
            vcounter = label_value(cx, v, vcounter)

            def th():
                e = build_path(cx, p)
                if as_match:
                    m = set_match(e, v, doc, cascade=cascade)
                    held.append(m)
                    return ON("result", [mref(cx, m)])
                r = set_(e, v, doc, cascade=cascade)
                return ON("value", [lval(cx, r)])
            ob = attempt("set", th)
            ob[2].append(ON("fresh", [OZ(1)]))   # the model reports freshb (hypothesis of set_match_cset) here
        elif k == 'getstore':
            _, p, d = op
            if d[0] != 'notset':
                vcounter = label_value(cx, d[-1], vcounter)

            def th():
                e = build_path(cx, p)
                if d[0] == 'notset':
                    r = get(e, doc, store_default=True)
                elif d[0] == 'const':
                    r = get(e, doc, default=d[1], store_default=True)
                else:
                    def dcall():
                        cx.log.append(ON("callf", [OZ(d[1]), ON("null")]))
                        return d[2]
                    r = get(e, doc, default=dcall, store_default=True)
                return ON("got", [lval(cx, r)])
            ob = attempt("getstore", th)
            ob[2].append(ON("fresh", [OZ(1)]))
        elif k == 'pop':
            _, p, d = op
            if d is not None:
                vcounter = label_value(cx, d[0], vcounter)

            def th():
                e = build_path(cx, p)
                r = pop(e, doc) if d is None else pop(e, doc, default=d[0])
                keep.append(r)
                return ON("got", [lval(cx, r)])
            ob = attempt("pop", th)
        elif k == 'pop_match':
            _, p, must = op

            def th():
                e = build_path(cx, p)
                m = pop_match(e, doc, must_match=must)
                if m is None:
                    return ON("none")
                held.append(m)
                keep.append(m.data)
                return ON("result", [mref(cx, m)])
            ob = attempt("pop_match", th)
        elif k == 'hold':
            _, p, n = op

            def th():
                e = build_path(cx, p)
                it = find_matches(e, doc)
                m = None
                try:
                    for _ in range(n + 1):
                        m = next(it)
                except StopIteration:
                    return ON("none")
                held.append(m)
                return ON("result", [mref(cx, m)])
            nh = len(held)
            ob = attempt_noev("hold", th)
            fresh = len(held) > nh
        elif k == 'assign':
            _, i, v = op
            vcounter = label_value(cx, v, vcounter)
            if i >= len(held):
                ob = ON("skip")
            elif detached(held[i]):
                ob = ON("detached")
            else:
                def th():
                    keep.append(held[i].data)
                    held[i].data = v
                    return ON("ok", [lval(cx, held[i].data)])
                ob = attempt_noev("assign", th)
        elif k == 'del':
            i = op[1]
            if i >= len(held):
                ob = ON("skip")
            elif detached(held[i]):
                ob = ON("detached")
            else:
                def th():
                    keep.append(held[i].data)
                    del held[i].data
                    return ON("ok")
                ob = attempt_noev("del", th)
        elif k == 'mpop':
            _, i, d = op
            if d is not None:
                vcounter = label_value(cx, d[0], vcounter)
            if i >= len(held):
                ob = ON("skip")
            elif detached(held[i]):
                ob = ON("detached")
            else:
                def th():
                    r = held[i].pop() if d is None else held[i].pop(d[0])
                    keep.append(r)
                    return ON("got", [lval(cx, r)])
                ob = attempt_noev("mpop", th)
        elif k == 'read':
            i = op[1]
            if i >= len(held):
                ob = ON("skip")
            else:
                m = held[i]
                ob = ON("read", [lval(cx, m.data), OS(m.path_as_str), oname(m.data_name)])
        elif k == 'get':
            _, p, d = op
            if d[0] != 'notset':
                vcounter = label_value(cx, d[-1], vcounter)

            def th():
                e = build_path(cx, p)
                if d[0] == 'notset':
                    r = get(e, doc)
                elif d[0] == 'const':
                    r = get(e, doc, default=d[1])
                else:
                    def dcall():
                        cx.log.append(ON("callf", [OZ(d[1]), ON("null")]))
                        return d[2]
                    r = get(e, doc, default=dcall)
                return ON("got", [lval(cx, r)])
            ob = attempt("get", th)
        elif k == 'find':
            rs = []
            try:
                n = 0
                for v in find(build_path(cx, op[1]), doc):
                    rs.append(ON("value", [lval(cx, v)]))
                    n += 1
                    if n >= 200:
                        rs.append(ON("cap"))
                        break
            except Exception as e:  # noqa
                rs.append(ON("raise", [oexn(e)]))
            cx.drain()
            ob = ON("find", rs)
        else:
            raise ValueError(k)
        label_new(cx, doc)
        out.append(ON("op", [ob, snapshot(cx, doc)]))
    return ON("m", out)


# ----------------------------------------------------------------------------- list-typed attribute views (C19)
def lpred_fn(p, unwrap):
    k = p[0]

    def f(w):
        v = unwrap(w)
        if k == 'const':
            return p[1]
        if k == 'truthy':
            return bool(v)
        if k == 'eq':
            return v == p[1]
        if k == 'lt':
            return isinstance(v, (int, float)) and not isinstance(v, bool) and v < p[1]
        if k == 'is_bool':
            return isinstance(v, bool)
        raise ValueError(k)
    return f


def run_lcase(case):
    import copy
    from treepath import Document, attr_list_typed
    case = copy.deepcopy(case)
    cx = Ctx()
    items = case['items']
    doc = {'b': items}
    cx.table, nxt = label_tree(items, cx.table, 1)            # the list itself gets label 1
    vcounter = HIGH
    mode = case.get('mode', 'custom')

    class Elem(Document):
        pass

    if mode == 'doc':
        class Owner(Document):
            b = attr_list_typed(Elem, path.b)

        def wrap(v):
            return Elem(v)

        def unwrap(w):
            return w.data
    elif mode == 'partial':
        # to_wrapped_value raises on strings: get raises and leaves the list alone, pop has removed the element (C19-m12)
        def conv(j):
            if isinstance(j, str):
                raise Boom(7)
            return ('T', j)

        class Owner(Document):
            b = attr_list_typed(tuple, path.b, to_wrapped_value=conv, to_json_value=lambda w: w[1])

        def wrap(v):
            return ('T', v)

        def unwrap(w):
            return w[1]
    elif mode == 'box':
        # a wrapper type without __eq__: membership and the other operations go through to_json_value (C19-m7)
        class Box:
            __slots__ = ('j',)

            def __init__(self, j):
                self.j = j

        class Owner(Document):
            b = attr_list_typed(Box, path.b, to_wrapped_value=Box, to_json_value=lambda w: w.j)

        def wrap(v):
            return Box(v)

        def unwrap(w):
            return w.j
    else:
        class Owner(Document):
            b = attr_list_typed(tuple, path.b, to_wrapped_value=lambda j: ('T', j), to_json_value=lambda w: w[1])

        def wrap(v):
            return ('T', v)

        def unwrap(w):
            return w[1]
    owner = Owner(doc)
    held = owner.b
    out = [snapshot(cx, doc['b'])]
    keep = []
    for op in case['ops']:
        k = op[0]
        fresh = op[-1] if isinstance(op[-1], bool) else False
        view = owner.b if fresh else held
        try:
            if k == 'len':
                ob = ON("len", [OZ(len(view))])
            elif k == 'get':
                ob = ON("get", [lval(cx, unwrap(view[op[1]]))])
            elif k == 'set':
                vcounter = label_value(cx, op[2], vcounter)
                view[op[1]] = wrap(op[2])
                ob = ON("set")
            elif k == 'del':
                keep.append(list(doc['b']))
                del view[op[1]]
                ob = ON("del")
            elif k == 'in':
                vcounter = label_value(cx, op[1], vcounter)
                ob = ON("in", [obool(wrap(op[1]) in view)])
            elif k == 'append':
                vcounter = label_value(cx, op[1], vcounter)
                view.append(wrap(op[1]))
                ob = ON("append")
            elif k == 'pop':
                keep.append(list(doc['b']))
                ob = ON("pop", [lval(cx, unwrap(view.pop(op[1])))])
            elif k == 'iter':
                it = iter(view)
                xs = []
                while True:
                    try:
                        xs.append(lval(cx, unwrap(next(it))))
                    except StopIteration:
                        break
                ob = ON("iter", xs)
            elif k == 'itermut':
                keep.append(list(doc['b']))
                it = iter(view)
                first = []
                for _n in range(op[1]):
                    try:
                        first.append(lval(cx, unwrap(next(it))))
                    except StopIteration:
                        break
                mu = op[2]
                try:
                    if mu[0] == 'append':
                        vcounter = label_value(cx, mu[1], vcounter)
                        view.append(wrap(mu[1]))
                    elif mu[0] == 'del':
                        del view[mu[1]]
                    elif mu[0] == 'pop':
                        keep.append(view.pop(mu[1]))
                    else:
                        vcounter = label_value(cx, mu[2], vcounter)
                        view[mu[1]] = wrap(mu[2])
                except (IndexError, TypeError):
                    pass
                rest = []
                while True:
                    try:
                        rest.append(lval(cx, unwrap(next(it))))
                    except StopIteration:
                        break
                ob = ON("itermut", [ON("first", first), ON("rest", rest)])
            elif k in ('keep', 'remove'):
                keep.append(list(doc['b']))
                calls = []
                base = lpred_fn(op[1], unwrap)

                def logged(w, base=base, calls=calls):
                    # the predicate sees every element once, in list order (a predicate may depend on the order: C19-m8)
                    calls.append(lval(cx, unwrap(w)))
                    return base(w)
                (view.keep_all if k == 'keep' else view.remove_all)(logged)
                ob = ON("keep", [ON("calls", calls)])
            else:
                raise ValueError(k)
        except Exception as e:  # noqa
            ob = ON({'remove': 'keep'}.get(k, k), [ON("raise", [oexn(e)])])
        out.append(ON("op", [ob, snapshot(cx, doc['b'])]))
    return ON("l", out)


# ----------------------------------------------------------------------------- builder histories (C15)
class NamedPred:
    """a user predicate with a fixed repr, so that str(path) is canonical"""

    def __init__(self, rep, fn):
        self.rep, self.fn = rep, fn

    def __call__(self, m):
        return self.fn(m)

    def __repr__(self):
        return self.rep

    __str__ = __repr__


def ext_expr(cx, e, s):
    k = s[0]
    if k == 'attr':
        return getattr(e, s[1])
    if k == 'item':
        return e[s[1]]
    if k == 'pred':
        return e[NamedPred(s[1], make_user(cx, s[2]))]
    if k == 'bad':
        return e[{'float': 1.5, 'none': None, 'dict': {}, 'list': [0]}[s[1]]]
    return _build_path(cx, [s], root=e)


def run_bcase(case):
    cx = Ctx()
    doc = case['doc']
    cx.label(doc)
    exprs = []
    out = []

    def strs():
        res = []
        for e in exprs:
            a, b = str(e), repr(e)
            res.append(OS(a if a == b else "STR-REPR-DIFFER:%s|%s" % (a, b)))
        return ON("strs", res)

    for op in case['ops']:
        k = op[0]
        try:
            if k == 'new':
                exprs.append(pathd if op[1] else path)
                ob = ON("new")
            elif k == 'ext':
                if op[1] >= len(exprs):
                    ob = ON("skip")
                else:
                    exprs.append(ext_expr(cx, exprs[op[1]], op[2]))
                    ob = ON("ext")
            elif k == 'find':
                if op[1] >= len(exprs):
                    ob = ON("skip")
                else:
                    rs = []
                    try:
                        n = 0
                        for m in find_matches(exprs[op[1]], doc):
                            rs.append(ON("result", [mref(cx, m)]))
                            n += 1
                            if n >= 200:
                                rs.append(ON("cap"))
                                break
                    except Exception as e:  # noqa
                        rs.append(ON("raise", [oexn(e)]))
                    ob = ON("find", rs)
            elif k == 'log':
                if op[1] >= len(exprs):
                    ob = ON("skip")
                else:
                    from treepath import log_to
                    lines = []
                    rs = []
                    try:
                        n = 0
                        for m in find_matches(exprs[op[1]], doc, trace=log_to(lines.append)):
                            rs.append(ON("result", [mref(cx, m)]))
                            n += 1
                            if n >= 200:
                                rs.append(ON("cap"))
                                break
                    except Exception as e:  # noqa
                        rs.append(ON("raise", [oexn(e)]))
                    ob = ON("log", [ON("lines", [OS(x) for x in lines]), ON("results", rs)])
            else:
                raise ValueError(k)
        except Exception as e:  # noqa
            ob = ON("raise", [oexn(e)])
        cx.drain()
        out.append(ON("op", [ob, strs()]))
    return ON("b", out)


# ----------------------------------------------------------------------------- descriptor histories (C18)
def run_dcase(case):
    """decls: [{'name','kind','path'|None,'conv'}], inner: decls of the element class; ops through descriptors.
    Observations are those of the equivalent plain-function history (see dcase.to_mcase), stripped."""
    import copy
    from treepath import Document, attr, attr_typed, attr_iter_typed, pprop, mprop
    case = copy.deepcopy(case)
    cx = Ctx()
    doc = case['doc']
    cx.label(doc)
    vcounter = HIGH

    def conv_kwargs(d):
        if d.get('conv') == 'tag':
            return dict(to_wrapped_value=lambda j: ('T', j), to_json_value=lambda w: w[1])
        return {}

    def wrap(d, v):
        return ('T', v) if d.get('conv') == 'tag' else v

    def unwrap(d, w):
        return w[1] if d.get('conv') == 'tag' else w

    def expr_of(d):
        return None if d['path'] is None else _build_path(cx, d['path'])

    inner_ns = {}
    for j, d in enumerate(case['inner']):
        inner_ns[d['name']] = attr(expr_of(d), **conv_kwargs(d))
    # Document subclasses are free to be falsy and to override `data`: the descriptors must test `is None` and go
    # through the `data` property (C18-m11, C18-m12)
    inner_ns['__bool__'] = lambda self: False
    Inner = type("Inner", (Document,), inner_ns)
    ns = {'__bool__': lambda self: False}
    envelope = len(case['ops']) % 2 == 1
    if envelope:
        ns['data'] = property(lambda self: self._data['payload'])
    for i, d in enumerate(case['decls']):
        e = expr_of(d)
        if d['kind'] == 'attr':
            ns[d['name']] = attr(e, **conv_kwargs(d))
        elif d['kind'] == 'typed':
            ns[d['name']] = attr_typed(Inner, e)
        elif d['kind'] == 'iter':
            if d.get('conv') == 'tag':
                ns[d['name']] = attr_iter_typed(tuple, e, to_wrapped_value=lambda j: ('T', j))
            else:
                ns[d['name']] = attr_iter_typed(Inner, e)
    Owner = type("Owner", (Document,), ns)
    owner = Owner({'payload': doc, 'meta': 1} if envelope else doc)

    class Legacy:
        def __init__(self, d):
            self._d = d
    legacy_paths = {}
    for op in case['ops']:
        if op[0] in ('pread', 'pwrite', 'mread'):
            key = repr(op[1])
            if key not in legacy_paths:
                nm = "lp%d" % len(legacy_paths)
                legacy_paths[key] = nm
                e = _build_path(cx, op[1])
                setattr(Legacy, nm, pprop(e, lambda self: self._d))
                setattr(Legacy, "m" + nm, mprop(e, lambda self: self._d))
        elif op[0] in ('cpread', 'cmread', 'cpwrite'):
            key = repr((op[1], op[2]))
            if key not in legacy_paths:
                nm = "cp%d" % len(legacy_paths)
                legacy_paths[key] = nm
                source = mprop(_build_path(cx, op[1]), lambda self: self._d)
                setattr(Legacy, "s" + nm, source)
                e2 = _build_path(cx, op[2])
                setattr(Legacy, nm, pprop(e2, source))
                setattr(Legacy, "m" + nm, mprop(e2, source))
    legacy = Legacy(doc)

    out = [snapshot(cx, doc)]
    keep = []

    def status(tag, thunk, keep_value=False):
        try:
            r = thunk()
        except BaseException as e:  # noqa
            if isinstance(e, (KeyboardInterrupt, SystemExit, MemoryError)):
                raise
            cx.drain()
            return ON(tag, [ON("raise", [oexn(e)])])
        cx.drain()
        return ON(tag, [r if keep_value else ON("ok")])

    for op in case['ops']:
        k = op[0]
        keep.append(copy.copy(doc) if isinstance(doc, (list, dict)) else doc)
        if k == 'read':
            d = case['decls'][op[1]]

            def th():
                w = getattr(owner, d['name'])
                v = w.data if d['kind'] == 'typed' else unwrap(d, w)
                return ON("got", [lval(cx, v)])
            ob = status("get", th, True)
        elif k == 'write':
            d = case['decls'][op[1]]
            vcounter = label_value(cx, op[2], vcounter)

            def th():
                setattr(owner, d['name'], Inner(op[2]) if d['kind'] == 'typed' else wrap(d, op[2]))
            ob = status("set", th)
        elif k == 'del':
            d = case['decls'][op[1]]

            def th():
                delattr(owner, d['name'])
            ob = status("pop", th)
        elif k == 'class':
            d = case['decls'][op[1]]
            ob = ON("skip") if getattr(Owner, d['name']) is ns[d['name']] else ON("class-access-wrong")
        elif k in ('tread', 'twrite', 'tdel'):
            d = case['decls'][op[1]]
            dj = case['inner'][op[2]]
            if k == 'twrite':
                vcounter = label_value(cx, op[3], vcounter)

            def th():
                x = getattr(owner, d['name'])
                if k == 'tread':
                    return ON("got", [lval(cx, unwrap(dj, getattr(x, dj['name'])))])
                if k == 'twrite':
                    setattr(x, dj['name'], wrap(dj, op[3]))
                else:
                    delattr(x, dj['name'])
            ob = status({'tread': 'get', 'twrite': 'set', 'tdel': 'pop'}[k], th, k == 'tread')
        elif k == 'iread':
            d = case['decls'][op[1]]
            rs = []
            try:
                n = 0
                for w in getattr(owner, d['name']):
                    rs.append(ON("value", [lval(cx, w[1] if d.get('conv') == 'tag' else w.data)]))
                    n += 1
                    if n >= 200:
                        rs.append(ON("cap"))
                        break
            except Exception as e:  # noqa
                rs.append(ON("raise", [oexn(e)]))
            cx.drain()
            ob = ON("find", rs)
        elif k == 'iwrite':
            d = case['decls'][op[1]]
            vcounter = label_value(cx, op[2], vcounter)

            def th():
                setattr(owner, d['name'], op[2])
            ob = status("set", th)
        elif k in ('pread', 'mread'):
            nm = legacy_paths[repr(op[1])]

            def th():
                if k == 'pread':
                    return ON("got", [lval(cx, getattr(legacy, nm))])
                m = getattr(legacy, "m" + nm)
                return ON("got", [lval(cx, m.data if m is not None else None)])
            ob = status("get", th, True)
        elif k == 'pwrite':
            nm = legacy_paths[repr(op[1])]
            vcounter = label_value(cx, op[2], vcounter)

            def th():
                setattr(legacy, nm, op[2])
            ob = status("set", th)
        elif k in ('cpread', 'cmread'):
            nm = legacy_paths[repr((op[1], op[2]))]

            def th():
                if k == 'cpread':
                    return ON("got", [lval(cx, getattr(legacy, nm))])
                m = getattr(legacy, "m" + nm)
                return ON("got", [lval(cx, m.data if m is not None else None)])
            ob = status("get", th, True)
        elif k == 'cpwrite':
            nm = legacy_paths[repr((op[1], op[2]))]
            vcounter = label_value(cx, op[3], vcounter)

            def th():
                setattr(legacy, nm, op[3])
            ob = status("set", th)
        else:
            raise ValueError(k)
        label_new(cx, doc)
        out.append(ON("op", [ob, snapshot(cx, doc)]))
    return ON("d", out)


# ----------------------------------------------------------------------------- cyclic structures (C20)
def build_heap(heap):
    objs = []
    for n in heap:
        objs.append({} if n[0] == 'dict' else ([] if n[0] == 'list' else n[1]))
    for o, n in zip(objs, heap):
        if n[0] == 'dict':
            for k, i in n[1]:
                o[k] = objs[i]
        elif n[0] == 'list':
            for i in n[1]:
                o.append(objs[i])
    return objs


def run_ccase(case):
    cx = Ctx()
    objs = build_heap(case['heap'])
    index = {id(o): i for i, o in enumerate(objs) if isinstance(o, (dict, list))}

    def hval(v):
        if isinstance(v, dict):
            return ON("dictref", [OZ(index.get(id(v), -1))])
        if isinstance(v, list):
            return ON("listref", [OZ(index.get(id(v), -1))])
        return lval(cx, v)
    e = _build_path(cx, case['path'])
    root = objs[case['root']]
    it = find(e, root) if case['vals'] else find_matches(e, root)
    out = []
    for _ in range(case['nexts']):
        try:
            r = next(it)
            out.append(ON("value", [hval(r)]) if case['vals'] else ON("result", [OS(r.path_as_str), hval(r.data)]))
        except BaseException as x:  # noqa
            if isinstance(x, (KeyboardInterrupt, SystemExit, MemoryError)):
                raise
            out.append(ON("raise", [oexn(x)]))
    return ON("c", out)


# ----------------------------------------------------------------------------- preemption sweep (C07, thread schedules)
def run_pcase(case):
    """Two evaluations share one path object.  Evaluation A is preempted at the n-th line executed inside the
    treepath package (for every n, or a sample), evaluation B then runs to completion on the same path object
    (what a thread switch at that point would allow), A resumes.  Both must yield what they yield alone."""
    import treepath as tp
    pkg = os.path.dirname(os.path.realpath(tp.__file__))
    cx = Ctx()
    docA, docB = case['docA'], case['docB']
    cx.label(docA)
    cx.label(docB)

    def results(e, d, cap=200):
        out = []
        try:
            for m in find_matches(e, d):
                out.append((m.path_as_str, m.data_name, id(m.data) if isinstance(m.data, (list, dict)) else repr(m.data)))
                if len(out) >= cap:
                    break
        except Exception as x:  # noqa
            out.append(('raise', type(x).__name__, repr(oexn(x))))
        return out

    aloneA = results(_build_path(cx, case['path']), docA)
    aloneB = results(_build_path(cx, case['path']), docB)

    def traced(n_stop, e):
        """run A on e, preempting at the n_stop-th line event (None: only count)"""
        state = {'n': 0, 'rb': None}

        def local(frame, event, arg):
            if event == 'line':
                state['n'] += 1
                if n_stop is not None and state['n'] == n_stop and state['rb'] is None:
                    sys.settrace(None)
                    try:
                        state['rb'] = results(e, docB)
                    finally:
                        sys.settrace(glob)
            return local

        def glob(frame, event, arg):
            code = frame.f_code
            # the library's own code, and the user predicate running on A's thread
            if code.co_filename.startswith(pkg) or (code.co_filename == __file__ and code.co_name in ('pred', 'body')):
                return local
            return None
        sys.settrace(glob)
        try:
            ra = results(e, docA)
        finally:
            sys.settrace(None)
        return ra, state['rb'], state['n']

    _, _, total = traced(None, _build_path(cx, case['path']))
    points = list(range(1, total + 1))
    limit = case.get('points', 120)
    if len(points) > limit:
        step = len(points) / float(limit)
        points = sorted(set(int(1 + i * step) for i in range(limit)))
    bad = []
    for n in points:
        e = _build_path(cx, case['path'])        # a path object never evaluated before
        ra, rb, _ = traced(n, e)
        if ra != aloneA or (rb is not None and rb != aloneB):
            bad.append(n)
            if len(bad) >= 3:
                break
    cx.drain()
    if bad:
        return ON("p", [ON("interference", [OZ(n) for n in bad]), OZ(total)])
    return ON("p", [ON("ok"), OZ(total)])


# ----------------------------------------------------------------------------- replays of recorded findings
def run_fcase(case):
    k = case['finding']
    if k == 'MANY':
        # a finite document with many results: every next() is a bounded amount of work, so the traversal reaches
        # the end however many results there are (the budget belongs to one next(), not to the traversal: C20-m7)
        n = case.get('n', 400000)
        try:
            c1 = sum(1 for _ in find(path[wc], list(range(n))))
            grid = {"rows": [{"cells": [1] * 400} for _ in range(n // 400)]}
            c2 = sum(1 for _ in find_matches(path.rows[wc].cells[wc], grid))
            return ON("f", [OS("results:%d,%d" % (c1, c2))])
        except Exception as e:  # noqa
            return ON("f", [OS(type(e).__name__)])
    if k == 'REUSE':
        # one path object evaluated very many times (get / get_match leave their iterator unfinished; some iterators
        # are advanced once and abandoned): every evaluation yields what a fresh path object yields (C07-m11: a counter
        # kept on the recursive vertex that unfinished evaluations never give back)
        import random as _random
        rng = _random.Random(case['seed'])
        depth = rng.randint(2, 7)

        def nested(leaf):
            d = {"leaf": leaf, "x": [leaf]}
            for i in range(depth):
                d = {"k": d, "n": i} if rng.random() < 0.7 else [d, i]
            return d
        docs = [nested(n) for n in range(3)]
        mk = rng.choice([lambda: path.rec.leaf, lambda: path.rec[has(path.leaf)].leaf, lambda: path.rec.x[0],
                         lambda: path.rec.x[wc], lambda: path[gwc].rec.leaf, lambda: path.rec.k.rec.leaf])
        shared = mk()

        def outcome(thunk):
            try:
                return ('ok', thunk())
            except Exception as x:  # noqa
                return ('raise', type(x).__name__)
        alone = [outcome(lambda d=d: list(find(mk(), d))) for d in docs]
        for rnd in range(case.get('n', 400)):
            for i, d in enumerate(docs):
                mode = (rnd + i) % 4
                if mode == 0:
                    got = outcome(lambda: [get(shared, d)])
                    want = ('ok', alone[i][1][:1]) if alone[i][0] == 'ok' and alone[i][1] else None
                elif mode == 1:
                    got = outcome(lambda: [get_match(shared, d).data])
                    want = ('ok', alone[i][1][:1]) if alone[i][0] == 'ok' and alone[i][1] else None
                elif mode == 2:
                    got = outcome(lambda: [next(find(shared, d))])
                    want = ('ok', alone[i][1][:1]) if alone[i][0] == 'ok' and alone[i][1] else None
                else:
                    got = outcome(lambda: list(find(shared, d)))
                    want = alone[i]
                if want is not None and got != want:
                    return ON("f", [OS("evaluation %d of one path object on document %d gave %r, a fresh path object gives %r"
                                       % (rnd, i, got, want))])
        return ON("f", [OS("ok:%d" % depth)])
    if k == 'TWOHOP':
        # a custom predicate that searches on from the Match its first get_match returned (two hops): tracing changes
        # nothing, and every event produced while the filter is evaluated carries the candidate under test (C17-m14)
        import random as _random
        rng = _random.Random(case['seed'])
        items = []
        for i in range(rng.randint(2, 5)):
            it = {'id': i, 'v': rng.choice(['x', 0, None, 'y'])}
            if rng.random() < 0.75:
                meta = {}
                if rng.random() < 0.6:
                    meta['ok'] = rng.choice([True, None, 0, [], 'x'])
                if rng.random() < 0.6:
                    meta['tags'] = [rng.choice(['a', 0, None]) for _ in range(rng.randint(0, 2))]
                it['meta'] = meta if rng.random() < 0.9 else rng.choice([None, 0, [meta]])
            items.append(it)
        as_list = rng.random() < 0.5
        doc = {'items': items if as_list else {('k%d' % i): it for i, it in enumerate(items)}}
        candidates = items
        hop2 = rng.choice([path.ok, path.tags[0], path.tags[wc], path[has(path.ok)].tags, path.rec[0]])
        must1 = rng.random() < 0.2

        def approved(m):
            meta = get_match(path.meta, m, must_match=must1)
            if meta is None:
                return False
            return get_match(hop2, meta, must_match=False) is not None
        w = rng.choice(['plain', 'has', 'all1', 'all2', 'any', 'not'])
        pred = {'plain': approved, 'has': has(approved), 'all1': has_all(approved, path.v), 'all2': has_all(path.id, approved),
                'any': has_any(path.nope, approved), 'not': has_not(approved)}[w]
        base = path.items[wc] if rng.random() < 0.7 else path.items.wc
        e = base[pred]
        if rng.random() < 0.5:
            e = e.v

        def run(tr):
            out = []
            try:
                for m in (find_matches(e, doc, trace=tr) if tr else find_matches(e, doc)):
                    out.append(('r', m.path_as_str, id(m.data) if isinstance(m.data, (dict, list)) else repr(m.data)))
            except Exception as x:  # noqa
                out.append(('x', type(x).__name__, type(x.__cause__).__name__))
            return out
        events = []
        a = run(None)
        b = run(events.append)
        if a != b:
            return ON("f", [OS("tracing changed the outcome: %r vs %r" % (a, b))])
        for ev in events:
            pm = ev.predicate_match
            if pm is not None and not any(pm.data is c for c in candidates):
                return ON("f", [OS("a filter event carries %s as predicate_match, not a candidate of the filter" % pm.path_as_str)])
        return ON("f", [OS("ok:%d" % len([1 for ev in events if ev.predicate_match is not None]))])
    if k == 'F1':
        # the budget of a next() is spent on any long stretch without a result, not only on cycles
        n = case.get('n', 400000)
        doc = [0] * n + [{'a': 1}]
        try:
            r = [m.path_as_str for m in find_matches(path[wc].a, doc)]
            return ON("f", [OS("results:%d" % len(r))])
        except Exception as e:  # noqa
            return ON("f", [OS(type(e).__name__)])
    if k == 'F2':
        one = {'a': 0}
        two = {'x': one}
        one['x'] = two
        try:
            get(path[has(path.rec.a == 1)], one)
            return ON("f", [OS("returned")])
        except Exception as e:  # noqa
            return ON("f", [OS(type(e).__name__)])
    if k == 'F3':
        one = {'a': 0}
        two = {'x': one}
        one['x'] = two
        sink = []
        old_limit = sys.getrecursionlimit()
        sys.setrecursionlimit(1000)          # the interpreter's default, which the finding is about
        try:
            get(path.rec.zzz, one, trace=log_to(sink.append))
            return ON("f", [OS("returned")])
        except RecursionError:
            return ON("f", [OS("RecursionError")])
        except Exception as e:  # noqa
            return ON("f", [OS(type(e).__name__)])
        finally:
            sys.setrecursionlimit(old_limit)
    raise ValueError(k)
