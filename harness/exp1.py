import sys, random, time, json
sys.path.insert(0, '/verif/harness')
import qcase, impl, coqrun
from terms import otree_diff, otree_to_json
seed = int(sys.argv[1]) if len(sys.argv) > 1 else 1
N = int(sys.argv[2]) if len(sys.argv) > 2 else 300
kinds = qcase.FULL if len(sys.argv) <= 3 else {'child': qcase.CHILD_KINDS, 'rec': qcase.CHILD_KINDS + ['rec'], 'par': qcase.CHILD_KINDS + ['rec', 'parent']}[sys.argv[3]]
rng = random.Random(seed)
cases = []
for _ in range(N):
    doc = qcase.gen_doc(rng, budget=rng.choice([4, 8, 12, 20]))
    p = qcase.gen_path(rng, kinds, maxlen=5, depth=2)
    tr = rng.random() < 0.5
    # dry run for the number of results
    cx = impl.Ctx()
    n = 0
    try:
        for _m in impl.find_matches(impl.build_path(cx, p), doc):
            n += 1
            if n >= 30: break
    except Exception:
        pass
    cmds = [('iter', 'doc', p, False, tr)] + [('next', 0)] * (n + 2)
    cases.append({'doc': doc, 'cmds': cmds})
t0 = time.time()
obs = [impl.run_qcase(c) for c in cases]
t1 = time.time()
terms = [qcase.g_qcase(c) for c in cases]
mism, details, errors = coqrun.compare(terms, obs, "(run_qcase BUDGET)", "qcase")
t2 = time.time()
print("impl %.2fs coq %.2fs cases %d mismatches %d errors %d" % (t1 - t0, t2 - t1, N, len(mism), len(errors)))
for e in errors[:3]: print("ERR", e)
for i in mism[:8]:
    print("--- case", i, json.dumps(cases[i]['doc']), cases[i]['cmds'][0])
    d = details.get(i)
    if isinstance(d, tuple):
        print("   diff (impl vs model):", otree_diff(obs[i], d))
    else:
        print("   detail:", str(d)[:1500])
import collections
nres = collections.Counter()
nev = 0
for o in obs:
    r = sum(1 for x in o[2] if x[1]=='next' and x[2][0][1]=='result')
    nres[min(r,5)] += 1
    nev += sum(len(x[2][1][2]) for x in o[2] if x[1]=='next')
exc = collections.Counter()
for o in obs:
    for x in o[2]:
        if x[1]=='next' and x[2][0][1]=='raise':
            e = x[2][0][2][0]
            exc[e[1] if e[0] in 'SN' else '?'] += 1
print("results/case", sorted(nres.items()), "events", nev, "exceptions", dict(exc))
