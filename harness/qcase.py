"""Read-only case family: Gallina printing of scripts and random generation of documents, paths, predicates."""
import random

from terms import g_json, g_path, g_nat, g_list, label_tree

KEYS = ['a', 'b', 'c', 'k', 'x-y', 'zz']
SCALARS = [0, 1, -1, 2, 7, '', 'a', 'b', 'xy', None, False, True, 0.0, 1.5, -0.5, 2.0]


# ----------------------------------------------------------------------------- printing
def g_src(s):
    return "QDoc" if s == 'doc' else "(QMatch %s)" % g_nat(s[1])


def g_bool(b):
    return "true" if b else "false"


def g_default(d, table):
    if d[0] == 'notset':
        return "DNotSet"
    if d[0] == 'const':
        return "(DConst %s)" % g_json(d[1], table)
    return "(DCall %s %s)" % (g_nat(d[1]), g_json(d[2], table))


def g_cmd(c, table):
    k = c[0]
    if k == 'iter':
        return "QIter %s %s %s %s %s" % (g_src(c[1]), g_path(c[2], table), g_bool(c[3]), g_bool(c[4]), g_bool(c[5] if len(c) > 5 else True))
    if k == 'next':
        return "QNext %s" % g_nat(c[1])
    if k == 'reiter':
        return "QReiter %s" % g_nat(c[1])
    if k == 'drain':
        return "QDrain %s %s %s" % (g_nat(c[1]), g_nat(c[2]), g_nat(c[3]))
    if k == 'get_match':
        return "QGetMatch %s %s %s %s" % (g_src(c[1]), g_path(c[2], table), g_bool(c[3]), g_bool(c[4]))
    if k == 'get':
        return "QGet %s %s %s %s" % (g_src(c[1]), g_path(c[2], table), g_default(c[3], table), g_bool(c[4]))
    if k == 'eq':
        return "QEq %s %s" % (g_nat(c[1]), g_nat(c[2]))
    if k == 'roundtrip':
        return "QRoundtrip %s" % g_nat(c[1])
    if k == 'snap':
        return "QSnap"
    if k == 'describe':
        return "QDescribe %s" % g_nat(c[1])
    raise ValueError(k)


def g_qcase(case):
    table, _ = label_tree(case['doc'])
    return "{| q_doc := %s; q_cmds := %s |}" % (
        g_json(case['doc'], table), g_list([g_cmd(c, table) for c in case['cmds']]))


# ----------------------------------------------------------------------------- random documents
def gen_doc(rng, budget=12, depth=4, scalars=SCALARS, keys=KEYS):
    """a random JSON tree with about `budget` nodes"""
    def go(b, d):
        if b <= 1 or d <= 0 or rng.random() < 0.25:
            if rng.random() < 0.15:
                return rng.choice([[], {}])
            return rng.choice(scalars)
        n = rng.choice([0, 1, 1, 2, 2, 3, 3, 4, 6]) if b > 3 else rng.choice([0, 1, 2])
        n = min(n, b - 1)
        shares = [1] * n
        for _ in range(max(0, b - 1 - n)):
            if n:
                shares[rng.randrange(n)] += 1
        if rng.random() < 0.5:
            ks = rng.sample(keys, min(n, len(keys)))
            return {k: go(s, d - 1) for k, s in zip(ks, shares)}
        return [go(s, d - 1) for s in shares]
    doc = go(budget, depth)
    if not isinstance(doc, (dict, list)) and rng.random() < 0.9:
        doc = rng.choice([{rng.choice(keys): doc}, [doc]])
    return doc


def collect_nodes(doc):
    """[(location as list of names, node)] in pre-order"""
    out = []

    def go(v, loc):
        out.append((loc, v))
        if isinstance(v, dict):
            for k, x in v.items():
                go(x, loc + [k])
        elif isinstance(v, list):
            for i, x in enumerate(v):
                go(x, loc + [i])
    go(doc, [])
    return out


# ----------------------------------------------------------------------------- random paths
CHILD_KINDS = ['key', 'key', 'idx', 'slice', 'tuple', 'wc', 'lwc', 'gwc']
FNS = [('neg',), ('len',), ('not',), ('truth',), ('int',), ('dbl',), ('is_none',), ('boom', 1)]
OPS = ['==', '!=', '<', '<=', '>', '>=']


def gen_step(rng, kinds, depth, keys=KEYS):
    k = rng.choice(kinds)
    if k == 'key':
        return ('key', rng.choice(keys), rng.choice(['attr', 'item']) if keys is KEYS else 'item')
    if k == 'idx':
        return ('idx', rng.choice([0, 0, 1, 1, 2, -1, -1, -2, 3, -4]))
    if k == 'slice':
        return ('slice',) + rng.choice([(None, None, None), (1, None, None), (None, None, -1), (None, None, 2),
                                        (-2, None, None), (5, 1, -2), (None, 2, None), (1, -1, None), (0, 0, None),
                                        (None, None, -2), (-1, None, -1), (2, 0, -1), (-3, -1, 1)])
    if k == 'tuple':
        n = rng.choice([1, 2, 2, 3, 4])
        return ('tuple', [rng.choice(keys + [0, 1, -1, 2, -3]) for _ in range(n)])
    if k == 'wc':
        return ('wc', rng.random() < 0.3)
    if k == 'lwc':
        return ('lwc', rng.random() < 0.3)
    if k == 'gwc':
        return ('gwc', rng.random() < 0.5, rng.random() < 0.3)
    if k == 'rec':
        return ('rec', rng.random() < 0.3)
    if k == 'parent':
        return ('parent',)
    if k == 'pred':
        return ('pred', gen_pred(rng, depth))
    raise ValueError(k)


def fix_path(p):
    """drop a recursive step that directly follows another one (rejected by the builder)"""
    out = []
    for s in p:
        if s[0] == 'rec' and out and out[-1][0] == 'rec':
            continue
        out.append(s)
    return out


def gen_path(rng, kinds, maxlen=5, depth=2, minlen=0):
    n = rng.randint(minlen, maxlen)
    return fix_path([gen_step(rng, kinds, depth) for _ in range(n)])


FULL = CHILD_KINDS + ['rec', 'rec', 'parent', 'parent', 'pred', 'pred']


def gen_const(rng):
    return rng.choice(SCALARS + [[0], [], {}, [1, 'a'], {'a': 1}])


def gen_user(rng):
    k = rng.choice(['const', 'const', 'raise', 'data', 'data_eq', 'name_eq', 'depth', 'parent_name', 'eq_or_raise', 'raise_truth'])
    if k == 'raise_truth':
        return ('user', 'raise_truth', rng.randint(1, 3))
    if k == 'const':
        return ('user', 'const', rng.choice([1, 0, '', 'x', [0], [], None, True, False, 0.0, 1.5, {}]))
    if k == 'raise':
        return ('user', 'raise', rng.randint(0, 3))
    if k == 'data_eq':
        return ('user', 'data_eq', gen_const(rng))
    if k == 'name_eq':
        return ('user', 'name_eq', rng.choice(KEYS + [0, 1, '$']))
    if k == 'eq_or_raise':
        return ('user', 'eq_or_raise', rng.choice(SCALARS), rng.randint(0, 3))
    return ('user', k)


def gen_has(rng, depth):
    p = gen_path(rng, FULL if depth > 0 else CHILD_KINDS + ['rec', 'parent'], maxlen=3, depth=depth - 1)
    op = rng.choice([None, None] + OPS)
    const = gen_const(rng) if op else None
    fns = [rng.choice(FNS) for _ in range(rng.choice([0, 0, 1, 1, 2, 3]))]
    return ('has', p, op, const, fns, rng.choice(['has', 'tuple', 'bare']))


def gen_pred(rng, depth):
    r = rng.random()
    if depth <= 0 or r < 0.3:
        return gen_user(rng)
    if r < 0.6:
        return gen_has(rng, depth)
    if r < 0.7:
        return ('all', [gen_pred(rng, depth - 1) for _ in range(rng.choice([0, 1, 2, 3]))])
    if r < 0.8:
        return ('any', [gen_pred(rng, depth - 1) for _ in range(rng.choice([0, 1, 2, 3]))])
    if r < 0.92:
        return ('not', gen_pred(rng, depth - 1))
    return ('getmatch', gen_path(rng, CHILD_KINDS + ['rec', 'parent'], maxlen=2, depth=0), rng.random() < 0.5)


def drain_script(it_index, n):
    return [('next', it_index)] * n
