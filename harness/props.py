"""Per-property registry: generators, non-triviality rules, direct oracles, theorem obligations."""
import copy
import hashlib
import json
import os
import random

import coqrun
import gens
import mcase
import lcase
import bcase
import dcase
import ccase
import qcase
from gens import CHILD, derive_path, rand_doc, small_scope, SMALL_STEPS_CHILD, SMALL_STEPS_FULL, SMALL_DOCS
from terms import otree_diff, otree_to_json

ROOT = os.path.dirname(os.path.dirname(os.path.abspath(__file__)))

TRUSTED_BASE = [
    "Coq 8.16.1 kernel and its VM (vm_compute evaluates the model in the correspondence and a few closed facts); no native_compute",
    "axioms: none (Print Assumptions of every property theorem says 'Closed under the global context'); standard library only",
    "hand-written Gallina model coq/{Json,PyPrim,Machine,Api,Mutate,...}.v: the code is modelled, not verified; tied to /repo by the correspondence run of this check",
    "PyPrim.v (Python dict/list/slice/comparison semantics) validated against CPython on an exhaustive small domain on every run",
    "correspondence harness: generators, impl runner (public API only), canonical observations built twice (harness/impl.py, coq/Obs.v), Python->Gallina printer, DSL of user callables defined twice (harness/impl.py, coq/Dsl.v)",
]
COMMON_ASSUMPTIONS = [
    "documents are trees of JSON values (unique containers, str keys, floats restricted to k/2, no NaN/inf)",
    "user predicates / conversion functions / default callables are functions of their argument and do not mutate the document",
    "completeness claims assume the traversal stays within the library's budget of 1 000 000 actions per next() (finding F1)",
]

FAMILIES = {
    'q': dict(printer=qcase.g_qcase, run_fn="(run_qcase BUDGET)", case_type="qcase", imports=""),
    'm': dict(printer=mcase.g_mcase, run_fn="(run_mcase BUDGET)", case_type="mcase", imports=" Mutate RunM"),
    'l': dict(printer=lcase.g_lcase, run_fn="run_lcase", case_type="lcase", imports=" DocList RunL"),
    'b': dict(printer=bcase.g_bcase, run_fn="(run_bcase BUDGET)", case_type="bcase", imports=" Builder"),
    'c': dict(printer=ccase.g_ccase, run_fn="(run_ccase BUDGET)", case_type="ccase", imports=" RunC", shard=1),
    'd': dict(printer=dcase.g_dcase, run_fn="(run_dcase BUDGET)", case_type="mcase", imports=" Mutate RunM"),
}


def Q(case):
    return {'family': 'q', 'case': case}


def M(case):
    return {'family': 'm', 'case': case}


def has_kind(p, kinds):
    return any(s[0] in kinds for s in p)


MULTI = ('wc', 'lwc', 'gwc', 'slice', 'tuple', 'rec')


def scan(o, tag):
    """all sub-observations with the given tag"""
    out = []

    def go(t):
        if t[0] == 'N':
            if t[1] == tag:
                out.append(t)
            for x in t[2]:
                go(x)
    go(o)
    return out


def n_results(o):
    return sum(1 for x in scan(o, 'next') if x[2] and x[2][0][1] in ('result', 'value'))


# ----------------------------------------------------------------------------- generators (read-only family)
def sized(tier, quick, thorough):
    return quick if tier == 'quick' else thorough


def gen_C01(rng, tier):
    out = []
    scope = list(small_scope(SMALL_STEPS_CHILD, 2))
    rng.shuffle(scope)
    for d, p in scope[:sized(tier, 1500, len(scope))]:
        out.append(Q({'doc': d, 'cmds': [('iter', 'doc', p, False, False), ('drain', 0, 40, 1)]}))
    if tier != 'quick':
        sc3 = list(small_scope(SMALL_STEPS_CHILD, 3, docs=SMALL_DOCS[5:]))
        rng.shuffle(sc3)
        for d, p in sc3[:20000]:
            if len(p) == 3:
                out.append(Q({'doc': d, 'cmds': [('iter', 'doc', p, False, False), ('drain', 0, 40, 1)]}))
    for _ in range(sized(tier, 1500, 20000)):
        d = rand_doc(rng, big=rng.random() < 0.2)
        p = derive_path(rng, d, CHILD, maxextra=2)
        out.append(Q({'doc': d, 'cmds': [('iter', 'doc', p, rng.random() < 0.2, False), ('drain', 0, 60, 1)]}))
    # every step kind over members holding falsy values (None, 0, False, '', [], {}): present members are selected
    # whatever they hold (C01-m5: a comma-delimited key step dropping members whose value is null)
    falsy = [None, 0, False, '', [], {}, 0.0]
    for _ in range(sized(tier, 300, 4000)):
        if rng.random() < 0.5:
            ks = rng.sample(qcase.KEYS, rng.choice([2, 3, 4]))
            node = {k: copy.deepcopy(rng.choice(falsy + [1, 'a'])) for k in ks}
            step = rng.choice([('tuple', rng.sample(ks, min(len(ks), rng.choice([1, 2, 3])))), ('tuple', [ks[0], 'zz', ks[-1]]),
                               ('wc', False), ('gwc', True, False), ('key', ks[0], 'item'), ('rec', False)])
        else:
            node = [copy.deepcopy(rng.choice(falsy + [1, 'a'])) for _k in range(rng.choice([1, 2, 3, 4]))]
            step = rng.choice([('tuple', [0, -1]), ('tuple', [len(node) - 1, 0, 5]), ('lwc', False), ('gwc', False, False),
                               ('idx', rng.randrange(len(node))), ('idx', -1), ('slice', None, None, None), ('slice', None, None, -1),
                               ('rec', False)])
        d, pre = rng.choice([(node, []), ({'k': node}, [('key', 'k', 'item')]), ([node], [('idx', 0)])])
        out.append(Q({'doc': d, 'cmds': [('iter', 'doc', qcase.fix_path(pre + [step]), rng.random() < 0.3, False), ('drain', 0, 40, 1)]}))
    # slices: every combination of small bounds and steps over lists of 0-7 items (C01-m6: a stride anchored at the wrong end)
    for _ in range(sized(tier, 400, 6000)):
        n = rng.randrange(8)
        node = list(range(10, 10 + n))
        b = [None, 0, 1, 2, 3, 5, 9, -1, -2, -3, -5, -9]
        step = ('slice', rng.choice(b), rng.choice(b), rng.choice([None, 1, 2, 3, -1, -2, -3, 7, -7]))
        d, pre = rng.choice([(node, []), ({'k': node}, [('key', 'k', 'item')])])
        out.append(Q({'doc': d, 'cmds': [('iter', 'doc', pre + [step], rng.random() < 0.5, False), ('drain', 0, 40, 1)]}))
    return out


def nontrivial_multi(case, o):
    if case['family'] == 'c':
        return len(scan(o, 'result')) + len(scan(o, 'value')) >= 2
    p = case['case']['cmds'][0][2]
    return has_kind(p, MULTI) and n_results(o) >= 2


def gen_C02(rng, tier):
    out = []
    steps = SMALL_STEPS_CHILD[:2] + [('idx', 0), ('idx', -1), ('wc', False), ('lwc', False), ('gwc', True, False),
                                     ('tuple', ['a', 0]), ('slice', None, None, -1), ('rec', False)]
    scope = [(d, p) for d, p in small_scope(steps, 3) if has_kind(p, ('rec',))]
    rng.shuffle(scope)
    for d, p in scope[:sized(tier, 1500, len(scope))]:
        out.append(Q({'doc': d, 'cmds': [('iter', 'doc', p, False, False), ('drain', 0, 60, 1)]}))
    n = 0
    while n < sized(tier, 1500, 20000):
        d = rand_doc(rng, big=rng.random() < 0.2)
        p = derive_path(rng, d, CHILD + ('rec',), maxextra=2)
        if not has_kind(p, ('rec',)):
            i = rng.randint(0, len(p))
            p = qcase.fix_path(p[:i] + [('rec', False)] + p[i:])
        if rng.random() < 0.3:
            # the remainder of the path is evaluated at containers only: a filter or a parent step written directly
            # after the recursive step never sees the scalars below (C02-m6)
            i = [j for j, st in enumerate(p) if st[0] == 'rec'][0]
            ins = rng.choice([[('pred', ('user', 'data'))], [('pred', ('user', 'const', 1))], [('parent',)],
                              [('pred', ('user', 'data_eq', rng.choice(qcase.SCALARS)))]])
            p = qcase.fix_path(p[:i + 1] + ins + p[i + 1:])
        out.append(Q({'doc': d, 'cmds': [('iter', 'doc', p, False, False), ('drain', 0, 80, 1)]}))
        n += 1
    # documents that share a container object between several places (heap family, acyclic)
    out += [{'family': 'c', 'case': ccase.gen_dagcase(rng)} for _ in range(sized(tier, 150, 1500))]
    return out


def user_pred(rng):
    return ('pred', qcase.gen_user(rng))


def gen_C03(rng, tier):
    out = []
    steps = [('key', 'a', 'attr'), ('idx', 0), ('wc', False), ('lwc', False), ('rec', False), ('slice', None, None, -1)] + \
            [('pred', p) for p in gens.SMALL_PREDS[:8]]
    scope = [(d, p) for d, p in small_scope(steps, 3) if has_kind(p, ('pred',))]
    rng.shuffle(scope)
    for d, p in scope[:sized(tier, 1500, 30000)]:
        out.append(Q({'doc': d, 'cmds': [('iter', 'doc', p, False, False), ('drain', 0, 40, 1)]}))
    for _ in range(sized(tier, 1500, 20000)):
        d = rand_doc(rng, big=rng.random() < 0.15)
        p = derive_path(rng, d, CHILD + ('rec',), maxextra=1)
        # insert 1-3 user predicates at random positions (also stacked, also at the root)
        for _k in range(rng.choice([1, 1, 2, 3])):
            i = rng.randint(0, len(p))
            r = rng.random()
            if r < 0.6:
                pr = qcase.gen_user(rng)
            elif r < 0.75:
                pr = gens.truthy_pred(rng, d, 0)
            else:
                pr = nested_raiser(rng, d)
            p = p[:i] + [('pred', pr)] + p[i:]
        cmds = [('iter', 'doc', qcase.fix_path(p), False, rng.random() < 0.2), ('drain', 0, 60, 1)]
        if rng.random() < 0.3:
            # a filter that raises ends get / get_match in TraversingError as well, default or not (C03-m11)
            cmds += [('get', 'doc', qcase.fix_path(p), ('const', 'dflt'), False), ('get_match', 'doc', qcase.fix_path(p), False, False)]
        out.append(Q({'doc': d, 'cmds': cmds}))
    # a filter on a candidate that was itself reached by a parent step, followed by another parent step: the filter lets
    # the candidate through unchanged, so q[f].parent climbs from where q.parent climbs (C03-m13)
    for _ in range(sized(tier, 300, 4000)):
        d = rand_doc(rng)
        p = derive_path(rng, d, CHILD + ('rec',), maxextra=0)
        i = rng.randint(1, len(p)) if p else 0
        f = ('pred', qcase.gen_user(rng) if rng.random() < 0.5 else ('user', 'const', 1))
        ins = rng.choice([[('parent',), f, ('parent',)], [('parent',), f, f, ('parent',)], [('parent',), f, ('parent',), ('parent',)],
                          [('parent',), ('parent',), f, ('parent',)]])
        p = qcase.fix_path(p[:i] + ins + p[i:][:1])
        out.append(Q({'doc': d, 'cmds': [('iter', 'doc', p, False, rng.random() < 0.2), ('drain', 0, 40, 1)]}))
    return out


def nested_raiser(rng, doc):
    """a filter enclosing another filter (or a search from the candidate) that raises on some or all nodes:
    the cause chain must carry one link per enclosing filter"""
    inner = rng.choice([('user', 'raise', rng.randint(1, 3)),
                        ('user', 'eq_or_raise', rng.choice(SCALARS_SMALL), rng.randint(1, 3)),
                        ('getmatch', [('key', rng.choice(['a', 'nope', 'b']), 'item')], True)])
    r = rng.random()
    if r < 0.3:
        return ('getmatch', [rng.choice([('key', 'nope', 'item'), ('key', 'a', 'item'), ('wc', False), ('idx', 0)])], True)
    step = rng.choice([('wc', False), ('lwc', False), ('gwc', True, False), ('rec', False)])
    pth = [step, ('pred', inner)] if rng.random() < 0.7 else [('pred', inner)]
    h = ('has', pth, None, None, [], 'has')
    if r < 0.5:
        return h
    if r < 0.65:
        return ('not', h)
    if r < 0.8:
        return ('any', [('user', 'const', 0), h])
    if r < 0.9:
        return ('all', [('user', 'const', 1), h])
    return ('has', [rng.choice([('wc', False), ('lwc', False)]), ('pred', h)], None, None, [], 'has')


SCALARS_SMALL = [0, 1, '', 'a', None, False, True, 2.0]


def nontrivial_calls(case, o):
    return len(scan(o, 'call')) >= 2


def gen_C04(rng, tier):
    out = []
    for _ in range(sized(tier, 3000, 40000)):
        d = rand_doc(rng, big=rng.random() < 0.1)
        p = derive_path(rng, d, CHILD + ('rec',), maxextra=1, perturb=0.05)
        for _k in range(rng.choice([1, 1, 2])):
            i = rng.randint(0, len(p))
            node = d
            r = rng.random()
            if r < 0.45:
                pr = has_for(rng, d)
            elif r < 0.6:
                pr = ('all', [has_for(rng, d) if rng.random() < 0.8 else qcase.gen_user(rng) for _ in range(rng.choice([0, 1, 2, 3]))])
            elif r < 0.75:
                pr = ('any', [has_for(rng, d) if rng.random() < 0.8 else qcase.gen_user(rng) for _ in range(rng.choice([0, 1, 2, 3]))])
            elif r < 0.9:
                pr = ('not', has_for(rng, d) if rng.random() < 0.8 else qcase.gen_pred(rng, 1))
            else:
                pr = qcase.gen_pred(rng, 2)
            p = p[:i] + [('pred', pr)] + p[i:]
        out.append(Q({'doc': d, 'cmds': [('iter', 'doc', qcase.fix_path(p), False, rng.random() < 0.15), ('drain', 0, 60, 1)]}))
    out += existence_cases(rng, sized(tier, 200, 2000))
    return out


def has_for(rng, doc):
    """has(...) over a relative path made of keys/indices that occur in the document, compared with values that
    occur in it, through 0-3 conversion functions"""
    nodes = gens.collect_nodes(doc)
    names = [loc[-1] for loc, _ in nodes if loc] or ['a']
    vals = [v for _, v in nodes if not isinstance(v, (dict, list))] or [0]
    n = rng.choice([1, 1, 2])
    p = []
    for _ in range(n):
        r = rng.random()
        nm = rng.choice(names)
        if r < 0.5:
            p.append(('key', nm, 'item') if isinstance(nm, str) else ('idx', nm))
        elif r < 0.65:
            p.append(rng.choice([('wc', False), ('lwc', False), ('gwc', True, False)]))
        elif r < 0.75:
            p.append(('rec', False))
        elif r < 0.85:
            p.append(('parent',))
        elif r < 0.92:
            p.append(('pred', qcase.gen_user(rng)))
        else:
            p.append(qcase.gen_step(rng, ['slice', 'tuple'], 0))
    p = qcase.fix_path(p)
    op = rng.choice([None, None, None] + qcase.OPS * 2)
    const = None
    if op:
        const = rng.choice(vals) if rng.random() < 0.7 else qcase.gen_const(rng)
    fns = [rng.choice(qcase.FNS) for _ in range(rng.choice([0, 0, 0, 1, 1, 2, 3]))]
    return ('has', p, op, const, fns, rng.choice(['has', 'tuple', 'bare']))


def mcase_loc_to_path(loc):
    return [('key', n, 'item') if isinstance(n, str) else ('idx', n) for n in loc]


def gen_C05(rng, tier):
    out = []
    for _ in range(sized(tier, 1500, 20000)):
        d = rand_doc(rng)
        # salt with falsy values
        p = derive_path(rng, d, CHILD + ('rec', 'pred', 'parent'), maxextra=1, pred_depth=1)
        tr = rng.random() < 0.15
        dv = rng.choice([1, 'dflt', None, 0, [], {}, '', False, 0.0])
        if rng.random() < 0.15:
            strs = [loc for loc, v in qcase.collect_nodes(d) if isinstance(v, str) and v]
            if strs:
                p = mcase_loc_to_path(rng.choice(strs)) + [('idx', rng.choice([0, -1]))]
        cmds = []
        src = 'doc'
        if rng.random() < 0.4:
            p0 = derive_path(rng, d, ('key', 'idx', 'wc', 'lwc'), maxextra=0, perturb=0.0)
            cmds.append(('get_match', 'doc', p0, False, False))
            src = ('match', 0)
        cmds += [('iter', src, p, False, tr), ('drain', 0, 30, 1), ('iter', src, p, True, tr), ('drain', 1, 30, 1),
                 ('get_match', src, p, True, tr), ('get_match', src, p, False, tr),
                 ('get', src, p, ('notset',), tr), ('get', src, p, ('const', dv), tr), ('get', src, p, ('call', 9, dv), tr)]
        out.append(Q({'doc': d, 'cmds': cmds}))
    return out


def oracle_C05(case, o):
    """find = data of find_matches; get_match = first; get = its data or the default"""
    errs = []
    drains = scan(o, 'drain')
    if len(drains) != 2:
        return errs
    ms = [x[2][0] for x in drains[0][2]]
    vs = [x[2][0] for x in drains[1][2]]
    if len(ms) != len(vs):
        errs.append("find yields %d items, find_matches %d" % (len(vs), len(ms)))
    for a, b in zip(ms, vs):
        if a[1] == 'result' and b[1] == 'value':
            if a[2][0][2][2] != b[2][0]:
                errs.append("find value differs from find_matches data")
        elif a[1] != b[1] and not (a[1] == 'raise' and b[1] == 'raise'):
            errs.append("find / find_matches outcomes differ: %s vs %s" % (a[1], b[1]))
    first = ms[0] if ms else None
    gms = scan(o, 'get_match')[-2:]
    gets = scan(o, 'get')
    if first and first[1] == 'result':
        for g in gms:
            if g[2][0] != first:
                errs.append("get_match is not the first match of find_matches")
        for g in gets:
            if g[2][0][1] != 'value' or g[2][0][2][0] != first[2][0][2][2]:
                errs.append("get does not return the data of the first match (a present value was replaced?)")
    return errs


def gen_C06(rng, tier):
    out = []
    for _ in range(sized(tier, 1200, 15000)):
        d = rand_doc(rng)
        cmds = [('snap',)]
        its = 0
        prev = None
        for _k in range(rng.choice([1, 2, 3, 5])):
            p = derive_path(rng, d, CHILD + ('rec', 'pred', 'parent'), maxextra=1, pred_depth=2)
            if prev is not None and rng.random() < 0.4:
                p = prev        # the same path object evaluated again: it must select (and call) the same (C06-m5)
            prev = p
            tr = rng.random() < 0.3
            r = rng.random()
            if r < 0.3:
                cmds += [('iter', 'doc', p, rng.random() < 0.5, tr), ('drain', its, rng.choice([1, 3, 40]), 1)]
                its += 1
            elif r < 0.55:
                cmds.append(('get_match', 'doc', p, rng.random() < 0.5, tr))
            else:
                cmds.append(('get', 'doc', p, rng.choice([('notset',), ('const', 0), ('call', 9, None)]), tr))
            cmds.append(('snap',))
        out.append(Q({'doc': d, 'cmds': cmds}))
    # one filtered path object evaluated several times: the same selection, the same calls in the same order (C06-m5)
    for _ in range(sized(tier, 250, 3000)):
        d = rand_doc(rng)
        p = derive_path(rng, d, CHILD + ('rec',), maxextra=1, pred_depth=0)
        i = rng.randint(0, len(p))
        alts = [rng.choice([has_for(rng, d), ('user', 'data'), ('user', 'data_eq', rng.choice(qcase.SCALARS)),
                            ('user', 'eq_or_raise', rng.choice(qcase.SCALARS), rng.randint(1, 3)), ('user', 'const', rng.choice([0, 1]))])
                for _k in range(rng.choice([2, 2, 3]))]
        pr = rng.choice([('any', alts), ('any', alts), ('all', alts), ('not', alts[0])])
        p = qcase.fix_path(p[:i] + [rng.choice([('gwc', True, False), ('rec', False)])] * (1 if rng.random() < 0.5 else 0) + [('pred', pr)] + p[i:])
        cmds = [('snap',)]
        for k in range(rng.choice([2, 3])):
            cmds += [('iter', 'doc', p, False, rng.random() < 0.3), ('drain', k, 40, 1), ('snap',)]
        out.append(Q({'doc': d, 'cmds': cmds}))
    return out


def oracle_C06(case, o):
    snaps = scan(o, 'snap')
    return ["document changed by a read-only call (snapshot %d differs)" % i
            for i, s in enumerate(snaps[1:], 1) if s != snaps[0]]


def gen_C07(rng, tier):
    out = []
    for _ in range(sized(tier, 1500, 20000)):
        d = rand_doc(rng)
        k = rng.choice([1, 2, 2, 3, 4, 5])
        cmds = []
        shared = derive_path(rng, d, CHILD + ('rec', 'pred', 'parent'), maxextra=1, pred_depth=1)
        for i in range(k):
            p = shared if rng.random() < 0.5 else derive_path(rng, d, CHILD + ('rec', 'pred', 'parent'), maxextra=1, pred_depth=1)
            cmds.append(('iter', 'doc', p, rng.random() < 0.3, rng.random() < 0.2))
        sched = [rng.randrange(k) for _ in range(rng.choice([4, 8, 16, 30]))]
        cmds += [('next', i) for i in sched]
        if rng.random() < 0.3:
            # iter(it) - what a for loop or list() calls first - returns the iterator itself and re-arms nothing
            for _j in range(rng.choice([1, 2])):
                cmds.insert(rng.randint(k, len(cmds)), ('reiter', rng.randrange(k)))
        for i in range(k):
            cmds.append(('drain', i, 40, rng.choice([0, 1, 2, 5])))
        if rng.random() < 0.2:
            i = rng.randrange(k)
            cmds += [('reiter', i), ('drain', i, 40, 1)]      # a second for loop over an exhausted iterator yields nothing
        out.append(Q({'doc': d, 'cmds': cmds}))
    for _ in range(sized(tier, 250, 3000)):
        d = rand_doc(rng, big=rng.random() < 0.3)
        sub = qcase.fix_path([rng.choice([('gwc', True, False), ('rec', False), ('wc', False), ('lwc', False)])] +
                             ([('pred', rng.choice([('user', 'data'), ('user', 'data_eq', rng.choice(qcase.SCALARS))]))] if rng.random() < 0.5 else []))
        op = rng.choice([None] + qcase.OPS)
        const = rng.choice(qcase.SCALARS) if op else None
        fns = [rng.choice(qcase.FNS) for _k in range(rng.choice([0, 1, 1, 2]))]
        h = ('has', sub, op, const, fns, 'has')
        pre = derive_path(rng, d, CHILD + ('rec',), maxextra=0, pred_depth=0)[:rng.choice([0, 1, 2])]
        p = qcase.fix_path(pre + [rng.choice([('gwc', True, False), ('rec', False)]), ('pred', h)])
        cmds = [('iter', 'doc', p, False, False), ('next', 0), ('next', 0), ('drain', 0, 30, 1)]
        out.append(Q({'doc': d, 'cmds': cmds}))
    # several live iterators started from ONE Match (nested searches share their source), advanced in turns (C07-m4)
    for _ in range(sized(tier, 300, 4000)):
        d = rand_doc(rng)
        p0 = derive_path(rng, d, ('key', 'idx', 'wc', 'lwc'), maxextra=0, perturb=0.0)
        cmds = [('get_match', 'doc', p0, False, False)]
        k = rng.choice([2, 2, 3])
        shared = derive_path(rng, d, CHILD + ('rec', 'pred', 'parent'), maxextra=1, pred_depth=1)
        shared = qcase.fix_path([qcase.gen_step(rng, ['wc', 'lwc', 'gwc', 'rec'], 0)] + shared[:rng.choice([0, 1, 2])]) if rng.random() < 0.6 else shared
        for i in range(k):
            cmds.append(('iter', ('match', 0), shared, rng.random() < 0.5, False))
        sched = [rng.randrange(k) for _ in range(rng.choice([4, 8, 16]))]
        cmds += [('next', i) for i in sched]
        for i in range(k):
            cmds.append(('drain', i, 40, 1))
        out.append(Q({'doc': d, 'cmds': cmds}))
    # thread schedules by enumeration: every single preemption point of one evaluation, another evaluation of the
    # same path object run there
    for _ in range(sized(tier, 24, 200)):
        dA, dB = rand_doc(rng), rand_doc(rng)
        p = derive_path(rng, dA, CHILD + ('rec', 'pred', 'parent'), maxextra=1, pred_depth=1, perturb=0.0)
        if not has_kind(p, ('pred',)) or rng.random() < 0.5:
            i = rng.randint(0, len(p))
            p = qcase.fix_path(p[:i] + [('pred', rng.choice([('user', 'data'), ('user', 'data'), ('user', 'depth'),
                                                             ('user', 'data_eq', rng.choice(qcase.SCALARS)),
                                                             ('user', 'name_eq', rng.choice(qcase.KEYS + [0, 1]))]))] + p[i:])
        if rng.random() < 0.6:
            # a filter judged on several candidates: wildcard (or descent), then the filter
            p = [rng.choice([('gwc', True, False), ('rec', False)]), ('pred', ('user', 'data'))] + p[-1:]
        out.append({'family': 'p', 'case': {'docA': dA, 'docB': rng.choice([dB, copy.deepcopy(dA)]), 'path': p, 'points': sized(tier, 90, 600)}})
    # first multi-valued step directly on the root: the restart shape
    for _ in range(sized(tier, 300, 3000)):
        d = rand_doc(rng)
        p = [qcase.gen_step(rng, ['wc', 'lwc', 'gwc', 'slice', 'tuple', 'rec'], 0)] + derive_path(rng, d, CHILD, maxextra=1)[:rng.choice([0, 1])]
        out.append(Q({'doc': d, 'cmds': [('iter', 'doc', qcase.fix_path(p), False, rng.random() < 0.3), ('drain', 0, 40, rng.choice([2, 3, 5]))]}))
    # one path object evaluated hundreds of times, most evaluations left unfinished (direct oracle, no model)
    out += [{'family': 'f', 'case': {'finding': 'REUSE', 'seed': rng.randrange(1 << 30), 'n': 400}} for _ in range(sized(tier, 6, 40))]
    return out


def oracle_C07(case, o):
    """once StopIteration, always StopIteration (per iterator)"""
    errs = []
    if case['family'] == 'f':
        txt = o[2][0][1] if o[0] == 'N' and o[2] and o[2][0][0] == 'S' else repr(o)
        return [] if str(txt).startswith('ok:') else ["one path object, many evaluations: %s" % (txt,)]
    if case['family'] == 'p':
        if o[2][0][1] != 'ok':
            return ["an evaluation preempted at line event(s) %s of %d by another evaluation of the same path object yields "
                    "something else than alone" % ([x[1] for x in o[2][0][2]], o[2][1][1])]
        return []
    cmds = case['case']['cmds']
    stopped = {}
    idx = 0
    for c, ob in zip(cmds, o[2]):
        if c[0] == 'next':
            outs = [(c[1], ob)]
        elif c[0] == 'drain':
            outs = [(c[1], x) for x in ob[2]] if ob[1] == 'drain' else []
        else:
            continue
        for it, x in outs:
            if x[1] != 'next':
                continue
            oc = x[2][0]
            is_stop = oc[1] == 'raise' and oc[2][0] == ('S', 'StopIteration')
            if stopped.get(it) and not is_stop:
                errs.append("iterator %d yielded %s after StopIteration" % (it, oc[1]))
            if is_stop:
                stopped[it] = True
    return errs


def nontrivial_C07(case, o):
    if case['family'] == 'p':
        return o[2][1][1] >= 30
    if case['family'] == 'f':
        return True
    return sum(1 for c in case['case']['cmds'] if c[0] == 'iter') >= 2 and n_results(o) >= 2


def gen_C11(rng, tier):
    out = []
    for _ in range(sized(tier, 1200, 15000)):
        d = rand_doc(rng)
        if rng.random() < 0.3:
            sub = gens.gen_doc(rng, budget=5, depth=3)
            d = rng.choice([{'a': sub, 'b': copy.deepcopy(sub), 'k': d}, [sub, copy.deepcopy(sub), d]])
        p = derive_path(rng, d, CHILD + ('rec', 'pred'), maxextra=1, pred_depth=1)
        cmds = [('iter', 'doc', p, False, False), ('drain', 0, 8, 0)]
        if rng.random() < 0.25:
            # different chains that spell the same path string: a key containing '.' or '[0]' versus real nesting
            v = rng.choice([1, 0, 'x', None, [1], {'k': 1}])
            d = rng.choice([{'a.b': v, 'a': {'b': copy.deepcopy(v)}}, {'a': [copy.deepcopy(v)], 'a[0]': v},
                            {'a': {'b.k': v, 'b': {'k': copy.deepcopy(v)}}}])
            ps = {0: [[('key', 'a.b', 'item')], [('key', 'a', 'item'), ('key', 'b', 'item')]],
                  1: [[('key', 'a[0]', 'item')], [('key', 'a', 'item'), ('idx', 0)]],
                  2: [[('key', 'a', 'item'), ('key', 'b.k', 'item')], [('key', 'a', 'item'), ('key', 'b', 'item'), ('key', 'k', 'item')]]}
            which = 0 if 'a.b' in d else (1 if 'a[0]' in d else 2)
            cmds = [('get_match', 'doc', ps[which][0], False, False), ('get_match', 'doc', ps[which][1], False, False),
                    ('eq', 0, 1), ('eq', 1, 0), ('describe', 0), ('describe', 1)]
            out.append(Q({'doc': d, 'cmds': cmds}))
            continue
        if rng.random() < 0.12:
            # keys spelled like members of the path builder: Match.path must address them as keys (C11-m6)
            words = ['parent', 'wc', 'rec', 'shape', 'wildcard', 'gwc', 'recursive', 'path', 'generic_wildcard']
            ks = rng.sample(words, rng.choice([2, 3, 4]))
            d = {k: rng.choice([1, 'x', None, [1, {ks[0]: 2}], {ks[-1]: 0, 'a': [3]}]) for k in ks}
            d = json.loads(json.dumps(d))
            p = rng.choice([[('gwc', True, False)], [('rec', False)], [('wc', False)], [('rec', False), ('gwc', True, False)],
                            [('key', ks[0], 'item')], [('tuple', ks[:2])]])
            cmds = [('iter', 'doc', qcase.fix_path(p), False, False), ('drain', 0, 12, 0)]
            for i in range(10):
                cmds += [('describe', i), ('roundtrip', i)]
            out.append(Q({'doc': d, 'cmds': cmds}))
            continue
        if rng.random() < 0.4:
            q = derive_path(rng, d, CHILD + ('rec', 'pred'), maxextra=1, pred_depth=1)
            cmds += [('iter', 'doc', q, False, False), ('drain', 1, 6, 0)]
        if rng.random() < 0.3:
            cmds += [('iter', ('match', 0), derive_path(rng, d, CHILD + ('rec',), maxextra=1)[-2:], False, False), ('drain', len([c for c in cmds if c[0] == 'iter']), 4, 0)]
        n = 14
        for i in range(n):
            cmds += [('describe', i), ('roundtrip', i)]
        pairs = [(i, j) for i in range(8) for j in range(8)]
        rng.shuffle(pairs)
        cmds += [('eq', i, j) for i, j in pairs[:16]]
        out.append(Q({'doc': d, 'cmds': cmds}))
    return out


def oracle_C11(case, o):
    """path_match_list starts at the root; path_as_str = '$' + segments; round trip finds the same object"""
    errs = []
    descs = {}
    cmds = case['case']['cmds']
    for c, ob in zip(cmds, o[2]):
        if c[0] == 'describe' and ob[1] == 'match':
            descs[c[1]] = ob
            pml = ob[2][3][2]
            if not pml or pml[0][2][0] != ('S', '$'):
                errs.append("path_match_list does not start at the root")
            if ob[2][0][1] != "".join(e[2][0][1] for e in pml):
                errs.append("path_as_str is not the concatenation of the chain's segments")
            if pml and (pml[-1][2][1] != ob[2][1] or pml[-1][2][2] != ob[2][2]):
                errs.append("last element of path_match_list is not the match itself")
        if c[0] == 'roundtrip' and ob[1] == 'roundtrip' and c[1] in descs:
            d = descs[c[1]]
            r = ob[2][0]
            if r[1] != 'result':
                errs.append("get_match(m.path, document) did not find the location again: %s" % (otree_to_json(r),))
            elif r[2][0][2][2] != d[2][2]:
                errs.append("get_match(m.path, document) holds a different object")
    return errs


def gen_C12(rng, tier):
    out = []
    for _ in range(sized(tier, 1500, 20000)):
        d = rand_doc(rng)
        p = derive_path(rng, d, CHILD + ('rec', 'pred', 'parent'), maxextra=1, pred_depth=1)
        while p and p[-1][0] == 'rec':
            p = p[:-1]
        q = derive_path(rng, d, CHILD + ('rec', 'pred', 'parent'), maxextra=1, pred_depth=1)
        if rng.random() < 0.5:
            q = q[-rng.choice([1, 2, 3]):]
        if rng.random() < 0.3:
            q = [('parent',)] * rng.choice([1, 2]) + q
        q = qcase.fix_path(q)
        if q and q[0][0] == 'rec' and p and p[-1][0] == 'rec':
            q = q[1:]
        K = 6
        cmds = [('iter', 'doc', p, False, False), ('iter', 'doc', qcase.fix_path(p + q), False, False, False), ('drain', 0, K, 0)]
        for i in range(K):
            cmds += [('iter', ('match', i), q, False, False, False), ('drain', i + 2, 40, 0)]
        cmds += [('drain', 1, 40 * K, 0)]
        # the other three functions from the same matches
        for i in range(3):
            cmds += [('iter', ('match', i), q, True, False, False), ('drain', K + 2 + i, 40, 0),
                     ('get_match', ('match', i), q, False, False), ('get', ('match', i), q, ('const', 'dflt'), False)]
        out.append(Q({'doc': d, 'cmds': cmds, 'pq': True}))
    return out


def oracle_C12(case, o):
    drains = scan(o, 'drain')
    first = drains[0]
    np_ = sum(1 for x in first[2] if x[2][0][1] == 'result')
    complete = first[2] and first[2][-1][2][0][1] == 'raise'          # p was exhausted within K
    if not complete or len(drains) < 2:
        return []
    nested = []
    for dnode in drains[1:-1][:np_]:
        for x in dnode[2]:
            oc = x[2][0]
            if oc[1] == 'result':
                nested.append(oc)
            elif oc[2][0] != ('S', 'StopIteration'):
                return []                                              # an exception: compared by the correspondence only
    whole = []
    for x in drains[1 + min(np_, 6)][2] if len(drains) > 1 + min(np_, 6) else []:
        oc = x[2][0]
        if oc[1] == 'result':
            whole.append(oc)
        elif oc[2][0] != ('S', 'StopIteration'):
            return []
    if nested != whole:
        return ["searching q from the matches of p gives %d results, p+q gives %d (or different ones)" % (len(nested), len(whole))]
    return []


def gen_C13(rng, tier):
    out = []
    for _ in range(sized(tier, 2000, 25000)):
        d = rand_doc(rng, big=rng.random() < 0.1)
        p = derive_path(rng, d, CHILD + ('rec', 'pred', 'parent'), maxextra=0, pred_depth=1, perturb=0.05)
        # sprinkle parent steps: consecutive climbs, climb-descend-climb
        for _k in range(rng.choice([1, 2, 3, 4])):
            i = rng.randint(0, len(p))
            ins = rng.choice([[('parent',)], [('parent',)], [('parent',), ('parent',)],
                              [('parent',), qcase.gen_step(rng, ['key', 'idx', 'wc', 'lwc', 'gwc'], 0), ('parent',)],
                              [('parent',), ('pred', ('user', 'const', 1)), ('parent',)],
                              [('parent',), ('rec', False), ('parent',)]])
            p = p[:i] + ins + p[i:]
        p = qcase.fix_path(p)
        cmds = [('iter', 'doc', p, False, rng.random() < 0.15), ('drain', 0, 40, 1)]
        if rng.random() < 0.3:
            q = qcase.fix_path([('parent',)] * rng.choice([1, 2, 3]) + derive_path(rng, d, CHILD, maxextra=0)[:1])
            cmds += [('iter', ('match', 0), q, False, False), ('drain', 1, 20, 0), ('describe', 0), ('describe', 1)]
            # the value-returning find, get and get_match climb out of the Match they start from as well (C13-m4)
            cmds += [('iter', ('match', 0), q, True, False), ('drain', 2, 20, 0),
                     ('get', ('match', 0), q, ('const', 'dflt'), False), ('get_match', ('match', 0), q, False, False)]
        out.append(Q({'doc': d, 'cmds': cmds}))
    return out


def nontrivial_parent(case, o):
    p = case['case']['cmds'][0][2]
    return sum(1 for s in p if s[0] == 'parent') >= 2 and n_results(o) >= 1


def percent_keys(rng, cases):
    """in one case out of five the key 'zz' is spelled with percent signs everywhere (document, paths, values):
    exception texts are built from keys and values, and must render whatever they contain (C16-m11)"""
    def ren(x, new):
        if isinstance(x, dict):
            return {(new if k == 'zz' else k): ren(v, new) for k, v in x.items()}
        if isinstance(x, list):
            return [ren(v, new) for v in x]
        if isinstance(x, tuple):
            return tuple(ren(v, new) for v in x)
        if x == 'zz' and isinstance(x, str):
            return new
        return x
    out = []
    for c in cases:
        if rng.random() < 0.2:
            c = {'family': c['family'], 'case': ren(c['case'], rng.choice(['100%', '%s', 'a%d%%', '%(k)s']))}
        out.append(c)
    return out


def gen_C16q(rng, tier):
    """malformed stream for the read-only functions: paths drawn independently of the document"""
    out = []
    for _ in range(sized(tier, 1500, 20000)):
        d = rng.choice([rand_doc(rng), rng.choice(SMALL_DOCS)])
        p = qcase.gen_path(rng, qcase.FULL, maxlen=4, depth=2)
        src = 'doc'
        cmds = []
        if rng.random() < 0.3:
            cmds.append(('get_match', 'doc', derive_path(rng, d, CHILD, maxextra=0, perturb=0), False, False))
            src = ('match', 0)
        cmds += [('get', src, p, ('notset',), False), ('get_match', src, p, True, False), ('get_match', src, p, False, False),
                 ('iter', src, p, True, False), ('drain', 0, 5, 0), ('iter', src, p, False, False), ('drain', 1, 5, 0)]
        out.append(Q({'doc': d, 'cmds': cmds}))
    return out


ALLOWED_EXN = {'MatchNotFoundError', 'NestedMatchNotFoundError', 'SetError', 'PopError', 'InfiniteLoopDetected',
               'StopIteration', 'PathSyntaxError'}


def leaks(o):
    errs = []
    for r in scan(o, 'raise'):
        e = r[2][0]
        if e[0] == 'S' and e[1] not in ALLOWED_EXN:
            errs.append("undocumented exception escaped: %s" % e[1])
        if e[0] == 'N' and e[1] == 'Boom':
            errs.append("a user exception escaped unwrapped")
    return errs


def oracle_C16(case, o):
    return leaks(o)


def existence_cases(rng, n):
    """existence filters has(path.k) / has(path[i]) (no comparison) over candidates whose member k is present with a
    falsy value (None, 0, False, '', [], {}), present with a truthy one, or absent; evaluated untraced and traced:
    presence is what counts, and tracing changes nothing (C17-m13: a shortcut for has(path.key) used only when nobody
    is tracing, which took a null member for an absent one)"""
    out = []
    falsy = [None, None, 0, False, '', [], {}, 0.0]
    for _ in range(n):
        k = rng.choice(['a', 'k', 'x-y'])
        cands = []
        for _c in range(rng.choice([2, 3, 4])):
            c = {'n': len(cands)}
            r = rng.random()
            if r < 0.55:
                c[k] = copy.deepcopy(rng.choice(falsy))
            elif r < 0.8:
                c[k] = rng.choice([1, 'a', [0], {'k': None}])
            cands.append(c if rng.random() < 0.85 else rng.choice([[None], [], None, 0]))
        d = cands if rng.random() < 0.5 else {('m%d' % i): c for i, c in enumerate(cands)}
        step = rng.choice([('key', k, 'item'), ('key', k, 'item'), ('idx', 0)])
        h = ('has', [step], None, None, [], rng.choice(['has', 'has', 'tuple', 'bare']))
        pr = rng.choice([h, h, ('not', h), ('any', [h]), ('all', [h, ('user', 'const', 1)])])
        p = qcase.fix_path([rng.choice([('wc', False), ('lwc', False), ('gwc', True, False), ('rec', False)]), ('pred', pr)]
                           + rng.choice([[], [('key', 'n', 'item')]]))
        vals = rng.random() < 0.3
        out.append(Q({'doc': d, 'cmds': [('iter', 'doc', p, vals, False), ('drain', 0, 30, 1),
                                         ('iter', 'doc', p, vals, True), ('drain', 1, 30, 1)]}))
    return out


def gen_C17(rng, tier):
    out = []
    for _ in range(sized(tier, 2000, 25000)):
        d = rand_doc(rng)
        p = derive_path(rng, d, CHILD + ('rec', 'pred', 'parent'), maxextra=1, pred_depth=2)
        r = rng.random()
        if r < 0.6:
            vals = rng.random() < 0.3
            cmds = [('iter', 'doc', p, vals, False), ('drain', 0, 50, 1), ('iter', 'doc', p, vals, True), ('drain', 1, 50, 1)]
        elif r < 0.8:
            if rng.random() < 0.25:
                strs = [loc for loc, v in qcase.collect_nodes(d) if isinstance(v, str) and v]
                if strs:
                    p = mcase_loc_to_path(rng.choice(strs)) + [('idx', rng.choice([0, -1]))]
            cmds = [('get_match', 'doc', p, False, False), ('get_match', 'doc', p, False, True),
                    ('get', 'doc', p, ('const', 0), False), ('get', 'doc', p, ('const', 0), True)]
        else:
            p0 = derive_path(rng, d, CHILD, maxextra=0, perturb=0)
            vals = rng.random() < 0.5
            cmds = [('get_match', 'doc', p0, False, False),
                    ('iter', ('match', 0), p, vals, False), ('drain', 0, 30, 1), ('iter', ('match', 0), p, vals, True), ('drain', 1, 30, 1)]
        out.append(Q({'doc': d, 'cmds': cmds}))
    # the library's own tracer: log_to(lines.append) against the model of trace._log (Builder.v log_line)
    out += [{'family': 'b', 'case': bcase.gen_bcase(rng, log=True)} for _ in range(sized(tier, 300, 4000))]
    out += existence_cases(rng, sized(tier, 200, 2000))
    # custom predicates searching on from the Match of their first get_match (direct oracle, no model)
    out += [{'family': 'f', 'case': {'finding': 'TWOHOP', 'seed': rng.randrange(1 << 30)}} for _ in range(sized(tier, 150, 1500))]
    return out


def strip_events(t):
    if t[0] != 'N':
        return t
    return ('N', t[1], [strip_events(x) for x in t[2] if not (x[0] == 'N' and x[1] == 'events')])


def only_traces_removed(ev_untraced, ev_traced):
    a = [x for x in ev_traced[2] if x[1] != 'trace']
    return a == ev_untraced[2]


def oracle_C17(case, o):
    errs = []
    if case['family'] == 'f':
        txt = o[2][0][1] if o[0] == 'N' and o[2] and o[2][0][0] == 'S' else repr(o)
        return [] if str(txt).startswith('ok:') else ["two-hop custom predicate: %s" % (txt,)]
    if case['family'] != 'q':
        return errs
    cmds = case['case']['cmds']
    drains = scan(o, 'drain')
    if len(drains) == 2:
        a, b = drains
        if strip_events(a) != strip_events(b):
            errs.append("tracing changed the results or the exceptions")
        plen = len(cmds[-2][2]) if cmds[-2][0] == 'iter' else None
        # events at the last step, outside filters, with a next_match <-> results, in order
        if plen:
            for x in b[2]:
                evs = [e for e in x[2][1][2] if e[1] == 'trace']
                hits = [e for e in evs if e[2][3][1] == 'none' and e[2][2] == ('Z', plen) and e[2][1][1] == 'some']
                oc = x[2][0]
                want = 1 if oc[1] in ('result', 'value') else 0
                if len(hits) != want:
                    errs.append("%d successful last-step events for %d results in one next()" % (len(hits), want))
                elif want and oc[1] == 'result' and hits[0][2][1][2][0] != oc[2][0]:
                    errs.append("the successful last-step event does not carry the yielded match")
    else:
        gm = scan(o, 'get_match')
        if len(gm) == 2 and strip_events(gm[0]) != strip_events(gm[1]):
            errs.append("tracing changed the result of get_match")
        g = scan(o, 'get')
        if len(g) == 2 and strip_events(g[0]) != strip_events(g[1]):
            errs.append("tracing changed the result of get")
    return errs


def nontrivial_trace(case, o):
    if case['family'] == 'b':
        return any(len(x[2]) >= 3 for x in scan(o, 'lines'))
    return len(scan(o, 'trace')) >= 3 and n_results(o) >= 1


def gen_C20(rng, tier):
    out = [{'family': 'c', 'case': ccase.gen_ccase(rng)} for _ in range(sized(tier, 8, 60))]
    out.append({'family': 'f', 'case': {'finding': 'MANY', 'n': 400000}})
    for _ in range(sized(tier, 1500, 20000)):
        d = rand_doc(rng, big=rng.random() < 0.3)
        p = derive_path(rng, d, CHILD + ('rec', 'parent'), maxextra=2, pred_depth=1)
        r = rng.random()
        if r < 0.2:
            p = qcase.fix_path(p + [('pred', ('user', 'const', rng.choice([0, 1])))])
        elif r < 0.5:
            i = rng.randint(0, len(p))
            alts = [has_for(rng, d) if rng.random() < 0.8 else ('user', 'const', rng.choice([0, 1])) for _ in range(rng.choice([1, 2, 3]))]
            pr = rng.choice([('any', alts), ('all', alts), ('not', alts[0]), alts[0]])
            p = qcase.fix_path(p[:i] + [('pred', pr)] + p[i:])
        out.append(Q({'doc': d, 'cmds': [('iter', 'doc', p, False, True), ('drain', 0, 400, 2)]}))
    return out


def oracle_C20(case, o):
    """the run stops, and after it has stopped nothing more is attempted (no re-scan, no restart)"""
    errs = []
    drains = scan(o, 'drain')
    if not drains:
        return errs
    xs = drains[0][2]
    stops = [i for i, x in enumerate(xs) if x[2][0][1] == 'raise' and x[2][0][2][0] == ('S', 'StopIteration')]
    if stops:
        for x in xs[stops[0] + 1:]:
            if [e for e in x[2][1][2] if e[1] == 'trace']:
                errs.append("match attempts after the traversal had stopped")
    return errs


# ----------------------------------------------------------------------------- generators (mutation family)
def shadow_step(shadow, op):
    import importlib
    return shadow


def gen_mut(kinds):
    def g(rng, tier):
        out = []
        for _ in range(sized(tier, 1500, 20000)):
            out.append(M(mcase.gen_mcase(rng, kinds, run_impl=_shadow)))
        return out
    return g


_shadow = mcase.shadow_step


def snaps_m(o):
    return [o[2][0]] + [x[2][1] for x in o[2][1:]]


def oracle_unchanged_on(tags, errors):
    """the document is unchanged after an operation of kind `tags` that raised one of `errors`"""
    def orc(case, o):
        errs = []
        sn = snaps_m(o)
        for i, x in enumerate(o[2][1:]):
            r = x[2][0]
            if r[1] in tags and r[2] and r[2][0][1] == 'raise':
                e = r[2][0][2][0]
                name = e[1]
                if name in errors and sn[i + 1] != sn[i]:
                    op = case['case']['ops'][i]
                    if op[0] == 'set' and op[3]:
                        continue        # cascade: C09 only promises that nothing pre-existing is altered
                    errs.append("%s raised %s but the document changed" % (r[1], name))
        return errs
    return orc


def oracle_C08(case, o):
    return oracle_unchanged_on(('set',), ('SetError',))(case, o) + leaks(o)


def oracle_C10(case, o):
    return oracle_unchanged_on(('pop', 'pop_match'), ('MatchNotFoundError', 'PopError'))(case, o) + leaks(o)


def embeds(old, new):
    """old snapshot embeds in new: same labelled node at every old location, old key order a prefix-subsequence"""
    if old[1] in ('list', 'dict') and (new[1] != old[1] or new[2][0] != old[2][0]):
        return False
    if old[1] == 'list':
        if len(new[2]) < len(old[2]):
            return False
        return all(embeds(a, b) for a, b in zip(old[2][1:], new[2][1:]))
    if old[1] == 'dict':
        if len(new[2]) < len(old[2]):
            return False
        for a, b in zip(old[2][1:], new[2][1:]):
            if a[2][0] != b[2][0] or not embeds(a[2][1], b[2][1]):
                return False
        return True
    return old == new


def oracle_C09(case, o):
    errs = []
    sn = snaps_m(o)
    for i, x in enumerate(o[2][1:]):
        r = x[2][0]
        op = case['case']['ops'][i]
        cascade = (op[0] == 'set' and op[3]) or op[0] == 'getstore'
        if cascade and r[2] and r[2][0][1] == 'raise' and r[2][0][2][0] == ('S', 'SetError'):
            if not embeds(sn[i], sn[i + 1]):
                errs.append("cascade failed with SetError but a pre-existing node was altered, moved or removed")
    return errs + leaks(o)


def nontrivial_m(tags):
    def nt(case, o):
        ok = 0
        for x in o[2][1:]:
            r = x[2][0]
            if r[1] in tags and r[2] and r[2][0][1] != 'raise':
                ok += 1
        return ok >= 1 and len(o[2]) >= 3
    return nt


# ----------------------------------------------------------------------------- registry
def theorems(*names):
    return list(names)


REGISTRY = {
    'C01': dict(level='proof', gen=gen_C01, nontrivial=nontrivial_multi,
                rule="small scope: SMALL_DOCS x child-step paths of length <= 2 (thorough: 3); random: paths derived from "
                     "the document (each level spelled by a step selecting it: exact, negative, slice, tuple, wildcards), "
                     "perturbed; non-trivial = at least one multi-valued step and >= 2 results",
                obligations=[]),
    'C02': dict(level='proof', gen=gen_C02, nontrivial=nontrivial_multi,
                rule="paths with >= 1 recursive step in any position; also acyclic heaps in which one container object occurs in "
                     "several places, run to the end; non-trivial = >= 2 results", obligations=[]),
    'C03': dict(level='proof', gen=gen_C03, nontrivial=nontrivial_calls,
                rule="filters with user predicates (constants of every truthiness, data-dependent, raising) at the root, after "
                     "wildcard/rec/slice, stacked, between parent steps; non-trivial = predicate called >= 2 times", obligations=[]),
    'C04': dict(level='proof', gen=gen_C04, nontrivial=lambda c, o: n_results(o) >= 1 and len(scan(o, 'callf')) + len(scan(o, 'call')) >= 1,
                rule="has/has_all/has_any/has_not over relative paths built from the document's own names, six operators, "
                     "constants from the document, 0-3 conversion functions, raising arguments; all spellings; non-trivial = "
                     ">= 1 result and >= 1 logged call", obligations=[]),
    'C05': dict(level='proof', gen=gen_C05, oracle=oracle_C05, nontrivial=lambda c, o: n_results(o) >= 2,
                rule="find_matches, find, get_match(must T/F), get(no default / constant / callable) on the same (path, source), "
                     "source in {document, Match}; non-trivial = >= 1 match", obligations=[]),
    'C06': dict(level='proof', gen=gen_C06, oracle=oracle_C06, nontrivial=lambda c, o: len(scan(o, 'snap')) >= 3,
                rule="sequences of 1-5 read-only calls with a deep snapshot (identities, order, values) after each", obligations=[]),
    'C07': dict(level='proof', gen=gen_C07, oracle=oracle_C07, nontrivial=nontrivial_C07,
                rule="1-5 live iterators advanced by a random schedule, then drained with 0-5 extra next(); plus the "
                     "'first multi-valued step on the root' shape; plus the preemption sweep (family p) and the REUSE direct oracle (one path "
                     "object evaluated 1 200 times, most evaluations left unfinished); non-trivial = >= 2 iterators and >= 2 results", obligations=[]),
    'C11': dict(level='proof', gen=gen_C11, oracle=oracle_C11, nontrivial=lambda c, o: len(scan(o, 'match')) >= 2,
                rule="every match of 1-3 queries: metadata, round trip through m.path, == / != on pairs; documents with "
                     "duplicated subtrees; non-trivial = >= 2 matches described", obligations=[]),
    'C12': dict(level='proof', gen=gen_C12, oracle=oracle_C12, nontrivial=lambda c, o: n_results(o) >= 3,
                rule="p derived from the document, q over the full grammar incl. leading parent steps; q from each of the "
                     "first 6 matches of p versus p+q from the root; non-trivial = >= 3 results in total", obligations=[]),
    'C13': dict(level='proof', gen=gen_C13, nontrivial=nontrivial_parent,
                rule="1-4 inserted parent patterns (double climb, climb-descend-climb, climb-filter-climb, climb-rec-climb), "
                     "also from a Match; non-trivial = >= 2 parent steps and >= 1 result", obligations=[]),
    'C17': dict(level='proof', gen=gen_C17, oracle=oracle_C17, nontrivial=nontrivial_trace,
                rule="the same query traced and untraced (iterators, get_match, get, from a Match); non-trivial = >= 3 trace "
                     "events and >= 1 result; plus builder histories drained under the library's own tracer "
                     "log_to(lines.append), the lines compared with the model of trace._log (repr quoting, escaping, "
                     "20-character cut, vertex segments); existence filters over falsy members traced and untraced; the TWOHOP direct oracle "
                     "(custom predicates searching on from the Match of their first get_match)", obligations=[]),
    'C20': dict(level='proof', gen=gen_C20,
                oracle=lambda c, o: oracle_C20(c, o) if c['family'] == 'q' else
                ([] if c['family'] != 'f' or o == ('N', 'f', [('S', 'results:400000,400000')]) else
                 ["a finite document with 400 000 results was not traversed to the end: %r" % (o,)]),
                nontrivial=lambda c, o: len(scan(o, 'trace')) >= 5 or c['family'] in ('c', 'f'),
                rule="traced drains on documents up to 60 nodes (has-family filters included); cyclic dict/list structures of "
                     "2-6 nodes with recursive paths with and without reachable matches, find and find_matches, 1-3 next() calls "
                     "each against the real 1 000 000-action budget under a watchdog; non-trivial = >= 5 match attempts, or a "
                     "cyclic case", obligations=[]),
    'C08': dict(level='proof', gen=gen_mut(('set', 'set', 'set', 'pop')), oracle=oracle_C08, nontrivial=nontrivial_m(('set',)),
                rule="histories of 1-12 set_/set_match calls (plus some pops) on one evolving document; targets derived from "
                     "the current document: existing slots, new keys, append position, out-of-range/negative indices, wrong "
                     "kinds, fancy parents (wildcard/rec/filter/parent), odd leaves; non-trivial = >= 1 successful assignment", obligations=[]),
    'C09': dict(level='proof', gen=gen_mut(('cascade', 'cascade', 'cascade', 'set', 'pop')), oracle=oracle_C09, nontrivial=nontrivial_m(('set', 'getstore')),
                rule="histories of cascading assignments and get(store_default=True) with 0-3 missing levels", obligations=[]),
    'C10': dict(level='proof', gen=gen_mut(('pop', 'pop', 'pop', 'set')), oracle=oracle_C10, nontrivial=nontrivial_m(('pop', 'pop_match')),
                rule="histories of pops (and some sets): every last-step kind, negative indices, defaults", obligations=[]),
    'C14': dict(level='proof', gen=gen_mut(('match', 'match', 'match', 'set', 'pop')), oracle=lambda c, o: leaks_C14(o), nontrivial=nontrivial_m(('assign', 'del', 'mpop')),
                rule="histories of m.data = v / del m.data / m.pop(default) on held matches obtained directly, through "
                     "wildcards, recursion, filters; interleaved with sets and pops", obligations=[]),
    'C16': dict(level='proof', gen=lambda rng, tier: percent_keys(rng, gen_C16q(rng, tier) + gen_mut(('set', 'cascade', 'pop'))(rng, 'quick' if tier == 'quick' else 'thorough')[:sized(tier, 800, 8000)])
                + [{'family': 'b', 'case': bcase.gen_bcase(rng)} for _ in range(sized(tier, 300, 3000))],
                oracle=lambda c, o: leaks(o), nontrivial=lambda c, o: len(scan(o, 'raise')) >= 2,
                rule="malformed stream: paths drawn independently of the document over the full grammar x every API function x "
                     "sources; plus mutation histories; plus builder histories with unsupported index types (float, None, "
                     "dict, list), the reserved attribute name and successive recursive steps (PathSyntaxError at "
                     "construction); non-trivial = >= 2 exceptions observed", obligations=[]),
}


def gen_C19(rng, tier):
    return [{'family': 'l', 'case': lcase.gen_lcase(rng)} for _ in range(sized(tier, 2500, 30000))]


def nontrivial_C19(case, o):
    ks = [op[0] for op in case['case']['ops']]
    return len(case['case']['items']) >= 2 and any(k in ('keep', 'remove') for k in ks)


REGISTRY['C19'] = dict(level='proof', gen=gen_C19, nontrivial=nontrivial_C19,
                       rule="histories of 1-12 view operations (len, get/set/del with indices in -n-2..n+2, in, append, pop, iter, "
                            "keep_all/remove_all with predicates keeping none/some/all, equal-but-distinct elements 1/True/1.0) through "
                            "a held view or a freshly read one, custom converters or Document-typed elements; the document's list is "
                            "checked by identity label after each step; non-trivial = >= 2 initial elements and a keep_all/remove_all",
                       obligations=[])


def gen_C15(rng, tier):
    return [{'family': 'b', 'case': bcase.gen_bcase(rng)} for _ in range(sized(tier, 2000, 25000))]


def oracle_C15(case, o):
    """an expression never changes its rendering once it exists"""
    errs = []
    seen = {}
    for x in o[2]:
        st = x[2][1][2]
        for i, sx in enumerate(st):
            if i in seen and seen[i] != sx:
                errs.append("expression %d rendered %r earlier and %r now" % (i, seen[i][1], sx[1]))
            seen[i] = sx
    return errs


REGISTRY['C15'] = dict(level='proof', gen=gen_C15, oracle=oracle_C15,
                       nontrivial=lambda c, o: len(scan(o, 'result')) >= 1 and len(c['case']['ops']) >= 5,
                       rule="derivation DAGs: expressions derived from shared prefixes (path and pathd roots, attribute vs item keys "
                            "with dashed / underscored names, every step kind and spelling), interleaved with evaluations; str() and "
                            "repr() of every live expression after every operation, results of the evaluated ones; non-trivial = >= 5 "
                            "operations and >= 1 result",
                       obligations=[])


def gen_C18(rng, tier):
    return [{'family': 'd', 'case': dcase.gen_dcase(rng)} for _ in range(sized(tier, 2000, 25000))]


REGISTRY['C18'] = dict(level='proof', gen=gen_C18,
                       nontrivial=lambda c, o: len(c['case']['ops']) >= 3 and len(scan(o, 'ok')) + len(scan(o, 'got')) >= 2,
                       rule="random declarations (attr with default or explicit path, identity or tagging converters, names that "
                            "are builder properties such as parent/wc/rec; attr_typed over existing containers with inner "
                            "attributes; attr_iter_typed over wildcard paths; deprecated pprop/mprop) x histories of reads, writes, "
                            "deletes, class-level access, operations through nested typed instances; the model performs the "
                            "equivalent get / set_ / pop / find on a twin document; non-trivial = >= 3 operations, >= 2 succeeding",
                       obligations=[])


def leaks_C14(o):
    # m.data = v on a list index that disappeared raises IndexError (outside the property's statement, DESIGN 7.4)
    return [e for e in leaks(o) if 'IndexError' not in e and 'AttributeError' not in e and 'TypeError' not in e]


# ----------------------------------------------------------------------------- running a property
def load_corpus(prop):
    d = os.path.join(ROOT, "corpus", prop)
    out = []
    if os.path.isdir(d):
        for f in sorted(os.listdir(d)):
            if f.endswith(".json"):
                out.append(json.load(open(os.path.join(d, f))))
    return out


def case_key(c):
    return hashlib.sha1(json.dumps(c, sort_keys=True, default=str).encode()).hexdigest()


def compare_cases(cases, obs):
    """correspondence for a mixed list of cases; returns [(index, model obs | text)] and errors"""
    mism, errors = [], []
    for fam, f in FAMILIES.items():
        idx = [i for i, c in enumerate(cases) if c['family'] == fam and not isinstance(obs[i], dict)]
        if not idx:
            continue
        tms = [f['printer'](cases[i]['case']) for i in idx]
        m, details, errs = coqrun.compare(tms, [obs[i] for i in idx], f['run_fn'], f['case_type'], extra_imports=f['imports'],
                                          shard=f.get('shard', 40))
        errors += errs
        for k in m:
            mism.append((idx[k], details.get(k)))
    return mism, errors


def run_property(prop, spec, tier, rng, res, build_ok):
    import check
    corpus = load_corpus(prop)
    cases = corpus + spec['gen'](rng, tier)
    obs = check.run_impl(cases, timeout=600 if tier == 'quick' else 3000)
    nontriv = set()
    evals = len(cases)
    oracle = spec.get('oracle')
    viol = []
    for i, (c, o) in enumerate(zip(cases, obs)):
        if isinstance(o, dict):
            viol.append((i, "the implementation did not answer: " + o['error'][:300], None))
            continue
        try:
            if spec['nontrivial'](c, o):
                nontriv.add(case_key(c))
        except Exception:
            pass
        if oracle:
            for e in oracle(c, o)[:1]:
                viol.append((i, "direct oracle: " + e, None))
    corr_errors = []
    if build_ok:
        mism, corr_errors = compare_cases(cases, obs)
        for i, model in mism:
            d = otree_diff(obs[i], model) if isinstance(model, tuple) else str(model)[:400]
            viol.append((i, "model and implementation disagree (impl vs model): %s" % d, model))
        for e in corr_errors[:3]:
            res.notes.append("correspondence error: " + e[:600])
    seen = set()
    for i, why, model in viol:
        if i in seen or len(seen) >= 5:
            continue
        seen.add(i)
        case = shrink(cases[i], obs[i], why, build_ok) if model is not None else cases[i]
        payload = {"property": prop, "why": why, "family": case['family'], "case": case['case'],
                   "impl_observation": otree_to_json(obs[i]) if not isinstance(obs[i], dict) else obs[i],
                   "model_observation": otree_to_json(model) if isinstance(model, tuple) else model,
                   "replay": "bin/check %s --replay <this file>" % prop}
        path = check.write_replay(res, "case", payload)
        res.violations.append((why, path, False))
    if corr_errors and not viol:
        path = check.write_replay(res, "corr", {"property": prop, "no_failing_input_found": True, "errors": corr_errors[:5]})
        res.violations.append(("the correspondence could not be evaluated", path, True))
    samples = [cases[i]['case'] for i in range(0, len(cases), max(1, len(cases) // 3))][:3]
    stats = {}
    for c in cases:
        stats[c['family']] = stats.get(c['family'], 0) + 1
    return {"evaluations": evals, "distinct_nontrivial": len(nontriv), "rule": spec['rule'], "samples": samples,
            "traces_validated_against_impl": evals - len([o for o in obs if isinstance(o, dict)]),
            "families": stats, "corpus_cases": len(corpus),
            "disagreements": len([v for v in viol if v[2] is not None]),
            "outcome_distribution": distribution(obs)}


def distribution(obs):
    d = {}
    for o in obs:
        if isinstance(o, dict):
            d['no-answer'] = d.get('no-answer', 0) + 1
            continue
        for r in scan(o, 'raise'):
            e = r[2][0]
            k = "raise:" + (e[1] if e[0] in 'SN' else '?')
            d[k] = d.get(k, 0) + 1
        for t in ('result', 'value', 'trace', 'call', 'callf'):
            n = len(scan(o, t))
            if n:
                d[t] = d.get(t, 0) + n
    return d


# ----------------------------------------------------------------------------- shrinking
def shrink(case, ob, why, build_ok, rounds=8):
    """greedy: drop commands / operations / path steps / document members while model and implementation still disagree"""
    if not build_ok or os.environ.get("VERIF_NO_SHRINK"):
        return case
    import check
    cur = case
    for _ in range(rounds):
        cands = list(candidates(cur))[:60]
        if not cands:
            break
        try:
            obs = check.run_impl(cands, timeout=120)
            ok = [i for i, o in enumerate(obs) if not isinstance(o, dict)]
            mism, _ = compare_cases([cands[i] for i in ok], [obs[i] for i in ok])
        except Exception:  # a malformed candidate: keep what we have
            break
        if not mism:
            break
        cur = cands[ok[mism[0][0]]]
    return cur


def candidates(case):
    fam, c = case['family'], case['case']
    key = 'cmds' if fam == 'q' else 'ops'
    seq = c[key]
    for i in reversed(range(len(seq))):
        if fam == 'q' and seq[i][0] == 'iter':
            continue
        n = copy.deepcopy(c)
        del n[key][i]
        yield {'family': fam, 'case': n}
    for i, cmd in enumerate(seq if fam in ('q', 'm') else []):
        for j, a in enumerate(cmd):
            if isinstance(a, list) and a and isinstance(a[0], (list, tuple)):
                for k in range(len(a)):
                    n = copy.deepcopy(c)
                    n[key][i] = list(n[key][i])
                    n[key][i][j] = a[:k] + a[k + 1:]
                    yield {'family': fam, 'case': n}
    dkey = 'doc' if 'doc' in c else ('items' if 'items' in c else None)
    if dkey is None:
        return
    d = c[dkey]
    if isinstance(d, dict):
        for k in list(d.keys()):
            n = copy.deepcopy(c)
            del n[dkey][k]
            yield {'family': fam, 'case': n}
            if isinstance(d[k], (dict, list)):
                n = copy.deepcopy(c)
                n[dkey] = n[dkey][k]
                yield {'family': fam, 'case': n}
    elif isinstance(d, list):
        for k in range(len(d)):
            n = copy.deepcopy(c)
            del n[dkey][k]
            yield {'family': fam, 'case': n}
            if isinstance(d[k], (dict, list)):
                n = copy.deepcopy(c)
                n[dkey] = n[dkey][k]
                yield {'family': fam, 'case': n}


def replay(prop, path):
    import check
    payload = json.load(open(path))
    case = {'family': payload['family'], 'case': payload['case']}
    obs = check.run_impl([case])
    mism, errs = compare_cases([case], obs)
    print(json.dumps(otree_to_json(obs[0]) if not isinstance(obs[0], dict) else obs[0])[:3000])
    spec = REGISTRY[prop]
    fails = []
    if spec.get('oracle') and not isinstance(obs[0], dict):
        fails = spec['oracle'](case, obs[0])
    if mism or fails or isinstance(obs[0], dict):
        print("still fails:", fails or "model and implementation disagree")
        print("VIOLATION property=%s replay=%s" % (prop, path))
        return 1
    print("does not fail on the current tree")
    return 0


NOT_BUILT = {
}
for _pid, _spec in REGISTRY.items():
    _spec['level'] = 'proof' if _spec.get('obligations') else 'exploration'


def _load_obligations():
    """obligations of a property = the theorems of coq/Properties/<id>.v; clauses the file declares as
    UNDISCHARGED (resting on the correspondence only) are reported in the evidence"""
    import re
    for pid, spec in REGISTRY.items():
        f = os.path.join(ROOT, "coq", "Properties", pid + ".v")
        if not os.path.exists(f):
            continue
        src = open(f).read()
        und = re.findall(r"UNDISCHARGED:\s*(.*?)\*\)", src, flags=re.S)
        src_nc = re.sub(r"\(\*.*?\*\)", "", src, flags=re.S)
        spec['obligations'] = re.findall(r"^\s*(?:Theorem|Corollary)\s+(\w+)", src_nc, flags=re.M)
        spec['undischarged_note'] = [" ".join(u.split()) for u in und]
        spec['level'] = 'proof' if spec['obligations'] else 'exploration'


_load_obligations()
