(* PyPrim.v -- the Python primitives the library stands on, as total functions (DESIGN.md 3.1).
   Model file: definitions only.  Validated against CPython by harness/pyprim_check.py on every run. *)
From Coq Require Import List ZArith String Bool Ascii.
From TP Require Import Json.
Import ListNotations.
Open Scope list_scope.
Open Scope Z_scope.

(* Exceptions.  ETraversing carries its __cause__.  EFuel is the model's own out-of-fuel value: no Python
   counterpart, excluded by hypothesis in every theorem. *)
Inductive exn :=
| EKey | EIndex | EType | EAttr | EValue | EUser (n : nat)
| EMatchNotFound | ENestedMatchNotFound | ESet | EPop | EInfiniteLoop | EStop | EPathSyntax
| ETraversing (cause : exn)
| EFuel.

Inductive res (A : Type) := Ok (a : A) | Exn (e : exn).
Arguments Ok {A} a.
Arguments Exn {A} e.

Definition bind {A B} (r : res A) (f : A -> res B) : res B :=
  match r with Ok a => f a | Exn e => Exn e end.

(* ---------------------------------------------------------------- dicts (association lists, unique keys) *)
Fixpoint assoc {A} (k : string) (l : list (string * A)) : option A :=
  match l with [] => None | (k', v) :: r => if String.eqb k k' then Some v else assoc k r end.

Definition dict_get {A} (l : list (string * A)) (k : string) : res A :=
  match assoc k l with Some v => Ok v | None => Exn EKey end.

(* d[k] = v : overwrite keeps the key's position, a new key goes last *)
Fixpoint dict_set {A} (l : list (string * A)) (k : string) (v : A) : list (string * A) :=
  match l with
  | [] => [(k, v)]
  | (k', v') :: r => if String.eqb k k' then (k', v) :: r else (k', v') :: dict_set r k v
  end.

Fixpoint dict_remove {A} (l : list (string * A)) (k : string) : list (string * A) :=
  match l with
  | [] => []
  | (k', v') :: r => if String.eqb k k' then r else (k', v') :: dict_remove r k
  end.

(* d.pop(k) *)
Definition dict_pop {A} (l : list (string * A)) (k : string) : res (A * list (string * A)) :=
  match assoc k l with Some v => Ok (v, dict_remove l k) | None => Exn EKey end.

(* ---------------------------------------------------------------- lists *)
Definition zlen {A} (l : list A) : Z := Z.of_nat (List.length l).

(* Python index normalisation: 0 <= i < n, or -n <= i < 0 *)
Definition norm_index (n i : Z) : option nat :=
  if (0 <=? i) && (i <? n) then Some (Z.to_nat i)
  else if (i <? 0) && (0 <=? i + n) then Some (Z.to_nat (i + n))
  else None.

Definition list_get {A} (l : list A) (i : Z) : res A :=
  match norm_index (zlen l) i with
  | Some k => match nth_error l k with Some v => Ok v | None => Exn EIndex end
  | None => Exn EIndex
  end.

Fixpoint set_nth {A} (l : list A) (k : nat) (v : A) : list A :=
  match l, k with
  | [], _ => []
  | _ :: r, O => v :: r
  | x :: r, S k' => x :: set_nth r k' v
  end.

Fixpoint del_nth {A} (l : list A) (k : nat) : list A :=
  match l, k with
  | [], _ => []
  | _ :: r, O => r
  | x :: r, S k' => x :: del_nth r k'
  end.

Definition list_set {A} (l : list A) (i : Z) (v : A) : res (list A) :=
  match norm_index (zlen l) i with
  | Some k => Ok (set_nth l k v)
  | None => Exn EIndex
  end.

Definition list_del {A} (l : list A) (i : Z) : res (list A) :=
  match norm_index (zlen l) i with
  | Some k => Ok (del_nth l k)
  | None => Exn EIndex
  end.

(* l.pop(i) *)
Definition list_pop {A} (l : list A) (i : Z) : res (A * list A) :=
  match norm_index (zlen l) i with
  | Some k => match nth_error l k with Some v => Ok (v, del_nth l k) | None => Exn EIndex end
  | None => Exn EIndex
  end.

Definition list_append {A} (l : list A) (v : A) : list A := l ++ [v].

(* enumerate(l) *)
Fixpoint enum_from {A} (i : Z) (l : list A) : list (Z * A) :=
  match l with [] => [] | x :: r => (i, x) :: enum_from (i + 1) r end.
Definition enumerate {A} (l : list A) := enum_from 0 l.

(* ---------------------------------------------------------------- slices: slice(start, stop, step).indices(n) *)
Definition clampz (lo hi x : Z) : Z := if x <? lo then lo else if hi <? x then hi else x.

(* CPython PySlice_AdjustIndices; step <> 0 *)
Definition slice_indices (start stop : option Z) (step n : Z) : Z * Z :=
  if 0 <? step then
    let s := match start with None => 0 | Some a => if a <? 0 then Z.max (a + n) 0 else Z.min a n end in
    let e := match stop with None => n | Some b => if b <? 0 then Z.max (b + n) 0 else Z.min b n end in
    (s, e)
  else
    let s := match start with None => n - 1 | Some a => if a <? 0 then Z.max (a + n) (-1) else Z.min a (n - 1) end in
    let e := match stop with None => -1 | Some b => if b <? 0 then Z.max (b + n) (-1) else Z.min b (n - 1) end in
    (s, e).

(* len(range(start, stop, step)) *)
Definition range_len (start stop step : Z) : nat :=
  if 0 <? step then
    if start <? stop then Z.to_nat ((stop - start - 1) / step + 1) else O
  else
    if stop <? start then Z.to_nat ((start - stop - 1) / (- step) + 1) else O.

Definition range_list (start stop step : Z) : list Z :=
  map (fun k => start + Z.of_nat k * step) (seq 0 (range_len start stop step)).

(* utils/function.py enumerate_slice: pairs of (index, item); step = None means 1; step = 0 raises ValueError *)
Definition enumerate_slice {A} (a b c : option Z) (l : list A) : res (list (Z * A)) :=
  let step := match c with None => 1 | Some s => s end in
  if step =? 0 then Exn EValue else
  let '(s, e) := slice_indices a b step (zlen l) in
  Ok (flat_map (fun i => match nth_error l (Z.to_nat i) with Some v => [(i, v)] | None => [] end)
               (range_list s e step)).

(* ---------------------------------------------------------------- truthiness, ==, ordering *)
Definition truthy (v : json) : bool :=
  match v with
  | JNull => false
  | JBool b => b
  | JInt z => negb (z =? 0)
  | JFloat h => negb (h =? 0)
  | JStr s => negb (String.eqb s EmptyString)
  | JList _ l => match l with [] => false | _ => true end
  | JDict _ l => match l with [] => false | _ => true end
  end.

(* numeric tower bool < int < float, everything in halves *)
Definition num_val (v : json) : option Z :=
  match v with
  | JBool b => Some (if b then 2 else 0)
  | JInt z => Some (2 * z)
  | JFloat h => Some h
  | _ => None
  end.

Fixpoint py_eq (a b : json) : bool :=
  match num_val a, num_val b with
  | Some x, Some y => x =? y
  | _, _ =>
    match a, b with
    | JNull, JNull => true
    | JStr s, JStr t => String.eqb s t
    | JList _ l, JList _ m =>
        (fix go (l m : list json) : bool :=
           match l, m with
           | [], [] => true
           | x :: l', y :: m' => py_eq x y && go l' m'
           | _, _ => false
           end) l m
    | JDict _ l, JDict _ m =>
        Nat.eqb (List.length l) (List.length m) &&
        (fix go (l : list (string * json)) : bool :=
           match l with
           | [] => true
           | (k, x) :: l' => match assoc k m with Some y => py_eq x y | None => false end && go l'
           end) l
    | _, _ => false
    end
  end.

Inductive cmpop := OEq | ONe | OLt | OLe | OGt | OGe.

Definition cmp_z (op : cmpop) (x y : Z) : bool :=
  match op with
  | OEq => x =? y | ONe => negb (x =? y)
  | OLt => x <? y | OLe => x <=? y | OGt => y <? x | OGe => y <=? x
  end.

Definition cmp_of_comparison (op : cmpop) (c : comparison) : bool :=
  match op, c with
  | OEq, Eq => true | OEq, _ => false
  | ONe, Eq => false | ONe, _ => true
  | OLt, Lt => true | OLt, _ => false
  | OLe, Gt => false | OLe, _ => true
  | OGt, Gt => true | OGt, _ => false
  | OGe, Lt => false | OGe, _ => true
  end.

(* left <op> right for the four ordering operators; == and != never raise *)
Fixpoint py_order (op : cmpop) (a b : json) : res bool :=
  match num_val a, num_val b with
  | Some x, Some y => Ok (cmp_z op x y)
  | _, _ =>
    match a, b with
    | JStr s, JStr t => Ok (cmp_of_comparison op (String.compare s t))
    | JList _ l, JList _ m =>
        (* first differing position decides; otherwise the lengths *)
        (fix go (l m : list json) : res bool :=
           match l, m with
           | x :: l', y :: m' => if py_eq x y then go l' m' else py_order op x y
           | _, _ => Ok (cmp_z op (zlen l) (zlen m))
           end) l m
    | _, _ => Exn EType
    end
  end.

Definition py_cmp (op : cmpop) (a b : json) : res bool :=
  match op with
  | OEq => Ok (py_eq a b)
  | ONe => Ok (negb (py_eq a b))
  | _ => py_order op a b
  end.

(* json_value in data  (list membership, == based) *)
Definition py_in (v : json) (l : list json) : bool := existsb (fun x => py_eq x v) l.
