(* Builder.v -- path expressions as values: builder/path_builder.py, dash_path_builder.py and the rendering
   of vertices (path_segment / path).  An expression is a builder flavour (plain or dash) and the steps it was
   built by; extending an expression yields a new value.  Model file: definitions only. *)
From Coq Require Import List ZArith String Bool Ascii PArith.
From TP Require Import Json PyPrim Machine Api Obs Dsl Run.
Import ListNotations.
Open Scope string_scope.
Open Scope list_scope.

Inductive bstep :=
| BAttr (raw : string)                 (* path.raw : attribute access (the dash builder rewrites _ to -) *)
| BItem (k : string)                   (* path['k'] : item keys are never rewritten *)
| BIdx (i : Z)
| BSlice (a b c : option Z)
| BTuple (l : list name)
| BWc | BLwc | BGwc (dot : bool)       (* wc = wildcard, gwc = generic_wildcard: the same symbols *)
| BRec | BParent
| BPred (tag : nat) (rep : string) (f : jctx -> res json).    (* a user predicate whose repr() is rep *)

Definition dash_char (c : ascii) : ascii := if Ascii.eqb c "_"%char then "-"%char else c.
Fixpoint dash_name (s : string) : string :=
  match s with EmptyString => EmptyString | String c r => String (dash_char c) (dash_name r) end.

Record expr := { e_dash : bool; e_steps : list bstep }.

Definition key_of (dash : bool) (raw : string) : string := if dash then dash_name raw else raw.

Definition to_vertex (dash : bool) (s : bstep) : jvertex :=
  match s with
  | BAttr raw => VKey (key_of dash raw)
  | BItem k => VKey k
  | BIdx i => VIdx i
  | BSlice a b c => VSlice a b c
  | BTuple l => VTuple l
  | BWc => VKeyWild | BLwc => VIdxWild | BGwc d => VGenWild d
  | BRec => VRec | BParent => VParent
  | BPred tag _ f => VPred (HUser tag f)
  end.

Definition compile (e : expr) : jpath := map (to_vertex (e_dash e)) (e_steps e).

(* ---- rendering: Vertex.path = ''.join(path_segment) (RecursiveVertex.path appends one more '.') *)
Definition py_repr_name (n : name) : string :=
  match n with NStr s => "'" ++ s ++ "'" | NInt z => string_of_Z z end.

Definition opt_slice_part (o : option Z) : string :=
  match o with None => "" | Some z => if Z.eqb z 0 then "" else string_of_Z z end.

Definition segment (dash : bool) (s : bstep) : string :=
  match s with
  | BAttr raw => "." ++ key_of dash raw
  | BItem k => "." ++ k
  | BIdx i => "[" ++ string_of_Z i ++ "]"
  | BSlice a b c =>
      match c with
      | None => "[" ++ opt_slice_part a ++ ":" ++ opt_slice_part b ++ "]"
      | Some z => if Z.eqb z 0 then "[" ++ opt_slice_part a ++ ":" ++ opt_slice_part b ++ "]"
                  else "[" ++ opt_slice_part a ++ ":" ++ opt_slice_part b ++ ":" ++ string_of_Z z ++ "]"
      end
  | BTuple l => "[" ++ String.concat ", " (map py_repr_name l) ++ "]"
  | BWc => ".*" | BLwc => "[*]"
  | BGwc d => if d then ".*" else "[*]"
  | BRec => "."
  | BParent => ".parent"
  | BPred _ rep _ =>
      match rep with
      | String "("%char _ => "[?" ++ rep ++ "]"
      | _ => "[?(" ++ rep ++ ")]"
      end
  end.

Definition ends_with_rec (l : list bstep) : bool :=
  match List.last (map Some l) None with Some BRec => true | _ => false end.

Definition render (e : expr) : string :=
  "$" ++ String.concat "" (map (segment (e_dash e)) (e_steps e)) ++ (if ends_with_rec (e_steps e) then "." else "").

(* two adjacent recursive steps are rejected when the second one is built (PathSyntaxError) *)
Definition extend (e : expr) (s : bstep) : res expr :=
  match s with
  | BRec => if ends_with_rec (e_steps e) then Exn EPathSyntax else Ok {| e_dash := e_dash e; e_steps := e_steps e ++ [s] |}
  | _ => Ok {| e_dash := e_dash e; e_steps := e_steps e ++ [s] |}
  end.

(* ---- histories: a family of live expressions over one document *)
Inductive bop :=
| BNew (dash : bool)                 (* exprs.append(path) / exprs.append(pathd) *)
| BExt (i : nat) (s : bstep)         (* exprs.append(exprs[i] extended by s) *)
| BFind (i : nat).                   (* list(find_matches(exprs[i], doc)) *)

Record bcase := { b_doc : json; b_ops : list bop }.

Definition strs (es : list expr) : otree := ON "strs" (map (fun e => OS (render e)) es).

Fixpoint drain_all (fuel : nat) (B : positive) (doc : json) (p : jpath) (z : jstate) : list otree :=
  match fuel with
  | O => [ON "cap" []]
  | S f =>
      match j_next B (SrcDoc doc) p None z with
      | (OResult m, z', _) => ON "result" [mref m] :: drain_all f B doc p z'
      | (ORaise EStop, _, _) => []
      | (ORaise e, _, _) => [ON "raise" [oexn e]]
      end
  end.

Definition run_bop (B : positive) (doc : json) (es : list expr) (o : bop) : otree * list expr :=
  match o with
  | BNew d => let es' := es ++ [{| e_dash := d; e_steps := [] |}] in (ON "op" [ON "new" []; strs es'], es')
  | BExt i s =>
      match nth_error es i with
      | None => (ON "op" [ON "skip" []; strs es], es)
      | Some e =>
          match extend e s with
          | Ok e' => let es' := es ++ [e'] in (ON "op" [ON "ext" []; strs es'], es')
          | Exn x => (ON "op" [ON "raise" [oexn x]; strs es], es)
          end
      end
  | BFind i =>
      match nth_error es i with
      | None => (ON "op" [ON "skip" []; strs es], es)
      | Some e => (ON "op" [ON "find" (drain_all 200 B doc (compile e) init_state); strs es], es)
      end
  end.

Fixpoint run_bops (B : positive) (doc : json) (es : list expr) (os : list bop) : list otree :=
  match os with
  | [] => []
  | o :: r => let '(ob, es') := run_bop B doc es o in ob :: run_bops B doc es' r
  end.

Definition run_bcase (B : positive) (c : bcase) : otree := ON "b" (run_bops B (b_doc c) [] (b_ops c)).
