(* Builder.v -- path expressions as values: builder/path_builder.py, dash_path_builder.py and the rendering
   of vertices (path_segment / path).  An expression is a builder flavour (plain or dash) and the steps it was
   built by; extending an expression yields a new value.  Model file: definitions only. *)
From Coq Require Import List ZArith String Bool Ascii PArith.
From TP Require Import Json PyPrim Machine Api Obs Dsl Run.
Import ListNotations.
Open Scope string_scope.
Open Scope list_scope.

Inductive bstep :=
| BAttr (raw : string)                 (* path.raw : attribute access (the dash builder rewrites _ to -) *)
| BItem (k : string)                   (* path['k'] : item keys are never rewritten *)
| BIdx (i : Z)
| BSlice (a b c : option Z)
| BTuple (l : list name)
| BWc | BLwc | BGwc (dot : bool)       (* wc = wildcard, gwc = generic_wildcard: the same symbols *)
| BRec | BParent
| BPred (tag : nat) (rep : string) (f : jctx -> res json)     (* a user predicate whose repr() is rep *)
| BBadIdx.                             (* path[1.5], path[None], path[{}]: unsupported index types *)

Definition dash_char (c : ascii) : ascii := if Ascii.eqb c "_"%char then "-"%char else c.
Fixpoint dash_name (s : string) : string :=
  match s with EmptyString => EmptyString | String c r => String (dash_char c) (dash_name r) end.

Record expr := { e_dash : bool; e_steps : list bstep }.

Definition key_of (dash : bool) (raw : string) : string := if dash then dash_name raw else raw.

Definition to_vertex (dash : bool) (s : bstep) : jvertex :=
  match s with
  | BAttr raw => VKey (key_of dash raw)
  | BItem k => VKey k
  | BIdx i => VIdx i
  | BSlice a b c => VSlice a b c
  | BTuple l => VTuple l
  | BWc => VKeyWild | BLwc => VIdxWild | BGwc d => VGenWild d
  | BRec => VRec | BParent => VParent
  | BPred tag _ f => VPred (HUser tag f)
  | BBadIdx => VKey ""          (* never part of an expression: extend rejects it *)
  end.

Definition compile (e : expr) : jpath := map (to_vertex (e_dash e)) (e_steps e).

(* ---- rendering: Vertex.path = ''.join(path_segment) (RecursiveVertex.path appends one more '.') *)
Definition str_mem (c : ascii) (s : string) : bool :=
  (fix go (s : string) : bool := match s with EmptyString => false | String d r => Ascii.eqb c d || go r end) s.

Fixpoint escape (q : ascii) (s : string) : string :=
  match s with
  | EmptyString => EmptyString
  | String c r =>
      if Ascii.eqb c "\"%char then String "\"%char (String "\"%char (escape q r))
      else if Ascii.eqb c q then String "\"%char (String c (escape q r))
      else String c (escape q r)
  end.

(* repr(str): single quotes, unless the text has a single quote and no double quote *)
Definition py_repr_str (s : string) : string :=
  if str_mem "'"%char s && negb (str_mem """"%char s)
  then """" ++ escape """"%char s ++ """"
  else "'" ++ escape "'"%char s ++ "'".

Definition py_repr_name (n : name) : string :=
  match n with NStr s => py_repr_str s | NInt z => string_of_Z z end.

Definition opt_slice_part (o : option Z) : string :=
  match o with None => "" | Some z => if Z.eqb z 0 then "" else string_of_Z z end.

Definition segment (dash : bool) (s : bstep) : string :=
  match s with
  | BAttr raw => "." ++ key_of dash raw
  | BItem k => "." ++ k
  | BIdx i => "[" ++ string_of_Z i ++ "]"
  | BSlice a b c =>
      match c with
      | None => "[" ++ opt_slice_part a ++ ":" ++ opt_slice_part b ++ "]"
      | Some z => if Z.eqb z 0 then "[" ++ opt_slice_part a ++ ":" ++ opt_slice_part b ++ "]"
                  else "[" ++ opt_slice_part a ++ ":" ++ opt_slice_part b ++ ":" ++ string_of_Z z ++ "]"
      end
  | BTuple l => "[" ++ String.concat ", " (map py_repr_name l) ++ "]"
  | BWc => ".*" | BLwc => "[*]"
  | BGwc d => if d then ".*" else "[*]"
  | BRec => "."
  | BParent => ".parent"
  | BPred _ rep _ =>
      match rep with
      | String "("%char _ => "[?" ++ rep ++ "]"
      | _ => "[?(" ++ rep ++ ")]"
      end
  | BBadIdx => "?"
  end.

Definition ends_with_rec (l : list bstep) : bool :=
  match List.last (map Some l) None with Some BRec => true | _ => false end.

Definition render (e : expr) : string :=
  "$" ++ String.concat "" (map (segment (e_dash e)) (e_steps e)) ++ (if ends_with_rec (e_steps e) then "." else "").

(* two adjacent recursive steps are rejected when the second one is built (PathSyntaxError) *)
Definition extend (e : expr) (s : bstep) : res expr :=
  match s with
  | BRec => if ends_with_rec (e_steps e) then Exn EPathSyntax else Ok {| e_dash := e_dash e; e_steps := e_steps e ++ [s] |}
  | BBadIdx => Exn EPathSyntax                                       (* Unsupported indices *)
  | BAttr raw => if String.eqb raw "shape" then Exn EPathSyntax      (* the attribute name shape is reserved *)
                 else Ok {| e_dash := e_dash e; e_steps := e_steps e ++ [s] |}
  | _ => Ok {| e_dash := e_dash e; e_steps := e_steps e ++ [s] |}
  end.

(* ---- traverser/trace.py: log_to(out) -- the line the library's own tracer writes for a Trace
   (" at <last_match.path_as_str><next_vertex.path_segment> got <repr(next_match.data) cut at 20 chars | no match>");
   the predicate_match rewriting (" at <path>" -> right-justified " has ") only concerns has-family filters,
   which this expression language does not build, and is not modelled *)
(* repr(float) for the halves the generators produce *)
Definition py_repr_half (h : Z) : string :=
  let a := Z.abs h in
  ((if Z.ltb h 0 then "-" else "") ++ string_of_Z (Z.div a 2) ++ (if Z.eqb (Z.modulo a 2) 0 then ".0" else ".5"))%string.

Fixpoint py_repr (d : json) : string :=
  match d with
  | JNull => "None"
  | JBool b => if b then "True" else "False"
  | JInt z => string_of_Z z
  | JFloat h => py_repr_half h
  | JStr s => py_repr_str s
  | JList _ l => "[" ++ String.concat ", " (map py_repr l) ++ "]"
  | JDict _ l => "{" ++ String.concat ", " (map (fun kx => (py_repr_str (fst kx) ++ ": " ++ py_repr (snd kx))%string) l) ++ "}"
  end.

Definition trunc20 (s : string) : string :=
  if Nat.ltb (String.length s) 20 then s else (substring 0 20 s ++ "...")%string.

Definition log_line (e : expr) (ev : @event json) : list string :=
  match ev with
  | EvTrace l n vi _ =>
      let seg := match nth_error (e_steps e) (vi - 1) with Some s => segment (e_dash e) s | None => "?" end in
      [(" at " ++ path_as_str l ++ seg ++ " got " ++
        match n with Some m => trunc20 (py_repr (tdata m)) | None => "no match" end)%string]
  | _ => []
  end.

(* ---- histories: a family of live expressions over one document *)
Inductive bop :=
| BNew (dash : bool)                 (* exprs.append(path) / exprs.append(pathd) *)
| BExt (i : nat) (s : bstep)         (* exprs.append(exprs[i] extended by s) *)
| BFind (i : nat)                    (* list(find_matches(exprs[i], doc)) *)
| BLog (i : nat).                    (* lines = []; list(find_matches(exprs[i], doc, trace=log_to(lines.append))) *)

Record bcase := { b_doc : json; b_ops : list bop }.

Definition strs (es : list expr) : otree := ON "strs" (map (fun e => OS (render e)) es).

Fixpoint drain_all (fuel : nat) (B : positive) (doc : json) (p : jpath) (z : jstate) : list otree :=
  match fuel with
  | O => [ON "cap" []]
  | S f =>
      match j_next B (SrcDoc doc) p None z with
      | (OResult m, z', _) => ON "result" [mref m] :: drain_all f B doc p z'
      | (ORaise EStop, _, _) => []
      | (ORaise e, _, _) => [ON "raise" [oexn e]]
      end
  end.

(* results and the tracer's lines of a traced drain *)
Fixpoint drain_log (fuel : nat) (B : positive) (doc : json) (e : expr) (z : jstate) : list otree * list string :=
  match fuel with
  | O => ([ON "cap" []], [])
  | S f =>
      match j_next B (SrcDoc doc) (compile e) (Some None) z with
      | (OResult m, z', es) =>
          let '(rs, ls) := drain_log f B doc e z' in (ON "result" [mref m] :: rs, flat_map (log_line e) es ++ ls)
      | (ORaise EStop, _, es) => ([], flat_map (log_line e) es)
      | (ORaise x, _, es) => ([ON "raise" [oexn x]], flat_map (log_line e) es)
      end
  end.

Definition run_bop (B : positive) (doc : json) (es : list expr) (o : bop) : otree * list expr :=
  match o with
  | BNew d => let es' := es ++ [{| e_dash := d; e_steps := [] |}] in (ON "op" [ON "new" []; strs es'], es')
  | BExt i s =>
      match nth_error es i with
      | None => (ON "op" [ON "skip" []; strs es], es)
      | Some e =>
          match extend e s with
          | Ok e' => let es' := es ++ [e'] in (ON "op" [ON "ext" []; strs es'], es')
          | Exn x => (ON "op" [ON "raise" [oexn x]; strs es], es)
          end
      end
  | BFind i =>
      match nth_error es i with
      | None => (ON "op" [ON "skip" []; strs es], es)
      | Some e => (ON "op" [ON "find" (drain_all 200 B doc (compile e) init_state); strs es], es)
      end
  | BLog i =>
      match nth_error es i with
      | None => (ON "op" [ON "skip" []; strs es], es)
      | Some e =>
          let '(rs, ls) := drain_log 200 B doc e init_state in
          (ON "op" [ON "log" [ON "lines" (map OS ls); ON "results" rs]; strs es], es)
      end
  end.

Fixpoint run_bops (B : positive) (doc : json) (es : list expr) (os : list bop) : list otree :=
  match os with
  | [] => []
  | o :: r => let '(ob, es') := run_bop B doc es o in ob :: run_bops B doc es' r
  end.

Definition run_bcase (B : positive) (c : bcase) : otree := ON "b" (run_bops B (b_doc c) [] (b_ops c)).
