(* C01 -- child-step selection is exact, ordered and by reference.
   Full statement: for every JSON document, every path of child steps (with slices whose step is not 0) and every
   budget beyond the length of the run, successive next() calls on find_matches deliver exactly the contexts of the
   step-by-step definition `deval` (C01_step_by_step, with one clause per step kind below), in order, one per
   derivation, each holding the very node of the document its chain leads to, then StopIteration. *)
From Coq Require Import List ZArith String Bool PArith.
From TP Require Import Json PyPrim Machine Spec.
From TP.proofs Require Import RefineBase Refine NextLayer Iterate WfRun Query SpecLemmas Top PropLemmas.
Import ListNotations.

Theorem C01_find_matches_exact :
  forall (src : @source json) (vp : list (vertex Empty_set)) (tr : @tracecfg json),
    src_wf src -> valid_path Empty_set vp = true ->
    exists k : nat, forall B fuel, (k < Pos.to_nat B)%nat ->
      (List.length (deval Empty_set sev0 vp (abs (root_match src))) < fuel)%nat ->
      exact_answer Empty_set sev0 src vp (drain Empty_set ev0 src vp tr fuel B init_state).
Proof. exact find_matches_nopred. Qed.
Print Assumptions C01_find_matches_exact.

Theorem C01_step_by_step :
  forall (P : Type) sev (v : vertex P) r c,
    is_child P v = true -> deval P sev (v :: r) c = flat_map (deval P sev r) (select P sev v c).
Proof. exact deval_child_cons. Qed.
Print Assumptions C01_step_by_step.

Theorem C01_wrong_kind_selects_nothing :
  forall (P : Type) sev (v : vertex P) c,
    is_child P v = true -> jshape (cdata c) = SScalar -> select P sev v c = [].
Proof. exact select_scalar. Qed.
Print Assumptions C01_wrong_kind_selects_nothing.

Theorem C01_key_on_list : forall (P : Type) sev k its c, jshape (cdata c) = SList its -> select P sev (VKey k) c = [].
Proof. exact select_key_on_list. Qed.
Print Assumptions C01_key_on_list.

Theorem C01_index_on_dict : forall (P : Type) sev z its c, jshape (cdata c) = SDict its -> select P sev (VIdx z) c = [].
Proof. exact select_idx_on_dict. Qed.
Print Assumptions C01_index_on_dict.

Theorem C01_key : forall (P : Type) sev k its x c,
    jshape (cdata c) = SDict its -> assoc k its = Some x -> select P sev (VKey k) c = [ext c (NStr k) x].
Proof. exact select_key_hit. Qed.
Print Assumptions C01_key.

Theorem C01_index : forall (P : Type) sev z its x c,
    jshape (cdata c) = SList its -> list_get its z = Ok x -> select P sev (VIdx z) c = [ext c (NInt z) x].
Proof. exact select_idx_hit. Qed.
Print Assumptions C01_index.

Theorem C01_key_wildcard : forall (P : Type) sev its c,
    jshape (cdata c) = SDict its ->
    select P sev VKeyWild c = map (fun kx => ext c (NStr (fst kx)) (snd kx)) its.
Proof. exact select_keywild. Qed.
Print Assumptions C01_key_wildcard.

Theorem C01_index_wildcard : forall (P : Type) sev its c,
    jshape (cdata c) = SList its ->
    select P sev VIdxWild c = map (fun ix => ext c (NInt (fst ix)) (snd ix)) (enumerate its).
Proof. exact select_idxwild. Qed.
Print Assumptions C01_index_wildcard.

Theorem C01_generic_wildcard_dict : forall (P : Type) sev dot its c,
    jshape (cdata c) = SDict its ->
    select P sev (VGenWild dot) c = map (fun kx => ext c (NStr (fst kx)) (snd kx)) its.
Proof. exact select_genwild_dict. Qed.
Print Assumptions C01_generic_wildcard_dict.

Theorem C01_generic_wildcard_list : forall (P : Type) sev dot its c,
    jshape (cdata c) = SList its ->
    select P sev (VGenWild dot) c = map (fun ix => ext c (NInt (fst ix)) (snd ix)) (enumerate its).
Proof. exact select_genwild_list. Qed.
Print Assumptions C01_generic_wildcard_list.

Theorem C01_comma_list_on_dict : forall (P : Type) sev l its c,
    jshape (cdata c) = SDict its ->
    select P sev (VTuple l) c =
    flat_map (fun nm => match nm with
                        | NStr k => match assoc k its with Some x => [ext c nm x] | None => [] end
                        | NInt _ => []
                        end) l.
Proof. exact select_tuple_dict. Qed.
Print Assumptions C01_comma_list_on_dict.

Theorem C01_comma_list_on_list : forall (P : Type) sev l its c,
    jshape (cdata c) = SList its ->
    select P sev (VTuple l) c =
    flat_map (fun nm => match nm with
                        | NInt i => match list_get its i with Ok x => [ext c nm x] | Exn _ => [] end
                        | NStr _ => []
                        end) l.
Proof. exact select_tuple_list. Qed.
Print Assumptions C01_comma_list_on_list.

Theorem C01_slice : forall (P : Type) sev a b s its l c,
    jshape (cdata c) = SList its -> enumerate_slice a b s its = Ok l ->
    select P sev (VSlice a b s) c = map (fun ix => ext c (NInt (fst ix)) (snd ix)) l.
Proof. exact select_slice. Qed.
Print Assumptions C01_slice.
