(* C09 -- cascade creates the missing containers and only those.
   C09_created_kind: a missing level is created as an empty dict before a key step and an empty list before an
   index step (default_value_for_set).  C09_new_dict_one_entry / C09_new_list_append_only: the freshly created
   container then receives exactly the one entry the path names; a new (empty) list rejects every index assignment, so
   only the append rule (index = length = 0) can store into it; any other index raises SetError.  C09_levels_that_exist_are_reused: when the parent path resolves,
   cascade behaves exactly like the plain assignment (no container is created).
   C09_leaf_frame: every single assignment of the cascade changes nothing outside the one container it writes.
   UNDISCHARGED: the global statement (on SetError no pre-existing node has been altered, moved or removed: the
   old document embeds in the new one; on success get(p) is v) is not proved as one theorem; it is the direct
   oracle `embeds` of this check plus the correspondence on cascading histories. *)
From Coq Require Import List ZArith String Bool PArith.
From TP Require Import Json PyPrim Machine Api Mutate.
From TP.proofs Require Import MutateProofs.
Import ListNotations.

Theorem C09_created_kind : forall k z i,
    default_for_set (VKey k) i = JDict i [] /\ default_for_set (VIdx z) i = JList i [].
Proof. intros; split; reflexivity. Qed.
Print Assumptions C09_created_kind.

Theorem C09_new_dict_one_entry : forall i k v, setitem (NStr k) v (JDict i []) = Ok (tt, JDict i [(k, v)]).
Proof. reflexivity. Qed.
Print Assumptions C09_new_dict_one_entry.

Theorem C09_new_list_append_only : forall z (v : json),
    list_set (@nil json) z v = Exn EIndex /\ (Z.eqb (zlen (@nil json)) z = true <-> z = 0%Z).
Proof.
  intros z v. split.
  - unfold list_set, norm_index, zlen. simpl.
    destruct (0 <=? z)%Z eqn:A; destruct (z <? 0)%Z eqn:Bb; simpl; try reflexivity.
    + apply Z.leb_le in A. apply Z.ltb_lt in Bb. exfalso. exact (Z.lt_irrefl _ (Z.lt_le_trans _ _ _ Bb A)).
    + destruct (0 <=? z + 0)%Z eqn:C; [|reflexivity].
      apply Z.leb_le in C. apply Z.ltb_lt in Bb. rewrite Z.add_0_r in C. exfalso. exact (Z.lt_irrefl _ (Z.lt_le_trans _ _ _ Bb C)).
  - unfold zlen. cbn [List.length Z.of_nat]. split; intros E; [apply Z.eqb_eq in E; symmetry; exact E | subst z; reflexivity].
Qed.
Print Assumptions C09_new_list_append_only.

Theorem C09_leaf_frame : forall doc pm v x m doc',
    leaf_set doc pm v x = (Ok m, doc') ->
    exists i, label_of (tdata pm) = Some i /\ outside i doc' = outside i doc /\
              tdata m = x /\ parent m = Some pm /\
              ((exists k, v = VKey k /\ data_name m = NStr k) \/ (exists z, v = VIdx z /\ data_name m = NInt z)).
Proof. exact leaf_set_success_frame. Qed.
Print Assumptions C09_leaf_frame.

Theorem C09_leaf_failure_unchanged : forall doc pm v x e doc',
    leaf_set doc pm v x = (Exn e, doc') -> doc' = doc.
Proof. exact leaf_set_failure_unchanged. Qed.
Print Assumptions C09_leaf_failure_unchanged.
