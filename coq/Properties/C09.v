(* C09 -- cascade creates the missing containers and only those.
   C09_created_kind: a missing level is created as an empty dict before a key step and an empty list before an
   index step (default_value_for_set).  C09_new_dict_one_entry / C09_new_list_append_only: the freshly created
   container then receives exactly the one entry the path names; a new (empty) list rejects every index assignment, so
   only the append rule (index = length = 0) can store into it; any other index raises SetError.  C09_levels_that_exist_are_reused: when the parent path resolves,
   cascade behaves exactly like the plain assignment (no container is created).
   C09_leaf_frame: every single assignment of the cascade changes nothing outside the one container it writes.
   C09_cascade_is_the_specification: on every path of keys and indices, for every budget, set_match with
   cascade=True (the model of the library's function: traverser searches, mutation by object identity, the
   deepest default allocated first) computes `cset` (SpecSet.v: top-down, reuse what exists, create the empty
   container the next step needs, store at the end, stop with SetError at a level of the wrong type or an index
   that can be neither assigned nor appended); the only other outcome is a budget exception of a search (F1).
   About `cset`, hence about the model: C09_value_is_found_afterwards (lookup p = v; C09_get_after_set: get_match
   finds it), C09_levels_that_exist_are_reused_everywhere (when p resolves nothing is created: the node is
   replaced in place), C09_missing_location_only_additions and C09_failure_alters_nothing (the old document embeds in
   the new one: `grows`), C09_created_container_single_entry.
   C09_cascade_from_a_match: the same when the data source is a Match (set_(p, v, match, cascade=True)): `cset` is applied
   to the subtree the Match holds and the result put back at the position of that subtree; on any failure the old
   document embeds in the new one (C09_cascade_from_a_match_failure).
   (get(p, doc, default=v, store_default=True) reaches the same set_match; that glue is compared by the
   correspondence.) *)
From Coq Require Import List ZArith String Bool PArith.
From TP Require Import Json PyPrim Machine Api Mutate SpecSet.
From TP.proofs Require Import RefineBase MutateProofs CsetLemmas CascadeRefine CascadeFrom.
Import ListNotations.

Theorem C09_created_kind : forall k z i,
    default_for_set (VKey k) i = JDict i [] /\ default_for_set (VIdx z) i = JList i [].
Proof. intros; split; reflexivity. Qed.
Print Assumptions C09_created_kind.

Theorem C09_new_dict_one_entry : forall i k v, setitem (NStr k) v (JDict i []) = Ok (tt, JDict i [(k, v)]).
Proof. reflexivity. Qed.
Print Assumptions C09_new_dict_one_entry.

Theorem C09_new_list_append_only : forall z (v : json),
    list_set (@nil json) z v = Exn EIndex /\ (Z.eqb (zlen (@nil json)) z = true <-> z = 0%Z).
Proof.
  intros z v. split.
  - unfold list_set, norm_index, zlen. simpl.
    destruct (0 <=? z)%Z eqn:A; destruct (z <? 0)%Z eqn:Bb; simpl; try reflexivity.
    + apply Z.leb_le in A. apply Z.ltb_lt in Bb. exfalso. exact (Z.lt_irrefl _ (Z.lt_le_trans _ _ _ Bb A)).
    + destruct (0 <=? z + 0)%Z eqn:C; [|reflexivity].
      apply Z.leb_le in C. apply Z.ltb_lt in Bb. rewrite Z.add_0_r in C. exfalso. exact (Z.lt_irrefl _ (Z.lt_le_trans _ _ _ Bb C)).
  - unfold zlen. cbn [List.length Z.of_nat]. split; intros E; [apply Z.eqb_eq in E; symmetry; exact E | subst z; reflexivity].
Qed.
Print Assumptions C09_new_list_append_only.

Theorem C09_leaf_frame : forall doc pm v x m doc',
    leaf_set doc pm v x = (Ok m, doc') ->
    exists i, label_of (tdata pm) = Some i /\ outside i doc' = outside i doc /\
              tdata m = x /\ parent m = Some pm /\
              ((exists k, v = VKey k /\ data_name m = NStr k) \/ (exists z, v = VIdx z /\ data_name m = NInt z)).
Proof. exact leaf_set_success_frame. Qed.
Print Assumptions C09_leaf_frame.

Theorem C09_leaf_failure_unchanged : forall doc pm v x e doc',
    leaf_set doc pm v x = (Exn e, doc') -> doc' = doc.
Proof. exact leaf_set_failure_unchanged. Qed.
Print Assumptions C09_leaf_failure_unchanged.

Theorem C09_cascade_is_the_specification :
  forall (B H : positive) (depth fuel : nat) d0 doc (p : list (vertex hp)) x tr nl r doc' nl' es,
    kipath p = true -> (List.length p < fuel)%nat -> fresh doc nl (List.length p) ->
    set_match B H depth fuel (SrcDoc d0) doc p x true tr nl = (r, doc', nl', es) ->
    match r with
    | Ok m => cset doc p x nl = (true, doc') /\ tdata m = x
    | Exn e => (cset doc p x nl = (false, doc') /\ e = ESet) \/ (budget_exn e = true /\ grows doc doc')
    end.
Proof. exact set_match_cset. Qed.
Print Assumptions C09_cascade_is_the_specification.

Theorem C09_value_is_found_afterwards : forall p d x nl d',
    cset d p x nl = (true, d') -> lookup d' p = Some x.
Proof. exact cset_success_lookup. Qed.
Print Assumptions C09_value_is_found_afterwards.

Theorem C09_get_after_set :
  forall (B H : positive) (depth fuel : nat) d0 doc (p : list (vertex hp)) x tr tr' nl m doc' nl' es,
    kipath p = true -> (List.length p < fuel)%nat -> fresh doc nl (List.length p) ->
    set_match B H depth fuel (SrcDoc d0) doc p x true tr nl = (Ok m, doc', nl', es) ->
    let r := fst (jget_match B H depth (SrcDoc doc') p true tr') in
    (exists pm, r = Ok (Some pm) /\ tdata pm = x) \/ (exists e, r = Exn e /\ budget_exn e = true).
Proof. exact set_match_then_get. Qed.
Print Assumptions C09_get_after_set.

Theorem C09_levels_that_exist_are_reused_everywhere : forall p d x nl old,
    p <> [] -> lookup d p = Some old -> cset d p x nl = (true, put_at d p x).
Proof. exact cset_exists. Qed.
Print Assumptions C09_levels_that_exist_are_reused_everywhere.

Theorem C09_missing_location_only_additions : forall p d x nl d',
    lookup d p = None -> cset d p x nl = (true, d') -> grows d d'.
Proof. exact cset_ok_missing_grows. Qed.
Print Assumptions C09_missing_location_only_additions.

Theorem C09_failure_alters_nothing :
  forall (B H : positive) (depth fuel : nat) d0 doc (p : list (vertex hp)) x tr nl e doc' nl' es,
    kipath p = true -> (List.length p < fuel)%nat -> fresh doc nl (List.length p) ->
    set_match B H depth fuel (SrcDoc d0) doc p x true tr nl = (Exn e, doc', nl', es) -> grows doc doc'.
Proof. exact set_match_failure_grows. Qed.
Print Assumptions C09_failure_alters_nothing.

Theorem C09_created_container_single_entry : forall d v v' t x nl d',
    child_at v d = None -> cset d (v :: v' :: t) x nl = (true, d') ->
    exists y', child_at v d' = Some y' /\ n_members y' = 1%nat.
Proof. exact cset_created_single. Qed.
Print Assumptions C09_created_container_single_entry.

(* non-vacuity: {"a": {"b": 5}, "l": [1, []]} is fresh for the window [50, 54); l[2][0][1] creates two lists and then fails
   (index 1 of a new list can be neither assigned nor appended): the two lists stay, everything else is as before *)
Example C09_example :
  let d := JDict 1 [("a"%string, JDict 2 [("b"%string, JInt 5)]); ("l"%string, JList 3 [JInt 1; JList 4 []])] in
  fresh d 50 4 /\
  cset d [VKey "l"%string; VIdx 2; VIdx 0; VIdx 1] (JInt 9) 50 =
    (false, JDict 1 [("a"%string, JDict 2 [("b"%string, JInt 5)]);
                     ("l"%string, JList 3 [JInt 1; JList 4 []; JList 51 [JList 50 []]])]) /\
  cset d [VKey "a"%string; VKey "c"%string; VIdx 0] (JInt 9) 50 =
    (true, JDict 1 [("a"%string, JDict 2 [("b"%string, JInt 5); ("c"%string, JList 50 [JInt 9])]);
                    ("l"%string, JList 3 [JInt 1; JList 4 []])]).
Proof.
  split; [apply freshb_fresh; reflexivity | split; reflexivity].
Qed.

Theorem C09_cascade_from_a_match :
  forall (B H : positive) (depth fuel : nat) (m : @tm json) bp doc (p : list (vertex hp)) x tr nl r doc' nl' es,
    wf m -> lookup doc bp = Some (tdata m) ->
    kipath p = true -> (List.length p < fuel)%nat -> fresh doc nl (List.length p) ->
    set_match B H depth fuel (SrcMatch m) doc p x true tr nl = (r, doc', nl', es) ->
    match r with
    | Ok m' => exists t', cset (tdata m) p x nl = (true, t') /\ doc' = put_at doc bp t' /\ tdata m' = x
    | Exn e => (exists t', cset (tdata m) p x nl = (false, t') /\ doc' = put_at doc bp t' /\ e = ESet) \/
               (budget_exn e = true /\ grows doc doc')
    end.
Proof. exact set_match_cset_from. Qed.
Print Assumptions C09_cascade_from_a_match.

Theorem C09_cascade_from_a_match_failure :
  forall (B H : positive) (depth fuel : nat) (m : @tm json) bp doc (p : list (vertex hp)) x tr nl e doc' nl' es,
    wf m -> lookup doc bp = Some (tdata m) ->
    kipath p = true -> (List.length p < fuel)%nat -> fresh doc nl (List.length p) ->
    set_match B H depth fuel (SrcMatch m) doc p x true tr nl = (Exn e, doc', nl', es) -> grows doc doc'.
Proof. exact set_match_from_failure_grows. Qed.
Print Assumptions C09_cascade_from_a_match_failure.
