(* C05 -- get, get_match and find are projections of find_matches.
   C05_get_match_is_first_next: get_match (from a document or from a Match) is the first next() of the
   iterator of find_matches: its first match, or MatchNotFoundError / NestedMatchNotFoundError, or None when
   must_match is False.  C05_present_value_is_found: if there is a first match, get returns its data whatever
   the value is (None, 0, False, '', [], {}) and whatever the default.  C05_default_*: no match: the constant,
   or the callable's result with the callable invoked exactly once, after the search.
   C05_get_match_for_every_budget: whatever the action budget, get_match returns the first result of the
   specification (a well-formed match), or reports that there is none (MatchNotFoundError /
   NestedMatchNotFoundError / None), or re-raises the filter exception that precedes every result, or dies of a
   budget exception (F1): never a later match, never a wrong 'not found'.
   find = data of find_matches is definitional in the model (one iterator, the observation projects the data):
   it is tied to the code by the correspondence (ValueTraverser / NestedValueTraverser). *)
From Coq Require Import List ZArith String Bool PArith.
From TP Require Import Json PyPrim Machine Api Spec SpecHas.
From TP.proofs Require Import RefineBase Refine NextLayer Iterate WfRun Query SpecLemmas Top HasScan HasLoop HasRefine ApiTop HasLemmas FirstNext.
Import ListNotations.

Theorem C05_get_match_is_first_next : forall B H depth src p must tr,
    @get_match json jshape (fun d => d) B H depth src p must tr =
    match @api_next json jshape (fun d => d) B H depth src p tr init_state with
    | (OResult m, _, es) => (Ok (Some m), es)
    | (ORaise EStop, _, es) => (if must then Exn (not_found src) else Ok None, es)
    | (ORaise e, _, es) => (Exn e, es)
    end.
Proof. exact get_match_first. Qed.
Print Assumptions C05_get_match_is_first_next.

Theorem C05_present_value_is_found : forall B H depth src p dflt tr m es,
    @get_match json jshape (fun d => d) B H depth src p (match dflt with DNotSet => true | _ => false end) tr = (Ok (Some m), es) ->
    @get json jshape (fun d => d) B H depth src p dflt tr = (Ok (GData m), es).
Proof. exact get_found_ignores_default. Qed.
Print Assumptions C05_present_value_is_found.

Theorem C05_default_constant : forall B H depth src p v tr es,
    @get_match json jshape (fun d => d) B H depth src p false tr = (Ok None, es) ->
    @get json jshape (fun d => d) B H depth src p (DConst v) tr = (Ok (GDefault v), es).
Proof. exact get_missing_constant. Qed.
Print Assumptions C05_default_constant.

Theorem C05_default_callable_once : forall B H depth src p tag v tr es,
    @get_match json jshape (fun d => d) B H depth src p false tr = (Ok None, es) ->
    @get json jshape (fun d => d) B H depth src p (DCall tag v) tr = (Ok (GDefault v), es ++ [EvCallF tag JNull]).
Proof. exact get_missing_callable. Qed.
Print Assumptions C05_default_callable_once.

Theorem C05_must_match_never_none : forall B H depth src p tr r es,
    @get_match json jshape (fun d => d) B H depth src p true tr = (r, es) -> r <> Ok None.
Proof. exact get_match_must. Qed.
Print Assumptions C05_must_match_never_none.

Theorem C05_iterator : forall B H depth (src : @source json) (vp : list (vertex (@hpred json))) (tr : @tracecfg json),
    src_wf src ->
    exists k : nat, forall fuel, (k < Pos.to_nat B)%nat ->
      (List.length (sresults (fst (answer (@hpred json) (seval_h depth) src vp tr))) < fuel)%nat ->
      let d := drain (@hpred json) (@eval_h json jshape (fun d => d) B H depth) src vp tr fuel B init_state in
      complete (@hpred json) (seval_h depth) src vp tr d \/
      sound_prefix (@hpred json) (@eval_h json jshape (fun d => d) B H depth) (seval_h depth) src vp tr d.
Proof. exact api_iterator. Qed.
Print Assumptions C05_iterator.

Theorem C05_get_match_for_every_budget :
  forall (B H : positive) (depth : nat) (src : @source json) (p : list (vertex (@hpred json))) (must : bool)
         (tr : @tracecfg json),
    src_wf src ->
    let r := fst (@get_match json jshape (fun d => d) B H depth src p must tr) in
    let ans := answer (@hpred json) (seval_h depth) src p tr in
    (exists m, r = Ok (Some m) /\ wf m /\ hd_error (sresults (fst ans)) = Some (abs m)) \/
    (r = (if must then Exn (not_found src) else Ok None) /\ sresults (fst ans) = [] /\ snd ans = None) \/
    (exists e, snd ans = Some e /\ sresults (fst ans) = [] /\
               r = match e with EStop => if must then Exn (not_found src) else Ok None | _ => Exn e end) \/
    (exists e, r = Exn e /\ budget_exn e = true).
Proof. exact get_match_spec. Qed.
Print Assumptions C05_get_match_for_every_budget.
