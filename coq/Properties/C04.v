(* C04 -- has, has_all, has_any, has_not: existential tests and boolean algebra.
   C04_has_exists: has(p) holds at a node iff p, evaluated relative to it, selects at least one value.
   C04_has_is_first_success: has(p <op> v, f1..fn) is the loop "for x in selection order: if test(x): True",
   stopping at the first success; the test applies the functions right to left (C04_functions_right_to_left)
   and then the comparison; an exception of a function, of the comparison or of the nested search surfaces.
   C04_all_* / C04_any_* / C04_not: left-to-right short-circuit and / or / not, has_all() true, has_any() false.
   C04_machine: the implementation's closures (nested traversers driven by next() with their budgets) compute
   exactly this at every nesting depth, or end in a budget exception (has_refine). *)
From Coq Require Import List ZArith String Bool PArith.
From TP Require Import Json PyPrim Machine Api Spec SpecHas SpecSet.
From TP.proofs Require Import RefineBase Refine NextLayer Iterate WfRun Query SpecLemmas Top HasScan HasLoop HasRefine ApiTop HasLemmas HasPresence.
Import ListNotations.

Theorem C04_machine : forall B H n h (m : jtm) tr, wf m ->
    agrees tr (@eval_h json jshape (fun d => d) B H n h m tr) (seval_h n h (abs m)) \/
    budget_fail (@eval_h json jshape (fun d => d) B H n h m tr).
Proof. exact has_refine. Qed.
Print Assumptions C04_machine.

Theorem C04_has_exists : forall n p c,
    let R := sem (@hpred json) (seval_h n) 0 p (Some c) c in
    fst (seval_h (S n) (HHas p None []) c) =
    match sresults (fst R) with [] => fin_of (snd R) | _ :: _ => Ok (JBool true) end.
Proof. exact has_exists. Qed.
Print Assumptions C04_has_exists.

Theorem C04_has_is_first_success : forall n p op fs c,
    let R := sem (@hpred json) (seval_h n) 0 p (Some c) c in
    fst (seval_h (S n) (HHas p op fs) c) =
    first_success (shas_test op fs) (map cdata (sresults (fst R))) (fin_of (snd R)).
Proof. exact has_is_first_success. Qed.
Print Assumptions C04_has_is_first_success.

Theorem C04_functions_right_to_left : forall tag1 f1 tag2 f2 x y z,
    f2 x = Ok y -> f1 y = Ok z -> fst (sapply_fns (rev [(tag1, f1); (tag2, f2)]) x) = Ok z.
Proof. exact sapply_fns_order. Qed.
Print Assumptions C04_functions_right_to_left.

Theorem C04_all_empty : forall n c, seval_h (S n) (HAll []) c = (Ok (JBool true), []).
Proof. exact has_all_nil. Qed.
Print Assumptions C04_all_empty.

Theorem C04_any_empty : forall n c, seval_h (S n) (HAny []) c = (Ok (JBool false), []).
Proof. exact has_any_nil. Qed.
Print Assumptions C04_any_empty.

Theorem C04_all_short_circuit : forall n h l c,
    seval_h (S n) (HAll (h :: l)) c =
    match seval_h n h c with
    | (Ok v, es) => if truthy v then let '(o, es') := seval_h (S n) (HAll l) c in (o, es ++ es')
                    else (Ok (JBool false), es)
    | (Exn e, es) => (Exn e, es)
    end.
Proof. exact has_all_cons. Qed.
Print Assumptions C04_all_short_circuit.

Theorem C04_any_short_circuit : forall n h l c,
    seval_h (S n) (HAny (h :: l)) c =
    match seval_h n h c with
    | (Ok v, es) => if truthy v then (Ok (JBool true), es)
                    else let '(o, es') := seval_h (S n) (HAny l) c in (o, es ++ es')
    | (Exn e, es) => (Exn e, es)
    end.
Proof. exact has_any_cons. Qed.
Print Assumptions C04_any_short_circuit.

Theorem C04_not : forall n h c,
    seval_h (S n) (HNot h) c =
    match seval_h n h c with
    | (Ok v, es) => (Ok (JBool (negb (truthy v))), es)
    | r => r
    end.
Proof. exact has_not_eq. Qed.
Print Assumptions C04_not.

(* the existence form counts presence, not truthiness: a member holding null / 0 / False / '' / [] / {} is present *)
Theorem C04_existence_is_presence : forall n (p : list (vertex (@hpred json))) c,
  kipath p = true ->
  fst (seval_h (S n) (HHas p None []) c) =
  Ok (JBool (match lookup (cdata c) p with Some _ => true | None => false end)).
Proof. exact has_presence. Qed.
Print Assumptions C04_existence_is_presence.

Example C04_null_member_is_present :
  let c := root_ctx (JDict 1 [("x"%string, JNull)]) in
  forall n, fst (seval_h (S n) (HHas [VKey "x"] None []) c) = Ok (JBool true).
Proof. exact has_presence_null. Qed.
