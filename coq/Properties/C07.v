(* C07 -- result iterators are lazy, stay exhausted, and do not interfere.
   C07_lazy_exact: each next() performs exactly the actions up to its result (lazy_item: the events of a yielding
   next() end with that result and contain no other), for every path and every pure predicate evaluator.
   C07_stays_exhausted: after StopIteration, StopIteration again and no state change (repaired defect D1).
   C07_interleave: under every schedule each iterator of a family yields what it yields alone.
   UNDISCHARGED: thread schedules (bytecode-level interleavings are runtime behaviour; the preemption sweep of the
   harness covers them by enumeration) and the shared vertex caches of path objects (C15's model). *)
From Coq Require Import List ZArith String Bool PArith.
From TP Require Import Json PyPrim Machine Spec.
From TP.proofs Require Import RefineBase Refine NextLayer Iterate WfRun Query SpecLemmas Top PropLemmas.
Import ListNotations.

Theorem C07_lazy_exact :
  forall (P : Type) ev sev (src : @source json) (vp : list (vertex P)) (tr : @tracecfg json),
    (forall p m, In (VPred p) vp -> wf m ->
       (fst (ev p m tr) = fst (sev p (abs m)) /\
        map abs_ev (snd (ev p m tr)) = proj (tracing tr) (snd (sev p (abs m)))) \/
       (exists e, fst (ev p m tr) = Exn e /\ budget_exn e = true)) ->
    (forall p m, ev_results (snd (ev p m tr)) = []) ->
    src_wf src -> pure_sev P sev vp -> valid_path P vp = true ->
    exists k : nat, forall B fuel, (k < Pos.to_nat B)%nat ->
      (List.length (deval P sev vp (start src)) < fuel)%nat ->
      let d := drain P ev src vp tr fuel B init_state in
      exact_answer P sev src vp d \/ sound_prefix P ev sev src vp tr d.
Proof. exact find_matches_deval. Qed.
Print Assumptions C07_lazy_exact.

Theorem C07_stays_exhausted :
  forall (P : Type) ev (src : @source json) (vp : list (vertex P)) (tr : @tracecfg json) B z,
    pc z = PDone -> next jshape P ev B src vp tr z = (ORaise EStop, z, []).
Proof. exact stays_exhausted. Qed.
Print Assumptions C07_stays_exhausted.

Theorem C07_interleave :
  forall (P : Type) ev B sched (its : list (iterator P)) k it,
    nth_error its k = Some it ->
    project_k k (run_schedule P ev B its sched) = alone P ev B it (count_k k sched).
Proof. exact interleave_independent. Qed.
Print Assumptions C07_interleave.
