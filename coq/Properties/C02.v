(* C02 -- recursive descent visits every node once, in document pre-order.
   `below c d` is the pre-order list of all descendants of d (C02_preorder_*: a member, then everything below
   it, then the next member; dict members in insertion order, list items by index).  The machine delivers
   exactly `deval` (C02_find_matches_exact, any number of recursive steps in any position).
   C02_below_is_exactly_the_descendants: the walk lists the context of a node iff the node is reached from d by a
   non-empty chain of member steps (completeness and soundness).  C02_each_exactly_once: with unique dict keys
   (`uniq`: every Python dict) the context and its descendants are listed without naming any location twice.
   C02_shared_objects_*: a document in which one dict or list object is referenced from several places (a DAG, not a
   tree) is searched exactly as its unfolding into a tree: each occurrence is a node of its own. *)
From Coq Require Import List ZArith String Bool PArith.
From TP Require Import Json PyPrim Machine Spec.
From TP Require Import RunC.
From TP.proofs Require Import RefineBase Refine NextLayer Iterate WfRun Query SpecLemmas Top PropLemmas BelowLemmas DataMap HeapUnfold.
Import ListNotations.

Theorem C02_find_matches_exact :
  forall (src : @source json) (vp : list (vertex Empty_set)) (tr : @tracecfg json),
    src_wf src -> valid_path Empty_set vp = true ->
    exists k : nat, forall B fuel, (k < Pos.to_nat B)%nat ->
      (List.length (deval Empty_set sev0 vp (abs (root_match src))) < fuel)%nat ->
      exact_answer Empty_set sev0 src vp (drain Empty_set ev0 src vp tr fuel B init_state).
Proof. exact find_matches_nopred. Qed.
Print Assumptions C02_find_matches_exact.

Theorem C02_rec_last : forall (P : Type) sev c,
    deval P sev [VRec] c = if is_container c then c :: below c (cdata c) else [].
Proof. exact deval_rec_last. Qed.
Print Assumptions C02_rec_last.

Theorem C02_rec_then : forall (P : Type) sev q c, q <> [] ->
    deval P sev (VRec :: q) c =
    if is_container c then flat_map (deval P sev q) (c :: filter is_container (below c (cdata c))) else [].
Proof. exact deval_rec_then. Qed.
Print Assumptions C02_rec_then.

Theorem C02_scalar_context_yields_nothing : forall (P : Type) sev q c,
    is_container c = false -> deval P sev (VRec :: q) c = [].
Proof. exact deval_rec_scalar. Qed.
Print Assumptions C02_scalar_context_yields_nothing.

Theorem C02_preorder : forall c d its, members d = Some its ->
    below c d = flat_map (fun ix => ext c (fst ix) (snd ix) :: below (ext c (fst ix) (snd ix)) (snd ix)) its.
Proof. exact below_unfold. Qed.
Print Assumptions C02_preorder.

Theorem C02_preorder_scalar : forall c d, members d = None -> below c d = [].
Proof. exact below_scalar. Qed.
Print Assumptions C02_preorder_scalar.

(* steps before and after, and several recursive steps, nest by composition *)
Theorem C02_compose : forall (P : Type) sev p q, ends_rec P p = false ->
    forall c, deval P sev (p ++ q) c = flat_map (deval P sev q) (deval P sev p c).
Proof. exact deval_app. Qed.
Print Assumptions C02_compose.

Theorem C02_below_is_exactly_the_descendants : forall c d c',
    In c' (below c d) <-> exists ns d', ns <> [] /\ at_path c d ns c' d'.
Proof. exact below_exact. Qed.
Print Assumptions C02_below_is_exactly_the_descendants.

Theorem C02_each_exactly_once : forall c,
    uniq (cdata c) -> NoDup (map cnames (c :: below c (cdata c))).
Proof. exact rec_last_nodup. Qed.
Print Assumptions C02_each_exactly_once.

(* non-vacuity: {"a": [1, {}], "b": {}} has unique keys; its walk lists 5 nodes *)
Example C02_uniq_example :
  let d := JDict 1 [("a"%string, JList 2 [JInt 1; JDict 3 []]); ("b"%string, JDict 4 [])] in
  uniq d /\ List.length (root_ctx d :: below (root_ctx d) d) = 5%nat.
Proof.
  split; [|reflexivity].
  apply uniq_dict.
  - simpl. constructor; [simpl; intros [H|[]]; discriminate|]. constructor; [intros []|constructor].
  - apply Forall_cons; [|apply Forall_cons; [|apply Forall_nil]]; cbn [snd].
    + apply uniq_list. apply Forall_cons; [apply U_scalar; reflexivity|]. apply Forall_cons; [|apply Forall_nil].
      apply uniq_dict; constructor.
    + apply uniq_dict; constructor.
Qed.

(* documents that share objects: the traverser on the heap is the traverser on the unfolded tree, next() for next() *)
Theorem C02_shared_objects_next : forall (heap : list hnode) (P2 : Type)
    (ev2 : P2 -> @tm json -> @tracecfg json -> res json * list (@event json)),
  dagb heap = true ->
  forall B src (vp : list (vertex Empty_set)) t z,
    next jshape P2 ev2 B (msrc (unfold heap) src) (map (map_vx no_pred) vp) (mtr (unfold heap) t)
         (mstate (unfold heap) z) =
    let '(o, z', evs) := next (hshape heap) Empty_set ev_none B src vp t z in
    (mout (unfold heap) o, mstate (unfold heap) z', map (mev (unfold heap)) evs).
Proof. exact heap_next_is_tree_next. Qed.
Print Assumptions C02_shared_objects_next.

Theorem C02_shared_objects_are_nodes_of_their_own : forall heap root (vp : list (vertex Empty_set)) tr,
  dagb heap = true -> valid_path Empty_set vp = true ->
  exists k : nat, forall B fuel, (k < Pos.to_nat B)%nat ->
    (List.length (deval Empty_set sev0 vp (abs (root_match (SrcDoc (unfold heap root))))) < fuel)%nat ->
    exact_answer Empty_set sev0 (SrcDoc (unfold heap root)) vp
                 (map (mitem (unfold heap)) (hdrain heap (SrcDoc root) vp tr fuel B init_state)).
Proof. exact shared_document_search. Qed.
Print Assumptions C02_shared_objects_are_nodes_of_their_own.
