(* C15 -- path expressions are immutable values with equivalent spellings.
   C15_history_stable: extending, rendering or evaluating any expression never changes the rendering (nor the
   parent chain, i.e. the meaning) of an expression that already exists: the vertex heap is append-only and the
   only writes are cache fills that equal the recomputed value.  C15_derive_frame is the single-step version.
   C15_gwc_spellings: .gwc and [gwc] select identically on every context (two vertex kinds, one selection).
   C15_item_keys_untouched / C15_attribute_keys: the dash builder rewrites attribute names only.
   wc = wildcard, rec = recursive, gwc = generic_wildcard are the same Python objects / properties (no model
   difference to prove); their equivalence and path.k = path['k'] are exercised by the correspondence, whose
   generator spells every step both ways.
   UNDISCHARGED: "expressions built by the same steps select identically" is immediate in the model (the
   compiled step list is a function of the steps); the tie to the Python builder objects is the correspondence. *)
From Coq Require Import List ZArith String Bool PArith.
From TP Require Import Json PyPrim Machine Api Spec Builder.
From TP.proofs Require Import BuilderHeap SpecLemmas.
Import ListNotations.

Theorem C15_history_stable : forall ops h, wf_heap h -> coherent h ->
    let h' := fold_left hstep ops h in
    wf_heap h' /\ coherent h' /\ (List.length h <= List.length h')%nat /\
    (forall j, (j < List.length h)%nat -> pure_render h' j = pure_render h j).
Proof. exact history_stable. Qed.
Print Assumptions C15_history_stable.

Theorem C15_derive_frame : forall h parent seg isrec,
    wf_heap h -> coherent h -> (match parent with Some p => (p < List.length h)%nat | None => True end) ->
    let h' := fst (derive h parent seg isrec) in
    wf_heap h' /\ coherent h' /\ (forall j, (j < List.length h)%nat -> pure_render h' j = pure_render h j).
Proof. exact derive_frame. Qed.
Print Assumptions C15_derive_frame.

Theorem C15_gwc_spellings : forall (P : Type) sev c,
    select P sev (VGenWild true) c = select P sev (VGenWild false) c.
Proof. reflexivity. Qed.
Print Assumptions C15_gwc_spellings.

Theorem C15_item_keys_untouched : forall dash k, to_vertex dash (BItem k) = VKey k.
Proof. reflexivity. Qed.
Print Assumptions C15_item_keys_untouched.

Theorem C15_attribute_keys : forall dash raw, to_vertex dash (BAttr raw) = VKey (if dash then dash_name raw else raw).
Proof. reflexivity. Qed.
Print Assumptions C15_attribute_keys.

Theorem C15_dash_example : dash_name "x_y_z" = "x-y-z"%string.
Proof. reflexivity. Qed.
Print Assumptions C15_dash_example.
