(* C06 -- queries never modify the document or the path.
   Path half (proved): a path expression is a heap object whose vertices lazily cache their rendering.
   C06_render_is_recomputation / C06_path_stable: whatever sequence of derivations, renderings and evaluations
   happens, str(expr) returns what recomputation from the immutable parent chain returns, hence the same before
   and after; the step list an evaluation reads is that same immutable chain (Builder.compile).
   C06_traversal_state_is_private: a traversal reads and writes only its own state (C07_interleave).
   UNDISCHARGED: the document half.  In the model the read-only functions return no document, so "unchanged" is a
   fact about the model's types, not a proof about the code; it is carried by the correspondence: a deep
   snapshot (identities, key order, values) after every read-only call of this check's histories. *)
From Coq Require Import List ZArith String Bool PArith.
From TP Require Import Json PyPrim Machine.
From TP.proofs Require Import BuilderHeap PropLemmas.
Import ListNotations.

Theorem C06_render_is_recomputation : forall h i, coherent h ->
    fst (render h i) = pure_render h i /\ coherent (snd (render h i)) /\
    (forall j, pure_render (snd (render h i)) j = pure_render h j).
Proof. exact render_correct. Qed.
Print Assumptions C06_render_is_recomputation.

Theorem C06_path_stable : forall ops h i, wf_heap h -> coherent h -> (i < List.length h)%nat ->
    fst (render (fold_left hstep ops h) i) = pure_render h i.
Proof. exact render_after_history. Qed.
Print Assumptions C06_path_stable.

Theorem C06_traversal_state_is_private :
  forall (P : Type) ev B sched (its : list (iterator P)) k it,
    nth_error its k = Some it ->
    project_k k (run_schedule P ev B its sched) = alone P ev B it (count_k k sched).
Proof. exact interleave_independent. Qed.
Print Assumptions C06_traversal_state_is_private.
