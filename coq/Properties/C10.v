(* C10 -- pop removes exactly the first match and returns it.
   C10_unchanged: no match (MatchNotFoundError or the default), a last step that is not a key or index (PopError)
   or any other failure: the document is unchanged.  C10_success_frame: on success the last step is a key or an
   index, the removal happens in the container of the match's parent and nothing outside that container changes.
   C10_later_items_move_down / C10_earlier_items_stay / C10_other_keys: inside it exactly that entry goes.
   C10_pop_removes_at_position: on a path of keys and indices (unique keys and identity labels) a successful
   pop_match is positional: the parent path resolves to a node y, the last step names the member the returned
   match holds, and the new document is the old one with y replaced by y without that member (`remove`:
   del d[k] / del l[i]) at that position; nothing else changes.  C10_pop_from_a_match_at_position: the same when the data
   source is a Match (pop(p, match)) that is a current view of the document: the position is that of the Match
   extended by the parent path. *)
From Coq Require Import List ZArith String Bool PArith.
From TP Require Import Json PyPrim Machine Api Mutate SpecSet.
From TP.proofs Require Import RefineBase MutateProofs BelowLemmas RoundTrip AssignPosition PopTaxonomy.
Import ListNotations.

Theorem C10_unchanged : forall B H depth src doc p must tr r doc' es,
    pop_match B H depth src doc p must tr = (r, doc', es) ->
    (r = Ok None \/ exists e, r = Exn e) -> doc' = doc.
Proof. exact pop_match_unchanged. Qed.
Print Assumptions C10_unchanged.

Theorem C10_success_frame : forall B H depth src doc p must tr m doc' es,
    pop_match B H depth src doc p must tr = (Ok (Some m), doc', es) ->
    exists pp v pm i, split_last p = Some (pp, v) /\ parent m = Some pm /\ label_of (tdata pm) = Some i /\
                      outside i doc' = outside i doc /\ ((exists k, v = VKey k) \/ (exists z, v = VIdx z)).
Proof. exact pop_match_success. Qed.
Print Assumptions C10_success_frame.

Theorem C10_later_items_move_down : forall (A : Type) (l : list A) k j,
    (k <= j)%nat -> nth_error (del_nth l k) j = nth_error l (S j).
Proof. exact @del_nth_after. Qed.
Print Assumptions C10_later_items_move_down.

Theorem C10_earlier_items_stay : forall (A : Type) (l : list A) k j,
    (j < k)%nat -> nth_error (del_nth l k) j = nth_error l j.
Proof. exact @del_nth_before. Qed.
Print Assumptions C10_earlier_items_stay.

Theorem C10_other_keys : forall (A : Type) (l : list (string * A)) k k',
    k' <> k -> assoc k' (dict_remove l k) = assoc k' l.
Proof. exact @dict_remove_other. Qed.
Print Assumptions C10_other_keys.

Theorem C10_pop_removes_at_position :
  forall (B H : positive) (depth : nat) d0 doc (p : list (vertex hp)) must tr (m : @tm json) doc' es,
    kipath p = true -> uniq doc -> NoDup (labels doc) ->
    pop_match B H depth (SrcDoc d0) doc p must tr = (Ok (Some m), doc', es) ->
    exists pp v y y', p = pp ++ [v] /\ lookup doc pp = Some y /\ child_at v y = Some (tdata m) /\
                      remove v y = Some y' /\ doc' = put_at doc pp y'.
Proof. exact pop_match_position. Qed.
Print Assumptions C10_pop_removes_at_position.

Theorem C10_pop_from_a_match_at_position :
  forall (B H : positive) (depth : nat) doc (m0 : @tm json) (p : list (vertex hp)) must tr (m : @tm json) doc' es,
    kipath p = true -> uniq doc -> NoDup (labels doc) -> wf m0 -> reach doc (abs m0) ->
    pop_match B H depth (SrcMatch m0) doc p must tr = (Ok (Some m), doc', es) ->
    exists pp v y y', p = pp ++ [v] /\ lookup doc (steps_of (abs m0) ++ pp) = Some y /\ child_at v y = Some (tdata m) /\
                      remove v y = Some y' /\ doc' = put_at doc (steps_of (abs m0) ++ pp) y'.
Proof. exact pop_match_position_from. Qed.
Print Assumptions C10_pop_from_a_match_at_position.

(* on a path of keys and indices the removal succeeds whenever the path selects a node; what can be raised otherwise is
   MatchNotFoundError (must_match), PopError for the root path, or the budget exception *)
Theorem C10_pop_fails_only_so : forall B H depth d0 doc (p : list (vertex (@hpred json))) must tr e doc' es,
  kipath p = true -> uniq doc -> NoDup (labels doc) ->
  pop_match B H depth (SrcDoc d0) doc p must tr = (Exn e, doc', es) ->
  (p = [] /\ e = EPop) \/ (must = true /\ e = EMatchNotFound) \/ budget_exn e = true.
Proof. exact pop_match_exceptions. Qed.
Print Assumptions C10_pop_fails_only_so.
