(* C08 -- set_ assigns exactly one slot, or fails without a trace (cascade = False).
   The document is a tree whose containers carry identity labels; an assignment is an in-place operation on the
   object with a given label.  `outside i d` is d with the container labelled i cut out: "everything else".
   C08_failure_unchanged: whatever the reason of the failure (missing parent, index beyond the end or below
   -len, key on a list, index on a dict, scalar parent, unsupported last step, failing filter), the document is
   literally unchanged.  C08_root: the root path raises SetError (repaired defect D3).
   C08_success_frame: on success nothing outside the container of the first parent match changes, the returned
   match is the child of that match named by the last step and holds the assigned value itself.
   C08_slot_*: inside that container exactly one slot changes: an overwrite keeps the key's position, a new key
   goes last, other keys keep their values; a list keeps its length and its other items, or grows by one item at
   the end when the index equals the length.
   C08_assign_at_position: on a path of keys and indices the successful assignment is positional: the parent path
   resolves to a node y of the document, the last step stores the value into y (`store`: d[k] = v, l[i] = v, or
   append when i = len(l)) and the new document is the old one with y replaced at that position; nothing else. *)
From Coq Require Import List ZArith String Bool PArith.
From TP Require Import Json PyPrim Machine Api Mutate SpecSet.
From TP.proofs Require Import MutateProofs CsetLemmas CascadeRefine.
Import ListNotations.

Theorem C08_failure_unchanged : forall B H depth fuel src doc p x tr nl e doc' nl' es,
    set_match B H depth fuel src doc p x false tr nl = (Exn e, doc', nl', es) -> doc' = doc.
Proof. exact set_match_failure_unchanged. Qed.
Print Assumptions C08_failure_unchanged.

Theorem C08_root : forall B H depth fuel src doc x cascade tr nl,
    set_match B H depth (S fuel) src doc [] x cascade tr nl = (Exn ESet, doc, nl, []).
Proof. exact set_match_root. Qed.
Print Assumptions C08_root.

Theorem C08_success_is_leaf_assignment : forall B H depth fuel src doc p x tr nl m doc' nl' es,
    set_match B H depth fuel src doc p x false tr nl = (Ok m, doc', nl', es) ->
    exists pp v pm, split_last p = Some (pp, v) /\ leaf_set doc pm v x = (Ok m, doc') /\ nl' = nl.
Proof. exact set_match_success. Qed.
Print Assumptions C08_success_is_leaf_assignment.

Theorem C08_success_frame : forall doc pm v x m doc',
    leaf_set doc pm v x = (Ok m, doc') ->
    exists i, label_of (tdata pm) = Some i /\ outside i doc' = outside i doc /\
              tdata m = x /\ parent m = Some pm /\
              ((exists k, v = VKey k /\ data_name m = NStr k) \/ (exists z, v = VIdx z /\ data_name m = NInt z)).
Proof. exact leaf_set_success_frame. Qed.
Print Assumptions C08_success_frame.

Theorem C08_leaf_failure_unchanged : forall doc pm v x e doc',
    leaf_set doc pm v x = (Exn e, doc') -> doc' = doc.
Proof. exact leaf_set_failure_unchanged. Qed.
Print Assumptions C08_leaf_failure_unchanged.

Theorem C08_slot_assigned : forall (A : Type) (l : list (string * A)) k v, assoc k (dict_set l k v) = Some v.
Proof. exact @dict_set_same. Qed.
Print Assumptions C08_slot_assigned.

Theorem C08_slot_others_keep_values : forall (A : Type) (l : list (string * A)) k k' v,
    k' <> k -> assoc k' (dict_set l k v) = assoc k' l.
Proof. exact @dict_set_other. Qed.
Print Assumptions C08_slot_others_keep_values.

Theorem C08_slot_key_order : forall (A : Type) (l : list (string * A)) k v,
    map fst (dict_set l k v) = match assoc k l with Some _ => map fst l | None => map fst l ++ [k] end.
Proof. exact @dict_set_keys. Qed.
Print Assumptions C08_slot_key_order.

Theorem C08_list_length : forall (A : Type) (l : list A) k v, List.length (set_nth l k v) = List.length l.
Proof. exact @set_nth_length. Qed.
Print Assumptions C08_list_length.

Theorem C08_list_others : forall (A : Type) (l : list A) k j v, j <> k -> nth_error (set_nth l k v) j = nth_error l j.
Proof. exact @set_nth_other. Qed.
Print Assumptions C08_list_others.

Theorem C08_assign_at_position :
  forall (B H : positive) (depth fuel : nat) d0 doc (pp : list (vertex hp)) v x tr nl r doc' nl' es,
    kipath (pp ++ [v]) = true -> NoDup (labels doc) ->
    set_match B H depth (S fuel) (SrcDoc d0) doc (pp ++ [v]) x false tr nl = (r, doc', nl', es) ->
    match r with
    | Ok m => exists y y', lookup doc pp = Some y /\ store v x y = Some y' /\ doc' = put_at doc pp y' /\ tdata m = x
    | Exn e => doc' = doc
    end.
Proof. exact set_match_plain. Qed.
Print Assumptions C08_assign_at_position.
