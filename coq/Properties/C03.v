(* C03 -- a filter keeps exactly the candidates its predicate accepts.
   C03_filter: for any path q not ending in a recursive step and any predicate h of the library's language (a user
   callable = an arbitrary function from the public view of the candidate to a value or an exception; or a has
   predicate), q[h] selects exactly the matches of q, in order and unchanged, on which h is truthy (truthy, not
   `is True`); C03_continue: steps after the filter continue from the unchanged candidates.
   C03_raise: an exception raised by the predicate ends the query in TraversingError whose cause is that
   exception (one wrapping per enclosing filter: the nested search of an enclosing has-filter ends in it and is
   wrapped again by C03_raise at the outer level, through C04_has_is_first_success's fin_of).
   C03_machine: the iterator delivers exactly this (complete or sound prefix + budget exception).
   C03_called_once_per_candidate_in_order: the event stream of q[f] r is the stream of q with every result c' --
   in the order q delivers them -- replaced by exactly one call of f on c', then the attempt of the filter
   step, then (f's answer truthy) the rest of the path from the unchanged c'; an exception of f ends the
   stream there.  It is an instance of C03_stream_is_compositional (proofs/SemApp.v): the stream of q ++ s is the
   stream of q with every result replaced by the stream of s from it. *)
From Coq Require Import List ZArith String Bool PArith.
From TP Require Import Json PyPrim Machine Api Spec SpecHas.
From TP.proofs Require Import RefineBase Refine NextLayer Iterate WfRun Query SpecLemmas Top HasScan HasLoop HasRefine ApiTop HasLemmas SpecWork SemApp.
Import ListNotations.

Theorem C03_filter : forall (sev : @hpred json -> jctx -> res json * list sevent) q h c,
    ends_rec (@hpred json) q = false ->
    deval (@hpred json) sev (q ++ [VPred h]) c =
    filter (fun c' => match fst (sev h c') with Ok v => truthy v | Exn _ => false end) (deval (@hpred json) sev q c).
Proof. exact filter_keeps_accepted. Qed.
Print Assumptions C03_filter.

Theorem C03_continue : forall (sev : @hpred json -> jctx -> res json * list sevent) q h r c,
    ends_rec (@hpred json) q = false ->
    deval (@hpred json) sev (q ++ VPred h :: r) c =
    flat_map (deval (@hpred json) sev r)
             (filter (fun c' => match fst (sev h c') with Ok v => truthy v | Exn _ => false end) (deval (@hpred json) sev q c)).
Proof. exact filter_then_continue. Qed.
Print Assumptions C03_continue.

Theorem C03_user_predicate : forall n tag f c, seval_h (S n) (HUser tag f) c = (f c, [SCall tag c]).
Proof. exact seval_user. Qed.
Print Assumptions C03_user_predicate.

Theorem C03_raise : forall (sev : @hpred json -> jctx -> res json * list sevent) i h r pm c e,
    fst (sev h c) = Exn e -> snd (sem (@hpred json) sev i (VPred h :: r) pm c) = Some (ETraversing e).
Proof. exact sem_pred_raise. Qed.
Print Assumptions C03_raise.

Theorem C03_machine : forall B H depth (src : @source json) (vp : list (vertex (@hpred json))) (tr : @tracecfg json),
    src_wf src ->
    exists k : nat, forall fuel, (k < Pos.to_nat B)%nat ->
      (List.length (sresults (fst (answer (@hpred json) (seval_h depth) src vp tr))) < fuel)%nat ->
      let d := drain (@hpred json) (@eval_h json jshape (fun d => d) B H depth) src vp tr fuel B init_state in
      complete (@hpred json) (seval_h depth) src vp tr d \/
      sound_prefix (@hpred json) (@eval_h json jshape (fun d => d) B H depth) (seval_h depth) src vp tr d.
Proof. exact api_iterator. Qed.
Print Assumptions C03_machine.

Theorem C03_stream_is_compositional :
  forall (P : Type) (sev : P -> jctx -> res json * list sevent) (q s : list (vertex P)),
    ends_rec P q = false -> quiet_sev P sev q ->
    forall i pm c, sem P sev i (q ++ s) pm c = bindr (sem P sev i q pm c) (fun c' => sem P sev (i + List.length q) s pm c').
Proof. exact sem_app. Qed.
Print Assumptions C03_stream_is_compositional.

Theorem C03_called_once_per_candidate_in_order : forall n q tag f r i pm c,
  ends_rec (@hpred json) q = false ->
  sem (@hpred json) (seval_h (S n)) i (q ++ VPred (HUser tag f) :: r) pm c =
  bindr (sem (@hpred json) (seval_h (S n)) i q pm c)
        (fun c' =>
           match f c' with
           | Ok v =>
               rseq ([SCall tag c'], None)
                    (if truthy v
                     then rseq (rev1 (STrace c' (Some c') (S (i + List.length q)) pm))
                               (sem (@hpred json) (seval_h (S n)) (S (i + List.length q)) r pm c')
                     else rev1 (STrace c' None (S (i + List.length q)) pm))
           | Exn e => ([SCall tag c'], Some (ETraversing e))
           end).
Proof. exact user_filter_once_per_candidate. Qed.
Print Assumptions C03_called_once_per_candidate_in_order.
