(* C18 -- descriptors are thin views over the wrapped document.
   The delegation itself (read = getter on owner.data with the attribute's path, write = setter with
   to_json_value applied first, del = pop, class-level access = the descriptor) is a handful of one-line
   forwarding methods: it is tied to the code by the correspondence, in which the implementation performs
   histories through descriptors and the model performs the equivalent plain functions on a twin document.
   C18_typed_access_composes: operating through a typed wrapper of the node selected by a path p with an inner
   path q selects what p ++ q selects from the owner's document (the wrapper holds the node itself, C11).
   C18_writes_reach_the_document (C08_success_frame) and the list view (C19) are the theorems behind "changes
   made through the typed object are changes to the original document".
   UNDISCHARGED: iterator-typed assignment raising SetError and the deprecated pprop / mprop are compared by
   the correspondence only. *)
From Coq Require Import List ZArith String Bool PArith.
From TP Require Import Json PyPrim Machine Api Spec Mutate.
From TP.proofs Require Import SpecLemmas MutateProofs.
Import ListNotations.

Theorem C18_typed_access_composes : forall (P : Type) sev p q, ends_rec P p = false ->
    forall c, deval P sev (p ++ q) c = flat_map (deval P sev q) (deval P sev p c).
Proof. exact deval_app. Qed.
Print Assumptions C18_typed_access_composes.

Theorem C18_writes_reach_the_document : forall doc pm v x m doc',
    leaf_set doc pm v x = (Ok m, doc') ->
    exists i, label_of (tdata pm) = Some i /\ outside i doc' = outside i doc /\
              tdata m = x /\ parent m = Some pm /\
              ((exists k, v = VKey k /\ data_name m = NStr k) \/ (exists z, v = VIdx z /\ data_name m = NInt z)).
Proof. exact leaf_set_success_frame. Qed.
Print Assumptions C18_writes_reach_the_document.
