(* C18 -- descriptors are thin views over the wrapped document.
   The delegation itself (read = getter on owner.data with the attribute's path, write = setter with
   to_json_value applied first, del = pop, class-level access = the descriptor) is a handful of one-line
   forwarding methods: it is tied to the code by the correspondence, in which the implementation performs
   histories through descriptors and the model performs the equivalent plain functions on a twin document.
   C18_typed_access_composes: operating through a typed wrapper of the node selected by a path p with an inner
   path q selects what p ++ q selects from the owner's document (the wrapper holds the node itself, C11).
   C18_writes_reach_the_document (C08_success_frame) and the list view (C19) are the theorems behind "changes
   made through the typed object are changes to the original document".
   C18_stacked_property_*: a deprecated property stacked on an mprop, pprop(p2, mprop(p1, data)), reads the position
   p1 ++ p2 of the current data (paths of keys and indices), which is also what the plain read of p1 ++ p2 answers:
   the encoding the correspondence uses for stacked properties.
   UNDISCHARGED: iterator-typed assignment raising SetError and the forwarding of the deprecated pprop / mprop to
   get / get_match / set_ are compared by the correspondence only. *)
From Coq Require Import List ZArith String Bool PArith.
From TP Require Import Json PyPrim Machine Api Spec Mutate.
From TP Require Import SpecHas SpecSet.
From TP.proofs Require Import SpecLemmas MutateProofs RefineBase Refine ApiTop StackedProp.
Import ListNotations.

Theorem C18_typed_access_composes : forall (P : Type) sev p q, ends_rec P p = false ->
    forall c, deval P sev (p ++ q) c = flat_map (deval P sev q) (deval P sev p c).
Proof. exact deval_app. Qed.
Print Assumptions C18_typed_access_composes.

Theorem C18_writes_reach_the_document : forall doc pm v x m doc',
    leaf_set doc pm v x = (Ok m, doc') ->
    exists i, label_of (tdata pm) = Some i /\ outside i doc' = outside i doc /\
              tdata m = x /\ parent m = Some pm /\
              ((exists k, v = VKey k /\ data_name m = NStr k) \/ (exists z, v = VIdx z /\ data_name m = NInt z)).
Proof. exact leaf_set_success_frame. Qed.
Print Assumptions C18_writes_reach_the_document.

Theorem C18_stacked_property_read : forall B H depth doc p1 p2 tr pm,
  kipath p1 = true -> kipath p2 = true ->
  fst (jget_match B H depth (SrcDoc doc) p1 false tr) = Ok (Some pm) ->
  let r2 := fst (jget_match B H depth (SrcMatch pm) p2 false tr) in
  (exists m2, r2 = Ok (Some m2) /\ lookup doc (p1 ++ p2) = Some (tdata m2)) \/
  (r2 = Ok None /\ lookup doc (p1 ++ p2) = None) \/
  (exists e, r2 = Exn e /\ budget_exn e = true).
Proof. exact stacked_read. Qed.
Print Assumptions C18_stacked_property_read.

Theorem C18_stacked_property_source_missing : forall B H depth doc p1 p2 tr,
  kipath p1 = true ->
  fst (jget_match B H depth (SrcDoc doc) p1 false tr) = Ok None ->
  lookup doc (p1 ++ p2) = None.
Proof. exact stacked_read_missing. Qed.
Print Assumptions C18_stacked_property_source_missing.

Theorem C18_concatenated_read : forall B H depth doc p1 p2 tr,
  kipath p1 = true -> kipath p2 = true ->
  let r := fst (jget_match B H depth (SrcDoc doc) (p1 ++ p2) false tr) in
  (exists m, r = Ok (Some m) /\ lookup doc (p1 ++ p2) = Some (tdata m)) \/
  (r = Ok None /\ lookup doc (p1 ++ p2) = None) \/
  (exists e, r = Exn e /\ budget_exn e = true).
Proof. exact concatenated_read. Qed.
Print Assumptions C18_concatenated_read.
