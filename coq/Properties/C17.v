(* C17 -- tracing observes without interfering.
   C17_transparent: with and without a trace callable the iterator yields the same `deval` (the specification does
   not depend on the trace setting; the machine's events are its projection).
   C17_events_are_the_specification: the events delivered are exactly the specification stream (all of it when
   tracing, without the trace events otherwise), in order.
   UNDISCHARGED: the explicit one-to-one statement between successful last-step events and results, and the
   predicate_match stamp of has-family filters (both visible in `sem`; compared event by event by the
   correspondence of this check). *)
From Coq Require Import List ZArith String Bool PArith.
From TP Require Import Json PyPrim Machine Spec.
From TP.proofs Require Import RefineBase Refine NextLayer Iterate WfRun Query SpecLemmas Top PropLemmas.
Import ListNotations.

Theorem C17_transparent :
  forall (src : @source json) (vp : list (vertex Empty_set)),
    src_wf src -> valid_path Empty_set vp = true ->
    forall tr : @tracecfg json,
    exists k : nat, forall B fuel, (k < Pos.to_nat B)%nat ->
      (List.length (deval Empty_set sev0 vp (abs (root_match src))) < fuel)%nat ->
      exact_answer Empty_set sev0 src vp (drain Empty_set ev0 src vp tr fuel B init_state).
Proof. intros src vp H1 H2 tr. exact (find_matches_nopred src vp tr H1 H2). Qed.
Print Assumptions C17_transparent.

Theorem C17_events_are_the_specification :
  forall (P : Type) ev sev (src : @source json) (vp : list (vertex P)) (tr : @tracecfg json),
    (forall p m, In (VPred p) vp -> wf m ->
       (fst (ev p m tr) = fst (sev p (abs m)) /\
        map abs_ev (snd (ev p m tr)) = proj (tracing tr) (snd (sev p (abs m)))) \/
       (exists e, fst (ev p m tr) = Exn e /\ budget_exn e = true)) ->
    (forall p m, ev_results (snd (ev p m tr)) = []) ->
    src_wf src ->
    exists k : nat, forall B fuel, (k < Pos.to_nat B)%nat ->
      (List.length (sresults (fst (answer P sev src vp tr))) < fuel)%nat ->
      let d := drain P ev src vp tr fuel B init_state in
      complete P sev src vp tr d \/ sound_prefix P ev sev src vp tr d.
Proof. exact iterator_spec. Qed.
Print Assumptions C17_events_are_the_specification.
