(* C17 -- tracing observes without interfering.
   C17_transparent: with and without a trace callable the iterator yields the same `deval` (the specification does
   not depend on the trace setting; the machine's events are its projection).
   C17_events_are_the_specification: the events delivered are exactly the specification stream (all of it when
   tracing, without the trace events otherwise), in order.
   C17_last_step_one_to_one: for a query traced from the top, the successful attempts of the path's last step
   delivered outside filter evaluation (predicate_match absent) are, one-to-one and in order, the matches the
   iterator yielded; C17_last_step_one_to_one_spec is the same about the specification stream, also when an
   exception cuts it short.  C17_next_is_reached: every such event names a step of the path and its next_match,
   when present, is reached from last_match by that step (a member the step selects; for a recursive step the
   context itself or one of its members; for a filter the candidate itself).
   C17_filter_events_stamped: every event of a has-family filter evaluation carries a predicate_match and
   none is a result of the enclosing search; C17_has_events_carry_candidate: the attempts of has(p) at
   candidate c, p filter-free, all carry c. *)
From Coq Require Import List ZArith String Bool PArith.
From TP Require Import Json PyPrim Machine Api Spec SpecHas.
From TP.proofs Require Import RefineBase Refine NextLayer Iterate WfRun Query SpecLemmas Top PropLemmas SpecWork.
Import ListNotations.

Theorem C17_transparent :
  forall (src : @source json) (vp : list (vertex Empty_set)),
    src_wf src -> valid_path Empty_set vp = true ->
    forall tr : @tracecfg json,
    exists k : nat, forall B fuel, (k < Pos.to_nat B)%nat ->
      (List.length (deval Empty_set sev0 vp (abs (root_match src))) < fuel)%nat ->
      exact_answer Empty_set sev0 src vp (drain Empty_set ev0 src vp tr fuel B init_state).
Proof. intros src vp H1 H2 tr. exact (find_matches_nopred src vp tr H1 H2). Qed.
Print Assumptions C17_transparent.

Theorem C17_events_are_the_specification :
  forall (P : Type) ev sev (src : @source json) (vp : list (vertex P)) (tr : @tracecfg json),
    (forall p m, In (VPred p) vp -> wf m ->
       (fst (ev p m tr) = fst (sev p (abs m)) /\
        map abs_ev (snd (ev p m tr)) = proj (tracing tr) (snd (sev p (abs m)))) \/
       (exists e, fst (ev p m tr) = Exn e /\ budget_exn e = true)) ->
    (forall p m, ev_results (snd (ev p m tr)) = []) ->
    src_wf src ->
    exists k : nat, forall B fuel, (k < Pos.to_nat B)%nat ->
      (List.length (sresults (fst (answer P sev src vp tr))) < fuel)%nat ->
      let d := drain P ev src vp tr fuel B init_state in
      complete P sev src vp tr d \/ sound_prefix P ev sev src vp tr d.
Proof. exact iterator_spec. Qed.
Print Assumptions C17_events_are_the_specification.

Theorem C17_last_step_one_to_one_spec :
  forall (P : Type) (sev : P -> jctx -> res json * list sevent) (rest : list (vertex P)),
    rest <> [] ->
    (forall p c, In (VPred p) rest -> stamped (snd (sev p c))) ->
    forall i c, lsucc (i + List.length rest) (fst (sem P sev i rest None c)) = sresults (fst (sem P sev i rest None c)).
Proof. exact last_step_one_to_one. Qed.
Print Assumptions C17_last_step_one_to_one_spec.

Theorem C17_last_step_one_to_one :
  forall (P : Type) (sev : P -> jctx -> res json * list sevent) (src : @source json) (vp : list (vertex P))
         (tr : @tracecfg json) d,
    tr = Some None -> vp <> [] ->
    (forall p c, In (VPred p) vp -> stamped (snd (sev p c))) ->
    complete P sev src vp tr d ->
    exists ms, map abs ms = lsucc (List.length vp) (map abs_ev (all_events d)) /\
               outcomes d = map (fun m => OResult m) ms ++
                            [ORaise (match snd (answer P sev src vp tr) with None => EStop | Some e => e end)].
Proof. exact one_to_one_run. Qed.
Print Assumptions C17_last_step_one_to_one.

Theorem C17_next_is_reached :
  forall (P : Type) (sev : P -> jctx -> res json * list sevent) (src : @source json) (vp : list (vertex P))
         (tr : @tracecfg json) d,
    tr = Some None ->
    (forall p c, In (VPred p) vp -> stamped (snd (sev p c))) ->
    complete P sev src vp tr d ->
    Forall (step_ok P sev vp) (map abs_ev (all_events d)).
Proof. exact next_is_reached_run. Qed.
Print Assumptions C17_next_is_reached.

Theorem C17_filter_events_stamped :
  forall n (h : jpred) (c : jctx), stamped (snd (seval_h n h c)).
Proof. exact seval_h_stamped. Qed.
Print Assumptions C17_filter_events_stamped.

Theorem C17_has_events_carry_candidate :
  forall n (p : list (vertex jpred)) (c : jctx),
    (forall q, ~ In (VPred q) p) ->
    Forall (stamped_with c) (fst (sem jpred (seval_h n) 0 p (Some c) c)).
Proof. exact has_events_carry_candidate. Qed.
Print Assumptions C17_has_events_carry_candidate.

(* non-vacuity: {"a": [5, 6]} under $.a[*] traced from the top: two successful last-step attempts, two results *)
Example C17_one_to_one_example :
  let d := JDict 1 [("a"%string, JList 2 [JInt 5; JInt 6])] in
  let p : list (vertex Empty_set) := [VKey "a"%string; VIdxWild] in
  List.length (lsucc 2 (fst (sem Empty_set sev0 0 p None (root_ctx d)))) = 2%nat /\
  lsucc 2 (fst (sem Empty_set sev0 0 p None (root_ctx d))) = sresults (fst (sem Empty_set sev0 0 p None (root_ctx d))).
Proof. vm_compute. split; reflexivity. Qed.
