(* C19 -- a list-typed attribute behaves as the underlying list.
   C19_keep_all / C19_remove_all: for arbitrary converters and predicates the in-place compaction loop leaves
   exactly the elements satisfying (not satisfying) the predicate, in their original order (each passed through
   to_json . to_wrapped); the loop invariant is that the write index never overtakes the read index.
   C19_predicate_called_once_in_order: the predicate is called on every element exactly once, in list order, whatever
   it answers (the instrumented loop `keep_calls`, whose output the correspondence compares with the call log).
   The other operations are the plain-list primitives of PyPrim.v with the converters at the boundary (definitional
   in DocList.v) and are tied to the code by the correspondence, which also checks that the view operates in
   place on the document's own list object (identity label after every step). *)
From Coq Require Import List ZArith String Bool.
From TP Require Import Json PyPrim DocList.
From TP.proofs Require Import DocListProofs.
Import ListNotations.

Theorem C19_keep_all :
  forall (J W : Type) (to_wrapped : J -> W) (to_json : W -> J) (is_keep : W -> bool) (data : list J),
    keep_all J W to_wrapped to_json is_keep data =
    map (fun x => to_json (to_wrapped x)) (filter (fun x => is_keep (to_wrapped x)) data).
Proof. exact keep_all_spec. Qed.
Print Assumptions C19_keep_all.

Theorem C19_remove_all :
  forall (J W : Type) (to_wrapped : J -> W) (to_json : W -> J) (is_remove : W -> bool) (data : list J),
    remove_all J W to_wrapped to_json is_remove data =
    map (fun x => to_json (to_wrapped x)) (filter (fun x => negb (is_remove (to_wrapped x))) data).
Proof. exact remove_all_spec. Qed.
Print Assumptions C19_remove_all.

Theorem C19_predicate_called_once_in_order :
  forall (J W : Type) (to_wrapped : J -> W) (to_json : W -> J) (is_keep : W -> bool) (data : list J),
    keep_calls J W to_wrapped to_json is_keep data = map to_wrapped data.
Proof. exact keep_calls_spec. Qed.
Print Assumptions C19_predicate_called_once_in_order.
