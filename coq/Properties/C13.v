(* C13 -- parent steps climb the document tree.
   The tree location of a context is its stack (root/key/index entries push, a parent entry pops); a parent step
   selects the node below the top of that stack, however the context was reached, and nothing at the root.
   Machine side: the repaired remembered_parent is that stack discipline (chain, parent_step in RefineBase.v),
   and find_matches delivers exactly `deval` for every path with parent steps in any position. *)
From Coq Require Import List ZArith String Bool PArith.
From TP Require Import Json PyPrim Machine Spec.
From TP.proofs Require Import RefineBase Refine NextLayer Iterate WfRun Query SpecLemmas Top PropLemmas.
Import ListNotations.

Theorem C13_find_matches_exact :
  forall (src : @source json) (vp : list (vertex Empty_set)) (tr : @tracecfg json),
    src_wf src -> valid_path Empty_set vp = true ->
    exists k : nat, forall B fuel, (k < Pos.to_nat B)%nat ->
      (List.length (deval Empty_set sev0 vp (abs (root_match src))) < fuel)%nat ->
      exact_answer Empty_set sev0 src vp (drain Empty_set ev0 src vp tr fuel B init_state).
Proof. exact find_matches_nopred. Qed.
Print Assumptions C13_find_matches_exact.

(* the machine's pointer chasing agrees with the stack discipline on every well-formed match *)
Theorem C13_remembered_parent_is_tree_parent : forall m : jtm, wf m ->
    match remembered_parent m with
    | Some r => wf r /\ ext_parent (abs m) = Some (abs m ++ [(KPar, data_name r, tdata r)])
    | None => ext_parent (abs m) = None
    end.
Proof. exact parent_step. Qed.
Print Assumptions C13_remembered_parent_is_tree_parent.

Theorem C13_parent_step : forall (P : Type) sev c,
    select P sev VParent c = match ext_parent c with Some c' => [c'] | None => [] end.
Proof. exact select_parent. Qed.
Print Assumptions C13_parent_step.

Theorem C13_parent_of_child : forall c nm x n d,
    cnode c = Some (n, d) -> ext_parent (ext c nm x) = Some (ext c nm x ++ [(KPar, n, d)]).
Proof. exact parent_of_child. Qed.
Print Assumptions C13_parent_of_child.

Theorem C13_revisits_the_node : forall c nm x n d,
    cnode c = Some (n, d) -> cnode (ext c nm x ++ [(KPar, n, d)]) = cnode c.
Proof. exact child_then_parent. Qed.
Print Assumptions C13_revisits_the_node.

Theorem C13_climbing_pops : forall c n d, stack (c ++ [(KPar, n, d)]) = tl (stack c).
Proof. exact stack_parent. Qed.
Print Assumptions C13_climbing_pops.

Theorem C13_root_has_no_parent : forall d, ext_parent (root_ctx d) = None.
Proof. exact parent_of_root. Qed.
Print Assumptions C13_root_has_no_parent.
