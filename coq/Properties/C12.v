(* C12 -- searching from a Match continues the original path.
   C12_compose: unless p ends in a recursive step, p ++ q from a context selects what q selects from each result
   of p, in order.  C12_nested_search: a search started from any well-formed Match m (NestedMatchTraverser, root
   = imaginary match over m) delivers deval q (abs m): absolute chains, parent steps climb above m. *)
From Coq Require Import List ZArith String Bool PArith.
From TP Require Import Json PyPrim Machine Spec.
From TP.proofs Require Import RefineBase Refine NextLayer Iterate WfRun Query SpecLemmas Top PropLemmas.
Import ListNotations.

Theorem C12_compose : forall (P : Type) sev p q, ends_rec P p = false ->
    forall c, deval P sev (p ++ q) c = flat_map (deval P sev q) (deval P sev p c).
Proof. exact deval_app. Qed.
Print Assumptions C12_compose.

Theorem C12_nested_search :
  forall (m : jtm) (q : list (vertex Empty_set)) (tr : @tracecfg json),
    wf m -> valid_path Empty_set q = true ->
    exists k : nat, forall B fuel, (k < Pos.to_nat B)%nat ->
      (List.length (deval Empty_set sev0 q (abs (root_match (SrcMatch m)))) < fuel)%nat ->
      exact_answer Empty_set sev0 (SrcMatch m) q (drain Empty_set ev0 (SrcMatch m) q tr fuel B init_state).
Proof. intros m q tr Hwf. exact (find_matches_nopred (SrcMatch m) q tr Hwf). Qed.
Print Assumptions C12_nested_search.

(* the nested root stands where m stands *)
Theorem C12_nested_start : forall m : jtm, abs (root_match (SrcMatch m)) = abs m.
Proof. reflexivity. Qed.
Print Assumptions C12_nested_start.
