(* C16 -- only the documented errors escape.
   C16_query_ends_normally_or_in_TraversingError: for supported steps (slices with a non-zero step) the
   specification stream of any query of the library's language ends normally (StopIteration) or in
   TraversingError wrapping the exception of a filter; by C16_machine the iterator ends exactly so, or in a
   budget exception (InfiniteLoopDetected, possibly wrapped).  The model contains the same isinstance tests and
   narrow except clauses as the code (KeyError / IndexError / TypeError of the primitives are values of PyPrim.v
   that the vertices must catch): C16_get_match_exceptions lists what get_match can raise, and
   C16_get_match_no_bare_error names the bare Python errors it therefore never raises.
   C16_set_exceptions: set_ without cascade on a path of keys and indices raises SetError or the budget exception,
   nothing else; C16_pop_exceptions: pop on such a path raises MatchNotFoundError (with must_match), PopError (the root
   path) or the budget exception, and succeeds whenever the path selects a node; C16_root (see C08).
   UNDISCHARGED: printability (str()/repr() twice, same text, naming the path) rests on the correspondence,
   which renders every library exception twice on the implementation side. *)
From Coq Require Import List ZArith String Bool PArith.
From TP Require Import Json PyPrim Machine Api Spec SpecHas Mutate SpecSet.
From TP.proofs Require Import RefineBase Refine NextLayer Iterate WfRun Query SpecLemmas Top HasScan HasLoop HasRefine ApiTop HasLemmas MutateProofs FirstNext ExnTaxonomy BelowLemmas PopTaxonomy.
Import ListNotations.

Theorem C16_query_ends_normally_or_in_TraversingError :
  forall (sev : @hpred json -> jctx -> res json * list sevent) r, valid_path (@hpred json) r = true ->
  forall i pm c, exn_ok (snd (sem (@hpred json) sev i r pm c)).
Proof. exact sem_exn_traversing. Qed.
Print Assumptions C16_query_ends_normally_or_in_TraversingError.

Theorem C16_machine : forall B H depth (src : @source json) (vp : list (vertex (@hpred json))) (tr : @tracecfg json),
    src_wf src ->
    exists k : nat, forall fuel, (k < Pos.to_nat B)%nat ->
      (List.length (sresults (fst (answer (@hpred json) (seval_h depth) src vp tr))) < fuel)%nat ->
      let d := drain (@hpred json) (@eval_h json jshape (fun d => d) B H depth) src vp tr fuel B init_state in
      complete (@hpred json) (seval_h depth) src vp tr d \/
      sound_prefix (@hpred json) (@eval_h json jshape (fun d => d) B H depth) (seval_h depth) src vp tr d.
Proof. exact api_iterator. Qed.
Print Assumptions C16_machine.

Theorem C16_set_root_is_SetError : forall B H depth fuel src doc x cascade tr nl,
    set_match B H depth (S fuel) src doc [] x cascade tr nl = (Exn ESet, doc, nl, []).
Proof. exact set_match_root. Qed.
Print Assumptions C16_set_root_is_SetError.

Theorem C16_must_match_never_none : forall B H depth src p tr r es,
    @get_match json jshape (fun d => d) B H depth src p true tr = (r, es) -> r <> Ok None.
Proof. exact get_match_must. Qed.
Print Assumptions C16_must_match_never_none.

(* get_match ends in an answer or in a documented exception: never a bare KeyError / IndexError / TypeError /
   AttributeError / ValueError *)
Theorem C16_get_match_exceptions : forall B H depth (src : @source json) (p : list (vertex (@hpred json))) must tr e,
  src_wf src -> valid_path (@hpred json) p = true ->
  fst (@get_match json jshape (fun d => d) B H depth src p must tr) = Exn e ->
  (must = true /\ e = not_found src) \/ (exists c, e = ETraversing c) \/ budget_exn e = true.
Proof. exact get_match_exceptions. Qed.
Print Assumptions C16_get_match_exceptions.

Theorem C16_get_match_no_bare_error : forall B H depth (src : @source json) (p : list (vertex (@hpred json))) must tr e,
  src_wf src -> valid_path (@hpred json) p = true ->
  fst (@get_match json jshape (fun d => d) B H depth src p must tr) = Exn e ->
  e <> EKey /\ e <> EIndex /\ e <> EType /\ e <> EAttr /\ e <> EValue.
Proof. exact get_match_no_bare_error. Qed.
Print Assumptions C16_get_match_no_bare_error.

Theorem C16_set_exceptions : forall B H depth fuel d0 doc (pp : list (vertex (@hpred json))) v x tr nl e doc' nl' es,
  kipath (pp ++ [v]) = true -> NoDup (labels doc) ->
  set_match B H depth (S fuel) (SrcDoc d0) doc (pp ++ [v]) x false tr nl = (Exn e, doc', nl', es) ->
  e = ESet \/ budget_exn e = true.
Proof. exact set_match_plain_exceptions. Qed.
Print Assumptions C16_set_exceptions.

Theorem C16_pop_exceptions : forall B H depth d0 doc (p : list (vertex (@hpred json))) must tr e doc' es,
  kipath p = true -> uniq doc -> NoDup (labels doc) ->
  pop_match B H depth (SrcDoc d0) doc p must tr = (Exn e, doc', es) ->
  (p = [] /\ e = EPop) \/ (must = true /\ e = EMatchNotFound) \/ budget_exn e = true.
Proof. exact pop_match_exceptions. Qed.
Print Assumptions C16_pop_exceptions.

Theorem C16_get_exceptions : forall B H depth (src : @source json) (p : list (vertex (@hpred json))) dflt tr e,
  src_wf src -> valid_path (@hpred json) p = true ->
  fst (@get json jshape (fun d => d) B H depth src p dflt tr) = Exn e ->
  (dflt = DNotSet /\ e = not_found src) \/ (exists c, e = ETraversing c) \/ budget_exn e = true.
Proof. exact get_exceptions. Qed.
Print Assumptions C16_get_exceptions.
