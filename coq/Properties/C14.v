(* C14 -- Match.data assignment, del and pop write through to the document.
   The facade writes into the container of match.parent (the forwarding parent: bookkeeping matches of filters,
   recursion and nested searches forward to the real container) under match.data_name.
   C14_assign_frame / C14_delete_frame: on success nothing outside that container changes; on any failure the
   document is unchanged.  C14_delete_missing: deleting an entry that no longer exists raises PopError and
   leaves the document unchanged.
   UNDISCHARGED: the forwarding itself (parent/data_name of a match obtained through filters or recursion name
   the document's own container) is the chain lemma of RefineBase.v plus the correspondence of this check. *)
From Coq Require Import List ZArith String Bool PArith.
From TP Require Import Json PyPrim Machine Api Mutate.
From TP.proofs Require Import MutateProofs.
Import ListNotations.

Theorem C14_assign_frame : forall doc (m : @tm json) x r doc',
    match_assign doc m x = (r, doc') ->
    (forall e, r = Exn e -> doc' = doc) /\
    (forall u, r = Ok u -> exists pm i, parent m = Some pm /\ label_of (tdata pm) = Some i /\ outside i doc' = outside i doc).
Proof. exact match_assign_frame. Qed.
Print Assumptions C14_assign_frame.

Theorem C14_delete_frame : forall doc (m : @tm json) r doc',
    match_del doc m = (r, doc') ->
    (forall e, r = Exn e -> doc' = doc) /\
    (forall u, r = Ok u -> exists pm i, parent m = Some pm /\ label_of (tdata pm) = Some i /\ outside i doc' = outside i doc).
Proof. exact match_del_frame. Qed.
Print Assumptions C14_delete_frame.

Theorem C14_delete_missing : forall doc (m pm : @tm json) i its k,
    parent m = Some pm -> tdata pm = JDict i its -> data_name m = NStr k ->
    match find_by_id i doc with Some (JDict _ cur) => assoc k cur = None | _ => False end ->
    match_del doc m = (Exn EPop, doc).
Proof. exact match_del_missing. Qed.
Print Assumptions C14_delete_missing.
