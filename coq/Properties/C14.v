(* C14 -- Match.data assignment, del and pop write through to the document.
   The facade writes into the container of match.parent (the forwarding parent: bookkeeping matches of filters,
   recursion and nested searches forward to the real container) under match.data_name.
   C14_assign_frame / C14_delete_frame: on success nothing outside that container changes; on any failure the
   document is unchanged.  C14_delete_missing: deleting an entry that no longer exists raises PopError and
   leaves the document unchanged.
   C14_assign_writes_at_position: for every well-formed match a parent-free query delivers from a document with
   unique keys and unique identity labels -- whatever bookkeeping matches of filters, recursion or nested
   searches stand behind it -- `m.data = v` (which goes through match.parent.data[match.data_name] and mutates
   by object identity) replaces exactly the node at the explicit path of m: the forwarding of parent and
   data_name is part of the theorem (proofs/AssignPosition.v: parent_chain).
   C14_delete_removes_at_position: `del m.data` (and m.pop(), which is the same deletion) removes exactly the member
   named by m.data_name from the container at the position of m's parent, by dict / list deletion (`remove`). *)
From Coq Require Import List ZArith String Bool PArith.
From TP Require Import Json PyPrim Machine Api Spec SpecHas Mutate SpecSet Obs Dsl Run.
From TP.proofs Require Import RefineBase SpecLemmas BelowLemmas MutateProofs RoundTrip AssignPosition.
Import ListNotations.

Theorem C14_assign_frame : forall doc (m : @tm json) x r doc',
    match_assign doc m x = (r, doc') ->
    (forall e, r = Exn e -> doc' = doc) /\
    (forall u, r = Ok u -> exists pm i, parent m = Some pm /\ label_of (tdata pm) = Some i /\ outside i doc' = outside i doc).
Proof. exact match_assign_frame. Qed.
Print Assumptions C14_assign_frame.

Theorem C14_delete_frame : forall doc (m : @tm json) r doc',
    match_del doc m = (r, doc') ->
    (forall e, r = Exn e -> doc' = doc) /\
    (forall u, r = Ok u -> exists pm i, parent m = Some pm /\ label_of (tdata pm) = Some i /\ outside i doc' = outside i doc).
Proof. exact match_del_frame. Qed.
Print Assumptions C14_delete_frame.

Theorem C14_delete_missing : forall doc (m pm : @tm json) i its k,
    parent m = Some pm -> tdata pm = JDict i its -> data_name m = NStr k ->
    match find_by_id i doc with Some (JDict _ cur) => assoc k cur = None | _ => False end ->
    match_del doc m = (Exn EPop, doc).
Proof. exact match_del_missing. Qed.
Print Assumptions C14_delete_missing.

Theorem C14_assign_writes_at_position :
  forall doc (sev : hp -> jctx -> res json * list sevent) (p : list (vertex hp)) (m pm : @tm json) x,
    uniq doc -> NoDup (labels doc) -> no_parent p -> wf m ->
    In (abs m) (deval hp sev p (root_ctx doc)) -> parent m = Some pm ->
    match_assign doc m x = (Ok tt, put_at doc (explicit_path m) x).
Proof. exact match_assign_delivered. Qed.
Print Assumptions C14_assign_writes_at_position.

Theorem C14_delete_removes_at_position :
  forall doc (sev : hp -> jctx -> res json * list sevent) (p : list (vertex hp)) (m pm : @tm json),
    uniq doc -> NoDup (labels doc) -> no_parent p -> wf m ->
    In (abs m) (deval hp sev p (root_ctx doc)) -> parent m = Some pm ->
    exists y', lookup doc (steps_of (abs pm)) = Some (tdata pm) /\
               explicit_path m = steps_of (abs pm) ++ [vstep (data_name m)] /\
               remove (vstep (data_name m)) (tdata pm) = Some y' /\
               match_del doc m = (Ok tt, put_at doc (steps_of (abs pm)) y').
Proof. exact match_del_delivered. Qed.
Print Assumptions C14_delete_removes_at_position.
