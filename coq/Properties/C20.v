(* C20 -- traversal halts.
   C20_terminates: on every finite JSON tree the run of the machine is finite (k actions) and every budget beyond
   k delivers the complete answer.  C20_loop_detected: B actions without a result raise InfiniteLoopDetected
   (whatever the data interface: the machine is generic in it, cyclic heaps included).  C20_no_rescan: after
   the end nothing more is attempted.
   C20_attempts_bound: the attempts reported through tracing over the whole life of an iterator are at most
   2 x exams - 1, where `exams` (proofs/SpecWork.v) counts the (node, remaining path) evaluations the declarative
   definition of the path requires: one per application of a step to a context, one per node a recursive
   step visits, plus what the filters require (pw).  C20_attempts_bound_spec: the same about the
   specification stream, also when an exception cuts it short.  C20_has_filters_bounded: for the has family
   the filters' own requirement is `hwork` (the examinations of their nested searches), so the bound is closed
   for every path built from the library's own predicates and user callables.
   (The cyclic half -- F2/F3 in known_findings.json -- is outside the JSON-tree model.) *)
From Coq Require Import List ZArith String Bool PArith.
From TP Require Import Json PyPrim Machine Api Spec SpecHas.
From TP.proofs Require Import RefineBase Refine NextLayer Iterate WfRun Query SpecLemmas Top PropLemmas SpecWork.
Import ListNotations.

Theorem C20_terminates :
  forall (src : @source json) (vp : list (vertex Empty_set)) (tr : @tracecfg json),
    src_wf src -> valid_path Empty_set vp = true ->
    exists k : nat, forall B fuel, (k < Pos.to_nat B)%nat ->
      (List.length (deval Empty_set sev0 vp (abs (root_match src))) < fuel)%nat ->
      exact_answer Empty_set sev0 src vp (drain Empty_set ev0 src vp tr fuel B init_state).
Proof. exact find_matches_nopred. Qed.
Print Assumptions C20_terminates.

Theorem C20_loop_detected :
  forall (P : Type) ev (src : @source json) (vp : list (vertex P)) (tr : @tracecfg json) B k z evs z1 z2 ev2 b,
    quiet P ev src vp tr k z evs z1 -> step jshape P ev src vp tr z1 = SNext z2 ev2 b ->
    S k = Pos.to_nat B ->
    next jshape P ev B src vp tr z = (ORaise EInfiniteLoop, z2, evs ++ ev2).
Proof. exact next_budget. Qed.
Print Assumptions C20_loop_detected.

Theorem C20_no_rescan :
  forall (P : Type) ev (src : @source json) (vp : list (vertex P)) (tr : @tracecfg json) B z,
    pc z = PDone -> next jshape P ev B src vp tr z = (ORaise EStop, z, []).
Proof. exact stays_exhausted. Qed.
Print Assumptions C20_no_rescan.

Theorem C20_attempts_bound_spec :
  forall (P : Type) (sev : P -> jctx -> res json * list sevent) (pw : P -> jctx -> nat) (rest : list (vertex P)),
    pw_ok P sev pw rest ->
    forall i pm c, (ntr (fst (sem P sev i rest pm c)) + 1 <= 2 * exams P sev pw rest c)%nat.
Proof. exact attempts_bound. Qed.
Print Assumptions C20_attempts_bound_spec.

Theorem C20_attempts_bound :
  forall (P : Type) (sev : P -> jctx -> res json * list sevent) (src : @source json) (vp : list (vertex P))
         (tr : @tracecfg json) (pw : P -> jctx -> nat) d,
    pw_ok P sev pw vp -> complete P sev src vp tr d ->
    (ntr (map abs_ev (all_events d)) + 1 <= 2 * exams P sev pw vp (abs (root_match src)))%nat.
Proof. exact attempts_bound_run. Qed.
Print Assumptions C20_attempts_bound.

Theorem C20_has_filters_bounded :
  forall n (h : jpred) (c : jctx), (ntr (snd (seval_h n h c)) <= 2 * hwork n h c)%nat.
Proof. exact hwork_ok. Qed.
Print Assumptions C20_has_filters_bounded.

(* non-vacuity: [1, {"a": 2}] under $..a : 10 attempts, 7 examinations required *)
Example C20_bound_example :
  let d := JList 1 [JInt 1; JDict 2 [("a"%string, JInt 2)]] in
  let p : list (vertex Empty_set) := [VRec; VKey "a"%string] in
  ntr (fst (sem Empty_set sev0 0 p None (root_ctx d))) = 10%nat /\ exams Empty_set sev0 (fun _ _ => 0%nat) p (root_ctx d) = 7%nat.
Proof. vm_compute. split; reflexivity. Qed.
