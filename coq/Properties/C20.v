(* C20 -- traversal halts.
   C20_terminates: on every finite JSON tree the run of the machine is finite (k actions) and every budget beyond
   k delivers the complete answer.  C20_loop_detected: B actions without a result raise InfiniteLoopDetected
   (whatever the data interface: the machine is generic in it, cyclic heaps included).  C20_no_rescan: after
   the end nothing more is attempted.
   UNDISCHARGED: the explicit bound (attempts <= 2 x examinations) is not proved; the correspondence compares
   the complete trace-event stream with the specification's on every case. *)
From Coq Require Import List ZArith String Bool PArith.
From TP Require Import Json PyPrim Machine Spec.
From TP.proofs Require Import RefineBase Refine NextLayer Iterate WfRun Query SpecLemmas Top PropLemmas.
Import ListNotations.

Theorem C20_terminates :
  forall (src : @source json) (vp : list (vertex Empty_set)) (tr : @tracecfg json),
    src_wf src -> valid_path Empty_set vp = true ->
    exists k : nat, forall B fuel, (k < Pos.to_nat B)%nat ->
      (List.length (deval Empty_set sev0 vp (abs (root_match src))) < fuel)%nat ->
      exact_answer Empty_set sev0 src vp (drain Empty_set ev0 src vp tr fuel B init_state).
Proof. exact find_matches_nopred. Qed.
Print Assumptions C20_terminates.

Theorem C20_loop_detected :
  forall (P : Type) ev (src : @source json) (vp : list (vertex P)) (tr : @tracecfg json) B k z evs z1 z2 ev2 b,
    quiet P ev src vp tr k z evs z1 -> step jshape P ev src vp tr z1 = SNext z2 ev2 b ->
    S k = Pos.to_nat B ->
    next jshape P ev B src vp tr z = (ORaise EInfiniteLoop, z2, evs ++ ev2).
Proof. exact next_budget. Qed.
Print Assumptions C20_loop_detected.

Theorem C20_no_rescan :
  forall (P : Type) ev (src : @source json) (vp : list (vertex P)) (tr : @tracecfg json) B z,
    pc z = PDone -> next jshape P ev B src vp tr z = (ORaise EStop, z, []).
Proof. exact stays_exhausted. Qed.
Print Assumptions C20_no_rescan.
