(* C20 -- traversal halts.
   C20_terminates: on every finite JSON tree the run of the machine is finite (k actions) and every budget beyond
   k delivers the complete answer.  C20_loop_detected: B actions without a result raise InfiniteLoopDetected
   (whatever the data interface: the machine is generic in it, cyclic heaps included).  C20_no_rescan: after
   the end nothing more is attempted.
   C20_attempts_bound: the attempts reported through tracing over the whole life of an iterator are at most
   2 x exams - 1, where `exams` (proofs/SpecWork.v) counts the (node, remaining path) evaluations the declarative
   definition of the path requires: one per application of a step to a context, one per node a recursive
   step visits, plus what the filters require (pw).  C20_attempts_bound_spec: the same about the
   specification stream, also when an exception cuts it short.  C20_has_filters_bounded: for the has family
   the filters' own requirement is `hwork` (the examinations of their nested searches), so the bound is closed
   for every path built from the library's own predicates and user callables.
   C20_actions_bounded: a traced run of k actions made at least (k - 3) / 3 attempts (between two attempts the
   machine performs at most a report and a catch action).  C20_budget_suffices: hence, for a traced query, every
   budget beyond 6 x exams delivers the complete answer (or a correct prefix and the budget exception of a search
   nested in a filter): finding F1 (InfiniteLoopDetected on a finite document) can only occur when six times the
   examinations the path requires reach the 1 000 000-action budget of one next().
   (The cyclic half -- F2/F3 in known_findings.json -- is outside the JSON-tree model.) *)
From Coq Require Import List ZArith String Bool PArith.
From TP Require Import Json PyPrim Machine Api Spec SpecHas.
From TP.proofs Require Import RefineBase Refine NextLayer Iterate WfRun Query SpecLemmas Top PropLemmas SpecWork RunLength.
Import ListNotations.

Theorem C20_terminates :
  forall (src : @source json) (vp : list (vertex Empty_set)) (tr : @tracecfg json),
    src_wf src -> valid_path Empty_set vp = true ->
    exists k : nat, forall B fuel, (k < Pos.to_nat B)%nat ->
      (List.length (deval Empty_set sev0 vp (abs (root_match src))) < fuel)%nat ->
      exact_answer Empty_set sev0 src vp (drain Empty_set ev0 src vp tr fuel B init_state).
Proof. exact find_matches_nopred. Qed.
Print Assumptions C20_terminates.

Theorem C20_loop_detected :
  forall (P : Type) ev (src : @source json) (vp : list (vertex P)) (tr : @tracecfg json) B k z evs z1 z2 ev2 b,
    quiet P ev src vp tr k z evs z1 -> step jshape P ev src vp tr z1 = SNext z2 ev2 b ->
    S k = Pos.to_nat B ->
    next jshape P ev B src vp tr z = (ORaise EInfiniteLoop, z2, evs ++ ev2).
Proof. exact next_budget. Qed.
Print Assumptions C20_loop_detected.

Theorem C20_no_rescan :
  forall (P : Type) ev (src : @source json) (vp : list (vertex P)) (tr : @tracecfg json) B z,
    pc z = PDone -> next jshape P ev B src vp tr z = (ORaise EStop, z, []).
Proof. exact stays_exhausted. Qed.
Print Assumptions C20_no_rescan.

Theorem C20_attempts_bound_spec :
  forall (P : Type) (sev : P -> jctx -> res json * list sevent) (pw : P -> jctx -> nat) (rest : list (vertex P)),
    pw_ok P sev pw rest ->
    forall i pm c, (ntr (fst (sem P sev i rest pm c)) + 1 <= 2 * exams P sev pw rest c)%nat.
Proof. exact attempts_bound. Qed.
Print Assumptions C20_attempts_bound_spec.

Theorem C20_attempts_bound :
  forall (P : Type) (sev : P -> jctx -> res json * list sevent) (src : @source json) (vp : list (vertex P))
         (tr : @tracecfg json) (pw : P -> jctx -> nat) d,
    pw_ok P sev pw vp -> complete P sev src vp tr d ->
    (ntr (map abs_ev (all_events d)) + 1 <= 2 * exams P sev pw vp (abs (root_match src)))%nat.
Proof. exact attempts_bound_run. Qed.
Print Assumptions C20_attempts_bound.

Theorem C20_has_filters_bounded :
  forall n (h : jpred) (c : jctx), (ntr (snd (seval_h n h c)) <= 2 * hwork n h c)%nat.
Proof. exact hwork_ok. Qed.
Print Assumptions C20_has_filters_bounded.

(* non-vacuity: [1, {"a": 2}] under $..a : 10 attempts, 7 examinations required *)
Example C20_bound_example :
  let d := JList 1 [JInt 1; JDict 2 [("a"%string, JInt 2)]] in
  let p : list (vertex Empty_set) := [VRec; VKey "a"%string] in
  ntr (fst (sem Empty_set sev0 0 p None (root_ctx d))) = 10%nat /\ exams Empty_set sev0 (fun _ _ => 0%nat) p (root_ctx d) = 7%nat.
Proof. vm_compute. split; reflexivity. Qed.

Theorem C20_actions_bounded :
  forall (P : Type) ev (src : @source json) (vp : list (vertex P)) (pm : option (@tm json)) k evs z',
    run P ev src vp (Some pm) k init_state evs z' -> (k <= 3 * ntr_ev evs + 3)%nat.
Proof. exact run_length_init. Qed.
Print Assumptions C20_actions_bounded.

Theorem C20_budget_suffices :
  forall (P : Type) ev (sev : P -> jctx -> res json * list sevent) (src : @source json) (vp : list (vertex P))
         (pm0 : option (@tm json)),
    (forall p m, In (VPred p) vp -> wf m ->
       (fst (ev p m (Some pm0)) = fst (sev p (abs m)) /\
        map abs_ev (snd (ev p m (Some pm0))) = proj (tracing (Some pm0)) (snd (sev p (abs m)))) \/
       (exists e, fst (ev p m (Some pm0)) = Exn e /\ budget_exn e = true)) ->
    (forall p m, ev_results (snd (ev p m (Some pm0))) = []) ->
    src_wf src ->
    forall pw, pw_ok P sev pw vp ->
    exists k : nat, (k <= 6 * exams P sev pw vp (abs (root_match src)))%nat /\
      forall B fuel, (k < Pos.to_nat B)%nat ->
        (List.length (sresults (fst (answer P sev src vp (Some pm0)))) < fuel)%nat ->
        let d := drain P ev src vp (Some pm0) fuel B init_state in
        complete P sev src vp (Some pm0) d \/ sound_prefix P ev sev src vp (Some pm0) d.
Proof. exact iterator_spec_exams. Qed.
Print Assumptions C20_budget_suffices.
