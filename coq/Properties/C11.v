(* C11 -- a Match tells the truth about where its value lives.
   C11_value_at_chain: every well-formed match (all matches the machine creates, parks or reports are: WfRun)
   holds the very node its chain leads to through the document.  C11_chain_starts_at_root, C11_path_as_str:
   path_match_list runs from the root and path_as_str is the concatenation of its segments.
   C11_bookkeeping_invisible: the imaginary matches of filters, recursion and nested searches do not show in the
   chain.  C11_eq: Match.__eq__ is equality of the parent chains (data with Python ==, data_name), so equal
   values under equal keys in different places are different matches (C11_eq_needs_names).
   UNDISCHARGED: the round trip get_match(m.path, document) and "never the same location twice" (at most one
   recursive step, no comma list) need unique dict keys as an extra hypothesis and are not proved; both are
   direct oracles of this check's correspondence run. *)
From Coq Require Import List ZArith String Bool PArith.
From TP Require Import Json PyPrim Machine Spec Obs.
From TP.proofs Require Import RefineBase Refine NextLayer Iterate WfRun MatchLemmas.
Import ListNotations.

Theorem C11_value_at_chain : forall m : jtm, wf m -> cdata (abs m) = tdata m.
Proof. exact cdata_abs. Qed.
Print Assumptions C11_value_at_chain.

Theorem C11_reported_matches_are_well_formed :
  forall (P : Type) ev (src : @source json) vp tr, src_wf src ->
    (forall p m, ev_results (snd (ev p m tr)) = []) ->
    forall k z evs z', wfz z -> run P ev src vp tr k z evs z' -> wfz z' /\ Forall wf (ev_results evs).
Proof. exact wf_run. Qed.
Print Assumptions C11_reported_matches_are_well_formed.

Theorem C11_chain_starts_at_root : forall m : jtm,
    exists r rest, path_match_list m = r :: rest /\ (exists i d, r = TRoot i d).
Proof. exact path_match_list_starts_at_root. Qed.
Print Assumptions C11_chain_starts_at_root.

Theorem C11_path_as_str : forall m : jtm,
    path_as_str m = String.concat "" (map path_segment (path_match_list m)).
Proof. exact path_as_str_segments. Qed.
Print Assumptions C11_path_as_str.

Theorem C11_bookkeeping_invisible : forall i (rp : jtm) d x y, abs (TImag i rp d x y) = abs rp.
Proof. exact imaginary_invisible. Qed.
Print Assumptions C11_bookkeeping_invisible.

Theorem C11_eq : forall a b : jtm, match_eq a b = chains_equal (pchain a) (pchain b).
Proof. exact match_eq_chains. Qed.
Print Assumptions C11_eq.

Theorem C11_eq_needs_names : forall a b : jtm,
    match_eq a b = true -> name_eqb (data_name a) (data_name b) = true.
Proof. exact match_eq_needs_equal_names. Qed.
Print Assumptions C11_eq_needs_names.
