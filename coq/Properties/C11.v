(* C11 -- a Match tells the truth about where its value lives.
   C11_value_at_chain: every well-formed match (all matches the machine creates, parks or reports are: WfRun)
   holds the very node its chain leads to through the document.  C11_chain_starts_at_root, C11_path_as_str:
   path_match_list runs from the root and path_as_str is the concatenation of its segments.
   C11_bookkeeping_invisible: the imaginary matches of filters, recursion and nested searches do not show in the
   chain.  C11_eq: Match.__eq__ is equality of the parent chains (data with Python ==, data_name), so equal
   values under equal keys in different places are different matches (C11_eq_needs_names).
   C11_chain_is_true: in a document with unique dict keys every context a parent-free path produces (filters,
   recursion, wildcards, slices, negative indices as written) is a true chain: the steps read off it
   (match_to_path) lead from the document to the very node it holds.  C11_round_trip: get_match(m.path, document)
   on the model of the API finds a match holding the object m holds (or the search dies of its budget, F1).
   C11_no_location_twice(_rec): a parent-free path without comma-delimited steps and with no / exactly one
   recursive step yields no two results at the same location, where a location is the chain of positions from
   the root (key in a dict, normalised non-negative index in a list: C11_location_example shows that $[-1] and
   $[2] of a three-item list are one location). *)
From Coq Require Import List ZArith String Bool PArith.
From TP Require Import Json PyPrim Machine Api Spec SpecHas Mutate SpecSet Obs Dsl Run.
From TP.proofs Require Import RefineBase Refine NextLayer Iterate WfRun SpecLemmas BelowLemmas MatchLemmas RoundTrip RoundTripApi NoTwice.
Import ListNotations.

Theorem C11_value_at_chain : forall m : jtm, wf m -> cdata (abs m) = tdata m.
Proof. exact cdata_abs. Qed.
Print Assumptions C11_value_at_chain.

Theorem C11_reported_matches_are_well_formed :
  forall (P : Type) ev (src : @source json) vp tr, src_wf src ->
    (forall p m, ev_results (snd (ev p m tr)) = []) ->
    forall k z evs z', wfz z -> run P ev src vp tr k z evs z' -> wfz z' /\ Forall wf (ev_results evs).
Proof. exact wf_run. Qed.
Print Assumptions C11_reported_matches_are_well_formed.

Theorem C11_chain_starts_at_root : forall m : jtm,
    exists r rest, path_match_list m = r :: rest /\ (exists i d, r = TRoot i d).
Proof. exact path_match_list_starts_at_root. Qed.
Print Assumptions C11_chain_starts_at_root.

Theorem C11_path_as_str : forall m : jtm,
    path_as_str m = String.concat "" (map path_segment (path_match_list m)).
Proof. exact path_as_str_segments. Qed.
Print Assumptions C11_path_as_str.

Theorem C11_bookkeeping_invisible : forall i (rp : jtm) d x y, abs (TImag i rp d x y) = abs rp.
Proof. exact imaginary_invisible. Qed.
Print Assumptions C11_bookkeeping_invisible.

Theorem C11_eq : forall a b : jtm, match_eq a b = chains_equal (pchain a) (pchain b).
Proof. exact match_eq_chains. Qed.
Print Assumptions C11_eq.

Theorem C11_eq_needs_names : forall a b : jtm,
    match_eq a b = true -> name_eqb (data_name a) (data_name b) = true.
Proof. exact match_eq_needs_equal_names. Qed.
Print Assumptions C11_eq_needs_names.

Theorem C11_chain_is_true :
  forall (sev : hp -> jctx -> res json * list sevent) doc p c',
    uniq doc -> no_parent p -> In c' (deval hp sev p (root_ctx doc)) ->
    lookup doc (steps_of c') = Some (cdata c') /\ kipath (steps_of c') = true.
Proof. exact round_trip_spec. Qed.
Print Assumptions C11_chain_is_true.

Theorem C11_round_trip :
  forall (B H : positive) (depth : nat) doc (p : list (vertex hp)) (m : jtm) tr,
    uniq doc -> no_parent p -> wf m ->
    In (abs m) (deval hp (seval_h depth) p (root_ctx doc)) ->
    let r := fst (jget_match B H depth (SrcDoc doc) (explicit_path m) true tr) in
    (exists pm, r = Ok (Some pm) /\ tdata pm = tdata m) \/ (exists e, r = Exn e /\ budget_exn e = true).
Proof. exact get_match_round_trip. Qed.
Print Assumptions C11_round_trip.

Theorem C11_no_location_twice :
  forall doc (sev : hp -> jctx -> res json * list sevent),
    uniq doc -> forall q, simple q = true -> NoDup (map (loc doc) (deval hp sev q (root_ctx doc))).
Proof. exact no_location_twice_simple. Qed.
Print Assumptions C11_no_location_twice.

Theorem C11_no_location_twice_rec :
  forall doc (sev : hp -> jctx -> res json * list sevent),
    uniq doc -> forall q1 q2, simple q1 = true -> simple q2 = true ->
    NoDup (map (loc doc) (deval hp sev (q1 ++ VRec :: q2) (root_ctx doc))).
Proof. exact no_location_twice_rec. Qed.
Print Assumptions C11_no_location_twice_rec.

Example C11_location_example :
  let d := JList 1 [JInt 5; JInt 6; JInt 7] in
  loc d (ext (root_ctx d) (NInt (-1)) (JInt 7)) = loc d (ext (root_ctx d) (NInt 2) (JInt 7)) /\
  loc d (ext (root_ctx d) (NInt 2) (JInt 7)) = [Some (PI 2)].
Proof. split; reflexivity. Qed.
