(* Run.v -- the functions the correspondence harness calls: case -> canonical observation (DESIGN.md 4.1).
   Read-only family: a document and a script of API calls evaluated against it.
   Model file: definitions only. *)
From Coq Require Import List ZArith String Bool PArith.
From TP Require Import Json PyPrim Machine Api Obs Dsl.
Import ListNotations.
Open Scope string_scope.
Open Scope list_scope.

Definition jpred := @hpred json.
Definition jvertex := vertex jpred.
Definition jpath := list jvertex.
Definition jstate := @state json.
Definition jsource := @source json.
Definition jtrace := @tracecfg json.

Definition HFUEL : positive := 1099511627776%positive.   (* 2^40 results per has-loop *)
Definition DEPTH : nat := 8.

Section WithBudget.
Variable B : positive.

Definition j_next := @api_next json jshape (fun d => d) B HFUEL DEPTH.
Definition j_get_match := @get_match json jshape (fun d => d) B HFUEL DEPTH.
Definition j_get := @get json jshape (fun d => d) B HFUEL DEPTH.

Inductive qsrc := QDoc | QMatch (i : nat).

Inductive qcmd :=
| QIter (s : qsrc) (p : jpath) (vals tr push : bool) (* it = find(p, s) / find_matches(p, s); push: results join the match list *)
| QNext (it : nat)                                   (* next(it); a Match result is appended to the match list *)
| QDrain (it cap extra : nat)                        (* next(it) until it raises or cap results, then extra more *)
| QReiter (it : nat)                                 (* iter(it): the iterator itself, unchanged (what `for` and list() call first) *)
| QGetMatch (s : qsrc) (p : jpath) (must tr : bool)  (* a Match result is appended to the match list *)
| QGet (s : qsrc) (p : jpath) (d : @default) (tr : bool)
| QEq (i j : nat)                                    (* matches[i] == matches[j], and != *)
| QRoundtrip (i : nat)                               (* get_match(matches[i].path, document) *)
| QDescribe (i : nat)                                (* all metadata of matches[i] *)
| QSnap.                                             (* deep snapshot of the document (identities, order, values) *)

Record qcase := { q_doc : json; q_cmds : list qcmd }.

Record qiter := { i_src : jsource; i_path : jpath; i_vals : bool; i_push : bool; i_tr : jtrace; i_st : jstate }.
Record qenv := { e_iters : list qiter; e_matches : list jtm }.

Definition tr_of (b : bool) : jtrace := if b then Some None else None.

Definition resolve (doc : json) (e : qenv) (s : qsrc) : option jsource :=
  match s with
  | QDoc => Some (SrcDoc doc)
  | QMatch i => match nth_error (e_matches e) i with Some m => Some (SrcMatch m) | None => None end
  end.

Definition ooutcome (vals : bool) (o : @outcome json) : otree :=
  match o with
  | OResult m => if vals then ON "value" [lval (tdata m)] else ON "result" [mref m]
  | ORaise e => ON "raise" [oexn e]
  end.

Fixpoint set_nth_iter (l : list qiter) (k : nat) (v : qiter) : list qiter :=
  match l, k with
  | [], _ => []
  | _ :: r, O => v :: r
  | x :: r, S k' => x :: set_nth_iter r k' v
  end.

(* match_to_path: path[data_name] for every element of path_match_list but the first *)
Definition explicit_path (m : jtm) : jpath :=
  map (fun x => match data_name x with NStr k => VKey k | NInt i => VIdx i end) (tl (path_match_list m)).

Definition skip : otree := ON "skip" [].

Definition next_iter (it : qiter) (ms : list jtm) : otree * bool * qiter * list jtm :=
  let '(o, z', es) := j_next (i_src it) (i_path it) (i_tr it) (i_st it) in
  let it' := {| i_src := i_src it; i_path := i_path it; i_vals := i_vals it; i_push := i_push it; i_tr := i_tr it; i_st := z' |} in
  let ms' := match o with
             | OResult m => if i_vals it || negb (i_push it) then ms else ms ++ [m]
             | _ => ms
             end in
  (ON "next" [ooutcome (i_vals it) o; oevents es], match o with OResult _ => true | _ => false end, it', ms').

Fixpoint extra_nexts (n : nat) (it : qiter) (ms : list jtm) : list otree * qiter * list jtm :=
  match n with
  | O => ([], it, ms)
  | S n' => let '(o, _, it', ms') := next_iter it ms in
            let '(os, it'', ms'') := extra_nexts n' it' ms' in (o :: os, it'', ms'')
  end.

Fixpoint drain_iter (cap extra : nat) (it : qiter) (ms : list jtm) : list otree * qiter * list jtm :=
  match cap with
  | O => extra_nexts extra it ms
  | S cap' =>
      let '(o, more, it', ms') := next_iter it ms in
      if more then let '(os, it'', ms'') := drain_iter cap' extra it' ms' in (o :: os, it'', ms'')
      else let '(os, it'', ms'') := extra_nexts extra it' ms' in (o :: os, it'', ms'')
  end.

Definition run_cmd (doc : json) (e : qenv) (c : qcmd) : otree * qenv :=
  match c with
  | QIter s p vals tr push =>
      match resolve doc e s with
      | None => (skip, e)
      | Some src =>
          (ON "iter" [],
           {| e_iters := e_iters e ++ [{| i_src := src; i_path := p; i_vals := vals; i_push := push; i_tr := tr_of tr; i_st := init_state |}];
              e_matches := e_matches e |})
      end
  | QNext k =>
      match nth_error (e_iters e) k with
      | None => (skip, e)
      | Some it =>
          let '(o, z', es) := j_next (i_src it) (i_path it) (i_tr it) (i_st it) in
          let it' := {| i_src := i_src it; i_path := i_path it; i_vals := i_vals it; i_push := i_push it; i_tr := i_tr it; i_st := z' |} in
          let ms := match o with
                    | OResult m => if i_vals it || negb (i_push it) then e_matches e else e_matches e ++ [m]
                    | _ => e_matches e
                    end in
          (ON "next" [ooutcome (i_vals it) o; oevents es],
           {| e_iters := set_nth_iter (e_iters e) k it'; e_matches := ms |})
      end
  | QReiter k =>
      match nth_error (e_iters e) k with
      | None => (skip, e)
      | Some _ => (ON "reiter" [obool true], e)
      end
  | QDrain k cap extra =>
      match nth_error (e_iters e) k with
      | None => (skip, e)
      | Some it =>
          let '(obs, it', ms) := drain_iter cap extra it (e_matches e) in
          (ON "drain" obs, {| e_iters := set_nth_iter (e_iters e) k it'; e_matches := ms |})
      end
  | QGetMatch s p must tr =>
      match resolve doc e s with
      | None => (skip, e)
      | Some src =>
          match j_get_match src p must (tr_of tr) with
          | (Ok (Some m), es) =>
              (ON "get_match" [ON "result" [mref m]; oevents es],
               {| e_iters := e_iters e; e_matches := e_matches e ++ [m] |})
          | (Ok None, es) => (ON "get_match" [ON "none" []; oevents es], e)
          | (Exn x, es) => (ON "get_match" [ON "raise" [oexn x]; oevents es], e)
          end
      end
  | QGet s p d tr =>
      match resolve doc e s with
      | None => (skip, e)
      | Some src =>
          match j_get src p d (tr_of tr) with
          | (Ok (GData m), es) => (ON "get" [ON "value" [lval (tdata m)]; oevents es], e)
          | (Ok (GDefault v), es) => (ON "get" [ON "default" [lval v]; oevents es], e)
          | (Exn x, es) => (ON "get" [ON "raise" [oexn x]; oevents es], e)
          end
      end
  | QEq i j =>
      match nth_error (e_matches e) i, nth_error (e_matches e) j with
      | Some a, Some b => (ON "eq" [obool (match_eq a b); obool (negb (match_eq a b))], e)
      | _, _ => (skip, e)
      end
  | QRoundtrip i =>
      match nth_error (e_matches e) i with
      | None => (skip, e)
      | Some m =>
          match j_get_match (SrcDoc doc) (explicit_path m) true None with
          | (Ok (Some r), _) => (ON "roundtrip" [ON "result" [mref r]], e)
          | (Ok None, _) => (ON "roundtrip" [ON "none" []], e)
          | (Exn x, _) => (ON "roundtrip" [ON "raise" [oexn x]], e)
          end
      end
  | QDescribe i =>
      match nth_error (e_matches e) i with
      | None => (skip, e)
      | Some m => (mdesc m, e)
      end
  | QSnap => (ON "snap" [snapshot doc], e)
  end.

Fixpoint run_cmds (doc : json) (e : qenv) (cs : list qcmd) : list otree :=
  match cs with
  | [] => []
  | c :: r => let '(o, e') := run_cmd doc e c in o :: run_cmds doc e' r
  end.

Definition run_qcase (c : qcase) : otree :=
  ON "q" (run_cmds (q_doc c) {| e_iters := []; e_matches := [] |} (q_cmds c)).

End WithBudget.

(* the library's constant *)
Definition BUDGET : positive := 1000000%positive.
