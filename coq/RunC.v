(* RunC.v -- the same machine on self-referential (cyclic) structures: the data interface is a finite heap of
   nodes addressed by index, so a dict or list can (transitively) contain itself.  Used by C20: a search that
   cannot finish raises InfiniteLoopDetected when the budget of a next() is spent; reachable results are still
   delivered.  Model file: definitions only. *)
From Coq Require Import List ZArith String Bool PArith.
From TP Require Import Json PyPrim Machine Obs.
Import ListNotations.
Open Scope string_scope.
Open Scope list_scope.

Inductive hnode := HDict (its : list (string * nat)) | HList (its : list nat) | HScalar (v : json).

Definition hshape (heap : list hnode) (i : nat) : shp nat :=
  match nth_error heap i with
  | Some (HDict its) => SDict its
  | Some (HList its) => SList its
  | _ => SScalar
  end.

Notation htm := (@tm nat).

Fixpoint hsegment (m : htm) : string :=
  match m with
  | TRoot _ _ => "$"
  | TNRoot _ o _ => hsegment o
  | TKey _ _ k _ _ _ => "." ++ k
  | TIdx _ _ i _ _ _ => "[" ++ string_of_Z i ++ "]"
  | TImag _ rp _ _ _ => hsegment rp
  | TPar _ _ _ nm _ _ _ => "<-" ++ name_str nm
  end.
Definition hpath (m : htm) : string := String.concat "" (map hsegment (path_match_list m)).

(* paths over cyclic data: no filters (user predicates are functions of JSON values) *)
Definition ev_none (p : Empty_set) (m : htm) (t : @tracecfg nat) : res json * list (@event nat) := match p with end.

Record ccase := { c_heap : list hnode; c_root : nat; c_path : list (vertex Empty_set); c_vals : bool; c_nexts : nat }.

Definition hval (heap : list hnode) (i : nat) : otree :=
  match nth_error heap i with
  | Some (HScalar v) => lval v
  | Some (HDict _) => ON "dictref" [OZ (Z.of_nat i)]
  | Some (HList _) => ON "listref" [OZ (Z.of_nat i)]
  | None => ON "null" []
  end.

Fixpoint run_nexts (B : positive) (heap : list hnode) (root : nat) (p : list (vertex Empty_set)) (vals : bool)
         (n : nat) (z : @state nat) : list otree :=
  match n with
  | O => []
  | S n' =>
      match next (hshape heap) Empty_set ev_none B (SrcDoc root) p None z with
      | (OResult m, z', _) =>
          (if vals then ON "value" [hval heap (tdata m)] else ON "result" [OS (hpath m); hval heap (tdata m)])
          :: run_nexts B heap root p vals n' z'
      | (ORaise e, z', _) => ON "raise" [oexn e] :: run_nexts B heap root p vals n' z'
      end
  end.

Definition run_ccase (B : positive) (c : ccase) : otree :=
  ON "c" (run_nexts B (c_heap c) (c_root c) (c_path c) (c_vals c) (c_nexts c) init_state).
