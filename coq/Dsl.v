(* Dsl.v -- the user callables of the correspondence harness (DESIGN.md 4.3): every predicate and every
   conversion function exists once here and once in harness/dsl.py.  Model file: definitions only. *)
From Coq Require Import List ZArith String Bool.
From TP Require Import Json PyPrim Machine.
Import ListNotations.
Open Scope list_scope.

Definition jctx := ctx json.

Definition last_entry (c : jctx) : option (centry json) := List.last (map Some c) None.
Definition c_data (c : jctx) : json := match last_entry c with Some (_, _, d) => d | None => JNull end.
Definition c_name (c : jctx) : name := match last_entry c with Some (_, n, _) => n | None => NStr "" end.
Definition c_parent (c : jctx) : jctx := removelast c.

(* ---- user predicates: functions of the public view of the candidate *)
Definition u_const (v : json) : jctx -> res json := fun _ => Ok v.                 (* lambda m: v *)
(* raise Boom(n); n = 0 stands for `raise StopIteration` (an exception like any other for a filter) *)
Definition uexn (n : nat) : exn := match n with O => EStop | _ => EUser n end.
Definition u_raise (n : nat) : jctx -> res json := fun _ => Exn (uexn n).
Definition u_data : jctx -> res json := fun c => Ok (c_data c).                    (* lambda m: m.data *)
Definition u_data_eq (v : json) : jctx -> res json := fun c => Ok (JBool (py_eq (c_data c) v)).
Definition u_name_eq (n : name) : jctx -> res json := fun c => Ok (JBool (name_eqb (c_name c) n)).
(* lambda m: len(m.path_match_list) - 1     (0 at the root: a falsy non-bool) *)
Definition u_depth : jctx -> res json := fun c => Ok (JInt (Z.of_nat (List.length c) - 1)).
(* lambda m: m.parent.data_name if m.parent else None *)
Definition u_parent_name : jctx -> res json :=
  fun c => match c_parent c with
           | [] => Ok JNull
           | p => Ok (match c_name p with NStr s => JStr s | NInt z => JInt z end)
           end.
(* lambda m: m.data == v or raise Boom(n)   -- raises on part of the data *)
Definition u_eq_or_raise (v : json) (n : nat) : jctx -> res json :=
  fun c => if py_eq (c_data c) v then Exn (uexn n) else Ok (JBool true).

(* ---- conversion functions *)
Definition f_neg (v : json) : res json :=
  match v with
  | JBool b => Ok (JInt (if b then -1 else 0))
  | JInt z => Ok (JInt (- z))
  | JFloat h => Ok (JFloat (- h))
  | _ => Exn EType
  end.
Definition f_len (v : json) : res json :=
  match v with
  | JStr s => Ok (JInt (Z.of_nat (String.length s)))
  | JList _ l => Ok (JInt (Z.of_nat (List.length l)))
  | JDict _ l => Ok (JInt (Z.of_nat (List.length l)))
  | _ => Exn EType
  end.
Definition f_not (v : json) : res json := Ok (JBool (negb (truthy v))).
Definition f_truth (v : json) : res json := Ok (JBool (truthy v)).
Definition f_int (v : json) : res json :=
  match v with
  | JBool b => Ok (JInt (if b then 1 else 0))
  | JInt z => Ok (JInt z)
  | JFloat h => Ok (JInt (Z.quot h 2))
  | JStr _ => Exn EValue
  | _ => Exn EType
  end.
Definition f_dbl (v : json) : res json :=
  match v with
  | JBool b => Ok (JInt (if b then 2 else 0))
  | JInt z => Ok (JInt (2 * z))
  | JFloat h => Ok (JFloat (2 * h))
  | JStr s => Ok (JStr (s ++ s))
  | _ => Exn EType
  end.
Definition f_boom (n : nat) (v : json) : res json := Exn (EUser n).
Definition f_is_none (v : json) : res json := Ok (JBool (match v with JNull => true | _ => false end)).
