(* RunM.v -- mutation histories: a document evolving under a sequence of set_ / cascade / pop /
   Match.data operations; the observation after every operation is the outcome plus a deep snapshot.
   Model file: definitions only. *)
From Coq Require Import List ZArith String Bool PArith.
From TP Require Import Json PyPrim Machine Api Obs Dsl Run Mutate SpecSet.
Import ListNotations.
Open Scope string_scope.
Open Scope list_scope.

(* ------------------------------------------------------------------ canonical labels for created containers *)
(* containers created by a cascade carry temporary labels >= base in creation order; the harness labels new
   containers in document pre-order after each operation, so the model renames to that order *)
Definition HIGH : nat := 1000.   (* labels of containers inside user-supplied values start here *)

Fixpoint labels_from (base : nat) (d : json) : list nat :=
  match d with
  | JList i l => (if Nat.leb base i && Nat.ltb i HIGH then [i] else []) ++ flat_map (labels_from base) l
  | JDict i l => (if Nat.leb base i && Nat.ltb i HIGH then [i] else []) ++ flat_map (fun kx => labels_from base (snd kx)) l
  | _ => []
  end.

Fixpoint index_of (x : nat) (l : list nat) (k : nat) : option nat :=
  match l with [] => None | y :: r => if Nat.eqb x y then Some k else index_of x r (S k) end.


Definition renamer (base : nat) (order : list nat) (i : nat) : nat :=
  if Nat.leb base i && Nat.ltb i HIGH
  then match index_of i order 0 with Some k => base + k | None => 0 end
  else i.

Fixpoint relabel (f : nat -> nat) (d : json) : json :=
  match d with
  | JList i l => JList (f i) (map (relabel f) l)
  | JDict i l => JDict (f i) (map (fun kx => (fst kx, relabel f (snd kx))) l)
  | _ => d
  end.

Fixpoint tm_map (f : json -> json) (m : jtm) : jtm :=
  match m with
  | TRoot i d => TRoot i (f d)
  | TNRoot i o d => TNRoot i (tm_map f o) (f d)
  | TKey i rp k d x y => TKey i (tm_map f rp) k (f d) x y
  | TIdx i rp z d x y => TIdx i (tm_map f rp) z (f d) x y
  | TImag i rp d x y => TImag i (tm_map f rp) (f d) x y
  | TPar i rem rp nm d x y => TPar i (tm_map f rem) (tm_map f rp) nm (f d) x y
  end.

Definition with_data (m : jtm) (v : json) : jtm :=
  match m with
  | TRoot i _ => TRoot i v
  | TNRoot i o _ => TNRoot i o v
  | TKey i rp k _ x y => TKey i rp k v x y
  | TIdx i rp z _ x y => TIdx i rp z v x y
  | TImag i rp _ x y => TImag i rp v x y
  | TPar i rem rp nm _ x y => TPar i rem rp nm v x y
  end.

(* structural equality of documents, identity labels included *)
Fixpoint json_eqb (a b : json) : bool :=
  match a, b with
  | JNull, JNull => true
  | JBool x, JBool y => Bool.eqb x y
  | JInt x, JInt y => Z.eqb x y
  | JFloat x, JFloat y => Z.eqb x y
  | JStr x, JStr y => String.eqb x y
  | JList i l, JList j m =>
      Nat.eqb i j &&
      (fix go (l m : list json) : bool :=
         match l, m with [], [] => true | x :: l', y :: m' => json_eqb x y && go l' m' | _, _ => false end) l m
  | JDict i l, JDict j m =>
      Nat.eqb i j &&
      (fix go (l m : list (string * json)) : bool :=
         match l, m with
         | [], [] => true
         | (k, x) :: l', (k', y) :: m' => String.eqb k k' && json_eqb x y && go l' m'
         | _, _ => false
         end) l m
  | _, _ => false
  end.

(* the held match is a current view of the document: its explicit path leads to the value it holds (hypothesis
   `lookup doc bp = Some (tdata m)` of set_match_cset_from, with bp = explicit_path m) *)
Definition currentb (doc : json) (m : jtm) : bool :=
  match lookup doc (explicit_path m) with Some y => json_eqb y (tdata m) | None => false end.

Section WithBudget.
Variable B : positive.

Inductive mop :=
| MSet (p : jpath) (v : json) (cascade as_match : bool)   (* set_ / set_match (the Match is appended to held) *)
| MGetStore (p : jpath) (d : @default)                    (* get(p, doc, default=..., store_default=True) *)
| MPop (p : jpath) (d : option json)                      (* pop(p, doc) / pop(p, doc, default) *)
| MPopMatch (p : jpath) (must : bool)                     (* pop_match(p, doc, must_match=must) *)
| MHold (p : jpath) (k : nat)                             (* held.append(k-th match of find_matches(p, doc)) *)
| MAssign (i : nat) (v : json)                            (* held[i].data = v *)
| MDel (i : nat)                                          (* del held[i].data *)
| MMPop (i : nat) (d : option json)                       (* held[i].pop() / held[i].pop(default) *)
| MRead (i : nat)                                         (* held[i].data, held[i].path_as_str *)
| MGet (p : jpath) (d : @default)                         (* get(p, doc[, default]) : no store *)
| MFind (p : jpath)                                       (* list(find(p, doc)) *)
| MSetFrom (p : jpath) (v : json) (cascade : bool)        (* set_(p, v, held[-1], cascade): the Match just held is the data source *)
| MPopFrom (p : jpath) (d : option json)                  (* pop(p, held[-1][, default]) *)
| MGetStoreFrom (p : jpath) (d : @default).               (* get(p, held[-1], default=..., store_default=True) *)

Record mcase := { m_doc0 : json; m_nl0 : nat; m_ops : list mop }.
(* m_fresh: the previous operation was a successful hold (the last held match is a current view of the document) *)
Record menv := { m_doc : json; m_nl : nat; m_held : list jtm; m_fresh : bool }.

Definition m_set_match := set_match B HFUEL DEPTH.
Definition m_pop_match := pop_match B HFUEL DEPTH.

Fixpoint set_nth_tm (l : list jtm) (k : nat) (v : jtm) : list jtm :=
  match l, k with
  | [], _ => []
  | _ :: r, O => v :: r
  | x :: r, S k' => x :: set_nth_tm r k' v
  end.

(* k-th result of find_matches(p, doc) *)
Fixpoint kth_match (fuel : nat) (doc : json) (p : jpath) (k : nat) (z : jstate) : res (option jtm) :=
  match fuel with
  | O => Exn EFuel
  | S fuel' =>
      match j_next B (SrcDoc doc) p None z with
      | (OResult m, z', _) => match k with O => Ok (Some m) | S k' => kth_match fuel' doc p k' z' end
      | (ORaise EStop, _, _) => Ok None
      | (ORaise e, _, _) => Exn e
      end
  end.

(* list(find(p, doc)) *)
Fixpoint find_all (fuel : nat) (doc : json) (p : jpath) (z : jstate) : list otree :=
  match fuel with
  | O => [ON "cap" []]
  | S f =>
      match j_next B (SrcDoc doc) p None z with
      | (OResult m, z', _) => ON "value" [lval (tdata m)] :: find_all f doc p z'
      | (ORaise EStop, _, _) => []
      | (ORaise x, _, _) => [ON "raise" [oexn x]]
      end
  end.

Definition ores {A} (f : A -> otree) (r : res A) : otree :=
  match r with Ok a => f a | Exn e => ON "raise" [oexn e] end.

(* the container a held match would write to is no longer part of the document: outside every property,
   the harness does not perform the operation either *)
Definition detached (doc : json) (m : jtm) : bool :=
  match parent m with
  | Some pm => match label_of (tdata pm) with
               | Some i => match find_by_id i doc with Some _ => false | None => true end
               | None => false
               end
  | None => false
  end.

(* outcome, events, new document, new label counter, new held list *)
Definition run_mop (e : menv) (o : mop) : otree * menv :=
  let doc := m_doc e in
  let finish (ob : otree) (doc' : json) (nl' : nat) (held' : list jtm) : otree * menv :=
    let order := labels_from (m_nl e) doc' in
    let f := renamer (m_nl e) order in
    let doc2 := relabel f doc' in
    (ON "op" [ob; snapshot doc2],
     {| m_doc := doc2; m_nl := m_nl e + List.length order; m_held := map (tm_map (relabel f)) held'; m_fresh := false |}) in
  match o with
  | MSet p v cascade as_match =>
      match m_set_match (S (List.length p)) (SrcDoc doc) doc p v cascade None (m_nl e) with
      | (Ok m, doc', nl', es) =>
          finish (ON "set" [if as_match then ON "result" [mref m] else ON "value" [lval (tdata m)]; oevents es;
                            ON "fresh" [obool (freshb doc (m_nl e) (List.length p))]])
                 doc' nl' (if as_match then m_held e ++ [m] else m_held e)
      | (Exn x, doc', nl', es) =>
          finish (ON "set" [ON "raise" [oexn x]; oevents es; ON "fresh" [obool (freshb doc (m_nl e) (List.length p))]])
                 doc' nl' (m_held e)
      end
  | MGetStore p d =>
      match j_get B (SrcDoc doc) p d None with
      | (Ok (GData m), es) =>
          finish (ON "getstore" [ON "got" [lval (tdata m)]; oevents es;
                                 ON "fresh" [obool (freshb doc (m_nl e) (List.length p))]]) doc (m_nl e) (m_held e)
      | (Ok (GDefault v), es) =>
          match m_set_match (S (List.length p)) (SrcDoc doc) doc p v true None (m_nl e) with
          | (Ok _, doc', nl', es') =>
              finish (ON "getstore" [ON "got" [lval v]; oevents (es ++ es');
                                     ON "fresh" [obool (freshb doc (m_nl e) (List.length p))]]) doc' nl' (m_held e)
          | (Exn x, doc', nl', es') =>
              finish (ON "getstore" [ON "raise" [oexn x]; oevents (es ++ es');
                                     ON "fresh" [obool (freshb doc (m_nl e) (List.length p))]]) doc' nl' (m_held e)
          end
      | (Exn x, es) =>
          finish (ON "getstore" [ON "raise" [oexn x]; oevents es;
                                 ON "fresh" [obool (freshb doc (m_nl e) (List.length p))]]) doc (m_nl e) (m_held e)
      end
  | MPop p d =>
      let must := match d with None => true | Some _ => false end in
      match m_pop_match (SrcDoc doc) doc p must None with
      | (Ok (Some m), doc', es) => finish (ON "pop" [ON "got" [lval (tdata m)]; oevents es]) doc' (m_nl e) (m_held e)
      | (Ok None, doc', es) =>
          finish (ON "pop" [ON "got" [lval (match d with Some v => v | None => JNull end)]; oevents es])
                 doc' (m_nl e) (m_held e)
      | (Exn x, doc', es) => finish (ON "pop" [ON "raise" [oexn x]; oevents es]) doc' (m_nl e) (m_held e)
      end
  | MPopMatch p must =>
      match m_pop_match (SrcDoc doc) doc p must None with
      | (Ok (Some m), doc', es) => finish (ON "pop_match" [ON "result" [mref m]; oevents es]) doc' (m_nl e) (m_held e ++ [m])
      | (Ok None, doc', es) => finish (ON "pop_match" [ON "none" []; oevents es]) doc' (m_nl e) (m_held e)
      | (Exn x, doc', es) => finish (ON "pop_match" [ON "raise" [oexn x]; oevents es]) doc' (m_nl e) (m_held e)
      end
  | MHold p k =>
      match kth_match (S k) doc p k init_state with
      | Ok (Some m) =>
          let '(t, e') := finish (ON "hold" [ON "result" [mref m]]) doc (m_nl e) (m_held e ++ [m]) in
          (t, {| m_doc := m_doc e'; m_nl := m_nl e'; m_held := m_held e'; m_fresh := true |})
      | Ok None => finish (ON "hold" [ON "none" []]) doc (m_nl e) (m_held e)
      | Exn x => finish (ON "hold" [ON "raise" [oexn x]]) doc (m_nl e) (m_held e)
      end
  | MAssign i v =>
      match nth_error (m_held e) i with
      | None => finish (ON "skip" []) doc (m_nl e) (m_held e)
      | Some m =>
          if detached doc m then finish (ON "detached" []) doc (m_nl e) (m_held e) else
          match match_assign doc m v with
          | (Ok _, doc') =>
              finish (ON "assign" [ON "ok" [lval v]]) doc' (m_nl e) (set_nth_tm (m_held e) i (with_data m v))
          | (Exn x, doc') => finish (ON "assign" [ON "raise" [oexn x]]) doc' (m_nl e) (m_held e)
          end
      end
  | MDel i =>
      match nth_error (m_held e) i with
      | None => finish (ON "skip" []) doc (m_nl e) (m_held e)
      | Some m =>
          if detached doc m then finish (ON "detached" []) doc (m_nl e) (m_held e) else
          match match_del doc m with
          | (Ok _, doc') => finish (ON "del" [ON "ok" []]) doc' (m_nl e) (set_nth_tm (m_held e) i (with_data m JNull))
          | (Exn x, doc') => finish (ON "del" [ON "raise" [oexn x]]) doc' (m_nl e) (m_held e)
          end
      end
  | MMPop i d =>
      match nth_error (m_held e) i with
      | None => finish (ON "skip" []) doc (m_nl e) (m_held e)
      | Some m =>
          if detached doc m then finish (ON "detached" []) doc (m_nl e) (m_held e) else
          match match_del doc m with
          | (Ok _, doc') =>
              finish (ON "mpop" [ON "got" [lval (tdata m)]]) doc' (m_nl e) (set_nth_tm (m_held e) i (with_data m JNull))
          | (Exn EPop, doc') =>
              match d with
              | Some v => finish (ON "mpop" [ON "got" [lval v]]) doc' (m_nl e) (m_held e)
              | None => finish (ON "mpop" [ON "raise" [oexn EPop]]) doc' (m_nl e) (m_held e)
              end
          | (Exn x, doc') => finish (ON "mpop" [ON "raise" [oexn x]]) doc' (m_nl e) (m_held e)
          end
      end
  | MRead i =>
      match nth_error (m_held e) i with
      | None => finish (ON "skip" []) doc (m_nl e) (m_held e)
      | Some m => finish (ON "read" [lval (tdata m); OS (path_as_str m); oname (data_name m)]) doc (m_nl e) (m_held e)
      end
  | MGet p d =>
      match j_get B (SrcDoc doc) p d None with
      | (Ok (GData m), es) => finish (ON "get" [ON "got" [lval (tdata m)]; oevents es]) doc (m_nl e) (m_held e)
      | (Ok (GDefault v), es) => finish (ON "get" [ON "got" [lval v]; oevents es]) doc (m_nl e) (m_held e)
      | (Exn x, es) => finish (ON "get" [ON "raise" [oexn x]; oevents es]) doc (m_nl e) (m_held e)
      end
  | MFind p =>
      finish (ON "find" (find_all 200 doc p init_state)) doc (m_nl e) (m_held e)
  | MSetFrom p v cascade =>
      match (if m_fresh e then List.last (map Some (m_held e)) None else None) with
      | None => finish (ON "skip" []) doc (m_nl e) (m_held e)
      | Some m =>
          match m_set_match (S (List.length p)) (SrcMatch m) doc p v cascade None (m_nl e) with
          | (Ok r, doc', nl', es) =>
              finish (ON "setfrom" [ON "value" [lval (tdata r)]; oevents es;
                                    ON "fresh" [obool (freshb doc (m_nl e) (List.length p) && currentb doc m)]]) doc' nl' (m_held e)
          | (Exn x, doc', nl', es) =>
              finish (ON "setfrom" [ON "raise" [oexn x]; oevents es;
                                    ON "fresh" [obool (freshb doc (m_nl e) (List.length p) && currentb doc m)]]) doc' nl' (m_held e)
          end
      end
  | MGetStoreFrom p d =>
      match (if m_fresh e then List.last (map Some (m_held e)) None else None) with
      | None => finish (ON "skip" []) doc (m_nl e) (m_held e)
      | Some m =>
          match j_get B (SrcMatch m) p d None with
          | (Ok (GData r), es) => finish (ON "getstorefrom" [ON "got" [lval (tdata r)]; oevents es]) doc (m_nl e) (m_held e)
          | (Ok (GDefault v), es) =>
              match m_set_match (S (List.length p)) (SrcMatch m) doc p v true None (m_nl e) with
              | (Ok _, doc', nl', es') =>
                  finish (ON "getstorefrom" [ON "got" [lval v]; oevents (es ++ es')]) doc' nl' (m_held e)
              | (Exn x, doc', nl', es') =>
                  finish (ON "getstorefrom" [ON "raise" [oexn x]; oevents (es ++ es')]) doc' nl' (m_held e)
              end
          | (Exn x, es) => finish (ON "getstorefrom" [ON "raise" [oexn x]; oevents es]) doc (m_nl e) (m_held e)
          end
      end
  | MPopFrom p d =>
      match (if m_fresh e then List.last (map Some (m_held e)) None else None) with
      | None => finish (ON "skip" []) doc (m_nl e) (m_held e)
      | Some m =>
          let must := match d with None => true | Some _ => false end in
          match m_pop_match (SrcMatch m) doc p must None with
          | (Ok (Some r), doc', es) => finish (ON "popfrom" [ON "got" [lval (tdata r)]; oevents es]) doc' (m_nl e) (m_held e)
          | (Ok None, doc', es) =>
              finish (ON "popfrom" [ON "got" [lval (match d with Some v => v | None => JNull end)]; oevents es])
                     doc' (m_nl e) (m_held e)
          | (Exn x, doc', es) => finish (ON "popfrom" [ON "raise" [oexn x]; oevents es]) doc' (m_nl e) (m_held e)
          end
      end
  end.

Fixpoint run_mops (e : menv) (os : list mop) : list otree :=
  match os with
  | [] => []
  | o :: r => let '(ob, e') := run_mop e o in ob :: run_mops e' r
  end.

Definition run_mcase (c : mcase) : otree :=
  ON "m" (snapshot (m_doc0 c) :: run_mops {| m_doc := m_doc0 c; m_nl := m_nl0 c; m_held := []; m_fresh := false |} (m_ops c)).

End WithBudget.

(* ------------------------------------------------------------------ descriptor histories (C18)
   The harness performs the operations through attr / attr_typed / attr_iter_typed descriptors and the
   deprecated pprop / mprop; the model performs the equivalent plain traversal functions.  Assignments and
   deletions through a descriptor return nothing, so their outcome is compared as ok / exception only. *)
Definition strip_res (t : otree) : otree :=
  match t with ON "raise" k => ON "raise" k | _ => ON "ok" [] end.

Definition strip_op (t : otree) : otree :=
  match t with
  | ON "op" [ON tag (r :: _); snap] =>
      if String.eqb tag "set" || String.eqb tag "pop" then ON "op" [ON tag [strip_res r]; snap]
      else if String.eqb tag "find" then t
      else ON "op" [ON tag [r]; snap]
  | _ => t
  end.

Definition run_dcase (B : positive) (c : mcase) : otree :=
  match run_mcase B c with
  | ON _ (s0 :: ops) => ON "d" (s0 :: map strip_op ops)
  | t => t
  end.
