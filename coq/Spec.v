(* Spec.v -- what a path means (DESIGN.md 3.4): a step-by-step denotational semantics producing the full
   ordered event stream of a query.  No stores, no ids, no resume pointers, no imaginary matches.
   Contexts are what the public Match API shows (the derivation chain); the tree location of a context is
   obtained by a stack discipline: root/key/index entries push, a parent entry pops.
   Specification file: definitions only. *)
From Coq Require Import List ZArith String Bool.
From TP Require Import Json PyPrim Machine.
Import ListNotations.
Open Scope list_scope.

Definition jctx := ctx json.

(* events of the specification: trace events are always listed (a run without a trace callable shows the
   projection without them, see proj) *)
Inductive sevent :=
| STrace (last : jctx) (next : option jctx) (vi : nat) (pm : option jctx)
| SCall (tag : nat) (c : jctx)
| SCallF (tag : nat) (arg : json)
| SResult (c : jctx).

Definition is_trace (e : sevent) : bool := match e with STrace _ _ _ _ => true | _ => false end.
Definition is_result (e : sevent) : bool := match e with SResult _ => true | _ => false end.
Definition proj (tracing : bool) (es : list sevent) : list sevent :=
  if tracing then es else filter (fun e => negb (is_trace e)) es.

(* ------------------------------------------------------------------ tree location by stack discipline *)
Definition push_entry (st : list (name * json)) (e : centry json) : list (name * json) :=
  match e with
  | (KPar, _, _) => tl st
  | (_, nm, d) => (nm, d) :: st
  end.
Definition stack (c : jctx) : list (name * json) := fold_left push_entry c [].

(* the node a context stands at *)
Definition cnode (c : jctx) : option (name * json) := hd_error (stack c).
Definition cdata (c : jctx) : json := match cnode c with Some (_, d) => d | None => JNull end.
Definition cname (c : jctx) : name := match cnode c with Some (n, _) => n | None => NStr "" end.

(* the node that contains it in the document: nothing at the root *)
Definition tree_parent (c : jctx) : option (name * json) :=
  match stack c with _ :: p :: _ => Some p | _ => None end.

Definition kind_of_name (nm : name) : kind := match nm with NStr _ => KKey | NInt _ => KIdx end.
Definition ext (c : jctx) (nm : name) (x : json) : jctx := c ++ [(kind_of_name nm, nm, x)].
Definition ext_parent (c : jctx) : option jctx :=
  match tree_parent c with Some (nm, d) => Some (c ++ [(KPar, nm, d)]) | None => None end.

(* ------------------------------------------------------------------ event streams that may end in an exception *)
Definition rs : Type := (list sevent * option exn)%type.
Definition rseq (a b : rs) : rs :=
  match snd a with Some _ => a | None => (fst a ++ fst b, snd b) end.
Fixpoint rconcat (l : list rs) : rs :=
  match l with [] => ([], None) | a :: r => rseq a (rconcat r) end.
Definition rev1 (e : sevent) : rs := ([e], None).

Section Sem.
Variable P : Type.
(* meaning of a predicate at a candidate: outcome and events (always traced, stamped with the candidate) *)
Variable sev : P -> jctx -> res json * list sevent.

(* members of a container, as the recursive step and the generic wildcard enumerate them *)
Definition members (d : json) : option (list (name * json)) :=
  match jshape d with
  | SDict its => Some (dict_iter its)
  | SList its => Some (list_iter its)
  | SScalar => None
  end.

(* pre-order walk below container d (standing at context c): every member is attempted; a container member
   continues the path (semr) and is then walked itself; a scalar member is a result when the recursive step
   is the last one, and otherwise only a failed re-application of the step *)
Fixpoint rec_children (i : nat) (pm : option jctx) (semr : jctx -> rs) (leaf : bool) (c : jctx) (d : json) : rs :=
  let child (nm : name) (x : json) (walk : rs) : rs :=
    let c' := ext c nm x in
    rseq (rev1 (STrace c (Some c') i pm))
         (match members x with
          | Some _ => rseq (semr c') walk
          | None => if leaf then rev1 (SResult c') else rev1 (STrace c' None i pm)
          end) in
  match d with
  | JDict _ l =>
      rseq ((fix go (l : list (string * json)) : rs :=
               match l with
               | [] => ([], None)
               | (k, x) :: r => rseq (child (NStr k) x (rec_children i pm semr leaf (ext c (NStr k) x) x)) (go r)
               end) l)
           (rev1 (STrace c None i pm))
  | JList _ l =>
      rseq ((fix go (z : Z) (l : list json) : rs :=
               match l with
               | [] => ([], None)
               | x :: r => rseq (child (NInt z) x (rec_children i pm semr leaf (ext c (NInt z) x) x)) (go (z + 1)%Z r)
               end) 0%Z l)
           (rev1 (STrace c None i pm))
  | _ => ([], None)
  end.

(* sem i rest pm c: the events of evaluating the remaining steps `rest` (the first of which has index i+1 in
   the path) from context c; pm is the candidate under test when this happens inside a filter *)
Fixpoint sem (i : nat) (rest : list (vertex P)) (pm : option jctx) (c : jctx) {struct rest} : rs :=
  match rest with
  | [] => rev1 (SResult c)
  | v :: r =>
      let i' := S i in
      let none : rs := rev1 (STrace c None i' pm) in
      let go (c' : jctx) : rs := rseq (rev1 (STrace c (Some c') i' pm)) (sem i' r pm c') in
      match v with
      | VKey k =>
          match jshape (cdata c) with
          | SDict its => match assoc k its with Some x => go (ext c (NStr k) x) | None => none end
          | _ => none
          end
      | VIdx z =>
          match jshape (cdata c) with
          | SList its => match list_get its z with Ok x => go (ext c (NInt z) x) | Exn _ => none end
          | _ => none
          end
      | VParent => match ext_parent c with Some c' => go c' | None => none end
      | VPred p =>
          match sev p c with
          | (Ok v, es) => rseq (es, None) (if truthy v then go c else none)
          | (Exn e, es) => (es, Some (ETraversing e))
          end
      | VRec =>
          match members (cdata c) with
          | Some _ =>
              rseq (go c)
                   (rec_children i' pm (sem i' r pm) (match r with [] => true | _ => false end) c (cdata c))
          | None => none
          end
      | _ =>
          match items_for jshape P v (cdata c) with
          | Ok (Some its) => rseq (rconcat (map (fun ix => go (ext c (fst ix) (snd ix))) its)) none
          | Ok None => none
          | Exn e => ([], Some e)
          end
      end
  end.

(* the complete answer of a query from a document *)
Definition root_ctx (d : json) : jctx := [(KRoot, root_name, d)].
Definition results (r : rs) : list jctx :=
  flat_map (fun e => match e with SResult c => [c] | _ => [] end) (fst r).
Definition eval (p : list (vertex P)) (c : jctx) : list jctx := results (sem 0 p None c).

End Sem.
