(* SpecSet.v -- what set_(p, v, doc, cascade=True) means on a path of keys and indices (C09), top-down on the
   tree: levels that exist are reused, a missing level is created as the empty container the next step needs,
   the value is stored at the end; a level of the wrong type, or an index that can be neither assigned nor
   appended, stops the descent with SetError and leaves what was built so far.
   Specification file: definitions only. *)
From Coq Require Import List ZArith String Bool.
From TP Require Import Json PyPrim Machine Api Mutate.
Import ListNotations.
Open Scope list_scope.

Notation hp := (@hpred json).

Definition kistep (v : vertex hp) : bool := match v with VKey _ | VIdx _ => true | _ => false end.
Definition kipath (p : list (vertex hp)) : bool := forallb kistep p.

(* the member a key / index step selects *)
Definition child_at (v : vertex hp) (d : json) : option json :=
  match v, d with
  | VKey k, JDict _ its => assoc k its
  | VIdx z, JList _ its => match list_get its z with Ok x => Some x | Exn _ => None end
  | _, _ => None
  end.

Fixpoint lookup (d : json) (p : list (vertex hp)) : option json :=
  match p with
  | [] => Some d
  | v :: r => match child_at v d with Some x => lookup x r | None => None end
  end.

(* KeyVertex.set / ListIndexVertex.set on a container: d[k] = x; l[z] = x, or l.append(x) when z = len(l) *)
Definition store (v : vertex hp) (x d : json) : option json :=
  match v, d with
  | VKey k, JDict i its => Some (JDict i (dict_set its k x))
  | VIdx z, JList i its =>
      match list_set its z x with
      | Ok l => Some (JList i l)
      | Exn _ => if Z.eqb (zlen its) z then Some (JList i (list_append its x)) else None
      end
  | _, _ => None
  end.

(* the document with the node at position p replaced by y (p resolves) *)
Fixpoint put_at (d : json) (p : list (vertex hp)) (y : json) : json :=
  match p with
  | [] => y
  | v :: r =>
      match child_at v d with
      | Some c => match store v (put_at c r y) d with Some d' => d' | None => d end
      | None => d
      end
  end.

(* (true, document afterwards) on success, (false, document afterwards) on SetError.  nl: the next free
   identity label; the container created to hold the remaining steps r gets label nl + |r| - 1 (the library
   allocates the deepest default first) *)
Fixpoint cset (d : json) (p : list (vertex hp)) (x : json) (nl : nat) {struct p} : bool * json :=
  match p with
  | [] => (false, d)
  | v :: r =>
      match r with
      | [] => match store v x d with Some d' => (true, d') | None => (false, d) end
      | v' :: _ =>
          let next :=
            match child_at v d with
            | Some y => Some y
            | None =>
                let dflt := default_for_set v' (nl + List.length r - 1) in
                match store v dflt d with Some _ => Some dflt | None => None end
            end in
          match next with
          | None => (false, d)
          | Some y =>
              let '(ok, y') := cset y r x nl in
              (ok, match store v y' d with Some d' => d' | None => d end)
          end
      end
  end.

(* the old document embeds in the new one: every node is where it was, holding what it held; containers may
   have gained members (new keys at the end of a dict, items appended to a list) *)
Inductive grows : json -> json -> Prop :=
| g_refl d : grows d d
| g_list i l l1 extra : Forall2 grows l l1 -> grows (JList i l) (JList i (l1 ++ extra))
| g_dict i l l1 extra :
    Forall2 (fun a b => fst a = fst b /\ grows (snd a) (snd b)) l l1 ->
    (forall k, In k (map fst extra) -> ~ In k (map fst l)) ->
    grows (JDict i l) (JDict i (l1 ++ extra)).
