(* Json.v -- JSON documents with identity labels on containers (DESIGN.md 3.2).
   No proofs here except the induction principle (needed by every file that recurses on documents). *)
From Coq Require Import List ZArith String Bool.
Import ListNotations.
Open Scope list_scope.

(* Floats are restricted to halves (h/2): what the generators produce; exact, no rounding. *)
Inductive json :=
| JNull
| JBool (b : bool)
| JInt (z : Z)
| JFloat (h : Z)
| JStr (s : string)
| JList (id : nat) (items : list json)
| JDict (id : nat) (items : list (string * json)).

(* data_name of a match: a dict key or a list index (as written, may be negative), "$" for the root *)
Inductive name := NStr (s : string) | NInt (z : Z).

Definition name_eqb (a b : name) : bool :=
  match a, b with
  | NStr x, NStr y => String.eqb x y
  | NInt x, NInt y => Z.eqb x y
  | _, _ => false
  end.

Fixpoint json_ind' (P : json -> Prop)
  (Hn : P JNull) (Hb : forall b, P (JBool b)) (Hi : forall z, P (JInt z)) (Hf : forall h, P (JFloat h))
  (Hs : forall s, P (JStr s))
  (Hl : forall id l, Forall P l -> P (JList id l))
  (Hd : forall id l, Forall (fun kx => P (snd kx)) l -> P (JDict id l))
  (j : json) : P j :=
  match j with
  | JNull => Hn | JBool b => Hb b | JInt z => Hi z | JFloat h => Hf h | JStr s => Hs s
  | JList id l => Hl id l ((fix go (l : list json) : Forall P l :=
        match l with [] => Forall_nil _ | x :: r => Forall_cons _ (json_ind' P Hn Hb Hi Hf Hs Hl Hd x) (go r) end) l)
  | JDict id l => Hd id l ((fix go (l : list (string * json)) : Forall (fun kx => P (snd kx)) l :=
        match l with [] => Forall_nil _ | x :: r => Forall_cons _ (json_ind' P Hn Hb Hi Hf Hs Hl Hd (snd x)) (go r) end) l)
  end.

(* one level of structure: what the traverser's isinstance tests and iterators see *)
Inductive shp (D : Type) :=
| SDict (its : list (string * D))
| SList (its : list D)
| SScalar.
Arguments SDict {D} its.
Arguments SList {D} its.
Arguments SScalar {D}.

Definition jshape (d : json) : shp json :=
  match d with
  | JDict _ its => SDict its
  | JList _ its => SList its
  | _ => SScalar
  end.

(* labels of all containers, pre-order *)
Fixpoint ids (d : json) : list nat :=
  match d with
  | JList i l => i :: flat_map ids l
  | JDict i l => i :: flat_map (fun kx => ids (snd kx)) l
  | _ => []
  end.

Fixpoint jsize (d : json) : nat :=
  match d with
  | JList _ l => S (fold_right (fun x a => jsize x + a) 0 l)
  | JDict _ l => S (fold_right (fun kx a => jsize (snd kx) + a) 0 l)
  | _ => 1
  end.
