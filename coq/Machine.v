(* Machine.v -- the traverser as it is written (DESIGN.md 3.3).
   match_traverser.py, traverser_match.py, the *_match.py classes and every vertex's match().
   Generic in the data interface (D, shape) so that the same definitions run on trees and on cyclic heaps,
   and in the predicate evaluator `ev` (has-family closures and user callables live in HasFamily.v).
   Model file: definitions only. *)
From Coq Require Import List ZArith String Bool PArith FMapPositive.
From TP Require Import Json PyPrim.
Import ListNotations.
Open Scope list_scope.

(* ------------------------------------------------------------------ path syntax *)
Inductive vertex (P : Type) :=
| VKey (k : string)                     (* path.k / path['k']          KeyVertex *)
| VIdx (i : Z)                          (* path[i]                     ListIndexVertex *)
| VSlice (a b c : option Z)             (* path[a:b:c]                 ListSliceVertex *)
| VTuple (l : list name)                (* path['a', 0, ...]           TupleVertex *)
| VKeyWild                              (* path.wc                     KeyWildcardVertex *)
| VIdxWild                              (* path[wc]                    ListWildcardVertex *)
| VGenWild (dot : bool)                 (* path.gwc / path[gwc]        Key/ListGenericWildcardVertex *)
| VRec                                  (* path.rec                    RecursiveVertex *)
| VParent                               (* path.parent                 ParentVertex *)
| VPred (p : P).                        (* path[callable]              PredicateVertex *)
Arguments VKey {P} k.
Arguments VIdx {P} i.
Arguments VSlice {P} a b c.
Arguments VTuple {P} l.
Arguments VKeyWild {P}.
Arguments VIdxWild {P}.
Arguments VGenWild {P} dot.
Arguments VRec {P}.
Arguments VParent {P}.
Arguments VPred {P} p.

(* what the public Match API shows of one element of path_match_list *)
Inductive kind := KRoot | KKey | KIdx | KPar.
Definition centry (D : Type) : Type := (kind * name * D)%type.
Definition ctx (D : Type) : Type := list (centry D).

Section Machine.
Context {D : Type}.
Variable shape : D -> shp D.

(* ------------------------------------------------------------------ TraverserMatch objects *)
(* Immutable fields; real_parent is a subterm.  vx = index of the `vertex` field in vertex_path,
   vi = the `vertex_index` field (they differ only for the child a recursive step re-applies itself to). *)
Inductive tm :=
| TRoot  (id : positive) (d : D)                                       (* RootMatch *)
| TNRoot (id : positive) (outer : tm) (d : D)                          (* ImaginaryMatch rooted at a Match *)
| TKey   (id : positive) (rp : tm) (k : string) (d : D) (vx vi : nat)  (* KeyMatch *)
| TIdx   (id : positive) (rp : tm) (i : Z) (d : D) (vx vi : nat)       (* ListMatch *)
| TImag  (id : positive) (rp : tm) (d : D) (vx vi : nat)               (* ImaginaryMatch *)
| TPar   (id : positive) (rem rp : tm) (nm : name) (d : D) (vx vi : nat). (* ParentMatch *)

Definition tid m := match m with
  | TRoot i _ | TNRoot i _ _ | TKey i _ _ _ _ _ | TIdx i _ _ _ _ _ | TImag i _ _ _ _ | TPar i _ _ _ _ _ _ => i end.
Definition tdata m := match m with
  | TRoot _ d | TNRoot _ _ d | TKey _ _ _ d _ _ | TIdx _ _ _ d _ _ | TImag _ _ d _ _ | TPar _ _ _ _ d _ _ => d end.
Definition tvx m := match m with
  | TRoot _ _ | TNRoot _ _ _ => O
  | TKey _ _ _ _ x _ | TIdx _ _ _ _ x _ | TImag _ _ _ x _ | TPar _ _ _ _ _ x _ => x end.
Definition tvi m := match m with
  | TRoot _ _ | TNRoot _ _ _ => O
  | TKey _ _ _ _ _ i | TIdx _ _ _ _ _ i | TImag _ _ _ _ i | TPar _ _ _ _ _ _ i => i end.

Definition real_parent m : option tm := match m with
  | TRoot _ _ => None
  | TNRoot _ o _ => Some o
  | TKey _ rp _ _ _ _ | TIdx _ rp _ _ _ _ | TImag _ rp _ _ _ | TPar _ _ rp _ _ _ _ => Some rp end.

Definition is_root m : bool := match m with TRoot _ _ | TNRoot _ _ _ => true | _ => false end.

Definition root_name : name := NStr "$".

(* TraverserMatch.data_name, with ImaginaryMatch's forwarding override *)
Fixpoint data_name (m : tm) : name :=
  match m with
  | TRoot _ _ => root_name
  | TNRoot _ o _ => data_name o
  | TKey _ _ k _ _ _ => NStr k
  | TIdx _ _ i _ _ _ => NInt i
  | TImag _ rp _ _ _ => data_name rp
  | TPar _ _ _ nm _ _ _ => nm
  end.

(* TraverserMatch.parent (= real_parent), ImaginaryMatch.parent (= real_parent.parent) *)
Fixpoint parent (m : tm) : option tm :=
  match m with
  | TRoot _ _ => None
  | TNRoot _ o _ => parent o
  | TKey _ rp _ _ _ _ | TIdx _ rp _ _ _ _ | TPar _ _ rp _ _ _ _ => Some rp
  | TImag _ rp _ _ _ => parent rp
  end.

(* remembered_parent: the tree parent.  Repaired definition (defect D2, DESIGN.md 7.1):
   ParentMatch -> _remembered_parent.remembered_parent, ImaginaryMatch -> real_parent.remembered_parent *)
Fixpoint remembered_parent (m : tm) : option tm :=
  match m with
  | TRoot _ _ => None
  | TNRoot _ o _ => remembered_parent o
  | TKey _ rp _ _ _ _ | TIdx _ rp _ _ _ _ => Some rp
  | TImag _ rp _ _ _ => remembered_parent rp
  | TPar _ rem _ _ _ _ _ => remembered_parent rem
  end.

(* the pinned commit's definition, kept for the refutation lemmas *)
Definition remembered_parent_pinned (m : tm) : option tm :=
  match m with
  | TPar _ rem _ _ _ _ _ => parent rem
  | _ => parent m
  end.

(* traverse(visit): root -> [self]; imaginary -> real_parent's; everything else appends itself *)
Fixpoint path_match_list (m : tm) : list tm :=
  match m with
  | TRoot _ _ => [m]
  | TNRoot _ o _ => path_match_list o
  | TImag _ rp _ _ _ => path_match_list rp
  | TKey _ rp _ _ _ _ | TIdx _ rp _ _ _ _ | TPar _ _ rp _ _ _ _ => path_match_list rp ++ [m]
  end.

Definition kind_of (m : tm) : kind :=
  match m with
  | TRoot _ _ | TNRoot _ _ _ | TImag _ _ _ _ _ => KRoot   (* never listed, except TRoot *)
  | TKey _ _ _ _ _ _ => KKey
  | TIdx _ _ _ _ _ _ => KIdx
  | TPar _ _ _ _ _ _ _ => KPar
  end.

Definition entry_of (m : tm) : centry D := (kind_of m, data_name m, tdata m).
Definition abs (m : tm) : ctx D := map entry_of (path_match_list m).

(* ------------------------------------------------------------------ mutable slots, store, state *)
Inductive act := AMatch | ADone.                  (* remembered_on_catch_action *)
Inductive pcs := PInit | PReport | PMatch | PCatch | PDone.   (* _invoke_next_action *)
Definition pc_of (a : act) : pcs := match a with AMatch => PMatch | ADone => PDone end.

Definition iter := list (name * D).               (* remaining items of a live iterator *)
Record mut := { cs : option iter; ocm : option tm; oca : act }.
Definition mut0 : mut := {| cs := None; ocm := None; oca := ADone |}.

Definition store := PositiveMap.t mut.
Definition sget (s : store) (i : positive) : mut :=
  match PositiveMap.find i s with Some m => m | None => mut0 end.
Definition sset (s : store) (i : positive) (m : mut) : store := PositiveMap.add i m s.

Record state := { cur : option tm; pc : pcs; st : store; nid : positive }.
Definition mk c p s n := {| cur := c; pc := p; st := s; nid := n |}.

(* tracing: None = no trace callable; Some pm = tracing, pm is the predicate_match stamp *)
Definition tracecfg := option (option tm).

Inductive event :=
| EvTrace (last : tm) (next : option tm) (vi : nat) (pm : option tm)
| EvCall (tag : nat) (m : tm)           (* a user predicate was invoked on candidate m *)
| EvCallF (tag : nat) (arg : json)      (* a conversion function / default callable was invoked *)
| EvResult (m : tm).

Variable P : Type.
(* evaluation of a predicate on a candidate: outcome and the events it produced *)
Variable ev : P -> tm -> tracecfg -> res json * list event.

(* ------------------------------------------------------------------ remember / restore *)
Definition remember (m : tm) (its : iter) (s : store) : store :=
  sset s (tid m) {| cs := Some its; ocm := Some m; oca := AMatch |}.

(* restore_on_catch, repaired (defect D1): the root installs done_action instead of calling it *)
Definition restore (m : tm) (s : store) : store :=
  match real_parent m with
  | Some rp => if is_root m
               then sset s (tid m) {| cs := None; ocm := None; oca := ADone |}
               else sset s (tid m) {| cs := None; ocm := ocm (sget s (tid rp)); oca := oca (sget s (tid rp)) |}
  | None => sset s (tid m) {| cs := None; ocm := None; oca := ADone |}
  end.

(* a new match copies the resume pointer of the match it is derived from *)
Definition alloc (from : tm) (s : store) (n : positive) : store :=
  sset s n {| cs := None; ocm := ocm (sget s (tid from)); oca := oca (sget s (tid from)) |}.

Definition child (n : positive) (m : tm) (nm : name) (x : D) (vx vi : nat) : tm :=
  match nm with
  | NStr k => TKey n m k x vx vi
  | NInt i => TIdx n m i x vx vi
  end.

(* result of applying a vertex: next_match or None, or an exception leaving match() *)
Definition vres : Type := (res (option tm) * store * positive * list event)%type.

(* next(iterator) / StopIteration for every multi-valued vertex *)
Definition pop_next (m : tm) (i : nat) (s : store) (n : positive) : vres :=
  match cs (sget s (tid m)) with
  | Some ((nm, x) :: rest) =>
      let mm := sget s (tid m) in
      let s1 := sset s (tid m) {| cs := Some rest; ocm := ocm mm; oca := oca mm |} in
      (Ok (Some (child n m nm x i i)), alloc m s1 n, Pos.succ n, [])
  | Some [] => (Ok None, restore m s, n, [])
  | None => (Ok None, s, n, [])
  end.

Definition dict_iter (its : list (string * D)) : iter := map (fun kx => (NStr (fst kx), snd kx)) its.
Definition list_iter (its : list D) : iter := map (fun ix => (NInt (fst ix), snd ix)) (enumerate its).

Definition tuple_iter_dict (l : list name) (its : list (string * D)) : iter :=
  flat_map (fun nm => match nm with
                      | NStr k => match assoc k its with Some x => [(nm, x)] | None => [] end
                      | NInt _ => []          (* KeyError: JSON dicts have str keys *)
                      end) l.
Definition tuple_iter_list (l : list name) (its : list D) : iter :=
  flat_map (fun nm => match nm with
                      | NInt i => match list_get its i with Ok x => [(nm, x)] | Exn _ => [] end
                      | NStr _ => []          (* TypeError *)
                      end) l.

(* the iterator a multi-valued vertex creates on a node, None when the node has the wrong kind *)
Definition items_for (v : vertex P) (d : D) : res (option iter) :=
  match v, shape d with
  | VKeyWild, SDict its => Ok (Some (dict_iter its))
  | VIdxWild, SList its => Ok (Some (list_iter its))
  | VGenWild _, SDict its | VRec, SDict its => Ok (Some (dict_iter its))
  | VGenWild _, SList its | VRec, SList its => Ok (Some (list_iter its))
  | VSlice a b c, SList its =>
      match enumerate_slice a b c its with
      | Ok l => Ok (Some (map (fun ix => (NInt (fst ix), snd ix)) l))
      | Exn e => Exn e
      end
  | VTuple l, SDict its => Ok (Some (tuple_iter_dict l its))
  | VTuple l, SList its => Ok (Some (tuple_iter_list l its))
  | _, _ => Ok None
  end.

Definition multi (v : vertex P) (m : tm) (i : nat) (s : store) (n : positive) : vres :=
  match cs (sget s (tid m)) with
  | None =>
      match items_for v (tdata m) with
      | Ok None => (Ok None, s, n, [])
      | Ok (Some its) => pop_next m i (remember m its s) n
      | Exn e => (Exn e, s, n, [])
      end
  | Some _ => pop_next m i s n
  end.

(* RecursiveVertex.match *)
Definition vrec (m : tm) (i : nat) (s : store) (n : positive) : vres :=
  match cs (sget s (tid m)) with
  | None =>
      match items_for VRec (tdata m) with
      | Ok (Some its) =>
          let s1 := remember m its s in
          (Ok (Some (TImag n m (tdata m) i i)), alloc m s1 n, Pos.succ n, [])
      | _ => (Ok None, s, n, [])
      end
  | Some ((nm, x) :: rest) =>
      let mm := sget s (tid m) in
      let s1 := sset s (tid m) {| cs := Some rest; ocm := ocm mm; oca := oca mm |} in
      let c := child n m nm x i (pred i) in          (* vertex_index - 1: reuse vertex on next match *)
      let s2 := alloc m s1 n in
      (* child_recursive_match = self.match(c, traverser, i): c has no iterator yet *)
      match items_for VRec x with
      | Ok (Some its') =>
          let s3 := remember c its' s2 in
          let n1 := Pos.succ n in
          (Ok (Some (TImag n1 c x i i)), alloc c s3 n1, Pos.succ n1, [])
      | _ => (Ok (Some c), s2, Pos.succ n, [])
      end
  | Some [] => (Ok None, restore m s, n, [])
  end.

Definition vmatch (v : vertex P) (m : tm) (i : nat) (tr : tracecfg) (s : store) (n : positive) : vres :=
  match v with
  | VKey k =>
      match shape (tdata m) with
      | SDict its => match assoc k its with
                     | Some x => (Ok (Some (TKey n m k x i i)), alloc m s n, Pos.succ n, [])
                     | None => (Ok None, s, n, [])
                     end
      | _ => (Ok None, s, n, [])
      end
  | VIdx z =>
      match shape (tdata m) with
      | SList its => match list_get its z with
                     | Ok x => (Ok (Some (TIdx n m z x i i)), alloc m s n, Pos.succ n, [])
                     | Exn _ => (Ok None, s, n, [])
                     end
      | _ => (Ok None, s, n, [])
      end
  | VRec => vrec m i s n
  | VParent =>
      match remembered_parent m with
      | None => (Ok None, s, n, [])
      | Some rem => (Ok (Some (TPar n rem m (data_name rem) (tdata rem) i i)), alloc m s n, Pos.succ n, [])
      end
  | VPred p =>
      match ev p m tr with
      | (Ok v, evs) =>
          if truthy v
          then (Ok (Some (TImag n m (tdata m) i i)), alloc m s n, Pos.succ n, evs)
          else (Ok None, s, n, evs)
      | (Exn e, evs) => (Exn (ETraversing e), s, n, evs)
      end
  | _ => multi v m i s n
  end.

(* ------------------------------------------------------------------ the five actions *)
(* how the search was started: from a document (RootMatch) or from a Match (NestedMatchTraverser) *)
Inductive source := SrcDoc (d : D) | SrcMatch (outer : tm).

Definition init_state : state := mk None PInit (PositiveMap.empty mut) 1%positive.

(* one call of self._invoke_next_action() *)
Inductive sres :=
| SNext (z : state) (evs : list event) (reported : bool)
| SRaise (e : exn) (z : state) (evs : list event).

Definition trace_ev (tr : tracecfg) (m : tm) (r : option tm) (i : nat) : list event :=
  match tr with None => [] | Some pm => [EvTrace m r i pm] end.

Definition step (src : source) (vp : list (vertex P)) (tr : tracecfg) (z : state) : sres :=
  match pc z with
  | PDone => SRaise EStop z []                                       (* done_action *)
  | PInit =>                                                         (* init_action *)
      let n := nid z in
      let r := match src with SrcDoc d => TRoot n d | SrcMatch o => TNRoot n o (tdata o) end in
      SNext (mk (Some r) PReport (sset (st z) n {| cs := None; ocm := Some r; oca := ADone |}) (Pos.succ n)) [] false
  | PReport =>                                                       (* report_action *)
      match cur z with
      | None => SRaise EAttr z []
      | Some m =>
          if Nat.eqb (tvx m) (List.length vp)
          then SNext (mk (Some m) PCatch (st z) (nid z)) [EvResult m] true
          else SNext (mk (Some m) PMatch (st z) (nid z)) [] false
      end
  | PCatch =>                                                        (* catch_action *)
      match cur z with
      | None => SRaise EAttr z []
      | Some m => let mm := sget (st z) (tid m) in
                  SNext (mk (ocm mm) (pc_of (oca mm)) (st z) (nid z)) [] false
      end
  | PMatch =>                                                        (* match_action *)
      match cur z with
      | None => SRaise EAttr z []
      | Some m =>
          match nth_error vp (tvi m) with
          | None => SRaise EIndex z []
          | Some v =>
              let i := S (tvi m) in
              match vmatch v m i tr (st z) (nid z) with
              | (Ok (Some c), s', n', evs) =>
                  SNext (mk (Some c) PReport s' n') (evs ++ trace_ev tr m (Some c) i) false
              | (Ok None, s', n', evs) =>
                  let mm := sget s' (tid m) in
                  SNext (mk (ocm mm) (pc_of (oca mm)) s' n') (evs ++ trace_ev tr m None i) false
              | (Exn e, s', n', evs) => SRaise e (mk (Some m) PMatch s' n') evs
              end
          end
      end
  end.

(* ------------------------------------------------------------------ __next__ with its budget *)
(* iterate f at most p times, stopping at the first inr *)
Fixpoint iter_until {S R : Type} (p : positive) (f : S -> S + R) (s : S) : S + R :=
  match p with
  | xH => f s
  | xO p' => match iter_until p' f s with inl s' => iter_until p' f s' | r => r end
  | xI p' => match f s with
             | inl s1 => match iter_until p' f s1 with inl s' => iter_until p' f s' | r => r end
             | r => r
             end
  end.

Inductive outcome :=
| OResult (m : tm)
| ORaise (e : exn).        (* EStop = StopIteration; EInfiniteLoop; ETraversing ... *)

(* state paired with the events so far, newest first *)
Definition acc : Type := (state * list event)%type.

Definition next_body (src : source) (vp : list (vertex P)) (tr : tracecfg) (a : acc) : acc + (outcome * acc) :=
  let '(z, evs) := a in
  match step src vp tr z with
  | SRaise e z' es => inr (ORaise e, (z', rev_append es evs))
  | SNext z' es true => inr (match cur z' with Some m => OResult m | None => ORaise EAttr end, (z', rev_append es evs))
  | SNext z' es false => inl (z', rev_append es evs)
  end.

(* __next__: at most B actions; when the counter reaches zero InfiniteLoopDetected is raised even if that
   action produced a result (DESIGN.md 3.5) *)
Definition next (B : positive) (src : source) (vp : list (vertex P)) (tr : tracecfg) (z : state)
  : outcome * state * list event :=
  let last (a : acc) : outcome * acc :=
    let '(z1, evs) := a in
    match step src vp tr z1 with
    | SRaise e z' es => (ORaise e, (z', rev_append es evs))
    | SNext z' es _ => (ORaise EInfiniteLoop, (z', rev_append es evs))
    end in
  let '(o, (z', evs)) :=
    match B with
    | xH => last (z, [])
    | _ => match iter_until (Pos.pred B) (next_body src vp tr) (z, []) with
           | inr r => r
           | inl a => last a
           end
    end in
  (o, z', rev evs).

End Machine.

Arguments TRoot {D} id d.
Arguments init_state {D}.
