(* DocList.v -- descriptor/document_list.py: the view returned by a list-typed attribute.  Every operation
   forwards to the document's own list with to_wrapped_value / to_json_value applied at the boundary;
   keep_all is the in-place compaction loop it is (a live list iterator with read index r, writes at index
   w <= r, then len - w pops).  Model file: definitions only. *)
From Coq Require Import List ZArith String Bool.
From TP Require Import Json PyPrim.
Import ListNotations.
Close Scope Z_scope.
Open Scope list_scope.

Section DocList.
Variables (J W : Type) (to_wrapped : J -> W) (to_json : W -> J).

(* for last_index, json_value in enumerate(map(to_json, filter(is_keep, self))): data[last_index] = json_value
   -- one step of the underlying list iterator per unit of fuel; it stops when r >= len(data) *)
Fixpoint keep_loop (is_keep : W -> bool) (fuel : nat) (data : list J) (r w : nat) : list J * nat :=
  match fuel with
  | O => (data, w)
  | S f =>
      match nth_error data r with
      | None => (data, w)
      | Some x =>
          let wx := to_wrapped x in
          if is_keep wx then keep_loop is_keep f (set_nth data w (to_json wx)) (S r) (S w)
          else keep_loop is_keep f data (S r) w
      end
  end.

(* the wrapped elements the predicate is called on, in call order (the same loop, instrumented) *)
Fixpoint keep_loop_calls (is_keep : W -> bool) (fuel : nat) (data : list J) (r w : nat) : list W :=
  match fuel with
  | O => []
  | S f =>
      match nth_error data r with
      | None => []
      | Some x =>
          let wx := to_wrapped x in
          wx :: (if is_keep wx then keep_loop_calls is_keep f (set_nth data w (to_json wx)) (S r) (S w)
                 else keep_loop_calls is_keep f data (S r) w)
      end
  end.
Definition keep_calls (is_keep : W -> bool) (data : list J) : list W :=
  keep_loop_calls is_keep (S (List.length data)) data 0 0.

(* then: for index in range(last_index + 1, original_length): data.pop() *)
Definition keep_all (is_keep : W -> bool) (data : list J) : list J :=
  let '(d, w) := keep_loop is_keep (S (List.length data)) data 0 0 in firstn w d.

Definition remove_all (is_remove : W -> bool) (data : list J) : list J :=
  keep_all (fun x => negb (is_remove x)) data.

(* the remaining operations: result and new contents *)
Definition dl_getitem (data : list J) (i : Z) : res W := match list_get data i with Ok x => Ok (to_wrapped x) | Exn e => Exn e end.
Definition dl_setitem (data : list J) (i : Z) (w : W) : res (list J) := list_set data i (to_json w).
Definition dl_delitem (data : list J) (i : Z) : res (list J) := list_del data i.
Definition dl_append (data : list J) (w : W) : list J := list_append data (to_json w).
Definition dl_pop (data : list J) (i : Z) : res (W * list J) :=
  match list_pop data i with Ok (x, l) => Ok (to_wrapped x, l) | Exn e => Exn e end.
Definition dl_iter (data : list J) : list W := map to_wrapped data.

End DocList.
