(* SpecTest.v -- executable comparison of the machine's event stream with the specification's, used by a
   sanity experiment of the harness (testing, not proof) and by Examples.v. *)
From Coq Require Import List ZArith String Bool PArith.
From TP Require Import Json PyPrim Machine Api Obs Dsl Run Spec.
Import ListNotations.
Open Scope list_scope.

Definition upred : Type := jctx -> res json.

Definition conv (v : jvertex) : option (vertex upred) :=
  match v with
  | VKey k => Some (VKey k) | VIdx i => Some (VIdx i) | VSlice a b c => Some (VSlice a b c)
  | VTuple l => Some (VTuple l) | VKeyWild => Some VKeyWild | VIdxWild => Some VIdxWild
  | VGenWild b => Some (VGenWild b) | VRec => Some VRec | VParent => Some VParent
  | VPred (HUser _ f) => Some (VPred f)
  | VPred _ => None
  end.

Fixpoint conv_path (p : jpath) : option (list (vertex upred)) :=
  match p with
  | [] => Some []
  | v :: r => match conv v, conv_path r with Some v', Some r' => Some (v' :: r') | _, _ => None end
  end.

Definition mev (p : upred) (m : @tm json) (tr : @tracecfg json) : res json * list (@event json) :=
  (p (abs m), [EvCall 0 m]).
Definition ssev (p : upred) (c : jctx) : res json * list sevent := (p c, [SCall 0 c]).

Definition abs_ev (e : @event json) : sevent :=
  match e with
  | EvTrace l n i pm => STrace (abs l) (option_map abs n) i (option_map abs pm)
  | EvCall t m => SCall t (abs m)
  | EvCallF t a => SCallF t a
  | EvResult m => SResult (abs m)
  end.

Fixpoint machine_stream (fuel : nat) (B : positive) (doc : json) (vp : list (vertex upred)) (tr : @tracecfg json)
         (z : @state json) : rs :=
  match fuel with
  | O => ([], Some EFuel)
  | S f =>
      match next jshape upred mev B (SrcDoc doc) vp tr z with
      | (OResult _, z', es) => rseq (map abs_ev es, None) (machine_stream f B doc vp tr z')
      | (ORaise EStop, _, es) => (map abs_ev es, None)
      | (ORaise e, _, es) => (map abs_ev es, Some e)
      end
  end.

(* boolean equality of event streams through their canonical rendering *)
Definition octx (c : jctx) : otree :=
  ON "c" (map (fun e => match e with (k, n, d) => ON "e" [okind k; oname n; snapshot d] end) c).
Definition osev (e : sevent) : otree :=
  match e with
  | STrace l n i pm => ON "t" [octx l; oopt octx n; OZ (Z.of_nat i); oopt octx pm]
  | SCall t c => ON "c" [OZ (Z.of_nat t); octx c]
  | SCallF t a => ON "f" [OZ (Z.of_nat t); snapshot a]
  | SResult c => ON "r" [octx c]
  end.
Definition ors (r : rs) : otree :=
  ON "rs" [ON "ev" (map osev (fst r)); oopt oexn (snd r)].

Definition agree (doc : json) (p : jpath) : bool :=
  match conv_path p with
  | None => true
  | Some vp =>
      otree_eqb (ors (machine_stream 500 BUDGET doc vp (Some None) init_state))
                (ors (sem upred ssev 0 vp None (root_ctx doc)))
      && otree_eqb (ors (machine_stream 500 BUDGET doc vp None init_state))
                   (ors (let r := sem upred ssev 0 vp None (root_ctx doc) in (proj false (fst r), snd r)))
  end.

Definition bad_cases (l : list (json * jpath)) : list nat :=
  flat_map (fun ic => if agree (fst (snd ic)) (snd (snd ic)) then [] else [fst ic])
           (combine (seq 0 (List.length l)) l).

(* the same comparison for the real predicate language: machine with eval_h, specification with seval_h *)
From TP Require Import SpecHas.

Fixpoint machine_stream_h (fuel : nat) (B : positive) (doc : json) (vp : jpath) (tr : @tracecfg json)
         (z : @state json) : rs :=
  match fuel with
  | O => ([], Some EFuel)
  | S f =>
      match next jshape jpred (eval_h jshape (fun d => d) B HFUEL DEPTH) B (SrcDoc doc) vp tr z with
      | (OResult _, z', es) => rseq (map abs_ev es, None) (machine_stream_h f B doc vp tr z')
      | (ORaise EStop, _, es) => (map abs_ev es, None)
      | (ORaise e, _, es) => (map abs_ev es, Some e)
      end
  end.

Definition agree_h (doc : json) (vp : jpath) : bool :=
  otree_eqb (ors (machine_stream_h 500 BUDGET doc vp (Some None) init_state))
            (ors (sem jpred (seval_h DEPTH) 0 vp None (root_ctx doc)))
  && otree_eqb (ors (machine_stream_h 500 BUDGET doc vp None init_state))
               (ors (let r := sem jpred (seval_h DEPTH) 0 vp None (root_ctx doc) in (proj false (fst r), snd r))).

Definition bad_cases_h (l : list (json * jpath)) : list nat :=
  flat_map (fun ic => if agree_h (fst (snd ic)) (snd (snd ic)) then [] else [fst ic])
           (combine (seq 0 (List.length l)) l).
