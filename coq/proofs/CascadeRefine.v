(* CascadeRefine.v -- set_match with cascade=True (the model of traverser_functions.set_match, which searches
   with the traverser and mutates by object identity) computes the top-down specification `cset` (SpecSet.v)
   on every path of keys and indices, for every budget: the only other outcome is a budget exception of a
   search (F1), and then too the old document embeds in the new one. *)
From Coq Require Import List ZArith String Bool PArith Lia.
From TP Require Import Json PyPrim Machine Api Spec SpecHas Mutate SpecSet.
From TP.proofs Require Import RefineBase Refine NextLayer Iterate WfRun Query SpecLemmas Top HasScan HasLoop HasRefine ApiTop
     FirstNext MutateProofs CsetLemmas.
Import ListNotations.
Close Scope Z_scope.
Open Scope list_scope.

(* ------------------------------------------------------------------ identity labels and positions *)
Notation cnt := (count_occ Nat.eq_dec).

Lemma cnt_flat_zero {A} (f : A -> list nat) (l : list A) i :
  cnt (flat_map f l) i = 0 -> forall a, In a l -> cnt (f a) i = 0.
Proof.
  induction l as [|x l IH]; intros Hc a Hin; [contradiction|].
  simpl in Hc. rewrite count_occ_app in Hc. destruct Hin as [<-|Hin]; [lia | apply IH; [lia | exact Hin]].
Qed.

Lemma replace_absent i c d : cnt (labels d) i = 0 -> replace_by_id i c d = d.
Proof.
  induction d as [| b | z | h | s | j l IH | j l IH] using json_ind'; intros Hc; try reflexivity.
  - cbn [labels] in Hc. cbn [replace_by_id]. destruct (Nat.eqb_spec i j) as [->|Hne].
    + rewrite count_occ_cons_eq in Hc by reflexivity. lia.
    + rewrite count_occ_cons_neq in Hc by congruence. f_equal.
      rewrite <- (map_id l) at 2. apply map_ext_in. intros x Hin. rewrite Forall_forall in IH.
      apply IH; [exact Hin | eapply (cnt_flat_zero labels); eauto].
  - cbn [labels] in Hc. cbn [replace_by_id]. destruct (Nat.eqb_spec i j) as [->|Hne].
    + rewrite count_occ_cons_eq in Hc by reflexivity. lia.
    + rewrite count_occ_cons_neq in Hc by congruence. f_equal.
      rewrite <- (map_id l) at 2. apply map_ext_in. intros [k x] Hin. rewrite Forall_forall in IH. simpl. f_equal.
      apply (IH (k, x)); [exact Hin | apply (cnt_flat_zero (fun kx => labels (snd kx)) l i Hc (k, x) Hin)].
Qed.

Lemma find_absent i d : cnt (labels d) i = 0 -> find_by_id i d = None.
Proof.
  induction d as [| b | z | h | s | j l IH | j l IH] using json_ind'; intros Hc; try reflexivity.
  - cbn [labels] in Hc. cbn [find_by_id]. destruct (Nat.eqb_spec i j) as [->|Hne].
    + rewrite count_occ_cons_eq in Hc by reflexivity. lia.
    + rewrite count_occ_cons_neq in Hc by congruence.
      induction l as [|x l IHl]; [reflexivity|]. inversion IH as [|x' l' Hx Hl]; subst.
      simpl in Hc. rewrite count_occ_app in Hc. rewrite Hx by lia. apply IHl; [exact Hl | lia].
  - cbn [labels] in Hc. cbn [find_by_id]. destruct (Nat.eqb_spec i j) as [->|Hne].
    + rewrite count_occ_cons_eq in Hc by reflexivity. lia.
    + rewrite count_occ_cons_neq in Hc by congruence.
      induction l as [|[k x] l IHl]; [reflexivity|]. inversion IH as [|x' l' Hx Hl]; subst.
      simpl in Hc, Hx. rewrite count_occ_app in Hc. simpl. rewrite Hx by lia. apply IHl; [exact Hl | lia].
Qed.

(* a node found along a path carries its label into the labels of the document *)
Lemma label_of_in c i : label_of c = Some i -> 1 <= cnt (labels c) i.
Proof. destruct c; simpl; try discriminate; intros H; injection H as ->; destruct (Nat.eq_dec i i); try congruence; lia. Qed.

Lemma child_labels_dict (l1 l2 : list (string * json)) j k y :
  labels (JDict j (l1 ++ (k, y) :: l2)) =
  j :: flat_map (fun kx => labels (snd kx)) l1 ++ labels y ++ flat_map (fun kx => labels (snd kx)) l2.
Proof. cbn [labels]. rewrite flat_map_app. reflexivity. Qed.

Lemma child_labels_list (l1 l2 : list json) j y :
  labels (JList j (l1 ++ y :: l2)) = j :: flat_map labels l1 ++ labels y ++ flat_map labels l2.
Proof. cbn [labels]. rewrite flat_map_app. reflexivity. Qed.

Lemma lookup_cnt : forall p d c i, lookup d p = Some c -> label_of c = Some i -> 1 <= cnt (labels d) i.
Proof.
  induction p as [|v r IH]; intros d c i Hl Hi; [simpl in Hl; injection Hl as ->; apply label_of_in; exact Hi|].
  cbn [lookup] in Hl. destruct (child_at v d) as [y|] eqn:Hc; [|discriminate].
  specialize (IH y c i Hl Hi).
  destruct v as [k | z | | | | | | | |]; destruct d as [| | | | | j its | j its]; simpl in Hc; try discriminate.
  - destruct (assoc_split _ _ _ Hc) as (l1 & l2 & -> & _). rewrite child_labels_dict.
    destruct (Nat.eq_dec j i); [rewrite count_occ_cons_eq by assumption | rewrite count_occ_cons_neq by assumption];
      rewrite !count_occ_app; lia.
  - destruct (list_get its z) as [y'|e] eqn:E; [|discriminate]. injection Hc as ->.
    destruct (list_get_ok _ _ _ E) as (n & _ & Hnth). destruct (nth_split' _ _ _ Hnth) as (l1 & l2 & -> & _).
    rewrite child_labels_list.
    destruct (Nat.eq_dec j i); [rewrite count_occ_cons_eq by assumption | rewrite count_occ_cons_neq by assumption];
      rewrite !count_occ_app; lia.
Qed.

Lemma find_go_list i (l1 : list json) y l2 :
  (forall x, In x l1 -> find_by_id i x = None) ->
  (fix go (l : list json) : option json :=
     match l with [] => None | x :: r => match find_by_id i x with Some c => Some c | None => go r end end) (l1 ++ y :: l2) =
  match find_by_id i y with Some c => Some c
  | None => (fix go (l : list json) : option json :=
     match l with [] => None | x :: r => match find_by_id i x with Some c => Some c | None => go r end end) l2 end.
Proof.
  induction l1 as [|x l1 IH]; intros Hn; [reflexivity|]. simpl. rewrite (Hn x (or_introl eq_refl)).
  apply IH. intros x' Hin. apply Hn. right. exact Hin.
Qed.

Lemma find_go_dict i (l1 : list (string * json)) ky l2 :
  (forall x, In x l1 -> find_by_id i (snd x) = None) ->
  (fix go (l : list (string * json)) : option json :=
     match l with [] => None | kx :: r => match find_by_id i (snd kx) with Some c => Some c | None => go r end end) (l1 ++ ky :: l2) =
  match find_by_id i (snd ky) with Some c => Some c
  | None => (fix go (l : list (string * json)) : option json :=
     match l with [] => None | kx :: r => match find_by_id i (snd kx) with Some c => Some c | None => go r end end) l2 end.
Proof.
  induction l1 as [|x l1 IH]; intros Hn; [reflexivity|]. simpl. rewrite (Hn x (or_introl eq_refl)).
  apply IH. intros x' Hin. apply Hn. right. exact Hin.
Qed.

(* the label occurs once in the document: the object it names is the node the path leads to, and replacing
   the object by identity is replacing the node at that position *)
Theorem by_id_is_by_position : forall p d c i c',
  lookup d p = Some c -> label_of c = Some i -> cnt (labels d) i = 1 ->
  find_by_id i d = Some c /\ replace_by_id i c' d = put_at d p c'.
Proof.
  induction p as [|v r IH]; intros d c i c' Hl Hi Hone.
  - simpl in Hl. injection Hl as ->. destruct c; simpl in Hi; try discriminate; injection Hi as ->;
      simpl; rewrite Nat.eqb_refl; auto.
  - cbn [lookup] in Hl. destruct (child_at v d) as [y|] eqn:Hc; [|discriminate].
    pose proof (lookup_cnt _ _ _ _ Hl Hi) as Hy.
    destruct v as [k | z | | | | | | | |]; destruct d as [| | | | | j its | j its]; simpl in Hc; try discriminate.
    + (* key step on a dict *)
      destruct (assoc_split _ _ _ Hc) as (l1 & l2 & -> & Hn1).
      rewrite child_labels_dict in Hone.
      assert (Hji : j <> i).
      { intros ->. rewrite count_occ_cons_eq in Hone by reflexivity. rewrite !count_occ_app in Hone. lia. }
      rewrite count_occ_cons_neq in Hone by exact Hji. rewrite !count_occ_app in Hone.
      destruct (IH y c i c' Hl Hi ltac:(lia)) as [IHf IHr].
      assert (H1 : forall x, In x l1 -> cnt (labels (snd x)) i = 0)
        by (intros x Hin; apply (cnt_flat_zero (fun kx => labels (snd kx)) l1 i ltac:(lia) x Hin)).
      assert (H2 : forall x, In x l2 -> cnt (labels (snd x)) i = 0)
        by (intros x Hin; apply (cnt_flat_zero (fun kx => labels (snd kx)) l2 i ltac:(lia) x Hin)).
      split.
      * cbn [find_by_id]. destruct (Nat.eqb_spec i j); [congruence|].
        rewrite find_go_dict by (intros x Hin; apply find_absent; apply H1; exact Hin). cbn [snd]. rewrite IHf. reflexivity.
      * cbn [replace_by_id]. destruct (Nat.eqb_spec i j); [congruence|].
        rewrite put_at_cons. cbn [child_at]. 
        assert (Ha : assoc k (l1 ++ (k, y) :: l2) = Some y).
        { clear -Hn1. induction l1 as [|[k' v'] l1 IHl]; simpl; [rewrite String.eqb_refl; reflexivity|].
          simpl in Hn1. destruct (String.eqb k k'); [discriminate | apply IHl; exact Hn1]. }
        rewrite Ha. cbn [store]. rewrite dict_set_split by exact Hn1. f_equal.
        rewrite map_app. cbn [map fst snd]. rewrite IHr. f_equal; [|f_equal].
        -- rewrite <- (map_id l1) at 2. apply map_ext_in. intros [k0 x0] Hin. simpl. f_equal.
           apply replace_absent. apply (H1 (k0, x0) Hin).
        -- rewrite <- (map_id l2) at 2. apply map_ext_in. intros [k0 x0] Hin. simpl. f_equal.
           apply replace_absent. apply (H2 (k0, x0) Hin).
    + (* index step on a list *)
      destruct (list_get its z) as [y'|e] eqn:E; [|discriminate]. injection Hc as ->.
      destruct (list_get_ok _ _ _ E) as (n & Hn & Hnth). destruct (nth_split' _ _ _ Hnth) as (l1 & l2 & -> & Hlen).
      rewrite child_labels_list in Hone.
      assert (Hji : j <> i).
      { intros ->. rewrite count_occ_cons_eq in Hone by reflexivity. rewrite !count_occ_app in Hone. lia. }
      rewrite count_occ_cons_neq in Hone by exact Hji. rewrite !count_occ_app in Hone.
      destruct (IH y c i c' Hl Hi ltac:(lia)) as [IHf IHr].
      assert (H1 : forall x, In x l1 -> cnt (labels x) i = 0)
        by (intros x Hin; apply (cnt_flat_zero labels l1 i ltac:(lia) x Hin)).
      assert (H2 : forall x, In x l2 -> cnt (labels x) i = 0)
        by (intros x Hin; apply (cnt_flat_zero labels l2 i ltac:(lia) x Hin)).
      split.
      * cbn [find_by_id]. destruct (Nat.eqb_spec i j); [congruence|].
        rewrite find_go_list by (intros x Hin; apply find_absent; apply H1; exact Hin). rewrite IHf. reflexivity.
      * cbn [replace_by_id]. destruct (Nat.eqb_spec i j); [congruence|].
        rewrite put_at_cons. cbn [child_at]. rewrite E. cbn [store]. unfold list_set. rewrite Hn, <- Hlen, set_nth_split.
        f_equal. rewrite map_app. cbn [map]. rewrite IHr. f_equal; [|f_equal].
        -- rewrite <- (map_id l1) at 2. apply map_ext_in. intros x0 Hin. apply replace_absent. apply (H1 x0 Hin).
        -- rewrite <- (map_id l2) at 2. apply map_ext_in. intros x0 Hin. apply replace_absent. apply (H2 x0 Hin).
Qed.

(* ------------------------------------------------------------------ labels under store / cset *)
Lemma store_labels_missing v a d d' :
  child_at v d = None -> store v a d = Some d' -> labels d' = labels d ++ labels a.
Proof.
  destruct v as [k | z | | | | | | | |]; destruct d as [| | | | | j its | j its]; simpl; try discriminate.
  - intros Hc H. injection H as <-. rewrite dict_set_absent by exact Hc. cbn [labels].
    rewrite flat_map_app. simpl. rewrite app_nil_r. reflexivity.
  - destruct (list_get its z) as [y|e] eqn:E; [discriminate|]. intros _.
    unfold list_set. rewrite (list_get_fail_norm _ _ _ E).
    destruct (Z.eqb (zlen its) z); [|discriminate]. intros H; injection H as <-.
    unfold list_append. cbn [labels]. rewrite flat_map_app. simpl. rewrite app_nil_r. reflexivity.
Qed.

Lemma store_cnt_child v a c d d' i :
  child_at v d = Some c -> store v a d = Some d' ->
  cnt (labels d') i + cnt (labels c) i = cnt (labels d) i + cnt (labels a) i.
Proof.
  destruct v as [k | z | | | | | | | |]; destruct d as [| | | | | j its | j its]; cbn [store child_at]; try discriminate.
  - intros Hc H. injection H as <-. destruct (assoc_split _ _ _ Hc) as (l1 & l2 & -> & Hn).
    rewrite dict_set_split by exact Hn. rewrite !child_labels_dict.
    destruct (Nat.eq_dec j i); [rewrite !count_occ_cons_eq by assumption | rewrite !count_occ_cons_neq by assumption];
      rewrite !count_occ_app; lia.
  - destruct (list_get its z) as [y|e] eqn:E; [|discriminate]. intros H; injection H as ->.
    destruct (list_get_ok _ _ _ E) as (n & Hn & Hnth). unfold list_set. rewrite Hn. intros H; injection H as <-.
    destruct (nth_split' _ _ _ Hnth) as (l1 & l2 & -> & <-). rewrite set_nth_split, !child_labels_list.
    destruct (Nat.eq_dec j i); [rewrite !count_occ_cons_eq by assumption | rewrite !count_occ_cons_neq by assumption];
      rewrite !count_occ_app; lia.
Qed.

Lemma default_cnt v' L i : i < L -> cnt (labels (default_for_set v' L)) i = 0.
Proof.
  intros Hlt. destruct v'; simpl; try reflexivity; destruct (Nat.eq_dec L i); try lia; reflexivity.
Qed.

(* labels below the allocation mark are neither created nor lost by a cascade into a missing location *)
Theorem cset_count : forall p d x nl d' i,
  i < nl -> lookup d p = None -> cset d p x nl = (true, d') ->
  cnt (labels d') i = cnt (labels d) i + cnt (labels x) i.
Proof.
  induction p as [|v r IH]; intros d x nl d' i Hi Hl H; [discriminate|].
  destruct r as [|v' t].
  - rewrite cset_one in H. destruct (store v x d) as [d1|] eqn:Hs; [|discriminate]. injection H as <-.
    cbn [lookup] in Hl. destruct (child_at v d) eqn:Hc; [discriminate|].
    rewrite (store_labels_missing _ _ _ _ Hc Hs), count_occ_app. reflexivity.
  - rewrite cset_cons2 in H. destruct (cnext d v v' (S (List.length t)) nl) as [y|] eqn:En; [|discriminate].
    destruct (cset y (v' :: t) x nl) as [ok y'] eqn:Ec. injection H as -> <-.
    destruct (cnext_store _ _ _ _ _ _ y' En) as (d1 & Hs). rewrite Hs.
    destruct (cnext_some _ _ _ _ _ _ En) as [Hc | (Hc & -> & _)].
    + cbn [lookup] in Hl. rewrite Hc in Hl. pose proof (IH y x nl y' i Hi Hl Ec) as Hy.
      pose proof (store_cnt_child _ _ _ _ _ i Hc Hs). lia.
    + pose proof (IH _ x nl y' i Hi (lookup_default v' _ (v' :: t) ltac:(discriminate)) Ec) as Hy.
      rewrite default_cnt in Hy by lia.
      rewrite (store_labels_missing _ _ _ _ Hc Hs), count_occ_app. lia.
Qed.

(* ------------------------------------------------------------------ a path of keys and indices, declaratively *)
Lemma deval_ki (sev : hp -> jctx -> res json * list sevent) : forall p c, kipath p = true ->
  (exists c', deval hp sev p c = [c'] /\ lookup (cdata c) p = Some (cdata c')) \/
  (deval hp sev p c = [] /\ lookup (cdata c) p = None).
Proof.
  induction p as [|v r IH]; intros c Hk; [left; exists c; split; reflexivity|].
  cbn [kipath forallb] in Hk. apply andb_prop in Hk. destruct Hk as [Hv Hr].
  destruct v as [k | z | | | | | | | |]; try discriminate Hv.
  - cbn [deval lookup]. unfold select.
    destruct (cdata c) as [| | | | | j its | j its] eqn:Hd; cbn [jshape child_at]; try (right; split; reflexivity).
    destruct (assoc k its) as [x|]; [|right; split; reflexivity].
    cbn [flat_map]. rewrite app_nil_r.
    destruct (IH (ext c (NStr k) x) Hr) as [(c' & H1 & H2) | (H1 & H2)]; rewrite cdata_ext in H2; [left; eauto | right; auto].
  - cbn [deval lookup]. unfold select.
    destruct (cdata c) as [| | | | | j its | j its] eqn:Hd; cbn [jshape child_at]; try (right; split; reflexivity).
    destruct (list_get its z) as [x|e]; [|right; split; reflexivity].
    cbn [flat_map]. rewrite app_nil_r.
    destruct (IH (ext c (NInt z) x) Hr) as [(c' & H1 & H2) | (H1 & H2)]; rewrite cdata_ext in H2; [left; eauto | right; auto].
Qed.

Lemma kipath_pure sev p : kipath p = true -> pure_sev hp sev p.
Proof.
  intros Hk q c Hin. unfold kipath in Hk. rewrite forallb_forall in Hk. specialize (Hk _ Hin). discriminate.
Qed.

Lemma kipath_valid p : kipath p = true -> valid_path hp p = true.
Proof.
  unfold kipath, valid_path. rewrite !forallb_forall. intros Hk v Hin. specialize (Hk v Hin).
  destruct v; try discriminate; reflexivity.
Qed.

Lemma split_last_snoc {A} (l : list A) pp v : split_last l = Some (pp, v) -> l = pp ++ [v].
Proof.
  revert pp v. induction l as [|x l IH]; intros pp v; [discriminate|].
  cbn [split_last]. destruct l as [|y l']; [intros H; injection H as <- <-; reflexivity|].
  destruct (split_last (y :: l')) as [[i z]|]; [|discriminate]. intros H; injection H as <- <-.
  rewrite (IH i z eq_refl). reflexivity.
Qed.

Lemma split_last_nil {A} (l : list A) : split_last l = None -> l = [].
Proof.
  induction l as [|x l IH]; [reflexivity|]. cbn [split_last]. destruct l as [|y l']; [discriminate|].
  destruct (split_last (y :: l')) as [[i z]|]; [discriminate|]. intros _. discriminate (IH eq_refl).
Qed.

Definition vname (v : vertex hp) : name := match v with VKey k => NStr k | VIdx z => NInt z | _ => NStr "" end.

(* the leaf assignment, which mutates by identity, stores at the position the parent path leads to *)
Lemma leaf_set_store doc pm v x pp y :
  kistep v = true -> lookup doc pp = Some y -> tdata pm = y ->
  (forall i, label_of y = Some i -> cnt (labels doc) i = 1) ->
  leaf_set doc pm v x =
  match store v x y with
  | Some y' => (Ok (mk_child pm (vname v) x), put_at doc pp y')
  | None => (Exn ESet, doc)
  end.
Proof.
  intros Hv Hl Ht Hone. destruct v as [k | z | | | | | | | |]; try discriminate Hv; unfold leaf_set; rewrite Ht.
  - destruct y as [| | | | | j its | j its]; try reflexivity.
    destruct (by_id_is_by_position pp doc (JDict j its) j (JDict j (dict_set its k x)) Hl eq_refl (Hone j eq_refl)) as [Hf Hr].
    unfold mutate. cbn [label_of]. rewrite Hf. cbn [setitem store vname]. rewrite Hr. reflexivity.
  - destruct y as [| | | | | j its | j its]; try reflexivity.
    unfold mutate. cbn [label_of store vname].
    destruct (list_set its z x) as [l|e] eqn:Els.
    + destruct (by_id_is_by_position pp doc (JList j its) j (JList j l) Hl eq_refl (Hone j eq_refl)) as [Hf Hr].
      rewrite Hf, Els, Hr. reflexivity.
    + destruct (Z.eqb (zlen its) z) eqn:Ez.
      * destruct (by_id_is_by_position pp doc (JList j its) j (JList j (list_append its x)) Hl eq_refl (Hone j eq_refl)) as [Hf Hr].
        rewrite Hf, Els, Ez, Hr. reflexivity.
      * destruct (by_id_is_by_position pp doc (JList j its) j JNull Hl eq_refl (Hone j eq_refl)) as [Hf _].
        rewrite Hf, Els, Ez. reflexivity.
Qed.

(* ------------------------------------------------------------------ the refinement *)
Section Cascade.
Variable B H : positive.
Variable depth : nat.
Notation set_match := (set_match B H depth).
Notation sev := (seval_h depth).

(* identity labels are unique and below the allocation mark (RunM.v keeps documents that way) *)
Definition fresh (doc : json) (nl n : nat) : Prop :=
  NoDup (labels doc) /\ forall i, In i (labels doc) -> i < nl \/ nl + n <= i.

Lemma nodupb_NoDup l : nodupb l = true -> NoDup l.
Proof.
  induction l as [|x l IH]; intros Hb; [constructor|]. simpl in Hb. apply andb_prop in Hb. destruct Hb as [H1 H2].
  constructor; [|apply IH; exact H2]. intros Hin. apply negb_true_iff in H1.
  assert (existsb (Nat.eqb x) l = true) by (apply existsb_exists; exists x; split; [exact Hin | apply Nat.eqb_refl]).
  congruence.
Qed.

(* the boolean the model evaluates before every cascading assignment of a correspondence run *)
Lemma freshb_fresh doc nl n : freshb doc nl n = true -> fresh doc nl n.
Proof.
  unfold freshb, fresh. intros Hb. apply andb_prop in Hb. destruct Hb as [H1 H2].
  split; [apply nodupb_NoDup; exact H1|]. rewrite forallb_forall in H2. intros i Hi. specialize (H2 i Hi).
  apply orb_prop in H2. destruct H2 as [H2|H2]; [left; apply Nat.ltb_lt; exact H2 | right; apply Nat.leb_le; exact H2].
Qed.

Lemma get_match_ki doc pp tr :
  kipath pp = true ->
  let r := fst (jget_match B H depth (SrcDoc doc) pp true tr) in
  (exists pm, r = Ok (Some pm) /\ lookup doc pp = Some (tdata pm)) \/
  (r = Exn EMatchNotFound /\ lookup doc pp = None) \/
  (exists e, r = Exn e /\ budget_exn e = true).
Proof.
  intros Hk r.
  pose proof (get_match_spec B H depth (SrcDoc doc) pp true tr I) as Hs. cbv zeta in Hs.
  destruct (sem_deval hp sev pp (kipath_pure sev pp Hk) (kipath_valid pp Hk) 0 (pmc tr) (abs (root_match (SrcDoc doc))))
    as [Hok Hres].
  unfold answer in Hs. rewrite Hres in Hs. red in Hok.
  assert (Hcd : cdata (abs (root_match (SrcDoc doc))) = doc) by reflexivity.
  destruct (deval_ki sev pp (abs (root_match (SrcDoc doc))) Hk) as [(c' & Hd & Hl) | (Hd & Hl)];
    rewrite Hcd in Hl; rewrite Hd in Hs.
  - destruct Hs as [(m & Hr & Hw & Hh) | [(Hr & Hn & _) | [(e & He & _) | (e & Hr & Hb)]]].
    + left. exists m. split; [exact Hr|]. simpl in Hh. injection Hh as ->. rewrite cdata_abs in Hl by exact Hw. exact Hl.
    + discriminate.
    + congruence.
    + right. right. eauto.
  - destruct Hs as [(m & Hr & Hw & Hh) | [(Hr & Hn & _) | [(e & He & _) | (e & Hr & Hb)]]].
    + discriminate.
    + right. left. split; [exact Hr | exact Hl].
    + congruence.
    + right. right. eauto.
Qed.

Lemma fresh_one doc nl n pp y i :
  fresh doc nl n -> lookup doc pp = Some y -> label_of y = Some i -> cnt (labels doc) i = 1.
Proof.
  intros [Hnd _] Hl Hi. pose proof (lookup_cnt _ _ _ _ Hl Hi) as H1.
  pose proof (proj1 (NoDup_count_occ Nat.eq_dec (labels doc)) Hnd i). lia.
Qed.

Lemma tdata_mk_child pm v x : kistep v = true -> tdata (mk_child pm (vname v) x) = x.
Proof. destruct v; try discriminate; reflexivity. Qed.

Lemma kipath_snoc pp v : kipath (pp ++ [v]) = true -> kipath pp = true /\ kistep v = true.
Proof. unfold kipath. rewrite forallb_app. simpl. rewrite andb_true_r. apply andb_prop. Qed.

Theorem set_match_cset : forall fuel d0 doc p x tr nl r doc' nl' es,
  kipath p = true -> List.length p < fuel -> fresh doc nl (List.length p) ->
  set_match fuel (SrcDoc d0) doc p x true tr nl = (r, doc', nl', es) ->
  match r with
  | Ok m => cset doc p x nl = (true, doc') /\ tdata m = x
  | Exn e => (cset doc p x nl = (false, doc') /\ e = ESet) \/ (budget_exn e = true /\ grows doc doc')
  end.
Proof.
  induction fuel as [|f IH]; intros d0 doc p x tr nl r doc' nl' es Hk Hlen Hfr Hsm; [lia|].
  cbn [Mutate.set_match] in Hsm.
  destruct (split_last p) as [[pp v]|] eqn:Hsp.
  2:{ injection Hsm as <- <- _ _. rewrite (split_last_nil _ Hsp). left. split; reflexivity. }
  pose proof (split_last_snoc _ _ _ Hsp) as Hp. subst p.
  destruct (kipath_snoc _ _ Hk) as [Hkpp Hkv].
  pose proof (get_match_ki doc pp tr Hkpp) as Hg. cbv zeta in Hg.
  destruct (jget_match B H depth (SrcDoc doc) pp true tr) as [rg es0]. cbn [fst] in Hg.
  destruct Hg as [(pm & -> & Hl) | [(-> & Hl) | (e & -> & Hb)]].
  - (* the parent path resolves *)
    rewrite (leaf_set_store doc pm v x pp (tdata pm) Hkv Hl eq_refl (fun i Hi => fresh_one doc nl _ pp _ i Hfr Hl Hi)) in Hsm.
    rewrite (cset_snoc_exists pp doc v x nl _ Hl).
    destruct (store v x (tdata pm)) as [y'|]; injection Hsm as <- <- _ _.
    + split; [reflexivity | apply tdata_mk_child; exact Hkv].
    + left. split; reflexivity.
  - (* it does not: cascade *)
    assert (Hne : pp <> []) by (intros ->; discriminate Hl).
    assert (Hul : uses_label v = true) by (destruct v; try discriminate; reflexivity).
    rewrite Hul in Hsm.
    destruct (set_match f (SrcDoc d0) doc pp (default_for_set v nl) true tr (S nl)) as [[[r1 doc1] nl2] es1] eqn:Hrec.
    assert (Hfr1 : fresh doc (S nl) (List.length pp)).
    { destruct Hfr as [H1 H2]; split; [exact H1 | intros i Hi; specialize (H2 i Hi); rewrite app_length in H2; simpl in H2; lia]. }
    assert (Hlen1 : List.length pp < f) by (rewrite app_length in Hlen; simpl in Hlen; lia).
    pose proof (IH d0 doc pp (default_for_set v nl) tr (S nl) r1 doc1 nl2 es1 Hkpp Hlen1 Hfr1 Hrec) as IHr.
    rewrite (cset_snoc_missing pp doc v x nl Hne Hl).
    destruct r1 as [pm|e].
    + destruct IHr as [Hc Htd]. rewrite Hc.
      pose proof (cset_success_lookup _ _ _ _ _ Hc) as Hl1.
      assert (Hone : forall i, label_of (default_for_set v nl) = Some i -> cnt (labels doc1) i = 1).
      { intros i Hi. assert (i = nl) by (destruct v; try discriminate; simpl in Hi; congruence). subst i.
        rewrite (cset_count pp doc _ (S nl) doc1 nl ltac:(lia) Hl Hc).
        assert (H0 : cnt (labels doc) nl = 0).
        { apply count_occ_not_In. intros Hin. destruct Hfr as [_ H2]. specialize (H2 _ Hin). rewrite app_length in H2. simpl in H2. lia. }
        rewrite H0. destruct v; try discriminate; simpl; destruct (Nat.eq_dec nl nl); congruence. }
      rewrite (leaf_set_store doc1 pm v x pp _ Hkv Hl1 Htd Hone) in Hsm.
      destruct (store v x (default_for_set v nl)) as [y'|]; injection Hsm as <- <- _ _.
      * split; [reflexivity | apply tdata_mk_child; exact Hkv].
      * left. split; reflexivity.
    + injection Hsm as <- <- _ _. destruct IHr as [[Hc ->] | [Hb Hg]].
      * left. rewrite Hc. split; reflexivity.
      * right. split; assumption.
  - (* a budget exception of the search itself *)
    destruct e; try discriminate Hb; injection Hsm as <- <- _ _; right; (split; [exact Hb | apply g_refl]).
Qed.

(* whatever goes wrong, no pre-existing node has been altered, moved or removed *)
Theorem set_match_failure_grows fuel d0 doc p x tr nl e doc' nl' es :
  kipath p = true -> List.length p < fuel -> fresh doc nl (List.length p) ->
  set_match fuel (SrcDoc d0) doc p x true tr nl = (Exn e, doc', nl', es) -> grows doc doc'.
Proof.
  intros Hk Hlen Hfr Hsm. pose proof (set_match_cset _ _ _ _ _ _ _ _ _ _ _ Hk Hlen Hfr Hsm) as Hs. cbn in Hs.
  destruct Hs as [[Hc _] | [_ Hg]]; [eapply cset_fail_grows; eauto | exact Hg].
Qed.

(* after a successful cascade the value is found where the path says: get_match(p, doc') is a match holding
   it (or the search dies of its budget, F1) *)
Theorem set_match_then_get fuel d0 doc p x tr tr' nl m doc' nl' es :
  kipath p = true -> List.length p < fuel -> fresh doc nl (List.length p) ->
  set_match fuel (SrcDoc d0) doc p x true tr nl = (Ok m, doc', nl', es) ->
  let r := fst (jget_match B H depth (SrcDoc doc') p true tr') in
  (exists pm, r = Ok (Some pm) /\ tdata pm = x) \/ (exists e, r = Exn e /\ budget_exn e = true).
Proof.
  intros Hk Hlen Hfr Hsm r. pose proof (set_match_cset _ _ _ _ _ _ _ _ _ _ _ Hk Hlen Hfr Hsm) as Hs. cbn in Hs.
  destruct Hs as [Hc _]. pose proof (cset_success_lookup _ _ _ _ _ Hc) as Hl.
  destruct (get_match_ki doc' p tr' Hk) as [(pm & Hr & Hl') | [(Hr & Hl') | Hb]].
  - left. exists pm. split; [exact Hr|]. congruence.
  - congruence.
  - right. exact Hb.
Qed.

End Cascade.

(* ------------------------------------------------------------------ plain assignment (cascade=False), positionally *)
Section Plain.
Variable B H : positive.
Variable depth : nat.

Theorem set_match_plain fuel d0 doc pp v x tr nl r doc' nl' es :
  kipath (pp ++ [v]) = true -> NoDup (labels doc) ->
  Mutate.set_match B H depth (S fuel) (SrcDoc d0) doc (pp ++ [v]) x false tr nl = (r, doc', nl', es) ->
  match r with
  | Ok m => exists y y', lookup doc pp = Some y /\ store v x y = Some y' /\ doc' = put_at doc pp y' /\ tdata m = x
  | Exn e => doc' = doc
  end.
Proof.
  intros Hk Hnd Hsm. destruct (kipath_snoc _ _ Hk) as [Hkpp Hkv].
  cbn [Mutate.set_match] in Hsm.
  assert (Hsp : split_last (pp ++ [v]) = Some (pp, v)).
  { clear. induction pp as [|w r IH]; [reflexivity|]. cbn [app split_last]. rewrite IH. destruct (r ++ [v]) eqn:E; [destruct r; discriminate | reflexivity]. }
  rewrite Hsp in Hsm.
  pose proof (get_match_ki B H depth doc pp tr Hkpp) as Hg. cbv zeta in Hg.
  destruct (jget_match B H depth (SrcDoc doc) pp true tr) as [rg es0]. cbn [fst] in Hg.
  destruct Hg as [(pm & -> & Hl) | [(-> & Hl) | (e & -> & Hb)]].
  - assert (Hone : forall i, label_of (tdata pm) = Some i -> cnt (labels doc) i = 1).
    { intros i Hi. pose proof (lookup_cnt _ _ _ _ Hl Hi). pose proof (proj1 (NoDup_count_occ Nat.eq_dec (labels doc)) Hnd i). lia. }
    rewrite (leaf_set_store doc pm v x pp (tdata pm) Hkv Hl eq_refl Hone) in Hsm.
    destruct (store v x (tdata pm)) as [y'|] eqn:Hs; injection Hsm as <- <- _ _; [|reflexivity].
    exists (tdata pm), y'. repeat split; auto. apply tdata_mk_child. exact Hkv.
  - injection Hsm as <- <- _ _. reflexivity.
  - destruct e; try discriminate Hb; injection Hsm as <- <- _ _; reflexivity.
Qed.

End Plain.
