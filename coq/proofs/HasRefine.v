(* HasRefine.v -- the has family as implemented (eval_h: nested machines driven by next() with their budgets)
   refines the has family as specified (seval_h: scans of the nested specification stream), at every nesting
   depth: either outcome and events agree, or the evaluation ends in a budget exception. *)
From Coq Require Import List ZArith String Bool PArith Lia FMapPositive.
From TP Require Import Json PyPrim Machine Api Spec SpecHas.
From TP.proofs Require Import RefineBase Refine NextLayer Iterate WfRun HasScan HasLoop.
Import ListNotations.
Close Scope Z_scope.
Open Scope list_scope.

Lemma ev_results_nested (es : list jevent) : ev_results (nested_events es) = [].
Proof. induction es as [|e es IH]; [reflexivity|]. destruct e; simpl; exact IH. Qed.

Section HasRefine.
Variable B H : positive.
Notation eh := (@eval_h json jshape (fun d => d) B H).

(* ------------------------------------------------------------------ predicates never emit results of their searches *)
Lemma has_body_quiet ev p op fs m tr z acc :
  ev_results acc = [] ->
  match @has_body json jshape (fun d => d) B ev p op fs m tr (z, acc) with
  | inl (_, acc') => ev_results acc' = []
  | inr (_, es) => ev_results es = []
  end.
Proof.
  intros Ha. unfold has_body.
  destruct (next jshape hpred ev B (SrcMatch m) p tr z) as [[o z'] es].
  destruct o as [c|e].
  - pose proof (has_test_noresult op fs (tdata c)) as Ht.
    destruct (has_test (fun d : json => d) op fs (tdata c)) as [[[|]|ex] tes]; simpl in Ht;
      rewrite !ev_results_app, Ha, ev_results_nested, Ht; reflexivity.
  - destruct e; rewrite ev_results_app, Ha, ev_results_nested; reflexivity.
Qed.

Lemma has_iter_quiet ev p op fs m tr fuel z acc :
  ev_results acc = [] ->
  match iter_nat (@has_body json jshape (fun d => d) B ev p op fs m tr) fuel (z, acc) with
  | inl (_, acc') => ev_results acc' = []
  | inr (_, es) => ev_results es = []
  end.
Proof.
  revert z acc. induction fuel as [|fuel IH]; intros z acc Ha; [exact Ha|].
  cbn [iter_nat]. pose proof (has_body_quiet ev p op fs m tr z acc Ha) as Hb.
  destruct (has_body jshape (fun d : json => d) B ev p op fs m tr (z, acc)) as [[z' acc'] | [o es]]; [apply IH; exact Hb | exact Hb].
Qed.

Lemma eval_h_quiet n : forall h m tr, ev_results (snd (eh n h m tr)) = [].
Proof.
  induction n as [|n IH]; intros h m tr; [reflexivity|].
  destruct h as [tag f | p op fs | l | l | h' | p must]; cbn [eval_h].
  - reflexivity.
  - unfold has_loop. rewrite iter_until_nat.
    pose proof (has_iter_quiet (eh n) p op fs m (match tr with None => None | Some _ => Some (Some m) end)
                  (Pos.to_nat H) init_state [] eq_refl) as Hq.
    match goal with |- context [iter_nat ?f ?k ?a] => destruct (iter_nat f k a) as [[z acc] | [o es]] end; exact Hq.
  - induction l as [|h' l IHl]; [reflexivity|].
    pose proof (IH h' m tr) as Hh. destruct (eh n h' m tr) as [[v|e] es]; simpl in Hh; [|exact Hh].
    destruct (truthy v); [|exact Hh].
    match goal with |- context [let '(o, es') := ?g in _] => destruct g as [o es'] eqn:Eg end.
    simpl in *. rewrite ev_results_app, Hh. exact IHl.
  - induction l as [|h' l IHl]; [reflexivity|].
    pose proof (IH h' m tr) as Hh. destruct (eh n h' m tr) as [[v|e] es]; simpl in Hh; [|exact Hh].
    destruct (truthy v); [exact Hh|].
    match goal with |- context [let '(o, es') := ?g in _] => destruct g as [o es'] eqn:Eg end.
    simpl in *. rewrite ev_results_app, Hh. exact IHl.
  - pose proof (IH h' m tr) as Hh. destruct (eh n h' m tr) as [[v|e] es]; exact Hh.
  - unfold getmatch_pred.
    destruct (next jshape hpred (eh n) B (SrcMatch m) p (match tr with None => None | Some _ => Some (Some m) end) init_state)
      as [[o z] es].
    destruct o as [c|e]; [apply ev_results_nested|]. destruct e; try destruct must; apply ev_results_nested.
Qed.

(* ------------------------------------------------------------------ agreement or budget failure *)
Definition agrees (tr : @tracecfg json) (r : res json * list jevent) (s : res json * list sevent) : Prop :=
  fst r = fst s /\ map abs_ev (snd r) = proj (tracing tr) (snd s).
Definition budget_fail (r : res json * list jevent) : Prop :=
  exists e, fst r = Exn e /\ budget_exn e = true.

Definition level_ok (n : nat) : Prop :=
  forall h m tr, wf m -> agrees tr (eh n h m tr) (seval_h n h (abs m)) \/ budget_fail (eh n h m tr).

Definition nested_tr (tr : @tracecfg json) (m : jtm) : @tracecfg json :=
  match tr with None => None | Some _ => Some (Some m) end.

Lemma tracing_nested tr m : tracing (nested_tr tr m) = tracing tr.
Proof. destruct tr; reflexivity. Qed.

(* the nested search of a predicate at candidate m: a run of the nested machine, related to the nested
   specification stream R *)
Lemma nested_run n (Hn : level_ok n) p m tr :
  wf m ->
  let tr' := nested_tr tr m in
  let R := sem (@hpred json) (seval_h n) 0 p (Some (abs m)) (abs m) in
  exists k evs z1 e z2 ev2,
    run (@hpred json) (eh n) (SrcMatch m) p tr' k init_state evs z1 /\
    step jshape (@hpred json) (eh n) (SrcMatch m) p tr' z1 = SRaise e z2 ev2 /\
    Forall wf (ev_results evs) /\ ev_results ev2 = [] /\
    ((snd R = None /\ e = EStop /\ ev2 = [] /\ map abs_ev evs = proj (tracing tr) (fst R)) \/
     (snd R = Some e /\ map abs_ev (evs ++ ev2) = proj (tracing tr) (fst R)) \/
     (budget_exn e = true /\ exists pre suf, fst R = pre ++ suf /\ map abs_ev evs = proj (tracing tr) pre)).
Proof.
  intros Hwf tr' R.
  assert (Hq : forall q m0, ev_results (snd (eh n q m0 tr')) = []) by (intros; apply eval_h_quiet).
  assert (Hok : forall q m0, In (VPred q) p -> wf m0 ->
            (fst (eh n q m0 tr') = fst (seval_h n q (abs m0)) /\
             map abs_ev (snd (eh n q m0 tr')) = proj (tracing tr') (snd (seval_h n q (abs m0)))) \/
            (exists e, fst (eh n q m0 tr') = Exn e /\ budget_exn e = true)).
  { intros q m0 _ Hw. destruct (Hn q m0 tr' Hw) as [Ha | Hb]; [left; exact Ha | right; exact Hb]. }
  assert (Hpm : tracing tr' = true -> Some (abs m) = pmc tr').
  { unfold tr', nested_tr, pmc. destruct tr; [reflexivity | discriminate]. }
  pose proof (refinement (@hpred json) (eh n) (seval_h n) (SrcMatch m) p tr' (Some (abs m)) Hpm Hok Hwf) as Href.
  change (abs (root_match (SrcMatch m))) with (abs m) in Href. fold R in Href.
  rewrite <- (tracing_nested tr m). fold tr'.
  destruct Href as [Href | Href].
  - unfold ok_run in Href. destruct (snd R) as [ex|] eqn:Hex.
    + destruct Href as (k & z1 & evs & z2 & ev2 & Hrun & Hs & Hev).
      exists k, evs, z1, ex, z2, ev2. split; [exact Hrun|]. split; [exact Hs|].
      split; [exact (proj2 (wf_run (@hpred json) (eh n) (SrcMatch m) p tr' Hwf Hq _ _ _ _ wfz_init Hrun))|].
      split; [eapply step_raise_quiet; eauto|]. right; left. auto.
    + destruct Href as (k & z' & evs & Hrun & Hev & Hpc & Hstop).
      exists k, evs, z', EStop, z', []. split; [exact Hrun|]. split; [exact Hstop|].
      split; [exact (proj2 (wf_run (@hpred json) (eh n) (SrcMatch m) p tr' Hwf Hq _ _ _ _ wfz_init Hrun))|].
      split; [reflexivity|]. left. auto.
  - destruct Href as (k & z1 & evs & z2 & e & ev2 & pre & suf & Hrun & Hs & Hbe & Hfst & Hev).
    exists k, evs, z1, e, z2, ev2. split; [exact Hrun|]. split; [exact Hs|].
    split; [exact (proj2 (wf_run (@hpred json) (eh n) (SrcMatch m) p tr' Hwf Hq _ _ _ _ wfz_init Hrun))|].
    split; [eapply step_raise_quiet; eauto|]. right; right. split; [exact Hbe|]. exists pre, suf. auto.
Qed.

Lemma scan_transfer (tm_test : json -> res bool * list jevent) (ts_test : json -> res bool * list sevent) b evs X :
  (forall x, fst (tm_test x) = fst (ts_test x) /\ map abs_ev (snd (tm_test x)) = snd (ts_test x)) ->
  (forall x, proj b (snd (ts_test x)) = snd (ts_test x)) ->
  Forall wf (ev_results evs) -> map abs_ev evs = proj b X ->
  snd (scan2 m_result tm_test evs) = snd (scan2 s_result ts_test X) /\
  map abs_ev (fst (scan2 m_result tm_test evs)) = proj b (fst (scan2 s_result ts_test X)).
Proof.
  intros Ht Hn Hwf He.
  pose proof (scan2_abs tm_test ts_test evs Ht Hwf) as H1. rewrite He in H1.
  rewrite (scan2_proj ts_test b X Hn) in H1. injection H1 as H1 H2. auto.
Qed.

Lemma final_fin e : final e = fin_of (Some e).
Proof. destruct e; reflexivity. Qed.

Lemma budget_not_stop e : budget_exn e = true -> final e = Exn e.
Proof. destruct e; simpl; intros Hb0; try discriminate; reflexivity. Qed.

Definition gfin (must : bool) (ex : option exn) : res json :=
  match ex with
  | None | Some EStop => if must then Exn ENestedMatchNotFound else Ok JNull
  | Some e => Exn e
  end.

Lemma sgetmatch_scan2 must es ex :
  sgetmatch must es ex =
  (match snd (scan2 s_result (fun _ => (Ok true, [])) es) with Some o => o | None => gfin must ex end,
   fst (scan2 s_result (fun _ => (Ok true, [])) es)).
Proof.
  induction es as [|e es IH]; [reflexivity|].
  destruct e; simpl; try (rewrite IH; destruct (scan2 s_result (fun _ : json => (Ok true, [])) es); reflexivity).
  reflexivity.
Qed.

Theorem has_refine : forall n, level_ok n.
Proof.
  induction n as [|n IHn]; intros h m tr Hwf.
  - left. split; [reflexivity | simpl; rewrite proj_nil; reflexivity].
  - destruct h as [tag f | p op fs | l | l | h' | p must]; cbn [eval_h seval_h].
    + (* user predicate *)
      left. split; [reflexivity|]. simpl. symmetry. apply proj_nontrace. reflexivity.
    + (* has(p ...) *)
      destruct (nested_run n IHn p m tr Hwf) as (k & evs & z1 & e & z2 & ev2 & Hrun & Hs & Hwfr & Hq2 & HPhi).
      fold (nested_tr tr m). unfold jpred, jctx.
      set (R := sem (@hpred json) (seval_h n) 0 p (Some (abs m)) (abs m)) in *.
      rewrite shas_scan_scan2.
      pose proof (has_loop_scan B H (eh n) m p (nested_tr tr m) (fun q m0 => eval_h_quiet n q m0 _) op fs
                    k evs z1 e z2 ev2 Hrun Hs) as Hloop.
      cbv zeta in Hloop.
      destruct Hloop as [[Ho Hsn] | Hb]; [|right; exact Hb].
      assert (Hwf2 : Forall wf (ev_results (evs ++ ev2))) by (rewrite ev_results_app, Hq2, app_nil_r; exact Hwfr).
      destruct HPhi as [(Hex & -> & -> & Hev) | [(Hex & Hev) | (Hbe & pre & suf & Hfst & Hev)]].
      * rewrite app_nil_r in *.
        destruct (scan_transfer _ _ (tracing tr) evs (fst R) (has_test_abs op fs) (shas_test_notrace _ op fs) Hwf2 Hev) as [H1 H2].
        left. split; [|rewrite Hsn; exact H2].
        rewrite Ho. unfold finish; cbn [fst snd]. rewrite H1, Hex. reflexivity.
      * destruct (scan_transfer _ _ (tracing tr) (evs ++ ev2) (fst R) (has_test_abs op fs) (shas_test_notrace _ op fs) Hwf2 Hev) as [H1 H2].
        left. split; [|rewrite Hsn; exact H2].
        rewrite Ho. unfold finish; cbn [fst snd]. rewrite H1, Hex, final_fin. reflexivity.
      * rewrite scan2_app in Ho, Hsn.
        destruct (scan_transfer _ _ (tracing tr) evs pre (has_test_abs op fs) (shas_test_notrace _ op fs) Hwfr Hev) as [H1 H2].
        destruct (scan2 m_result (has_test (fun d : json => d) op fs) evs) as [ea da] eqn:Ea. simpl in H1, H2.
        destruct da as [o|].
        -- left. rewrite Hfst, scan2_app. destruct (scan2 s_result (shas_test op fs) pre) as [sa sda]. simpl in *. subst sda.
           split; [rewrite Ho; reflexivity | rewrite Hsn; exact H2].
        -- right. rewrite (scan2_noresult m_result _ ev2 (noresult_m_result _ Hq2)) in Ho. simpl in Ho.
           exists e. split; [rewrite Ho; apply budget_not_stop; exact Hbe | exact Hbe].
    + (* has_all *)
      induction l as [|h' l IHl]; [left; split; [reflexivity | simpl; rewrite proj_nil; reflexivity]|].
      destruct (IHn h' m tr Hwf) as [[Ha1 Ha2] | (e & Hb1 & Hb2)].
      * destruct (eh n h' m tr) as [r es], (seval_h n h' (abs m)) as [r' es']. simpl in Ha1, Ha2. subst r'.
        destruct r as [v|e]; [|left; split; [reflexivity | exact Ha2]].
        destruct (truthy v); [|left; split; [reflexivity | exact Ha2]].
        match goal with |- context [agrees tr (let '(o, es0) := ?g in _) (let '(o', es0') := ?g' in _)] =>
          destruct g as [o1 e1], g' as [o2 e2] end.
        destruct IHl as [[Hl1 Hl2] | (e & Hl1 & Hl2)].
        -- left. simpl in *. split; [exact Hl1 | cbn [snd]; rewrite map_app, proj_app, Ha2, Hl2; reflexivity].
        -- right. exists e. simpl in *. auto.
      * right. destruct (eh n h' m tr) as [r es]. simpl in Hb1. subst r. exists e. auto.
    + (* has_any *)
      induction l as [|h' l IHl]; [left; split; [reflexivity | simpl; rewrite proj_nil; reflexivity]|].
      destruct (IHn h' m tr Hwf) as [[Ha1 Ha2] | (e & Hb1 & Hb2)].
      * destruct (eh n h' m tr) as [r es], (seval_h n h' (abs m)) as [r' es']. simpl in Ha1, Ha2. subst r'.
        destruct r as [v|e]; [|left; split; [reflexivity | exact Ha2]].
        destruct (truthy v); [left; split; [reflexivity | exact Ha2]|].
        match goal with |- context [agrees tr (let '(o, es0) := ?g in _) (let '(o', es0') := ?g' in _)] =>
          destruct g as [o1 e1], g' as [o2 e2] end.
        destruct IHl as [[Hl1 Hl2] | (e & Hl1 & Hl2)].
        -- left. simpl in *. split; [exact Hl1 | cbn [snd]; rewrite map_app, proj_app, Ha2, Hl2; reflexivity].
        -- right. exists e. simpl in *. auto.
      * right. destruct (eh n h' m tr) as [r es]. simpl in Hb1. subst r. exists e. auto.
    + (* has_not *)
      destruct (IHn h' m tr Hwf) as [[Ha1 Ha2] | (e & Hb1 & Hb2)].
      * destruct (eh n h' m tr) as [r es], (seval_h n h' (abs m)) as [r' es']. simpl in Ha1, Ha2. subst r'.
        left. destruct r as [v|e]; split; auto.
      * right. destruct (eh n h' m tr) as [r es]. simpl in Hb1. subst r. exists e. auto.
    + (* a predicate that searches on from its Match *)
      destruct (nested_run n IHn p m tr Hwf) as (k & evs & z1 & e & z2 & ev2 & Hrun & Hs & Hwfr & Hq2 & HPhi).
      fold (nested_tr tr m). unfold jpred, jctx.
      set (R := sem (@hpred json) (seval_h n) 0 p (Some (abs m)) (abs m)) in *.
      rewrite sgetmatch_scan2.
      pose proof (getmatch_scan B (eh n) m p (nested_tr tr m) (fun q m0 => eval_h_quiet n q m0 _) must
                    k evs z1 e z2 ev2 Hrun Hs) as Hloop.
      cbv zeta in Hloop.
      destruct Hloop as [[Ho Hsn] | Hb]; [|right; exact Hb].
      assert (Hwf2 : Forall wf (ev_results (evs ++ ev2))) by (rewrite ev_results_app, Hq2, app_nil_r; exact Hwfr).
      assert (Ht : forall x : json, fst ((fun _ : json => (Ok true, @nil jevent)) x) = fst ((fun _ : json => (Ok true, @nil sevent)) x) /\
                                    map abs_ev (snd ((fun _ : json => (Ok true, @nil jevent)) x)) = snd ((fun _ : json => (Ok true, @nil sevent)) x))
        by (intros; split; reflexivity).
      assert (Hnt : forall x : json, proj (tracing tr) (snd ((fun _ : json => (Ok true, @nil sevent)) x)) = snd ((fun _ : json => (Ok true, @nil sevent)) x))
        by (intros; apply proj_nil).
      destruct HPhi as [(Hex & -> & -> & Hev) | [(Hex & Hev) | (Hbe & pre & suf & Hfst & Hev)]].
      * rewrite app_nil_r in *.
        destruct (scan_transfer _ _ (tracing tr) evs (fst R) Ht Hnt Hwf2 Hev) as [H1 H2].
        left. split; [|rewrite Hsn; exact H2]. rewrite Ho, H1, Hex. reflexivity.
      * destruct (scan_transfer _ _ (tracing tr) (evs ++ ev2) (fst R) Ht Hnt Hwf2 Hev) as [H1 H2].
        left. split; [|rewrite Hsn; exact H2]. rewrite Ho, H1, Hex. destruct e; reflexivity.
      * rewrite scan2_app in Ho, Hsn.
        destruct (scan_transfer _ _ (tracing tr) evs pre Ht Hnt Hwfr Hev) as [H1 H2].
        destruct (scan2 m_result (fun _ : json => (Ok true, [])) evs) as [ea da] eqn:Ea. simpl in H1, H2.
        destruct da as [o|].
        -- left. rewrite Hfst, scan2_app. destruct (scan2 s_result (fun _ : json => (Ok true, [])) pre) as [sa sda]. simpl in *. subst sda.
           split; [rewrite Ho; reflexivity | rewrite Hsn; exact H2].
        -- right. rewrite (scan2_noresult m_result _ ev2 (noresult_m_result _ Hq2)) in Ho. simpl in Ho.
           exists e. split; [rewrite Ho; destruct e; simpl in Hbe; try discriminate; reflexivity | exact Hbe].
Qed.

End HasRefine.

Print Assumptions has_refine.
