(* RoundTrip.v -- C11: every context a parent-free path produces from a document with unique dict keys is a
   true chain (each element is its parent's member under its data_name, negative indices as written), so the
   explicit path read off the chain (match_to_path) leads from the document to the very node the match holds;
   get_match on that path finds it. *)
From Coq Require Import List ZArith String Bool PArith Lia.
From TP Require Import Json PyPrim Machine Api Spec SpecHas Mutate SpecSet.
From TP.proofs Require Import RefineBase Refine NextLayer Iterate WfRun Query SpecLemmas BelowLemmas CsetLemmas.
Import ListNotations.
Close Scope Z_scope.
Open Scope list_scope.

Definition vstep (nm : name) : vertex hp := match nm with NStr k => VKey k | NInt z => VIdx z end.
(* match_to_path on the public chain: path[data_name] for every element but the root *)
Definition steps_of (c : jctx) : list (vertex hp) := map (fun e => vstep (snd (fst e))) (tl c).

Lemma lookup_app d p q : lookup d (p ++ q) = match lookup d p with Some y => lookup y q | None => None end.
Proof.
  revert d. induction p as [|v p IH]; intros d; [reflexivity|]. cbn [app lookup].
  destruct (child_at v d); [apply IH | reflexivity].
Qed.

(* ------------------------------------------------------------------ members are children under their own name *)
Lemma assoc_nodup_in {A} (l : list (string * A)) k x : NoDup (map fst l) -> In (k, x) l -> assoc k l = Some x.
Proof.
  induction l as [|[k' v'] l IH]; intros Hnd Hin; [contradiction|]. simpl in *.
  inversion Hnd as [|a r Ha Hr]; subst. destruct Hin as [E|Hin].
  - injection E as -> ->. rewrite String.eqb_refl. reflexivity.
  - destruct (String.eqb_spec k k') as [->|Hne]; [|apply IH; assumption].
    exfalso. apply Ha. apply in_map_iff. exists (k', x). auto.
Qed.

Lemma enum_from_get {A} (l : list A) z i x :
  In (i, x) (enum_from z l) -> (z <= i < z + zlen l)%Z /\ nth_error l (Z.to_nat (i - z)) = Some x.
Proof.
  revert z. induction l as [|y l IH]; intros z Hin; [contradiction|]. cbn [enum_from] in Hin. unfold zlen in *.
  destruct Hin as [E|Hin].
  - injection E as <- <-. rewrite Z.sub_diag. cbn [List.length]. split; [lia | reflexivity].
  - destruct (IH _ Hin) as [Hr Hn]. cbn [List.length]. split; [lia|].
    replace (Z.to_nat (i - z)) with (S (Z.to_nat (i - (z + 1)))) by lia. exact Hn.
Qed.

Lemma list_get_nonneg {A} (l : list A) i x :
  (0 <= i)%Z -> nth_error l (Z.to_nat i) = Some x -> list_get l i = Ok x.
Proof.
  intros Hi Hn. assert (Hlt : Z.to_nat i < List.length l) by (apply nth_error_Some; congruence).
  unfold list_get, norm_index, zlen.
  destruct (Z.leb_spec 0 i) as [_|H0]; [|lia].
  destruct (Z.ltb_spec i (Z.of_nat (List.length l))) as [_|H1]; [|lia]. cbn [andb]. rewrite Hn. reflexivity.
Qed.

(* ------------------------------------------------------------------ slices name real positions *)
Lemma slice_start_stop a b step n s e :
  (0 <= n)%Z -> slice_indices a b step n = (s, e) ->
  ((0 < step)%Z -> (0 <= s)%Z) /\ ((step <= 0)%Z -> (-1 <= e)%Z).
Proof.
  intros Hn. unfold slice_indices. destruct (Z.ltb_spec 0 step) as [Hp|Hp]; intros H; injection H as <- <-.
  - split; [|lia]. intros _. destruct a as [a|]; [|lia]. destruct (Z.ltb_spec a 0); lia.
  - split; [lia|]. intros _. destruct b as [b|]; [|lia]. destruct (Z.ltb_spec b 0); lia.
Qed.

Lemma range_list_nonneg s e step i :
  ((0 < step)%Z -> (0 <= s)%Z) -> ((step <= 0)%Z -> (-1 <= e)%Z) -> step <> 0%Z ->
  In i (range_list s e step) -> (0 <= i)%Z.
Proof.
  intros Hs He Hne Hin. unfold range_list in Hin. apply in_map_iff in Hin. destruct Hin as (k & <- & Hk).
  apply in_seq in Hk. destruct Hk as [_ Hk]. simpl in Hk. unfold range_len in Hk.
  destruct (Z.ltb_spec 0 step) as [Hp|Hp].
  - specialize (Hs Hp). assert (0 <= Z.of_nat k * step)%Z by (apply Z.mul_nonneg_nonneg; lia). lia.
  - assert (Hneg : (step < 0)%Z) by lia. specialize (He ltac:(lia)).
    destruct (Z.ltb_spec e s) as [Hlt|Hge]; [|lia].
    set (q := ((s - e - 1) / - step)%Z) in *.
    assert (Hq : (0 <= q)%Z) by (apply Z.div_pos; lia).
    assert (Hkq : (Z.of_nat k <= q)%Z) by lia.
    assert (Hm : (- step * q <= s - e - 1)%Z) by (apply Z.mul_div_le; lia).
    assert (Hmono : (Z.of_nat k * - step <= q * - step)%Z) by (apply Z.mul_le_mono_nonneg_r; lia).
    lia.
Qed.

Lemma enumerate_slice_child a b c (l : list json) its i x :
  enumerate_slice a b c l = Ok its -> In (i, x) its -> list_get l i = Ok x.
Proof.
  unfold enumerate_slice. set (step := match c with Some s => s | None => 1%Z end).
  destruct (Z.eqb_spec step 0) as [|Hne]; [discriminate|].
  destruct (slice_indices a b step (zlen l)) as [s e] eqn:Esl. intros H; injection H as <-. intros Hin.
  apply in_flat_map in Hin. destruct Hin as (j & Hj & Hx).
  destruct (nth_error l (Z.to_nat j)) as [v|] eqn:En; [|contradiction]. destruct Hx as [E|[]]. injection E as -> ->.
  destruct (slice_start_stop a b step (zlen l) s e ltac:(unfold zlen; lia) Esl) as [H1 H2].
  apply list_get_nonneg; [|exact En]. eapply range_list_nonneg; eauto.
Qed.

(* ------------------------------------------------------------------ what a step selects is a child *)
Lemma member_child d its nm x :
  uniq d -> members d = Some its -> In (nm, x) its -> child_at (vstep nm) d = Some x /\ uniq x.
Proof.
  intros Hu Hm Hin. inversion Hu as [d0 Hn | d0 its0 Hm0 Hnd Hkids]; subst; [congruence|].
  rewrite Hm in Hm0. injection Hm0 as <-. split; [|eapply Hkids; eauto].
  destruct d as [| | | | | j l | j l]; simpl in Hm; try discriminate; injection Hm as <-.
  - unfold list_iter in Hin. apply in_map_iff in Hin. destruct Hin as ([i y] & E & Hin). cbn [fst snd] in E. injection E as <- <-.
    unfold enumerate in Hin. destruct (enum_from_get _ _ _ _ Hin) as [Hr Hn]. rewrite Z.sub_0_r in Hn.
    cbn [vstep child_at]. rewrite (list_get_nonneg l i y ltac:(lia) Hn). reflexivity.
  - unfold dict_iter in Hin. apply in_map_iff in Hin. destruct Hin as ([k y] & E & Hin). cbn [fst snd] in E. injection E as <- <-.
    cbn [vstep child_at]. apply assoc_nodup_in; [|exact Hin].
    unfold dict_iter in Hnd. rewrite map_map in Hnd. cbn [fst] in Hnd.
    clear -Hnd. induction l as [|[k0 x0] l IH]; [constructor|]. simpl in *. inversion Hnd as [|a r Ha Hr]; subst.
    constructor; [|apply IH; exact Hr]. intros Hin. apply Ha. apply in_map_iff in Hin. destruct Hin as ([k1 x1] & E & Hin).
    simpl in E. subst k1. apply in_map_iff. exists (k0, x1). auto.
Qed.

Lemma child_uniq v d x : uniq d -> child_at v d = Some x -> uniq x.
Proof.
  intros Hu Hc. inversion Hu as [d0 Hn | d0 its0 Hm0 Hnd Hkids]; subst.
  - destruct v; destruct d; simpl in *; try discriminate.
  - destruct v as [k | z | sa sb sc | tl0 | | | dot | | | pq]; destruct d as [| | | | | j l | j l]; simpl in Hc, Hm0; try discriminate;
      injection Hm0 as <-.
    + assert (Hin : In (NStr k, x) (dict_iter l)).
      { clear -Hc. unfold dict_iter. induction l as [|[k0 x0] l IH]; simpl in *; [discriminate|].
        destruct (String.eqb_spec k k0) as [->|Hne]; [injection Hc as ->; left; reflexivity | right; apply IH; exact Hc]. }
      eapply Hkids; eauto.
    + destruct (list_get l z) as [y|e] eqn:E; [|discriminate]. injection Hc as ->.
      destruct (list_get_ok _ _ _ E) as (n & _ & Hnth). apply nth_error_In in Hnth.
      apply In_nth_error in Hnth. destruct Hnth as (n' & Hn').
      assert (Hin : exists i, In (NInt i, x) (list_iter l)).
      { clear -Hn'. unfold list_iter, enumerate. generalize 0%Z. revert n' Hn'. induction l as [|y l IH]; intros [|n'] Hn z; simpl in *; try discriminate.
        - injection Hn as ->. exists z. left. reflexivity.
        - destruct (IH _ Hn (z + 1)%Z) as (i & Hi). exists i. right. exact Hi. }
      destruct Hin as (i & Hi). eapply Hkids; eauto.
Qed.

Lemma items_child (v : vertex hp) d its nm x :
  uniq d -> items_for jshape hp v d = Ok (Some its) -> In (nm, x) its -> child_at (vstep nm) d = Some x.
Proof.
  intros Hu Hi Hin. unfold items_for in Hi.
  destruct v as [k | z | a b c | l | | | dot | | | p]; destruct d as [| | | | | j its0 | j its0]; cbn [jshape] in Hi;
    try discriminate; try (injection Hi as <-).
  - (* slice *) destruct (enumerate_slice a b c its0) as [l0|e] eqn:Es; [|discriminate]. injection Hi as <-.
    apply in_map_iff in Hin. destruct Hin as ([i y] & E & Hin). cbn [fst snd] in E. injection E as <- <-.
    cbn [vstep child_at]. rewrite (enumerate_slice_child _ _ _ _ _ _ _ Es Hin). reflexivity.
  - (* tuple on a list *) unfold tuple_iter_list in Hin. apply in_flat_map in Hin. destruct Hin as (n0 & _ & Hx).
    destruct n0 as [k0|i0]; [contradiction|]. destruct (list_get its0 i0) as [y|e] eqn:E; [|contradiction].
    destruct Hx as [Ex|[]]. injection Ex as <- <-. cbn [vstep child_at]. rewrite E. reflexivity.
  - (* tuple on a dict *) unfold tuple_iter_dict in Hin. apply in_flat_map in Hin. destruct Hin as (n0 & _ & Hx).
    destruct n0 as [k0|i0]; [|contradiction]. destruct (assoc k0 its0) as [y|] eqn:E; [|contradiction].
    destruct Hx as [Ex|[]]. injection Ex as <- <-. cbn [vstep child_at]. exact E.
  - exact (proj1 (member_child (JDict j its0) _ nm x Hu eq_refl Hin)).
  - exact (proj1 (member_child (JList j its0) _ nm x Hu eq_refl Hin)).
  - exact (proj1 (member_child (JList j its0) _ nm x Hu eq_refl Hin)).
  - exact (proj1 (member_child (JDict j its0) _ nm x Hu eq_refl Hin)).
  - exact (proj1 (member_child (JList j its0) _ nm x Hu eq_refl Hin)).
  - exact (proj1 (member_child (JDict j its0) _ nm x Hu eq_refl Hin)).
Qed.

(* ------------------------------------------------------------------ chains *)
Definition chain_ok (doc : json) (c : jctx) : Prop :=
  c <> [] /\ lookup doc (steps_of c) = Some (cdata c) /\ uniq (cdata c).

Lemma chain_root doc : uniq doc -> chain_ok doc (root_ctx doc).
Proof. intros Hu. split; [discriminate|]. split; [reflexivity | exact Hu]. Qed.

Lemma steps_ext c nm x : c <> [] -> steps_of (ext c nm x) = steps_of c ++ [vstep nm].
Proof. intros Hne. unfold steps_of, ext. destruct c as [|e c]; [congruence|]. cbn [app tl]. rewrite map_app. reflexivity. Qed.

Lemma chain_ext doc c nm x :
  chain_ok doc c -> child_at (vstep nm) (cdata c) = Some x -> chain_ok doc (ext c nm x).
Proof.
  intros (Hne & Hl & Hu) Hc. split; [unfold ext; destruct c; discriminate|].
  rewrite steps_ext by exact Hne. rewrite lookup_app, Hl, cdata_ext. cbn [lookup]. rewrite Hc.
  split; [reflexivity | eapply child_uniq; eauto].
Qed.

Lemma chain_at_path doc c d ns c' d' :
  at_path c d ns c' d' -> cdata c = d -> chain_ok doc c -> chain_ok doc c'.
Proof.
  induction 1 as [c d | c d its nm x ns c' d' Hm Hin Hp IH]; intros Hcd Hok; [exact Hok|].
  apply IH; [apply cdata_ext|]. apply chain_ext; [exact Hok|]. rewrite Hcd.
  destruct Hok as (_ & _ & Hu). rewrite Hcd in Hu. exact (proj1 (member_child d its nm x Hu Hm Hin)).
Qed.

Definition no_parent (p : list (vertex hp)) : Prop := ~ In VParent p.

Lemma Forall_flat_map {A B} (Q : B -> Prop) (f : A -> list B) l :
  (forall a, In a l -> Forall Q (f a)) -> Forall Q (flat_map f l).
Proof. induction l as [|a l IH]; intros H; [constructor|]. simpl. apply Forall_app. split; [apply H; left; reflexivity | apply IH; intros a' Hin; apply H; right; exact Hin]. Qed.

(* every context a parent-free path produces is a true chain of the document *)
Theorem deval_chain (sev : hp -> jctx -> res json * list sevent) doc :
  forall p c, no_parent p -> chain_ok doc c -> Forall (chain_ok doc) (deval hp sev p c).
Proof.
  induction p as [|v r IH]; intros c Hnp Hok; [constructor; [exact Hok | constructor]|].
  assert (Hnr : no_parent r) by (intros Hin; apply Hnp; right; exact Hin).
  assert (Hsel : forall c', In c' (select hp sev v c) -> chain_ok doc c').
  { intros c' Hin. destruct Hok as (Hne & Hl & Hu).
    assert (Hok : chain_ok doc c) by (split; [exact Hne | split; assumption]).
    destruct v as [k | z | a b c0 | l | | | dot | | | p0]; unfold select in Hin.
    - destruct (cdata c) as [| | | | | j its | j its] eqn:Hd; cbn [jshape] in Hin; try contradiction.
      destruct (assoc k its) as [x|] eqn:Ea; [|contradiction]. destruct Hin as [<-|[]].
      apply (chain_ext doc c (NStr k) x Hok). rewrite Hd. exact Ea.
    - destruct (cdata c) as [| | | | | j its | j its] eqn:Hd; cbn [jshape] in Hin; try contradiction.
      destruct (list_get its z) as [x|e] eqn:Ea; [|contradiction]. destruct Hin as [<-|[]].
      apply (chain_ext doc c (NInt z) x Hok). rewrite Hd. cbn [vstep child_at]. rewrite Ea. reflexivity.
    - destruct (items_for jshape hp (VSlice a b c0) (cdata c)) as [[its|]|e] eqn:Ei; try contradiction.
      apply in_map_iff in Hin. destruct Hin as ([nm x] & <- & Hin). apply (chain_ext doc c nm x Hok). eapply items_child; eauto.
    - destruct (items_for jshape hp (VTuple l) (cdata c)) as [[its|]|e] eqn:Ei; try contradiction.
      apply in_map_iff in Hin. destruct Hin as ([nm x] & <- & Hin). apply (chain_ext doc c nm x Hok). eapply items_child; eauto.
    - destruct (items_for jshape hp VKeyWild (cdata c)) as [[its|]|e] eqn:Ei; try contradiction.
      apply in_map_iff in Hin. destruct Hin as ([nm x] & <- & Hin). apply (chain_ext doc c nm x Hok). eapply items_child; eauto.
    - destruct (items_for jshape hp VIdxWild (cdata c)) as [[its|]|e] eqn:Ei; try contradiction.
      apply in_map_iff in Hin. destruct Hin as ([nm x] & <- & Hin). apply (chain_ext doc c nm x Hok). eapply items_child; eauto.
    - destruct (items_for jshape hp (VGenWild dot) (cdata c)) as [[its|]|e] eqn:Ei; try contradiction.
      apply in_map_iff in Hin. destruct Hin as ([nm x] & <- & Hin). apply (chain_ext doc c nm x Hok). eapply items_child; eauto.
    - contradiction.
    - exfalso. apply Hnp. left. reflexivity.
    - destruct (fst (sev p0 c)) as [val|e]; [|contradiction]. destruct (truthy val); [|contradiction].
      destruct Hin as [<-|[]]. exact Hok. }
  destruct v as [k | z | a b c0 | l | | | dot | | | p0]; cbn [deval];
    try (apply Forall_flat_map; intros c' Hin; apply IH; [exact Hnr | apply Hsel; exact Hin]).
  (* recursive step *)
  destruct (is_container c); [|constructor]. apply Forall_app. split; [apply IH; assumption|].
  apply Forall_flat_map. intros c' Hin.
  assert (Hc' : chain_ok doc c').
  { destruct (below_sound _ _ _ Hin) as (ns & d' & _ & Hp). eapply chain_at_path; eauto. }
  destruct (is_container c'); [apply IH; assumption|]. destruct (leafb hp r); [constructor; [exact Hc' | constructor] | constructor].
Qed.

(* the explicit path of a result leads from the document to the node the result holds *)
Theorem round_trip_spec (sev : hp -> jctx -> res json * list sevent) doc p c' :
  uniq doc -> no_parent p -> In c' (deval hp sev p (root_ctx doc)) ->
  lookup doc (steps_of c') = Some (cdata c') /\ kipath (steps_of c') = true.
Proof.
  intros Hu Hnp Hin. pose proof (deval_chain sev doc p (root_ctx doc) Hnp (chain_root doc Hu)) as Hall.
  rewrite Forall_forall in Hall. destruct (Hall c' Hin) as (_ & Hl & _). split; [exact Hl|].
  unfold kipath, steps_of. apply forallb_forall. intros v Hv. apply in_map_iff in Hv. destruct Hv as (e & <- & _).
  destruct (snd (fst e)); reflexivity.
Qed.

(* ------------------------------------------------------------------ contexts reached from the root by child steps *)
Inductive reach (doc : json) : jctx -> Prop :=
| reach_root : reach doc (root_ctx doc)
| reach_ext c nm x : reach doc c -> child_at (vstep nm) (cdata c) = Some x -> reach doc (ext c nm x).

Lemma reach_chain_ok doc c : uniq doc -> reach doc c -> chain_ok doc c.
Proof. intros Hu. induction 1 as [|c nm x Hr IH Hc]; [apply chain_root; exact Hu | apply chain_ext; assumption]. Qed.

Lemma reach_at_path doc c d ns c' d' :
  uniq doc -> at_path c d ns c' d' -> cdata c = d -> reach doc c -> reach doc c'.
Proof.
  intros Hu. induction 1 as [c d | c d its nm x ns c' d' Hm Hin Hp IH]; intros Hcd Hr; [exact Hr|].
  apply IH; [apply cdata_ext|]. apply reach_ext; [exact Hr|]. rewrite Hcd.
  destruct (reach_chain_ok doc c Hu Hr) as (_ & _ & Hud). rewrite Hcd in Hud. exact (proj1 (member_child d its nm x Hud Hm Hin)).
Qed.

Theorem deval_reach (sev : hp -> jctx -> res json * list sevent) doc :
  uniq doc -> forall p c, no_parent p -> reach doc c -> Forall (reach doc) (deval hp sev p c).
Proof.
  intros Hdoc. induction p as [|v r IH]; intros c Hnp Hr; [constructor; [exact Hr | constructor]|].
  assert (Hnr : no_parent r) by (intros Hin; apply Hnp; right; exact Hin).
  pose proof (reach_chain_ok doc c Hdoc Hr) as Hok. destruct Hok as (Hne & Hl & Hu).
  assert (Hsel : forall c', In c' (select hp sev v c) -> reach doc c').
  { intros c' Hin.
    destruct v as [k | z | a b c0 | l | | | dot | | | p0]; unfold select in Hin.
    - destruct (cdata c) as [| | | | | j its | j its] eqn:Hd; cbn [jshape] in Hin; try contradiction.
      destruct (assoc k its) as [x|] eqn:Ea; [|contradiction]. destruct Hin as [<-|[]].
      apply (reach_ext doc c (NStr k) x Hr). rewrite Hd. exact Ea.
    - destruct (cdata c) as [| | | | | j its | j its] eqn:Hd; cbn [jshape] in Hin; try contradiction.
      destruct (list_get its z) as [x|e] eqn:Ea; [|contradiction]. destruct Hin as [<-|[]].
      apply (reach_ext doc c (NInt z) x Hr). rewrite Hd. cbn [vstep child_at]. rewrite Ea. reflexivity.
    - destruct (items_for jshape hp (VSlice a b c0) (cdata c)) as [[its|]|e] eqn:Ei; try contradiction.
      apply in_map_iff in Hin. destruct Hin as ([nm x] & <- & Hin). apply (reach_ext doc c nm x Hr). eapply items_child; eauto.
    - destruct (items_for jshape hp (VTuple l) (cdata c)) as [[its|]|e] eqn:Ei; try contradiction.
      apply in_map_iff in Hin. destruct Hin as ([nm x] & <- & Hin). apply (reach_ext doc c nm x Hr). eapply items_child; eauto.
    - destruct (items_for jshape hp VKeyWild (cdata c)) as [[its|]|e] eqn:Ei; try contradiction.
      apply in_map_iff in Hin. destruct Hin as ([nm x] & <- & Hin). apply (reach_ext doc c nm x Hr). eapply items_child; eauto.
    - destruct (items_for jshape hp VIdxWild (cdata c)) as [[its|]|e] eqn:Ei; try contradiction.
      apply in_map_iff in Hin. destruct Hin as ([nm x] & <- & Hin). apply (reach_ext doc c nm x Hr). eapply items_child; eauto.
    - destruct (items_for jshape hp (VGenWild dot) (cdata c)) as [[its|]|e] eqn:Ei; try contradiction.
      apply in_map_iff in Hin. destruct Hin as ([nm x] & <- & Hin). apply (reach_ext doc c nm x Hr). eapply items_child; eauto.
    - contradiction.
    - exfalso. apply Hnp. left. reflexivity.
    - destruct (fst (sev p0 c)) as [val|e]; [|contradiction]. destruct (truthy val); [|contradiction].
      destruct Hin as [<-|[]]. exact Hr. }
  destruct v as [k | z | a b c0 | l | | | dot | | | p0]; cbn [deval];
    try (apply Forall_flat_map; intros c' Hin; apply IH; [exact Hnr | apply Hsel; exact Hin]).
  destruct (is_container c); [|constructor]. apply Forall_app. split; [apply IH; assumption|].
  apply Forall_flat_map. intros c' Hin.
  assert (Hc' : reach doc c').
  { destruct (below_sound _ _ _ Hin) as (ns & d' & _ & Hp). eapply reach_at_path; eauto. }
  destruct (is_container c'); [apply IH; assumption|]. destruct (leafb hp r); [constructor; [exact Hc' | constructor] | constructor].
Qed.
