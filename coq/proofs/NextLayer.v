(* NextLayer.v -- __next__ with its budget, related to step-indexed runs: a quiet stretch of k actions followed
   by a reporting (or raising) action is exactly what one next() performs, provided k + 1 stays within the
   budget; when the budget is reached InfiniteLoopDetected is raised. *)
From Coq Require Import List ZArith String Bool PArith Lia FMapPositive.
From TP Require Import Json PyPrim Machine Spec.
From TP.proofs Require Import RefineBase.
Import ListNotations.
Close Scope Z_scope.
Open Scope list_scope.

(* ------------------------------------------------------------------ iter_until over a binary budget *)
Section Iter.
Context {S R : Type}.
Variable f : S -> S + R.

Fixpoint iter_nat (n : nat) (s : S) : S + R :=
  match n with
  | O => inl s
  | Datatypes.S n' => match f s with inl s' => iter_nat n' s' | inr r => inr r end
  end.

Lemma iter_nat_add a b s :
  iter_nat (a + b) s = match iter_nat a s with inl s' => iter_nat b s' | inr r => inr r end.
Proof.
  revert s. induction a as [|a IH]; intros s; simpl; [reflexivity|].
  destruct (f s) as [s'|r]; [apply IH | reflexivity].
Qed.

Lemma iter_until_nat p s : iter_until p f s = iter_nat (Pos.to_nat p) s.
Proof.
  revert s. induction p as [p IH | p IH |]; intros s.
  - rewrite Pos2Nat.inj_xI. cbn [iter_until].
    replace (Datatypes.S (2 * Pos.to_nat p)) with (1 + (Pos.to_nat p + Pos.to_nat p)) by lia.
    rewrite iter_nat_add. simpl iter_nat at 1. destruct (f s) as [s1|r]; [|reflexivity].
    rewrite iter_nat_add, <- IH. destruct (iter_until p f s1) as [s'|r]; [apply IH | reflexivity].
  - rewrite Pos2Nat.inj_xO. cbn [iter_until].
    replace (2 * Pos.to_nat p) with (Pos.to_nat p + Pos.to_nat p) by lia.
    rewrite iter_nat_add, <- IH. destruct (iter_until p f s) as [s'|r]; [apply IH | reflexivity].
  - simpl. destruct (f s); reflexivity.
Qed.

End Iter.

Section Next.
Variable P : Type.
Variable ev : P -> jtm -> @tracecfg json -> res json * list jevent.
Variable src : @source json.
Variable vp : list (vertex P).
Variable tr : @tracecfg json.

Notation step1 := (step jshape P ev src vp tr).
Notation body := (next_body jshape P ev src vp tr).

(* k actions none of which reports a result or raises *)
Inductive quiet : nat -> jstate -> list jevent -> jstate -> Prop :=
| quiet_nil z : quiet 0 z [] z
| quiet_cons k z z1 ev1 z2 ev2 :
    step1 z = SNext z1 ev1 false -> quiet k z1 ev2 z2 -> quiet (S k) z (ev1 ++ ev2) z2.

Lemma quiet_run k z evs z' : quiet k z evs z' -> run P ev src vp tr k z evs z'.
Proof. induction 1; econstructor; eauto. Qed.

Lemma quiet_trans k1 k2 z1 e1 z2 e2 z3 :
  quiet k1 z1 e1 z2 -> quiet k2 z2 e2 z3 -> quiet (k1 + k2) z1 (e1 ++ e2) z3.
Proof. induction 1; intros H2; simpl; auto. rewrite <- app_assoc. econstructor; eauto. Qed.

Lemma rev_append_app {A} (a b acc : list A) : rev_append (a ++ b) acc = rev_append b (rev_append a acc).
Proof. revert acc. induction a as [|x a IH]; intros acc; simpl; [reflexivity | apply IH]. Qed.

Lemma iter_quiet k z evs z' acc :
  quiet k z evs z' -> iter_nat body k (z, acc) = inl (z', rev_append evs acc).
Proof.
  intros H. revert acc. induction H as [z | k z z1 ev1 z2 ev2 Hs Hq IH]; intros acc; [reflexivity|].
  cbn [iter_nat]. unfold next_body at 1. rewrite Hs. rewrite IH. rewrite rev_append_app. reflexivity.
Qed.

Definition within (k : nat) (B : positive) : Prop := k < Pos.to_nat B.

(* a next() that finds a result *)
Theorem next_result B k z evs z1 z2 m :
  quiet k z evs z1 -> step1 z1 = SNext z2 [EvResult m] true -> cur z2 = Some m ->
  within (S k) B ->
  next jshape P ev B src vp tr z = (OResult m, z2, evs ++ [EvResult m]).
Proof.
  intros Hq Hs Hcur Hw. unfold within in Hw. unfold next.
  assert (HB : B <> 1%positive) by (intros ->; simpl in Hw; lia).
  assert (Hit : iter_until (Pos.pred B) body (z, []) = inr (OResult m, (z2, rev_append [EvResult m] (rev_append evs [])))).
  { rewrite iter_until_nat.
    replace (Pos.to_nat (Pos.pred B)) with (k + (1 + (Pos.to_nat (Pos.pred B) - S k))) by (rewrite Pos2Nat.inj_pred by lia; lia).
    rewrite iter_nat_add, (iter_quiet k z evs z1 [] Hq). simpl. rewrite Hs, Hcur. reflexivity. }
  assert (Hfin : forall a b : list jevent, rev (rev_append a (rev_append b [])) = b ++ a)
    by (intros a0 b0; rewrite !rev_append_rev, app_nil_r, rev_app_distr, !rev_involutive; reflexivity).
  destruct B as [b | b |]; try congruence; rewrite Hit; rewrite Hfin; reflexivity.
Qed.

(* a next() that ends in an exception: StopIteration from the done state, or a failing filter *)
Theorem next_raise B k z evs z1 z2 e ev2 :
  quiet k z evs z1 -> step1 z1 = SRaise e z2 ev2 ->
  k < Pos.to_nat B ->
  next jshape P ev B src vp tr z = (ORaise e, z2, evs ++ ev2).
Proof.
  intros Hq Hs Hw. unfold next.
  assert (Hfin : forall a b : list jevent, rev (rev_append a (rev_append b [])) = b ++ a)
    by (intros a b; rewrite !rev_append_rev, app_nil_r, rev_app_distr, !rev_involutive; reflexivity).
  destruct (Nat.eq_dec (S k) (Pos.to_nat B)) as [Heq | Hne].
  - (* the raising action is the last one the budget allows *)
    destruct (Pos.eq_dec B 1) as [-> | HB].
    + simpl in Heq. assert (k = 0) by lia. subst k. inversion Hq; subst. simpl. rewrite Hs. simpl.
      rewrite rev_append_rev, app_nil_r, rev_involutive. reflexivity.
    + assert (Hit : iter_until (Pos.pred B) body (z, []) = inl (z1, rev_append evs [])).
      { rewrite iter_until_nat. replace (Pos.to_nat (Pos.pred B)) with k by (rewrite Pos2Nat.inj_pred by lia; lia).
        apply iter_quiet; exact Hq. }
      destruct B as [b | b |]; try congruence; rewrite Hit; rewrite Hs; rewrite Hfin; reflexivity.
  - assert (HB : B <> 1%positive) by (intros ->; simpl in *; lia).
    assert (Hit : iter_until (Pos.pred B) body (z, []) = inr (ORaise e, (z2, rev_append ev2 (rev_append evs [])))).
    { rewrite iter_until_nat.
      replace (Pos.to_nat (Pos.pred B)) with (k + (1 + (Pos.to_nat (Pos.pred B) - S k))) by (rewrite Pos2Nat.inj_pred by lia; lia).
      rewrite iter_nat_add, (iter_quiet k z evs z1 [] Hq). simpl. rewrite Hs. reflexivity. }
    destruct B as [b | b |]; try congruence; rewrite Hit; rewrite Hfin; reflexivity.
Qed.

(* the budget: B actions without a result raise InfiniteLoopDetected (whatever the B-th action did) *)
Theorem next_budget B k z evs z1 z2 ev2 b :
  quiet k z evs z1 -> step1 z1 = SNext z2 ev2 b -> S k = Pos.to_nat B ->
  next jshape P ev B src vp tr z = (ORaise EInfiniteLoop, z2, evs ++ ev2).
Proof.
  intros Hq Hs Heq. unfold next.
  assert (Hfin : forall a b : list jevent, rev (rev_append a (rev_append b [])) = b ++ a)
    by (intros a0 b0; rewrite !rev_append_rev, app_nil_r, rev_app_distr, !rev_involutive; reflexivity).
  destruct (Pos.eq_dec B 1) as [-> | HB].
  - simpl in Heq. assert (k = 0) by lia. subst k. inversion Hq; subst. simpl. rewrite Hs. simpl.
    rewrite rev_append_rev, app_nil_r, rev_involutive. reflexivity.
  - assert (Hit : iter_until (Pos.pred B) body (z, []) = inl (z1, rev_append evs [])).
    { rewrite iter_until_nat. replace (Pos.to_nat (Pos.pred B)) with k by (rewrite Pos2Nat.inj_pred by lia; lia).
      apply iter_quiet; exact Hq. }
    destruct B as [b0 | b0 |]; try congruence; rewrite Hit; rewrite Hs; rewrite Hfin; reflexivity.
Qed.

End Next.
