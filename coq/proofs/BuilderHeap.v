(* BuilderHeap.v -- path expressions as heap objects (vertex.py): a vertex points at its parent vertex and lazily
   caches its rendering (_path).  Deriving a new expression allocates a vertex and writes nothing else;
   rendering fills only the cache of the vertex rendered; every filled cache equals the value recomputed from
   the immutable parent chain.  Hence an expression renders the same before and after any number of
   derivations, renderings and evaluations of itself or of expressions sharing a prefix with it (C06 path half,
   C15 immutability, C07 sharing). *)
From Coq Require Import List ZArith String Bool Arith Lia.
Import ListNotations.
Close Scope Z_scope.
Open Scope string_scope.
Open Scope list_scope.

Record vnode := { vn_parent : option nat; vn_seg : string; vn_rec : bool; vn_cache : option string }.
Definition vheap := list vnode.

(* the segments from the root down to vertex i (Vertex.traverse), by recursion on the index: parents are older *)
Fixpoint chain (fuel : nat) (h : vheap) (i : nat) : string :=
  match fuel with
  | O => ""
  | S f =>
      match nth_error h i with
      | None => ""
      | Some n => match vn_parent n with
                  | None => vn_seg n
                  | Some p => chain f h p ++ vn_seg n
                  end
      end
  end.

(* Vertex.path without caches; RecursiveVertex.path appends one more '.' *)
Definition pure_render (h : vheap) (i : nat) : string :=
  match nth_error h i with
  | None => ""
  | Some n => chain (S i) h i ++ (if vn_rec n then "." else "")
  end.

(* parents are allocated before their children *)
Definition wf_heap (h : vheap) : Prop :=
  forall i n p, nth_error h i = Some n -> vn_parent n = Some p -> p < i.

(* every filled cache holds the recomputed value *)
Definition coherent (h : vheap) : Prop :=
  forall i n s, nth_error h i = Some n -> vn_cache n = Some s -> s = pure_render h i.

(* extending an expression: allocate, write nothing else *)
Definition derive (h : vheap) (parent : option nat) (seg : string) (isrec : bool) : vheap * nat :=
  (h ++ [{| vn_parent := parent; vn_seg := seg; vn_rec := isrec; vn_cache := None |}], List.length h).

Fixpoint set_cache (h : vheap) (i : nat) (s : string) : vheap :=
  match h, i with
  | [], _ => []
  | n :: r, O => {| vn_parent := vn_parent n; vn_seg := vn_seg n; vn_rec := vn_rec n; vn_cache := Some s |} :: r
  | n :: r, S i' => n :: set_cache r i' s
  end.

(* str(expr) / repr(expr): return the cache if filled, otherwise recompute and (except for a recursive leaf,
   whose path property is not cached) fill it *)
Definition render (h : vheap) (i : nat) : string * vheap :=
  match nth_error h i with
  | None => ("", h)
  | Some n =>
      if vn_rec n then (pure_render h i, h)
      else match vn_cache n with
           | Some s => (s, h)
           | None => let s := pure_render h i in (s, set_cache h i s)
           end
  end.

Lemma nth_set_cache_same h i s n :
  nth_error h i = Some n ->
  nth_error (set_cache h i s) i = Some {| vn_parent := vn_parent n; vn_seg := vn_seg n; vn_rec := vn_rec n; vn_cache := Some s |}.
Proof. revert i. induction h as [|x h IH]; intros [|i] H; simpl in *; try discriminate; [injection H as ->; reflexivity | apply IH; exact H]. Qed.

Lemma nth_set_cache_other h i j s : j <> i -> nth_error (set_cache h i s) j = nth_error h j.
Proof. revert i j. induction h as [|x h IH]; intros [|i] [|j] H; simpl; try congruence; auto. Qed.

Lemma set_cache_length h i s : List.length (set_cache h i s) = List.length h.
Proof. revert i. induction h as [|x h IH]; intros [|i]; simpl; try reflexivity. rewrite IH. reflexivity. Qed.

(* the immutable part of every vertex survives a cache fill *)
Lemma set_cache_fields h i s j :
  option_map (fun n => (vn_parent n, vn_seg n, vn_rec n)) (nth_error (set_cache h i s) j) =
  option_map (fun n => (vn_parent n, vn_seg n, vn_rec n)) (nth_error h j).
Proof.
  destruct (Nat.eq_dec j i) as [-> | Hne].
  - destruct (nth_error h i) as [n|] eqn:E.
    + rewrite (nth_set_cache_same h i s n E). reflexivity.
    + assert (nth_error (set_cache h i s) i = None).
      { clear -E. revert i E. induction h as [|x h IH]; intros [|i] E; simpl in *; try discriminate; auto. }
      rewrite H. reflexivity.
  - rewrite nth_set_cache_other by exact Hne. reflexivity.
Qed.

Lemma chain_ext fuel h h' :
  (forall j, option_map (fun n => (vn_parent n, vn_seg n, vn_rec n)) (nth_error h' j) =
             option_map (fun n => (vn_parent n, vn_seg n, vn_rec n)) (nth_error h j)) ->
  forall i, chain fuel h' i = chain fuel h i.
Proof.
  intros Hf. induction fuel as [|f IH]; intros i; [reflexivity|]. simpl.
  specialize (Hf i). destruct (nth_error h' i) as [n'|], (nth_error h i) as [n|]; simpl in Hf; try discriminate; [|reflexivity].
  injection Hf as Hp Hs Hr. rewrite Hp, Hs. destruct (vn_parent n); [rewrite IH|]; reflexivity.
Qed.

Lemma pure_render_ext h h' :
  (forall j, option_map (fun n => (vn_parent n, vn_seg n, vn_rec n)) (nth_error h' j) =
             option_map (fun n => (vn_parent n, vn_seg n, vn_rec n)) (nth_error h j)) ->
  forall i, pure_render h' i = pure_render h i.
Proof.
  intros Hf i. unfold pure_render. rewrite (chain_ext (S i) h h' Hf i).
  specialize (Hf i). destruct (nth_error h' i) as [n'|], (nth_error h i) as [n|]; simpl in Hf; try discriminate; [|reflexivity].
  injection Hf as _ _ Hr. rewrite Hr. reflexivity.
Qed.

(* rendering: returns the recomputed value, keeps every rendering, keeps the heap coherent *)
Theorem render_correct h i :
  coherent h ->
  fst (render h i) = pure_render h i /\
  coherent (snd (render h i)) /\
  (forall j, pure_render (snd (render h i)) j = pure_render h j).
Proof.
  intros Hc. unfold render. destruct (nth_error h i) as [n|] eqn:E.
  - destruct (vn_rec n) eqn:Hr; [simpl; auto|].
    destruct (vn_cache n) as [s|] eqn:Hs; simpl.
    + split; [eapply Hc; eauto | auto].
    + assert (Hext : forall j, pure_render (set_cache h i (pure_render h i)) j = pure_render h j)
        by (apply pure_render_ext; intros j; apply set_cache_fields).
      split; [reflexivity|]. split; [|exact Hext].
      intros j nj sj Hj Hcj. rewrite Hext.
      destruct (Nat.eq_dec j i) as [-> | Hne].
      * rewrite (nth_set_cache_same h i _ n E) in Hj. injection Hj as <-. simpl in Hcj. injection Hcj as <-. reflexivity.
      * rewrite nth_set_cache_other in Hj by exact Hne. eapply Hc; eauto.
  - simpl. split; [unfold pure_render; rewrite E; reflexivity | auto].
Qed.

Lemma chain_app fuel h x i : i < List.length h -> wf_heap h -> chain fuel (h ++ [x]) i = chain fuel h i.
Proof.
  revert i. induction fuel as [|f IH]; intros i Hi Hw; [reflexivity|]. simpl.
  rewrite nth_error_app1 by exact Hi. destruct (nth_error h i) as [n|] eqn:E; [|reflexivity].
  destruct (vn_parent n) as [p|] eqn:Hp; [|reflexivity].
  rewrite IH; [reflexivity | | exact Hw]. specialize (Hw i n p E Hp). lia.
Qed.

(* deriving: every existing expression renders as before, the heap stays coherent and well formed *)
Theorem derive_frame h parent seg isrec :
  wf_heap h -> coherent h -> (match parent with Some p => p < List.length h | None => True end) ->
  let h' := fst (derive h parent seg isrec) in
  wf_heap h' /\ coherent h' /\ (forall j, j < List.length h -> pure_render h' j = pure_render h j).
Proof.
  intros Hw Hc Hp. unfold derive. simpl.
  assert (Hren : forall j, j < List.length h ->
            pure_render (h ++ [{| vn_parent := parent; vn_seg := seg; vn_rec := isrec; vn_cache := None |}]) j = pure_render h j).
  { intros j Hj. unfold pure_render. rewrite nth_error_app1 by exact Hj. rewrite chain_app by assumption. reflexivity. }
  split; [|split; [|exact Hren]].
  - intros i n p Hi Hpar. destruct (lt_dec i (List.length h)) as [Hlt | Hge].
    + rewrite nth_error_app1 in Hi by exact Hlt. eapply Hw; eauto.
    + rewrite nth_error_app2 in Hi by lia. destruct (i - List.length h) as [|k] eqn:Ek; simpl in Hi.
      * injection Hi as <-. simpl in Hpar. subst parent. lia.
      * destruct k; discriminate.
  - intros i n s Hi Hs. destruct (lt_dec i (List.length h)) as [Hlt | Hge].
    + rewrite nth_error_app1 in Hi by exact Hlt. rewrite Hren by exact Hlt. eapply Hc; eauto.
    + rewrite nth_error_app2 in Hi by lia. destruct (i - List.length h) as [|k]; simpl in Hi.
      * injection Hi as <-. simpl in Hs. discriminate.
      * destruct k; discriminate.
Qed.

(* histories: any sequence of derivations and renderings *)
Inductive hop := HDerive (parent : option nat) (seg : string) (isrec : bool) | HRender (i : nat).

Definition hstep (h : vheap) (o : hop) : vheap :=
  match o with
  | HDerive p seg r => match p with
                       | Some q => if Nat.ltb q (List.length h) then fst (derive h p seg r) else h
                       | None => fst (derive h p seg r)
                       end
  | HRender i => snd (render h i)
  end.

Theorem history_stable ops :
  forall h, wf_heap h -> coherent h ->
  let h' := fold_left hstep ops h in
  wf_heap h' /\ coherent h' /\ List.length h <= List.length h' /\
  (forall j, j < List.length h -> pure_render h' j = pure_render h j).
Proof.
  induction ops as [|o ops IH]; intros h Hw Hc; [simpl; auto|].
  cbn [fold_left].
  assert (Hstep : wf_heap (hstep h o) /\ coherent (hstep h o) /\ List.length h <= List.length (hstep h o) /\
                  (forall j, j < List.length h -> pure_render (hstep h o) j = pure_render h j)).
  { destruct o as [p seg r | i]; simpl.
    - destruct p as [q|].
      + destruct (Nat.ltb q (List.length h)) eqn:Eq; [|auto].
        apply Nat.ltb_lt in Eq. destruct (derive_frame h (Some q) seg r Hw Hc Eq) as (H1 & H2 & H3).
        simpl in *. rewrite app_length. simpl. repeat split; auto; lia.
      + destruct (derive_frame h None seg r Hw Hc I) as (H1 & H2 & H3).
        simpl in *. rewrite app_length. simpl. repeat split; auto; lia.
    - destruct (render_correct h i Hc) as (_ & H2 & H3).
      assert (Hlen : List.length (snd (render h i)) = List.length h).
      { unfold render. destruct (nth_error h i) as [n|]; [|reflexivity]. destruct (vn_rec n); [reflexivity|].
        destruct (vn_cache n); [reflexivity|]. simpl. apply set_cache_length. }
      split; [|split; [exact H2 | split; [lia | intros j _; apply H3]]].
      intros k n p Hk Hp. unfold render in Hk. destruct (nth_error h i) as [ni|] eqn:Ei; [|eapply Hw; eauto].
      destruct (vn_rec ni); [eapply Hw; eauto|]. destruct (vn_cache ni); [eapply Hw; eauto|]. simpl in Hk.
      pose proof (set_cache_fields h i (pure_render h i) k) as Hf. rewrite Hk in Hf. simpl in Hf.
      destruct (nth_error h k) as [nk|] eqn:Ek; simpl in Hf; [|discriminate]. injection Hf as Hpp _ _.
      eapply Hw; [exact Ek | rewrite <- Hpp; exact Hp]. }
  destruct Hstep as (Hw1 & Hc1 & Hl1 & Hr1).
  destruct (IH (hstep h o) Hw1 Hc1) as (Hw2 & Hc2 & Hl2 & Hr2).
  split; [exact Hw2|]. split; [exact Hc2|]. split; [lia|].
  intros j Hj. rewrite Hr2 by lia. apply Hr1. exact Hj.
Qed.

(* what str() returns after any history is what it returned, or would have returned, before *)
Corollary render_after_history ops h i :
  wf_heap h -> coherent h -> i < List.length h ->
  fst (render (fold_left hstep ops h) i) = pure_render h i.
Proof.
  intros Hw Hc Hi. destruct (history_stable ops h Hw Hc) as (_ & Hc' & _ & Hr).
  destruct (render_correct _ i Hc') as (H1 & _). rewrite H1. apply Hr. exact Hi.
Qed.
