(* Refine.v -- the frame lemma and the refinement theorem (DESIGN.md 3.5): the machine with its
   pointer-linked resume chain produces exactly the event stream of the denotational semantics. *)
From Coq Require Import List ZArith String Bool PArith Lia FMapPositive.
From TP Require Import Json PyPrim Machine Spec.
From TP.proofs Require Import RefineBase.
Import ListNotations.
Close Scope Z_scope.
Open Scope list_scope.

Section Frame.
Variable P : Type.
Variable ev : P -> jtm -> @tracecfg json -> res json * list jevent.
Variable sev : P -> jctx -> res json * list sevent.
Variable src : @source json.
Variable vp : list (vertex P).
Variable tr : @tracecfg json.

Notation trb := (tracing tr).
(* the predicate_match stamp the specification uses for this search: when a trace callable is present it
   is the machine's stamp; without one no trace event is delivered and the stamp is immaterial *)
Variable pm : option jctx.
Hypothesis pm_ok : tracing tr = true -> pm = pmc tr.

(* the machine's predicate evaluator refines the specification's, on well-formed candidates *)
Hypothesis ev_ok : forall p m, In (VPred p) vp -> wf m ->
  (fst (ev p m tr) = fst (sev p (abs m)) /\
   map abs_ev (snd (ev p m tr)) = proj trb (snd (sev p (abs m)))) \/
  (exists e, fst (ev p m tr) = Exn e /\ budget_exn e = true).

Notation step1 := (step jshape P ev src vp tr).
Notation realizes := (realizes P ev src vp tr).

Lemma trace_ev_pm m r i :
  map abs_ev (trace_ev tr m r i) = proj trb [STrace (abs m) (option_map abs r) i pm].
Proof.
  rewrite trace_ev_abs. revert pm_ok. unfold proj. destruct (tracing tr); intros Hpm; [rewrite Hpm by reflexivity; reflexivity | reflexivity].
Qed.

Notation sem := (sem P sev).

Definition ret_cur (m : jtm) (s : jstore) : option jtm := ocm (sget s (tid m)).
Definition ret_pc (m : jtm) (s : jstore) : pcs := pc_of (oca (sget s (tid m))).

Definition ptr_ok (m : jtm) (s : jstore) : Prop :=
  if is_root m then ocm (sget s (tid m)) = Some m /\ oca (sget s (tid m)) = ADone
  else match real_parent m with
       | Some rp => (tid rp < tid m)%positive /\
                    ocm (sget s (tid m)) = ocm (sget s (tid rp)) /\ oca (sget s (tid m)) = oca (sget s (tid rp))
       | None => False
       end.

Definition fresh (m : jtm) (s : jstore) (n : positive) : Prop :=
  (tid m < n)%positive /\ cs (sget s (tid m)) = None /\ ptr_ok m s.

Definition returned (m : jtm) (s0 : jstore) (z : jstate) : Prop :=
  pc z = ret_pc m s0 /\ (cur z = ret_cur m s0 \/ pc z = PDone).

Definition post (m : jtm) (s0 : jstore) (n : positive) (z : jstate) : Prop :=
  returned m s0 z /\ agree_below (tid m) s0 (st z) /\ (n <= nid z)%positive.

(* ------------------------------------------------------------------ single actions *)
Lemma step_report_leaf m s n :
  tvx m = List.length vp ->
  step1 (mk (Some m) PReport s n) = SNext (mk (Some m) PCatch s n) [EvResult m] true.
Proof. intros H. unfold step, mk; simpl. rewrite H, Nat.eqb_refl. reflexivity. Qed.

Lemma step_report_inner m s n :
  tvx m <> List.length vp ->
  step1 (mk (Some m) PReport s n) = SNext (mk (Some m) PMatch s n) [] false.
Proof. intros H. unfold step, mk; simpl. apply Nat.eqb_neq in H. rewrite H. reflexivity. Qed.

Lemma step_catch m s n :
  step1 (mk (Some m) PCatch s n) =
  SNext (mk (ocm (sget s (tid m))) (pc_of (oca (sget s (tid m)))) s n) [] false.
Proof. reflexivity. Qed.

Lemma step_match_some m s n v c s' n' evs :
  nth_error vp (tvi m) = Some v ->
  vmatch jshape P ev v m (S (tvi m)) tr s n = (Ok (Some c), s', n', evs) ->
  step1 (mk (Some m) PMatch s n) =
  SNext (mk (Some c) PReport s' n') (evs ++ trace_ev tr m (Some c) (S (tvi m))) false.
Proof. intros H1 H2. unfold step, mk; simpl. rewrite H1, H2. reflexivity. Qed.

Lemma step_match_none m s n v s' n' evs :
  nth_error vp (tvi m) = Some v ->
  vmatch jshape P ev v m (S (tvi m)) tr s n = (Ok None, s', n', evs) ->
  step1 (mk (Some m) PMatch s n) =
  SNext (mk (ocm (sget s' (tid m))) (pc_of (oca (sget s' (tid m)))) s' n')
        (evs ++ trace_ev tr m None (S (tvi m))) false.
Proof. intros H1 H2. unfold step, mk; simpl. rewrite H1, H2. reflexivity. Qed.

Lemma step_match_raise m s n v e s' n' evs :
  nth_error vp (tvi m) = Some v ->
  vmatch jshape P ev v m (S (tvi m)) tr s n = (Exn e, s', n', evs) ->
  step1 (mk (Some m) PMatch s n) = SRaise e (mk (Some m) PMatch s' n') evs.
Proof. intros H1 H2. unfold step, mk; simpl. rewrite H1, H2. reflexivity. Qed.

(* ------------------------------------------------------------------ restore_on_catch *)
Lemma restore_ok m s0 s n :
  ptr_ok m s0 -> agree_below (tid m) s0 s ->
  returned m s0 (mk (ocm (sget (restore m s) (tid m))) (pc_of (oca (sget (restore m s) (tid m)))) (restore m s) n) /\
  agree_below (tid m) s0 (restore m s).
Proof.
  intros Hptr Hag. unfold ptr_ok in Hptr. unfold restore.
  destruct (is_root m) eqn:Hroot.
  - destruct Hptr as [Ho Ha].
    assert (E : (match real_parent m with
                 | Some _ => sset s (tid m) {| cs := None; ocm := None; oca := ADone |}
                 | None => sset s (tid m) {| cs := None; ocm := None; oca := ADone |}
                 end) = sset s (tid m) {| cs := None; ocm := None; oca := ADone |}) by (destruct (real_parent m); reflexivity).
    rewrite E. split.
    + red. unfold mk; simpl. rewrite sget_sset_same. simpl. unfold ret_pc. rewrite Ha. simpl. auto.
    + eapply agree_trans; [exact Hag|]. apply agree_sset. lia.
  - destruct (real_parent m) as [rp|]; [|contradiction].
    destruct Hptr as (Hlt & Ho & Ha). split.
    + red. unfold mk; simpl. rewrite sget_sset_same. simpl. unfold ret_pc, ret_cur. rewrite Ho, Ha.
      rewrite (Hag (tid rp)) by lia. auto.
    + eapply agree_trans; [exact Hag|]. apply agree_sset. lia.
Qed.

(* ------------------------------------------------------------------ children *)
Lemma abs_child n (m : jtm) nm x a b : abs (child n m nm x a b) = ext (abs m) nm x.
Proof. destruct nm; unfold child, ext; apply abs_snoc; reflexivity. Qed.

Lemma wf_child n (m : jtm) nm x a b : wf m -> wf (child n m nm x a b).
Proof. destruct nm; simpl; auto. Qed.

Lemma tid_child n (m : jtm) nm x a b : tid (child n m nm x a b) = n.
Proof. destruct nm; reflexivity. Qed.
Lemma tvi_child n (m : jtm) nm x a b : tvi (child n m nm x a b) = b.
Proof. destruct nm; reflexivity. Qed.
Lemma tvx_child n (m : jtm) nm x a b : tvx (child n m nm x a b) = a.
Proof. destruct nm; reflexivity. Qed.
Lemma tdata_child n (m : jtm) nm x a b : tdata (child n m nm x a b) = x.
Proof. destruct nm; reflexivity. Qed.

(* a match derived from m (real_parent = m), freshly allocated at n with m's resume pointer *)
Definition derived (c m : jtm) (n : positive) : Prop :=
  tid c = n /\ is_root c = false /\ real_parent c = Some m.

Lemma derived_child n (m : jtm) nm x a b : derived (child n m nm x a b) m n.
Proof. destruct nm; repeat split. Qed.

Lemma fresh_derived c m s n :
  derived c m n -> (tid m < n)%positive -> fresh c (alloc m s n) (Pos.succ n).
Proof.
  intros (Hid & Hroot & Hrp) Hlt. unfold fresh, alloc. rewrite Hid. split; [lia|].
  rewrite sget_sset_same. simpl. split; [reflexivity|].
  unfold ptr_ok. rewrite Hroot, Hrp, Hid. split; [exact Hlt|].
  rewrite sget_sset_same. simpl. rewrite sget_sset_other by lia. auto.
Qed.

(* when the sub-search from a derived match returns, control is where m's pointer said *)
Lemma post_derived c m s n z :
  derived c m n -> (tid m < n)%positive ->
  post c (alloc m s n) (Pos.succ n) z ->
  pc z = ret_pc m s /\ (cur z = ret_cur m s \/ pc z = PDone) /\
  agree_below n (alloc m s n) (st z) /\ (Pos.succ n <= nid z)%positive.
Proof.
  intros (Hid & _ & _) Hlt ((Hpc & Hcur) & Hag & Hn). unfold ret_pc, ret_cur in *.
  rewrite Hid in *. unfold alloc in Hpc, Hcur. rewrite sget_sset_same in Hpc, Hcur. simpl in Hpc, Hcur.
  repeat split; auto.
Qed.

Lemma post_single c m s n z :
  derived c m n -> (tid m < n)%positive ->
  post c (alloc m s n) (Pos.succ n) z -> post m s n z.
Proof.
  intros Hd Hlt Hp. destruct (post_derived _ _ _ _ _ Hd Hlt Hp) as (Hpc & Hcur & Hag & Hn).
  split; [split; assumption|]. split; [|lia].
  eapply agree_trans; [|eapply agree_weaken; [|exact Hag]; lia].
  unfold alloc. apply agree_sset. lia.
Qed.

(* ------------------------------------------------------------------ the frame statement *)
Definition frame_stmt (rest : list (vertex P)) (lpre : nat) : Prop :=
  forall m s n, wf m -> tvi m = lpre -> tvx m = lpre -> fresh m s n ->
  realizes (mk (Some m) PReport s n) (sem lpre rest pm (abs m)) (post m s n).

Definition go_sem (i : nat) (rest : list (vertex P)) (c c' : jctx) : rs :=
  rseq (rev1 (STrace c (Some c') i pm)) (sem i rest pm c').
Definition none_sem (i : nat) (c : jctx) : rs := rev1 (STrace c None i pm).

Lemma rseq_nil_r : forall a : rs, snd a = None -> rseq a ([], None) = a.
Proof. intros [x y] H. simpl in H. subst y. unfold rseq; simpl. rewrite app_nil_r. reflexivity. Qed.

(* the failed attempt that ends an application of a vertex to m: trace event, then resume m's pointer *)
Lemma realizes_none m s n v evs sevs :
  nth_error vp (tvi m) = Some v ->
  vmatch jshape P ev v m (S (tvi m)) tr s n = (Ok None, s, n, evs) ->
  map abs_ev evs = proj trb sevs ->
  realizes (mk (Some m) PMatch s n) (rseq (sevs, None) (none_sem (S (tvi m)) (abs m))) (post m s n).
Proof.
  intros Hnth Hv Hev.
  assert (E : rseq (sevs, None) (none_sem (S (tvi m)) (abs m)) =
              rseq (sevs ++ [STrace (abs m) None (S (tvi m)) pm], None) ([], None)).
  { unfold none_sem, rev1, rseq; simpl. rewrite app_nil_r. reflexivity. }
  rewrite E. eapply realizes_step; [eapply step_match_none; eauto| |].
  - rewrite map_app, proj_app, Hev, trace_ev_pm. reflexivity.
  - apply realizes_nil. split; [split; [reflexivity | left; reflexivity]|]. split; [apply agree_refl | simpl; lia].
Qed.

(* ------------------------------------------------------------------ the loop of a multi-valued vertex *)
Definition is_multi (v : vertex P) : bool :=
  match v with VSlice _ _ _ | VTuple _ | VKeyWild | VIdxWild | VGenWild _ => true | _ => false end.

Lemma vmatch_multi v m i s n : is_multi v = true -> vmatch jshape P ev v m i tr s n = multi jshape P v m i s n.
Proof. destruct v; simpl; intros H; try discriminate; reflexivity. Qed.

Lemma multi_loop v rest m :
  is_multi v = true -> wf m ->
  nth_error vp (tvi m) = Some v ->
  frame_stmt rest (S (tvi m)) ->
  forall s0, ptr_ok m s0 ->
  forall its s n z,
    (tid m < n)%positive -> agree_below (tid m) s0 s ->
    sget s (tid m) = {| cs := Some its; ocm := Some m; oca := AMatch |} ->
    step1 z = step1 (mk (Some m) PMatch s n) ->
    realizes z
      (rseq (rconcat (map (fun ix => go_sem (S (tvi m)) rest (abs m) (ext (abs m) (fst ix) (snd ix))) its))
            (none_sem (S (tvi m)) (abs m)))
      (post m s0 n).
Proof.
  intros Hmulti Hwf Hnth IH s0 Hptr its.
  induction its as [|[nm x] its IHits]; intros s n z Hid Hag Hm Hz.
  - (* exhausted: restore_on_catch *)
    assert (Hv : vmatch jshape P ev v m (S (tvi m)) tr s n = (Ok None, restore m s, n, [])).
    { rewrite vmatch_multi by exact Hmulti. unfold multi. rewrite Hm. simpl. unfold pop_next. rewrite Hm. reflexivity. }
    simpl. rewrite rseq_nil_l.
    assert (E : none_sem (S (tvi m)) (abs m) = rseq ([STrace (abs m) None (S (tvi m)) pm], None) ([], None)) by reflexivity.
    rewrite E. eapply realizes_step.
    + rewrite Hz. eapply step_match_none; eauto.
    + simpl. apply trace_ev_pm.
    + apply realizes_nil. destruct (restore_ok m s0 s n Hptr Hag) as [Hr Ha].
      split; [exact Hr|]. split; [exact Ha | simpl; lia].
  - (* next item *)
    set (i := S (tvi m)) in *.
    set (s1 := sset s (tid m) {| cs := Some its; ocm := Some m; oca := AMatch |}).
    set (c := child n m nm x i i).
    assert (Hv : vmatch jshape P ev v m i tr s n = (Ok (Some c), alloc m s1 n, Pos.succ n, [])).
    { rewrite vmatch_multi by exact Hmulti. unfold multi. rewrite Hm. simpl. unfold pop_next. rewrite Hm. reflexivity. }
    assert (Hd : derived c m n) by apply derived_child.
    assert (Hfc : fresh c (alloc m s1 n) (Pos.succ n)) by (apply fresh_derived; assumption).
    assert (Hwc : wf c) by (apply wf_child; exact Hwf).
    specialize (IH c (alloc m s1 n) (Pos.succ n) Hwc (tvi_child _ _ _ _ _ _) (tvx_child _ _ _ _ _ _) Hfc).
    simpl map. simpl rconcat. rewrite rseq_assoc. unfold go_sem at 1. rewrite rseq_assoc.
    eapply realizes_step.
    + rewrite Hz. eapply step_match_some; eauto.
    + cbn [app]. rewrite trace_ev_pm. cbn [option_map]. unfold c. rewrite abs_child. reflexivity.
    + eapply realizes_seq.
      * unfold c in IH. rewrite abs_child in IH. exact IH.
      * intros z' Hp. fold c in Hp.
        destruct (post_derived _ _ _ _ _ Hd Hid Hp) as (Hpc & Hcur & Hagz & Hnz).
        assert (Hs1m : sget s1 (tid m) = {| cs := Some its; ocm := Some m; oca := AMatch |})
          by (unfold s1; apply sget_sset_same).
        unfold ret_pc, ret_cur in Hpc, Hcur. rewrite Hs1m in Hpc, Hcur. simpl in Hpc, Hcur.
        destruct Hcur as [Hcur | Hbad]; [|congruence].
        destruct z' as [c1 p1 st1 n1]. simpl in *. subst c1 p1.
        assert (Hst1m : sget st1 (tid m) = {| cs := Some its; ocm := Some m; oca := AMatch |}).
        { rewrite Hagz by lia. unfold alloc. rewrite sget_sset_other by lia. exact Hs1m. }
        assert (Hag01 : agree_below (tid m) s0 st1).
        { eapply agree_trans; [exact Hag|]. eapply agree_trans; [|eapply agree_weaken; [|exact Hagz]; lia].
          unfold alloc, s1. eapply agree_trans; apply agree_sset; lia. }
        eapply realizes_conseq.
        { apply (IHits st1 n1 (mk (Some m) PMatch st1 n1)); [lia | exact Hag01 | exact Hst1m | reflexivity]. }
        intros z'' (Hr & Ha & Hn). split; [exact Hr|]. split; [exact Ha | lia].
Qed.

(* ------------------------------------------------------------------ the recursive step *)
Definition rec_child (i : nat) (semr : jctx -> rs) (leaf : bool) (c : jctx) (ix : name * json) : rs :=
  let c' := ext c (fst ix) (snd ix) in
  rseq (rev1 (STrace c (Some c') i pm))
       (match members (snd ix) with
        | Some _ => rseq (semr c') (rec_children i pm semr leaf c' (snd ix))
        | None => if leaf then rev1 (SResult c') else rev1 (STrace c' None i pm)
        end).

Lemma rec_children_unfold i semr leaf c d its :
  members d = Some its ->
  rec_children i pm semr leaf c d =
  rseq (rconcat (map (rec_child i semr leaf c) its)) (rev1 (STrace c None i pm)).
Proof.
  intros H. destruct d as [| | | | | id l | id l]; simpl in H; try discriminate; injection H as <-.
  - (* list *)
    cbn [rec_children]. f_equal. unfold list_iter, enumerate. generalize 0%Z.
    induction l as [|x l IH]; intros z; [reflexivity|].
    cbn [enum_from map rconcat]. rewrite IH. reflexivity.
  - (* dict *)
    cbn [rec_children]. f_equal. unfold dict_iter.
    induction l as [|[k x] l IH]; [reflexivity|].
    cbn [map rconcat fst snd]. rewrite IH. reflexivity.
Qed.

Lemma items_for_rec d : items_for jshape P VRec d = Ok (members d).
Proof. unfold items_for, members. destruct (jshape d); reflexivity. Qed.

Lemma vrec_container (m : jtm) i s n nm x its its' :
  sget s (tid m) = {| cs := Some ((nm, x) :: its); ocm := Some m; oca := AMatch |} ->
  members x = Some its' ->
  vmatch jshape P ev VRec m i tr s n =
  (Ok (Some (TImag (Pos.succ n) (child n m nm x i (pred i)) x i i)),
   alloc (child n m nm x i (pred i))
         (remember (child n m nm x i (pred i)) its'
                   (alloc m (sset s (tid m) {| cs := Some its; ocm := Some m; oca := AMatch |}) n)) (Pos.succ n),
   Pos.succ (Pos.succ n), []).
Proof.
  intros Hm Hx. cbn [vmatch]. unfold vrec. rewrite Hm. cbn [cs ocm oca]. rewrite items_for_rec, Hx. reflexivity.
Qed.
Lemma vrec_scalar (m : jtm) i s n nm x its :
  sget s (tid m) = {| cs := Some ((nm, x) :: its); ocm := Some m; oca := AMatch |} ->
  members x = None ->
  vmatch jshape P ev VRec m i tr s n =
  (Ok (Some (child n m nm x i (pred i))),
   alloc m (sset s (tid m) {| cs := Some its; ocm := Some m; oca := AMatch |}) n, Pos.succ n, []).
Proof.
  intros Hm Hx. cbn [vmatch]. unfold vrec. rewrite Hm. cbn [cs ocm oca]. rewrite items_for_rec, Hx. reflexivity.
Qed.
Lemma vrec_exhausted (m : jtm) i s n :
  sget s (tid m) = {| cs := Some []; ocm := Some m; oca := AMatch |} ->
  vmatch jshape P ev VRec m i tr s n = (Ok None, restore m s, n, []).
Proof. intros Hm. cbn [vmatch]. unfold vrec. rewrite Hm. reflexivity. Qed.
Lemma vrec_noiter_scalar (m : jtm) i s n :
  cs (sget s (tid m)) = None -> members (tdata m) = None ->
  vmatch jshape P ev VRec m i tr s n = (Ok None, s, n, []).
Proof. intros Hm Hx. cbn [vmatch]. unfold vrec. rewrite Hm, items_for_rec, Hx. reflexivity. Qed.
Lemma vrec_first (m : jtm) i s n its :
  cs (sget s (tid m)) = None -> members (tdata m) = Some its ->
  vmatch jshape P ev VRec m i tr s n =
  (Ok (Some (TImag n m (tdata m) i i)), alloc m (remember m its s) n, Pos.succ n, []).
Proof. intros Hm Hx. cbn [vmatch]. unfold vrec. rewrite Hm, items_for_rec, Hx. reflexivity. Qed.

Definition leafb (rest : list (vertex P)) : bool := match rest with [] => true | _ => false end.

Definition rec_loop_stmt (rest : list (vertex P)) (p : nat) (d : json) : Prop :=
  forall m, wf m -> tdata m = d -> tvi m = p ->
  forall s0, ptr_ok m s0 ->
  forall its s n z,
    (exists done, members d = Some (done ++ its)) ->
    (tid m < n)%positive -> agree_below (tid m) s0 s ->
    sget s (tid m) = {| cs := Some its; ocm := Some m; oca := AMatch |} ->
    step1 z = step1 (mk (Some m) PMatch s n) ->
    realizes z
      (rseq (rconcat (map (rec_child (S p) (sem (S p) rest pm) (leafb rest) (abs m)) its))
            (none_sem (S p) (abs m)))
      (post m s0 n).

Lemma members_in_dict (l : list (string * json)) k x : In (NStr k, x) (dict_iter l) -> In (k, x) l.
Proof.
  unfold dict_iter. rewrite in_map_iff. intros ([k' x'] & E & Hin). simpl in E. injection E as -> ->. exact Hin.
Qed.
Lemma members_in_list (l : list json) nm x : In (nm, x) (list_iter l) -> In x l.
Proof.
  unfold list_iter, enumerate. generalize 0%Z. induction l as [|y l IH]; intros z; simpl; [tauto|].
  intros [E | H]; [injection E as _ ->; auto | right; eapply IH; eauto].
Qed.

Lemma rec_loop_all rest p :
  nth_error vp p = Some VRec ->
  (leafb rest = true <-> S p = List.length vp) ->
  frame_stmt rest (S p) ->
  forall d, rec_loop_stmt rest p d.
Proof.
  intros Hnth Hleaf IH d.
  induction d as [| b | z0 | h | str | id l IHl | id l IHl] using json_ind';
    intros m Hwf Hd Hp s0 Hptr its s n z [done Hsuf]; simpl in Hsuf; try discriminate.
  (* both container kinds are handled by the same script, given: children of d satisfy the statement *)
  all: assert (IHkids : forall nm x, In (nm, x) (done ++ its) -> rec_loop_stmt rest p x);
    [ injection Hsuf as Hsuf; intros nm x Hin; rewrite <- Hsuf in Hin;
      rewrite Forall_forall in IHl;
      first [ destruct nm as [k|zz];
              [ apply (IHl (k, x)); apply members_in_dict; exact Hin
              | exfalso; unfold dict_iter in Hin; rewrite in_map_iff in Hin; destruct Hin as (? & E & _); discriminate ]
            | apply IHl; eapply members_in_list; exact Hin ]
    | ].
  all: clear IHl Hsuf; revert done IHkids s n z.
  all: induction its as [|[nm x] its IHits]; intros done IHkids s n z Hid Hag Hm Hz.
  all: subst p.
  (* exhausted *)
  1,3: (assert (Hv : vmatch jshape P ev VRec m (S (tvi m)) tr s n = (Ok None, restore m s, n, []))
         by (apply vrec_exhausted; exact Hm);
       simpl; rewrite rseq_nil_l;
       assert (E : none_sem (S (tvi m)) (abs m) = rseq ([STrace (abs m) None (S (tvi m)) pm], None) ([], None)) by reflexivity;
       rewrite E; eapply realizes_step;
       [ rewrite Hz; eapply step_match_none; eauto
       | simpl; apply trace_ev_pm
       | apply realizes_nil; destruct (restore_ok m s0 s n Hptr Hag) as [Hr Ha];
         split; [exact Hr|]; split; [exact Ha | simpl; lia] ]).
  (* next child *)
  all: assert (IHx : rec_loop_stmt rest (tvi m) x) by (apply (IHkids nm x); apply in_or_app; right; left; reflexivity).
  all: assert (IHrest : forall s n z, (tid m < n)%positive -> agree_below (tid m) s0 s ->
           sget s (tid m) = {| cs := Some its; ocm := Some m; oca := AMatch |} ->
           step1 z = step1 (mk (Some m) PMatch s n) ->
           realizes z (rseq (rconcat (map (rec_child (S (tvi m)) (sem (S (tvi m)) rest pm) (leafb rest) (abs m)) its))
                            (none_sem (S (tvi m)) (abs m))) (post m s0 n))
      by (intros s' n' z' H1 H2 H3 H4; refine (IHits (done ++ [(nm, x)]) _ s' n' z' H1 H2 H3 H4);
          intros nm' x' Hin; apply (IHkids nm' x'); rewrite <- app_assoc in Hin; exact Hin).
  all: clear IHits IHkids.
  all: set (i := S (tvi m)) in *.
  all: set (s1 := sset s (tid m) {| cs := Some its; ocm := Some m; oca := AMatch |}).
  all: set (c := child n m nm x i (tvi m)).
  all: assert (Hs1m : sget s1 (tid m) = {| cs := Some its; ocm := Some m; oca := AMatch |}) by (unfold s1; apply sget_sset_same).
  all: assert (Hdc : derived c m n) by apply derived_child.
  all: assert (Hwc : wf c) by (apply wf_child; exact Hwf).
  all: assert (Hfc : fresh c (alloc m s1 n) (Pos.succ n)) by (apply fresh_derived; [exact Hdc | exact Hid]).
  all: assert (Hs2m : sget (alloc m s1 n) (tid m) = {| cs := Some its; ocm := Some m; oca := AMatch |})
         by (unfold alloc; rewrite sget_sset_other by lia; exact Hs1m).
  all: assert (Hs2c : sget (alloc m s1 n) n = {| cs := None; ocm := Some m; oca := AMatch |})
         by (unfold alloc; rewrite sget_sset_same, Hs1m; reflexivity).
  all: assert (Hag02 : agree_below (tid m) s0 (alloc m s1 n))
         by (eapply agree_trans; [exact Hag|]; unfold alloc, s1; eapply agree_trans; apply agree_sset; lia).
  all: simpl map; simpl rconcat; rewrite rseq_assoc; unfold rec_child at 1; cbn [fst snd]; rewrite rseq_assoc.
  all: destruct (members x) as [its'|] eqn:Hmx.
  (* ---- container child (list parent) and (dict parent): the same script *)
  1,3: (
    set (s3 := remember c its' (alloc m s1 n));
    set (n1 := Pos.succ n);
    set (g := TImag n1 c x i i);
    assert (Hv : vmatch jshape P ev VRec m i tr s n = (Ok (Some g), alloc c s3 n1, Pos.succ n1, []))
      by (apply vrec_container; [exact Hm | exact Hmx]);
    assert (Htc : tid c = n) by apply tid_child;
    assert (Hdg : derived g c n1) by (repeat split; simpl; try rewrite Htc; reflexivity);
    assert (Hwg : wf g) by (simpl; split; [exact Hwc | symmetry; apply tdata_child]);
    assert (Hfg : fresh g (alloc c s3 n1) (Pos.succ n1)) by (apply fresh_derived; [exact Hdg | rewrite Htc; unfold n1; lia]);
    eapply realizes_step;
    [ rewrite Hz; eapply step_match_some; eauto
    | cbn [app]; rewrite trace_ev_pm; cbn [option_map];
      replace (abs g) with (abs c) by reflexivity; unfold c; rewrite abs_child; reflexivity
    | ];
    rewrite rseq_assoc;
    eapply realizes_seq;
    [ pose proof (IH g (alloc c s3 n1) (Pos.succ n1) Hwg eq_refl eq_refl Hfg) as IHg;
      replace (abs g) with (abs c) in IHg by reflexivity; unfold c in IHg; rewrite abs_child in IHg; exact IHg
    | ];
    intros z' Hp;
    assert (Hlt1 : (tid c < n1)%positive) by (rewrite Htc; unfold n1; lia);
    destruct (post_derived _ _ _ _ _ Hdg Hlt1 Hp) as (Hpc & Hcur & Hagz & Hnz);
    assert (Hs3c : sget s3 (tid c) = {| cs := Some its'; ocm := Some c; oca := AMatch |})
      by (unfold s3, remember; apply sget_sset_same);
    unfold ret_pc, ret_cur in Hpc, Hcur; rewrite Hs3c in Hpc, Hcur; simpl in Hpc, Hcur;
    destruct Hcur as [Hcur | Hbad]; [|congruence];
    destruct z' as [c1 p1 st1 n2]; simpl in Hpc, Hcur, Hagz, Hnz; subst c1 p1;
    assert (Hst1c : sget st1 (tid c) = {| cs := Some its'; ocm := Some c; oca := AMatch |})
      by (rewrite Hagz by (rewrite Htc; unfold n1; lia); unfold alloc; rewrite sget_sset_other by (rewrite Htc; unfold n1; lia); exact Hs3c);
    assert (Hptrc : ptr_ok c (alloc m s1 n))
      by (destruct Hfc as (_ & _ & Hp'); exact Hp');
    assert (Hagc : agree_below (tid c) (alloc m s1 n) st1)
      by (rewrite Htc; eapply agree_trans; [|eapply agree_weaken; [|exact Hagz]; unfold n1; lia];
          unfold alloc at 2, s3, remember; eapply agree_trans; apply agree_sset; rewrite ?Htc; unfold n1; lia);
    rewrite (rec_children_unfold i (sem i rest pm) (leafb rest) (ext (abs m) nm x) x its' Hmx);
    eapply realizes_seq;
    [ pose proof (IHx c Hwc (tdata_child _ _ _ _ _ _) (tvi_child _ _ _ _ _ _) (alloc m s1 n) Hptrc its' st1 n2
                      (mk (Some c) PMatch st1 n2) (ex_intro _ [] Hmx)) as IHc;
      replace (abs c) with (ext (abs m) nm x) in IHc by (unfold c; symmetry; apply abs_child);
      apply IHc; [rewrite Htc; unfold n1 in Hnz; lia | exact Hagc | exact Hst1c | reflexivity]
    | ];
    intros z'' ((Hpc2 & Hcur2) & Hag2 & Hn2);
    unfold ret_pc, ret_cur in Hpc2, Hcur2; rewrite Htc, Hs2c in Hpc2, Hcur2; simpl in Hpc2, Hcur2;
    destruct Hcur2 as [Hcur2 | Hbad]; [|congruence];
    destruct z'' as [c2 p2 st2 n3]; simpl in Hpc2, Hcur2, Hag2, Hn2; subst c2 p2;
    rewrite Htc in Hag2;
    eapply realizes_conseq;
    [ apply (IHrest st2 n3 (mk (Some m) PMatch st2 n3));
      [ lia
      | eapply agree_trans; [exact Hag02|]; eapply agree_weaken; [|exact Hag2]; lia
      | rewrite Hag2 by lia; exact Hs2m
      | reflexivity ]
    | intros zf (Hr & Ha & Hn); split; [exact Hr|]; split; [exact Ha | unfold n1 in *; lia] ]).
  (* ---- scalar child *)
  all: assert (Hv : vmatch jshape P ev VRec m i tr s n = (Ok (Some c), alloc m s1 n, Pos.succ n, []))
         by (apply vrec_scalar; [exact Hm | exact Hmx]).
  all: assert (Htc : tid c = n) by apply tid_child.
  all: eapply realizes_step;
    [ rewrite Hz; eapply step_match_some; eauto
    | cbn [app]; rewrite trace_ev_pm; cbn [option_map]; unfold c; rewrite abs_child; reflexivity
    | ].
  all: assert (Hback : forall r Post, realizes (mk (Some m) PMatch (alloc m s1 n) (Pos.succ n)) r Post ->
                         realizes (mk (ocm (sget (alloc m s1 n) (tid c))) (pc_of (oca (sget (alloc m s1 n) (tid c)))) (alloc m s1 n) (Pos.succ n)) r Post)
         by (intros r Post Hr; rewrite Htc, Hs2c; exact Hr).
  all: assert (Hcont : realizes (mk (Some m) PMatch (alloc m s1 n) (Pos.succ n))
           (rseq (rconcat (map (rec_child i (sem i rest pm) (leafb rest) (abs m)) its)) (none_sem i (abs m))) (post m s0 n))
         by (eapply realizes_conseq;
             [ apply (IHrest (alloc m s1 n) (Pos.succ n) _); [lia | exact Hag02 | exact Hs2m | reflexivity]
             | intros zf (Hr & Ha & Hn); split; [exact Hr|]; split; [exact Ha | lia] ]).
  all: destruct (Nat.eq_dec i (List.length vp)) as [Hlf | Hnlf].
  (* rec is the last step: the scalar is reported, then caught back to m *)
  1,3: (assert (Hlb : leafb rest = true) by (apply Hleaf; exact Hlf);
        rewrite Hlb; rewrite Hlb in Hcont;
        eapply realizes_step;
        [ apply step_report_leaf; unfold c; rewrite tvx_child; exact Hlf
        | cbn [map abs_ev]; unfold c; rewrite abs_child; symmetry; apply proj_nontrace; reflexivity
        | eapply realizes_step0; [apply step_catch | apply Hback; exact Hcont] ]).
  (* rec is followed by more steps: the step is re-applied to the scalar and fails *)
  all: assert (Hlb : leafb rest = false)
         by (destruct (leafb rest) eqn:E; auto; exfalso; apply Hnlf; apply Hleaf; reflexivity).
  all: rewrite Hlb; rewrite Hlb in Hcont.
  all: assert (Hvc : vmatch jshape P ev VRec c (S (tvi c)) tr (alloc m s1 n) (Pos.succ n) = (Ok None, alloc m s1 n, Pos.succ n, []))
         by (apply vrec_noiter_scalar; [rewrite Htc, Hs2c; reflexivity | unfold c; rewrite tdata_child; exact Hmx]).
  all: assert (Hnthc : nth_error vp (tvi c) = Some VRec) by (unfold c; rewrite tvi_child; exact Hnth).
  all: eapply realizes_step0; [apply step_report_inner; unfold c; rewrite tvx_child; exact Hnlf|].
  all: eapply realizes_step;
    [ eapply step_match_none; eauto
    | cbn [app]; rewrite trace_ev_pm; cbn [option_map]; unfold c at 1 2; rewrite tvi_child, abs_child; reflexivity
    | apply Hback; exact Hcont ].
Qed.

(* ------------------------------------------------------------------ the frame lemma *)
Lemma sem_multi v i r c :
  is_multi v = true ->
  sem i (v :: r) pm c =
  match items_for jshape P v (cdata c) with
  | Ok (Some its) => rseq (rconcat (map (fun ix => go_sem (S i) r c (ext c (fst ix) (snd ix))) its)) (none_sem (S i) c)
  | Ok None => none_sem (S i) c
  | Exn e => ([], Some e)
  end.
Proof. destruct v; simpl; intros H; try discriminate; reflexivity. Qed.

Lemma step_remember v (m : jtm) s n its :
  is_multi v = true -> nth_error vp (tvi m) = Some v ->
  cs (sget s (tid m)) = None -> items_for jshape P v (tdata m) = Ok (Some its) ->
  step1 (mk (Some m) PMatch s n) = step1 (mk (Some m) PMatch (remember m its s) n).
Proof.
  intros Hmul Hnth Hcs Hit. unfold step, mk; simpl. rewrite Hnth.
  rewrite !vmatch_multi by exact Hmul. unfold multi. rewrite Hcs, Hit.
  unfold remember at 2. rewrite sget_sset_same. reflexivity.
Qed.

Lemma realizes_result_end z z1 c (Post : jstate -> Prop) :
  step1 z = SNext z1 [EvResult c] true -> Post z1 -> realizes z (rev1 (SResult (abs c))) Post.
Proof.
  intros Hs HP. unfold rev1.
  replace ([SResult (abs c)], None) with (rseq ([SResult (abs c)], @None exn) ([], None)) by reflexivity.
  eapply realizes_step; [exact Hs | | apply realizes_nil; exact HP].
  simpl. symmetry. apply proj_nontrace. reflexivity.
Qed.

(* the sub-search of a single derived match, then back to where m's pointer says *)
Lemma single_child rest (m c : jtm) s n evs sevs v :
  frame_stmt rest (S (tvi m)) ->
  nth_error vp (tvi m) = Some v ->
  vmatch jshape P ev v m (S (tvi m)) tr s n = (Ok (Some c), alloc m s n, Pos.succ n, evs) ->
  map abs_ev evs = proj trb sevs ->
  derived c m n -> wf c -> tvi c = S (tvi m) -> tvx c = S (tvi m) -> (tid m < n)%positive ->
  realizes (mk (Some m) PMatch s n)
    (rseq (sevs, None) (go_sem (S (tvi m)) rest (abs m) (abs c))) (post m s n).
Proof.
  intros IH Hnth Hv Hev Hd Hwc Hvi Hvx Hid.
  assert (E : rseq (sevs, None) (go_sem (S (tvi m)) rest (abs m) (abs c)) =
              rseq (sevs ++ [STrace (abs m) (Some (abs c)) (S (tvi m)) pm], None) (sem (S (tvi m)) rest pm (abs c))).
  { unfold go_sem, rev1. rewrite <- rseq_assoc. f_equal. }
  rewrite E. eapply realizes_step; [eapply step_match_some; eauto| |].
  - rewrite map_app, proj_app, Hev, trace_ev_pm. reflexivity.
  - eapply realizes_conseq; [apply IH; auto; apply fresh_derived; assumption|].
    intros z' Hp. eapply post_single; eauto.
Qed.

Theorem frame :
  forall rest pre, vp = pre ++ rest -> frame_stmt rest (List.length pre).
Proof.
  induction rest as [|v rest IH]; intros pre Hvp m s n Hwf Hvi Hvx Hfresh.
  - (* the last step has been taken: report, then resume *)
    assert (Hlen : tvx m = List.length vp) by (rewrite Hvp, app_nil_r; exact Hvx).
    cbn [Spec.sem]. unfold rev1.
    replace ([SResult (abs m)], None) with (rseq ([SResult (abs m)], @None exn) ([], None)) by reflexivity.
    eapply realizes_step; [apply step_report_leaf; exact Hlen | simpl; symmetry; apply proj_nontrace; reflexivity |].
    eapply realizes_step0; [apply step_catch|].
    apply realizes_nil. split; [split; [reflexivity | left; reflexivity]|]. split; [apply agree_refl | simpl; lia].
  - assert (Hnth : nth_error vp (tvi m) = Some v).
    { rewrite Hvp, Hvi. rewrite nth_error_app2 by lia. rewrite Nat.sub_diag. reflexivity. }
    assert (Hlen : tvx m <> List.length vp).
    { rewrite Hvp, Hvx, app_length. simpl. lia. }
    assert (Hvp' : vp = (pre ++ [v]) ++ rest) by (rewrite Hvp, <- app_assoc; reflexivity).
    assert (Hlen' : List.length (pre ++ [v]) = S (tvi m)) by (rewrite app_length; simpl; lia).
    assert (IH' := IH _ Hvp'). rewrite Hlen' in IH'. clear IH.
    destruct Hfresh as (Hid & Hcs & Hptr).
    rewrite <- Hvi.
    eapply realizes_step0; [apply step_report_inner; exact Hlen|].
    destruct (is_multi v) eqn:Hmul.
    { (* slice, tuple, wildcards *)
      rewrite (sem_multi v (tvi m) rest (abs m) Hmul), (cdata_abs m Hwf).
      destruct (items_for jshape P v (tdata m)) as [[its|]|e] eqn:Hit.
      - eapply realizes_conseq.
        + apply (multi_loop v rest m Hmul Hwf Hnth IH' s Hptr its (remember m its s) n (mk (Some m) PMatch s n)).
          * exact Hid.
          * unfold remember. apply agree_sset. lia.
          * unfold remember. apply sget_sset_same.
          * apply (step_remember v m s n its Hmul Hnth Hcs Hit).
        + auto.
      - rewrite <- (rseq_nil_l (none_sem (S (tvi m)) (abs m))).
        eapply (realizes_none m s n v [] []); [exact Hnth | | rewrite proj_nil; reflexivity].
        rewrite vmatch_multi by exact Hmul. unfold multi. rewrite Hcs, Hit. reflexivity.
      - eapply (realizes_raise P ev src vp tr _ e _ [] []); [eapply step_match_raise; [exact Hnth|] | rewrite proj_nil; reflexivity].
        rewrite vmatch_multi by exact Hmul. unfold multi. rewrite Hcs, Hit. reflexivity. }
    destruct v as [k | z0 | | | | | | | | p]; try discriminate Hmul; cbn [Spec.sem].
    + (* key *)
      rewrite (cdata_abs m Hwf).
      destruct (jshape (tdata m)) as [its | its |] eqn:Hs; [destruct (assoc k its) as [x|] eqn:Ha | |].
      * set (c := child n m (NStr k) x (S (tvi m)) (S (tvi m))).
        rewrite <- (abs_child n m (NStr k) x (S (tvi m)) (S (tvi m))).
        rewrite <- (rseq_nil_l (rseq _ _)).
        apply (single_child rest m c s n [] [] (VKey k) IH' Hnth);
          [ cbn [vmatch]; rewrite Hs, Ha; reflexivity | rewrite proj_nil; reflexivity | apply derived_child
          | apply wf_child; exact Hwf | apply tvi_child | apply tvx_child | exact Hid ].
      * rewrite <- (rseq_nil_l (rev1 _)).
        eapply (realizes_none m s n (VKey k) [] []); [exact Hnth | | rewrite proj_nil; reflexivity].
        cbn [vmatch]. rewrite Hs, Ha. reflexivity.
      * rewrite <- (rseq_nil_l (rev1 _)).
        eapply (realizes_none m s n (VKey k) [] []); [exact Hnth | | rewrite proj_nil; reflexivity].
        cbn [vmatch]. rewrite Hs. reflexivity.
      * rewrite <- (rseq_nil_l (rev1 _)).
        eapply (realizes_none m s n (VKey k) [] []); [exact Hnth | | rewrite proj_nil; reflexivity].
        cbn [vmatch]. rewrite Hs. reflexivity.
    + (* index *)
      rewrite (cdata_abs m Hwf).
      destruct (jshape (tdata m)) as [its | its |] eqn:Hs; [ | destruct (list_get its z0) as [x|e] eqn:Ha |].
      * rewrite <- (rseq_nil_l (rev1 _)).
        eapply (realizes_none m s n (VIdx z0) [] []); [exact Hnth | | rewrite proj_nil; reflexivity].
        cbn [vmatch]. rewrite Hs. reflexivity.
      * set (c := child n m (NInt z0) x (S (tvi m)) (S (tvi m))).
        rewrite <- (abs_child n m (NInt z0) x (S (tvi m)) (S (tvi m))).
        rewrite <- (rseq_nil_l (rseq _ _)).
        apply (single_child rest m c s n [] [] (VIdx z0) IH' Hnth);
          [ cbn [vmatch]; rewrite Hs, Ha; reflexivity | rewrite proj_nil; reflexivity | apply derived_child
          | apply wf_child; exact Hwf | apply tvi_child | apply tvx_child | exact Hid ].
      * rewrite <- (rseq_nil_l (rev1 _)).
        eapply (realizes_none m s n (VIdx z0) [] []); [exact Hnth | | rewrite proj_nil; reflexivity].
        cbn [vmatch]. rewrite Hs, Ha. reflexivity.
      * rewrite <- (rseq_nil_l (rev1 _)).
        eapply (realizes_none m s n (VIdx z0) [] []); [exact Hnth | | rewrite proj_nil; reflexivity].
        cbn [vmatch]. rewrite Hs. reflexivity.
    + (* recursive step *)
      rewrite (cdata_abs m Hwf).
      destruct (members (tdata m)) as [its|] eqn:Hmem.
      * set (i := S (tvi m)) in *.
        set (g := TImag n m (tdata m) i i).
        assert (Hv := vrec_first m i s n its Hcs Hmem). fold g in Hv.
        assert (Hdg : derived g m n) by (repeat split).
        assert (Hwg : wf g) by (simpl; auto).
        assert (Hfg : fresh g (alloc m (remember m its s) n) (Pos.succ n)) by (apply fresh_derived; assumption).
        rewrite (rec_children_unfold i (sem i rest pm) (match rest with [] => true | _ :: _ => false end) (abs m) (tdata m) its Hmem).
        rewrite rseq_assoc.
        eapply realizes_step; [eapply step_match_some; eauto | cbn [app]; rewrite trace_ev_pm; reflexivity |].
        eapply realizes_seq.
        { apply (IH' g _ _ Hwg eq_refl eq_refl Hfg). }
        intros z' Hp.
        destruct (post_derived _ _ _ _ _ Hdg Hid Hp) as (Hpc & Hcur & Hagz & Hnz).
        assert (Hsm : sget (remember m its s) (tid m) = {| cs := Some its; ocm := Some m; oca := AMatch |})
          by (unfold remember; apply sget_sset_same).
        unfold ret_pc, ret_cur in Hpc, Hcur. rewrite Hsm in Hpc, Hcur. simpl in Hpc, Hcur.
        destruct Hcur as [Hcur | Hbad]; [|congruence].
        destruct z' as [c1 p1 st1 n1]. simpl in Hpc, Hcur, Hagz, Hnz. subst c1 p1.
        assert (Hleaf : leafb rest = true <-> i = List.length vp).
        { rewrite Hvp, app_length. simpl. unfold i. rewrite Hvi. destruct rest; simpl; split; intros; try lia; try discriminate; auto. }
        eapply realizes_conseq.
        { apply (rec_loop_all rest (tvi m) Hnth Hleaf IH' (tdata m) m Hwf eq_refl eq_refl s Hptr its st1 n1
                   (mk (Some m) PMatch st1 n1) (ex_intro _ [] Hmem)).
          - lia.
          - eapply agree_trans; [|eapply agree_weaken; [|exact Hagz]; lia].
            unfold alloc, remember. eapply agree_trans; apply agree_sset; lia.
          - rewrite Hagz by lia. unfold alloc. rewrite sget_sset_other by lia. exact Hsm.
          - reflexivity. }
        intros zf (Hr & Ha & Hn). split; [exact Hr|]. split; [exact Ha | lia].
      * rewrite <- (rseq_nil_l (rev1 _)).
        eapply (realizes_none m s n VRec [] []); [exact Hnth | | rewrite proj_nil; reflexivity].
        apply vrec_noiter_scalar; assumption.
    + (* parent *)
      pose proof (parent_step m Hwf) as Hps.
      destruct (remembered_parent m) as [r|] eqn:Hr.
      * destruct Hps as [Hwr Hext]. rewrite Hext.
        set (c := TPar n r m (data_name r) (tdata r) (S (tvi m)) (S (tvi m))).
        replace (abs m ++ [(KPar, data_name r, tdata r)]) with (abs c) by (apply abs_snoc; reflexivity).
        rewrite <- (rseq_nil_l (rseq _ _)).
        apply (single_child rest m c s n [] [] VParent IH' Hnth);
          [ cbn [vmatch]; rewrite Hr; reflexivity | rewrite proj_nil; reflexivity | repeat split
          | simpl; auto | reflexivity | reflexivity | exact Hid ].
      * rewrite Hps. rewrite <- (rseq_nil_l (rev1 _)).
        eapply (realizes_none m s n VParent [] []); [exact Hnth | | rewrite proj_nil; reflexivity].
        cbn [vmatch]. rewrite Hr. reflexivity.
    + (* filter *)
      destruct (ev_ok p m (nth_error_In _ _ Hnth) Hwf) as [[Ho He] | (e & Hfail & Hbe)].
      2: { destruct (ev p m tr) as [ro evs] eqn:Hev. simpl in Hfail. subst ro.
           eapply (realizes_budget P ev src vp tr _ (ETraversing e)); [eapply step_match_raise; [exact Hnth|] | exact Hbe].
           cbn [vmatch]. rewrite Hev. reflexivity. }
      destruct (ev p m tr) as [ro evs] eqn:Hev. destruct (sev p (abs m)) as [so es] eqn:Hsev.
      simpl in Ho, He. subst so. destruct ro as [val|e].
      * destruct (truthy val) eqn:Ht.
        -- set (g := TImag n m (tdata m) (S (tvi m)) (S (tvi m))).
           replace (abs m) with (abs g) at 2 by reflexivity.
           apply (single_child rest m g s n evs es (VPred p) IH' Hnth);
             [ cbn [vmatch]; rewrite Hev, Ht; reflexivity | exact He | repeat split
             | simpl; auto | reflexivity | reflexivity | exact Hid ].
        -- eapply (realizes_none m s n (VPred p) evs es); [exact Hnth | | exact He].
           cbn [vmatch]. rewrite Hev, Ht. reflexivity.
      * eapply realizes_raise; [eapply step_match_raise; [exact Hnth|] | exact He].
        cbn [vmatch]. rewrite Hev. reflexivity.
Qed.

(* ------------------------------------------------------------------ the refinement theorem *)
Definition root_match : jtm :=
  match src with SrcDoc d => TRoot 1 d | SrcMatch o => TNRoot 1 o (tdata o) end.

Definition src_wf : Prop := match src with SrcDoc _ => True | SrcMatch o => wf o end.

(* from the state installed by iter(): the machine's complete event stream is the denotational one, and the
   run ends in the done state, which is absorbing (every later next() raises StopIteration again) *)
Theorem refinement :
  src_wf ->
  realizes init_state (sem 0 vp pm (abs root_match))
           (fun z => pc z = PDone /\ step1 z = SRaise EStop z []).
Proof.
  intros Hsrc.
  set (r := root_match).
  set (s1 := sset (PositiveMap.empty jmut) 1%positive {| cs := None; ocm := Some r; oca := ADone |}).
  assert (Hstep : step1 init_state = SNext (mk (Some r) PReport s1 2%positive) [] false).
  { unfold step, init_state, mk; simpl. unfold s1, r, root_match. destruct src; reflexivity. }
  eapply realizes_step0; [exact Hstep|].
  assert (Hwf : wf r). { unfold r, root_match, src_wf in *. destruct src; simpl; auto. }
  assert (Hid : tid r = 1%positive) by (unfold r, root_match; destruct src; reflexivity).
  assert (Hroot : is_root r = true) by (unfold r, root_match; destruct src; reflexivity).
  assert (Hvi : tvi r = 0) by (unfold r, root_match; destruct src; reflexivity).
  assert (Hvx : tvx r = 0) by (unfold r, root_match; destruct src; reflexivity).
  assert (Hs1 : sget s1 (tid r) = {| cs := None; ocm := Some r; oca := ADone |})
    by (rewrite Hid; unfold s1; apply sget_sset_same).
  assert (Hfresh : fresh r s1 2%positive).
  { split; [rewrite Hid; lia|]. split; [rewrite Hs1; reflexivity|].
    unfold ptr_ok. rewrite Hroot, Hs1. auto. }
  eapply realizes_conseq; [apply (frame vp [] eq_refl r s1 2%positive Hwf Hvi Hvx Hfresh)|].
  intros z ((Hpc & _) & _ & _). unfold ret_pc in Hpc. rewrite Hs1 in Hpc. simpl in Hpc.
  split; [exact Hpc|]. destruct z as [c p st0 n0]. simpl in Hpc. subst p. reflexivity.
Qed.

End Frame.

Print Assumptions refinement.
