(* HasScan.v -- the has-loop over a nested run: scanning the events of the nested machine for the first
   selected value that passes the test, on the machine side (over next() calls with their budget) and on the
   specification side (over the complete nested stream), and how the two correspond. *)
From Coq Require Import List ZArith String Bool PArith Lia FMapPositive.
From TP Require Import Json PyPrim Machine Api Spec SpecHas.
From TP.proofs Require Import RefineBase Refine NextLayer Iterate WfRun.
Import ListNotations.
Close Scope Z_scope.
Open Scope list_scope.

(* ------------------------------------------------------------------ scanning with an explicit decision *)
Section Scan.
Context {E : Type}.
Variable is_result : E -> option json.          (* the selected value carried by a result event *)
Variable test : json -> res bool * list E.

(* events shown so far (results dropped, test events inserted) and the decision, if one was reached *)
Fixpoint scan2 (es : list E) : list E * option (res json) :=
  match es with
  | [] => ([], None)
  | e :: r =>
      match is_result e with
      | Some x =>
          let '(t, tes) := test x in
          match t with
          | Ok true => (tes, Some (Ok (JBool true)))
          | Ok false => let '(es', d) := scan2 r in (tes ++ es', d)
          | Exn ex => (tes, Some (Exn ex))
          end
      | None => let '(es', d) := scan2 r in (e :: es', d)
      end
  end.

Lemma scan2_app a b :
  scan2 (a ++ b) =
  let '(ea, da) := scan2 a in
  match da with
  | Some o => (ea, Some o)
  | None => let '(eb, db) := scan2 b in (ea ++ eb, db)
  end.
Proof.
  induction a as [|e a IH]; simpl.
  - destruct (scan2 b); reflexivity.
  - destruct (is_result e) as [x|].
    + destruct (test x) as [[[|]|ex] tes]; try reflexivity.
      rewrite IH. destruct (scan2 a) as [ea [o|]]; [reflexivity|].
      destruct (scan2 b). rewrite app_assoc. reflexivity.
    + rewrite IH. destruct (scan2 a) as [ea [o|]]; [reflexivity|].
      destruct (scan2 b). reflexivity.
Qed.

Definition finish (r : list E * option (res json)) (fin : res json) : res json * list E :=
  (match snd r with Some o => o | None => fin end, fst r).

Lemma scan2_noresult es : (forall e, In e es -> is_result e = None) -> scan2 es = (es, None).
Proof.
  induction es as [|e es IH]; intros H; [reflexivity|]. simpl.
  rewrite (H e (or_introl eq_refl)). rewrite IH by (intros e' Hin; apply H; right; exact Hin). reflexivity.
Qed.

End Scan.

(* ------------------------------------------------------------------ the two instances *)
Definition m_result (e : jevent) : option json := match e with EvResult c => Some (tdata c) | _ => None end.
Definition s_result (e : sevent) : option json := match e with SResult c => Some (cdata c) | _ => None end.

Definition fin_of (ex : option exn) : res json := match ex with None | Some EStop => Ok (JBool false) | Some e => Exn e end.

Lemma shas_scan_scan2 test es ex :
  shas_scan test es ex = finish (scan2 s_result test es) (fin_of ex).
Proof.
  induction es as [|e es IH]; [reflexivity|]. unfold finish in *.
  destruct e; simpl; try (rewrite IH; destruct (scan2 s_result test es); reflexivity).
  destruct (test (cdata c)) as [[[|]|e0] tes]; try reflexivity.
  rewrite IH. destruct (scan2 s_result test es). reflexivity.
Qed.

(* machine events abstract to specification events, well-formed results to the node their chain leads to *)
Lemma scan2_abs (tm_test : json -> res bool * list jevent) (ts_test : json -> res bool * list sevent) evs :
  (forall x, fst (tm_test x) = fst (ts_test x) /\ map abs_ev (snd (tm_test x)) = snd (ts_test x)) ->
  Forall wf (ev_results evs) ->
  scan2 s_result ts_test (map abs_ev evs) =
  (map abs_ev (fst (scan2 m_result tm_test evs)), snd (scan2 m_result tm_test evs)).
Proof.
  intros Ht. induction evs as [|e evs IH]; intros Hwf; [reflexivity|].
  destruct e as [l n i pmx | t m0 | t a | c]; simpl in *;
    try (rewrite (IH Hwf); destruct (scan2 m_result tm_test evs); reflexivity).
  inversion Hwf as [|? ? Hc Hrest]; subst.
  rewrite (cdata_abs c Hc). destruct (Ht (tdata c)) as [H1 H2].
  destruct (tm_test (tdata c)) as [tm tes], (ts_test (tdata c)) as [tsr stes]. simpl in H1, H2. subst tsr stes.
  destruct tm as [[|]|ex]; try reflexivity.
  rewrite (IH Hrest). destruct (scan2 m_result tm_test evs). simpl. rewrite map_app. reflexivity.
Qed.

(* dropping trace events commutes with the scan when the test emits none *)
Lemma scan2_proj (ts_test : json -> res bool * list sevent) b es :
  (forall x, proj b (snd (ts_test x)) = snd (ts_test x)) ->
  scan2 s_result ts_test (proj b es) =
  (proj b (fst (scan2 s_result ts_test es)), snd (scan2 s_result ts_test es)).
Proof.
  intros Ht. destruct b; [simpl; destruct (scan2 s_result ts_test es); reflexivity|].
  unfold proj. induction es as [|e es IH]; [reflexivity|].
  destruct e as [l n i pmx | t c | t a | c]; simpl.
  - rewrite IH. destruct (scan2 s_result ts_test es). reflexivity.
  - rewrite IH. destruct (scan2 s_result ts_test es). reflexivity.
  - rewrite IH. destruct (scan2 s_result ts_test es). reflexivity.
  - specialize (Ht (cdata c)). unfold proj in Ht.
    destruct (ts_test (cdata c)) as [[[|]|ex] tes]; simpl in *; rewrite ?Ht; try reflexivity.
    rewrite IH. destruct (scan2 s_result ts_test es). simpl. rewrite filter_app, Ht. reflexivity.
Qed.

(* ------------------------------------------------------------------ conversion functions and the test *)
Lemma apply_fns_abs fs v :
  fst (@apply_fns json fs v) = fst (sapply_fns fs v) /\
  map abs_ev (snd (@apply_fns json fs v)) = snd (sapply_fns fs v).
Proof.
  revert v. induction fs as [|[tag f] fs IH]; intros v; simpl; [auto|].
  destruct (f v) as [v'|e]; [|auto].
  destruct (IH v') as [H1 H2]. destruct (apply_fns fs v'), (sapply_fns fs v'). simpl in *. subst. auto.
Qed.

Lemma has_test_abs op fs x :
  fst (@has_test json (fun d => d) op fs x) = fst (shas_test op fs x) /\
  map abs_ev (snd (@has_test json (fun d => d) op fs x)) = snd (shas_test op fs x).
Proof.
  unfold has_test, shas_test.
  assert (Hgen : forall o l,
    fst (let '(r, es) := @apply_fns json l x in
         match r with
         | Exn e => (Exn e, es)
         | Ok v => match o with
                   | None => (Ok (truthy v), es)
                   | Some (o0, c) => match py_cmp o0 v c with Ok b => (Ok b, es) | Exn e => (Exn e, es) end
                   end
         end) =
    fst (let '(r, es) := sapply_fns l x in
         match r with
         | Exn e => (Exn e, es)
         | Ok v => match o with
                   | None => (Ok (truthy v), es)
                   | Some (o0, c) => match py_cmp o0 v c with Ok b => (Ok b, es) | Exn e => (Exn e, es) end
                   end
         end) /\
    map abs_ev (snd (let '(r, es) := @apply_fns json l x in
         match r with
         | Exn e => (Exn e, es)
         | Ok v => match o with
                   | None => (Ok (truthy v), es)
                   | Some (o0, c) => match py_cmp o0 v c with Ok b => (Ok b, es) | Exn e => (Exn e, es) end
                   end
         end)) =
    snd (let '(r, es) := sapply_fns l x in
         match r with
         | Exn e => (Exn e, es)
         | Ok v => match o with
                   | None => (Ok (truthy v), es)
                   | Some (o0, c) => match py_cmp o0 v c with Ok b => (Ok b, es) | Exn e => (Exn e, es) end
                   end
         end)).
  { intros o l. destruct (apply_fns_abs l x) as [H1 H2].
    destruct (apply_fns l x) as [r es], (sapply_fns l x) as [r' es']. simpl in H1, H2. subst r' es'.
    destruct r as [v|e]; [|auto]. destruct o as [[o0 c]|]; [|auto]. destruct (py_cmp o0 v c); auto. }
  destruct op as [[o c]|]; [exact (Hgen (Some (o, c)) (rev fs))|]. destruct fs as [|f fs]; [auto | exact (Hgen None (rev (f :: fs)))].
Qed.

Lemma sapply_fns_notrace b fs v : proj b (snd (sapply_fns fs v)) = snd (sapply_fns fs v).
Proof.
  destruct b; [reflexivity|]. revert v. induction fs as [|[tag f] fs IH]; intros v; simpl; [reflexivity|].
  destruct (f v) as [v'|e]; [|reflexivity]. specialize (IH v'). destruct (sapply_fns fs v'). simpl in *. rewrite IH. reflexivity.
Qed.

Lemma shas_test_notrace b op fs x : proj b (snd (shas_test op fs x)) = snd (shas_test op fs x).
Proof.
  unfold shas_test.
  assert (Hgen : forall o l, proj b (snd (let '(r, es) := sapply_fns l x in
         match r with
         | Exn e => (Exn e, es)
         | Ok v => match o with
                   | None => (Ok (truthy v), es)
                   | Some (o0, c) => match py_cmp o0 v c with Ok b0 => (Ok b0, es) | Exn e => (Exn e, es) end
                   end
         end)) = snd (let '(r, es) := sapply_fns l x in
         match r with
         | Exn e => (Exn e, es)
         | Ok v => match o with
                   | None => (Ok (truthy v), es)
                   | Some (o0, c) => match py_cmp o0 v c with Ok b0 => (Ok b0, es) | Exn e => (Exn e, es) end
                   end
         end)).
  { intros o l. pose proof (sapply_fns_notrace b l x) as Hn. destruct (sapply_fns l x) as [r es]. simpl in Hn.
    destruct r as [v|e]; [|exact Hn]. destruct o as [[o0 c]|]; [|exact Hn]. destruct (py_cmp o0 v c); exact Hn. }
  destruct op as [[o c]|]; [exact (Hgen (Some (o, c)) (rev fs))|]. destruct fs as [|f fs]; [destruct b; reflexivity | exact (Hgen None (rev (f :: fs)))].
Qed.

Lemma apply_fns_noresult fs v : ev_results (snd (@apply_fns json fs v)) = [].
Proof.
  revert v. induction fs as [|[tag f] fs IH]; intros v; simpl; [reflexivity|].
  destruct (f v) as [v'|e]; [|reflexivity]. specialize (IH v'). destruct (apply_fns fs v'). simpl in *. exact IH.
Qed.

Lemma has_test_noresult op fs x : ev_results (snd (@has_test json (fun d => d) op fs x)) = [].
Proof.
  unfold has_test.
  assert (Hgen : forall o l, ev_results (snd (let '(r, es) := @apply_fns json l x in
         match r with
         | Exn e => (Exn e, es)
         | Ok v => match o with
                   | None => (Ok (truthy v), es)
                   | Some (o0, c) => match py_cmp o0 v c with Ok b0 => (Ok b0, es) | Exn e => (Exn e, es) end
                   end
         end)) = []).
  { intros o l. pose proof (apply_fns_noresult l x) as Hn. destruct (apply_fns l x) as [r es]. simpl in Hn.
    destruct r as [v|e]; [|exact Hn]. destruct o as [[o0 c]|]; [|exact Hn]. destruct (py_cmp o0 v c); exact Hn. }
  destruct op as [[o c]|]; [exact (Hgen (Some (o, c)) (rev fs))|]. destruct fs as [|f fs]; [reflexivity | exact (Hgen None (rev (f :: fs)))].
Qed.
