(* HasPresence.v -- the existence filter counts presence, not truthiness (C04).
   has(p) without a comparison, p a path of keys and indices relative to the candidate: true exactly when the position
   p exists below the candidate, whatever value it holds (None, 0, False, '', [] and {} included).
   (Written after seeded change C17-m13, a shortcut that took a member holding null for an absent one.) *)
From Coq Require Import List ZArith String Bool PArith Lia.
From TP Require Import Json PyPrim Machine Api Spec SpecHas Mutate SpecSet.
From TP.proofs Require Import RefineBase Refine NextLayer Iterate WfRun Query SpecLemmas Top HasScan HasLoop HasRefine ApiTop
     HasLemmas FirstNext MutateProofs CsetLemmas CascadeRefine.
Import ListNotations.

Theorem has_presence n (p : list (vertex (@hpred json))) c :
  kipath p = true ->
  fst (seval_h (S n) (HHas p None []) c) =
  Ok (JBool (match lookup (cdata c) p with Some _ => true | None => false end)).
Proof.
  intros Hk. rewrite has_exists. cbv zeta.
  destruct (sem_deval (@hpred json) (seval_h n) p (kipath_pure (seval_h n) p Hk) (kipath_valid p Hk) 0 (Some c) c) as [Hok Hres].
  rewrite Hres. red in Hok.
  destruct (deval_ki (seval_h n) p c Hk) as [(c' & Hd & Hl) | (Hd & Hl)]; rewrite Hd, Hl.
  - reflexivity.
  - rewrite Hok. reflexivity.
Qed.

(* a member holding null is present *)
Example has_presence_null :
  let c := root_ctx (JDict 1 [("x"%string, JNull)]) in
  forall n, fst (seval_h (S n) (HHas [VKey "x"] None []) c) = Ok (JBool true).
Proof. intros c n. unfold c. rewrite has_presence by reflexivity. reflexivity. Qed.
