(* MutateProofs.v -- frame conditions of the mutating functions (C08, C10, C14, parts of C09): an assignment or
   removal touches exactly one slot of exactly one container (identified by its identity label); everything
   outside that container is literally unchanged; every failure leaves the document unchanged. *)
From Coq Require Import List ZArith String Bool PArith Lia.
From TP Require Import Json PyPrim Machine Api Mutate.
Import ListNotations.
Close Scope Z_scope.
Open Scope list_scope.

(* ------------------------------------------------------------------ dict / list slots *)
Lemma dict_set_same {A} (l : list (string * A)) k v : assoc k (dict_set l k v) = Some v.
Proof.
  induction l as [|[k' v'] l IH]; simpl; [rewrite String.eqb_refl; reflexivity|].
  destruct (String.eqb k k') eqn:E; simpl; rewrite E; [reflexivity | exact IH].
Qed.

Lemma dict_set_other {A} (l : list (string * A)) k k' v : k' <> k -> assoc k' (dict_set l k v) = assoc k' l.
Proof.
  intros Hne. induction l as [|[k0 v0] l IH]; simpl.
  - destruct (String.eqb k' k) eqn:E; [apply String.eqb_eq in E; congruence | reflexivity].
  - destruct (String.eqb k k0) eqn:E; simpl.
    + apply String.eqb_eq in E. subst k0. destruct (String.eqb k' k) eqn:E2; [apply String.eqb_eq in E2; congruence | reflexivity].
    + destruct (String.eqb k' k0); [reflexivity | exact IH].
Qed.

(* an overwrite keeps the key's position, a new key goes last: key order is otherwise untouched *)
Lemma dict_set_keys {A} (l : list (string * A)) k v :
  map fst (dict_set l k v) = match assoc k l with Some _ => map fst l | None => map fst l ++ [k] end.
Proof.
  induction l as [|[k' v'] l IH]; simpl; [reflexivity|].
  destruct (String.eqb k k') eqn:E; simpl.
  - apply String.eqb_eq in E. subst. reflexivity.
  - rewrite IH. destruct (assoc k l); reflexivity.
Qed.

Lemma dict_remove_other {A} (l : list (string * A)) k k' : k' <> k -> assoc k' (dict_remove l k) = assoc k' l.
Proof.
  intros Hne. induction l as [|[k0 v0] l IH]; simpl; [reflexivity|].
  destruct (String.eqb k k0) eqn:E; simpl.
  - apply String.eqb_eq in E. subst k0. destruct (String.eqb k' k) eqn:E2; [apply String.eqb_eq in E2; congruence | reflexivity].
  - destruct (String.eqb k' k0); [reflexivity | exact IH].
Qed.

Lemma set_nth_length {A} (l : list A) k v : List.length (set_nth l k v) = List.length l.
Proof. revert k. induction l as [|x l IH]; intros [|k]; simpl; auto. Qed.

Lemma set_nth_same {A} (l : list A) k v : k < List.length l -> nth_error (set_nth l k v) k = Some v.
Proof. revert k. induction l as [|x l IH]; intros [|k] H; simpl in *; try lia; auto. apply IH. lia. Qed.

Lemma set_nth_other {A} (l : list A) k j v : j <> k -> nth_error (set_nth l k v) j = nth_error l j.
Proof. revert k j. induction l as [|x l IH]; intros [|k] [|j] H; simpl; try congruence; auto. Qed.

Lemma del_nth_before {A} (l : list A) k j : j < k -> nth_error (del_nth l k) j = nth_error l j.
Proof. revert k j. induction l as [|x l IH]; intros [|k] [|j] H; simpl; try lia; auto. apply IH. lia. Qed.

(* later list items move down by one *)
Lemma del_nth_after {A} (l : list A) k j : k <= j -> nth_error (del_nth l k) j = nth_error l (S j).
Proof. revert k j. induction l as [|x l IH]; intros [|k] [|j] H; simpl; try lia; auto. apply IH. lia. Qed.

(* ------------------------------------------------------------------ mutation by identity *)
Lemma replace_twice i c' X d :
  label_of c' = Some i -> replace_by_id i X (replace_by_id i c' d) = replace_by_id i X d.
Proof.
  intros Hl. induction d as [| b | z | h | s | j l IH | j l IH] using json_ind'; try reflexivity.
  - simpl. destruct (Nat.eqb i j) eqn:E.
    + destruct c'; simpl in Hl; try discriminate; injection Hl as ->; simpl; rewrite Nat.eqb_refl; reflexivity.
    + simpl. rewrite E. f_equal. rewrite map_map. apply map_ext_in. intros x Hin.
      rewrite Forall_forall in IH. apply IH. exact Hin.
  - simpl. destruct (Nat.eqb i j) eqn:E.
    + destruct c'; simpl in Hl; try discriminate; injection Hl as ->; simpl; rewrite Nat.eqb_refl; reflexivity.
    + simpl. rewrite E. f_equal. rewrite map_map. apply map_ext_in. intros [k x] Hin. simpl. f_equal.
      rewrite Forall_forall in IH. apply (IH (k, x)). exact Hin.
Qed.

Lemma setitem_label nm v c c' i : setitem nm v c = Ok (tt, c') -> label_of c = Some i -> label_of c' = Some i.
Proof.
  unfold setitem. destruct c, nm; simpl; try discriminate.
  - destruct (list_set items z v); intros H; try discriminate. injection H as <-. auto.
  - intros H; injection H as <-. auto.
Qed.

Lemma delitem_label nm c c' i : delitem nm c = Ok (tt, c') -> label_of c = Some i -> label_of c' = Some i.
Proof.
  unfold delitem. destruct c, nm; simpl; try discriminate.
  - destruct (list_del items z); intros H; try discriminate. injection H as <-. auto.
  - destruct (dict_pop items s) as [[? ?]|]; intros H; try discriminate. injection H as <-. auto.
Qed.

Lemma find_by_id_label i d c : find_by_id i d = Some c -> label_of c = Some i.
Proof.
  revert c. induction d as [| b | z | h | s | j l IH | j l IH] using json_ind'; intros c; simpl; try discriminate.
  - destruct (Nat.eqb i j) eqn:E; [intros H; injection H as <-; apply Nat.eqb_eq in E; subst; reflexivity|].
    induction l as [|x l IHl]; [discriminate|]. inversion IH; subst.
    destruct (find_by_id i x) eqn:Ex; [intros H; injection H as <-; auto | auto].
  - destruct (Nat.eqb i j) eqn:E; [intros H; injection H as <-; apply Nat.eqb_eq in E; subst; reflexivity|].
    induction l as [|[k x] l IHl]; [discriminate|]. inversion IH; subst. simpl in *.
    destruct (find_by_id i x) eqn:Ex; [intros H; injection H as <-; auto | auto].
Qed.

(* the document with container i cut out: what "everything else" means *)
Definition outside (i : nat) (d : json) : json := replace_by_id i JNull d.

(* an in-place operation on the object labelled i changes nothing outside that object, and nothing at all
   when it raises *)
Theorem mutate_frame {A} doc target (f : json -> res (A * json)) r doc' i :
  mutate doc target f = (r, doc') -> label_of target = Some i ->
  (forall c a c', f c = Ok (a, c') -> label_of c = Some i -> label_of c' = Some i) ->
  outside i doc' = outside i doc /\ (forall e, r = Exn e -> doc' = doc).
Proof.
  intros Hm Hl Hf. unfold mutate in Hm. rewrite Hl in Hm.
  set (cur := match find_by_id i doc with Some c => c | None => target end) in *.
  assert (Hcur : label_of cur = Some i).
  { unfold cur. destruct (find_by_id i doc) eqn:E; [eapply find_by_id_label; eauto | exact Hl]. }
  destruct (f cur) as [[a c']|e] eqn:Ef; injection Hm as <- <-.
  - split; [|discriminate]. unfold outside. apply replace_twice. eapply Hf; eauto.
  - split; [reflexivity | auto].
Qed.

Section WithModel.
Variable B : positive.
Variable H : positive.
Variable depth : nat.

Notation leaf_set := (leaf_set).
Notation set_match := (set_match B H depth).
Notation pop_match := (pop_match B H depth).

(* ------------------------------------------------------------------ set_ *)
Theorem leaf_set_failure_unchanged doc pm v x e doc' :
  leaf_set doc pm v x = (Exn e, doc') -> doc' = doc.
Proof.
  unfold Mutate.leaf_set. destruct v; try (intros Hx; injection Hx as _ <-; reflexivity).
  - destruct (tdata pm) eqn:Hd; try (intros Hx; injection Hx as _ <-; reflexivity).
    destruct (mutate doc (JDict id items) (setitem (NStr k) x)) as [[u|e0] d2] eqn:Hm; intros Hx; try discriminate.
    injection Hx as <- <-.
    destruct (mutate_frame doc (JDict id items) (setitem (NStr k) x) (Exn e0) d2 id Hm eq_refl) as [_ Hu].
    { intros c [] c' Hs Hlab. eapply setitem_label; eauto. }
    eapply Hu; eauto.
  - destruct (tdata pm) eqn:Hd; try (intros Hx; injection Hx as _ <-; reflexivity).
    match goal with |- context [mutate doc ?t ?f] => destruct (mutate doc t f) as [[u|e0] d2] eqn:Hm end;
      intros Hx; try discriminate.
    injection Hx as <- <-.
    match type of Hm with mutate _ _ ?f = _ =>
      destruct (mutate_frame doc (JList id items) f (Exn e0) d2 id Hm eq_refl) as [_ Hu] end.
    { intros c [] c' Hs Hlab. destruct c; try discriminate.
      destruct (list_set items0 i x); [|destruct (Z.eqb (zlen items0) i)]; try discriminate; injection Hs as <-; exact Hlab. }
    eapply Hu; eauto.
Qed.

(* a successful assignment changes nothing outside the container of the first parent match, and the returned
   match holds the assigned value under the name of the last step *)
Theorem leaf_set_success_frame doc pm v x m doc' :
  leaf_set doc pm v x = (Ok m, doc') ->
  exists i, label_of (tdata pm) = Some i /\ outside i doc' = outside i doc /\
            tdata m = x /\ parent m = Some pm /\
            ((exists k, v = VKey k /\ data_name m = NStr k) \/ (exists z, v = VIdx z /\ data_name m = NInt z)).
Proof.
  unfold Mutate.leaf_set. destruct v; try discriminate.
  - destruct (tdata pm) eqn:Hd; try discriminate.
    destruct (mutate doc (JDict id items) (setitem (NStr k) x)) as [[u|e0] d2] eqn:Hm; intros Hx; try discriminate.
    injection Hx as <- <-. exists id. split; [reflexivity|].
    destruct (mutate_frame doc (JDict id items) (setitem (NStr k) x) (Ok u) d2 id Hm eq_refl) as [Ho _].
    { intros c [] c' Hs Hlab. eapply setitem_label; eauto. }
    split; [exact Ho|]. repeat split. left. exists k. auto.
  - destruct (tdata pm) eqn:Hd; try discriminate.
    match goal with |- context [mutate doc ?t ?f] => destruct (mutate doc t f) as [[u|e0] d2] eqn:Hm end;
      intros Hx; try discriminate.
    injection Hx as <- <-. exists id. split; [reflexivity|].
    match type of Hm with mutate _ _ ?f = _ =>
      destruct (mutate_frame doc (JList id items) f (Ok u) d2 id Hm eq_refl) as [Ho _] end.
    { intros c [] c' Hs Hlab. destruct c; try discriminate.
      destruct (list_set items0 i x); [|destruct (Z.eqb (zlen items0) i)]; try discriminate; injection Hs as <-; exact Hlab. }
    split; [exact Ho|]. repeat split. right. exists i. auto.
Qed.

(* set_ / set_match without cascade: SetError (or any other failure) leaves the document unchanged *)
Theorem set_match_failure_unchanged fuel src doc p x tr nl e doc' nl' es :
  set_match fuel src doc p x false tr nl = (Exn e, doc', nl', es) -> doc' = doc.
Proof.
  destruct fuel as [|fuel]; simpl; [intros Hx; injection Hx as _ <- _ _; reflexivity|].
  destruct (split_last p) as [[pp v]|]; [|intros Hx; injection Hx as _ <- _ _; reflexivity].
  match goal with |- context [jget_match ?a ?b ?c ?d ?e ?f ?g] => destruct (jget_match a b c d e f g) as [[[pm|]|e0] es0] end.
  - destruct (Mutate.leaf_set doc pm v x) as [[m|e1] d2] eqn:Hl; intros Hx; try discriminate.
    injection Hx as <- <- _ _. eapply leaf_set_failure_unchanged; eauto.
  - intros Hx; injection Hx as _ <- _ _; reflexivity.
  - destruct e0; intros Hx; injection Hx as _ <- _ _; reflexivity.
Qed.

(* the target is the root: SetError, nothing else (repaired defect D3) *)
Theorem set_match_root fuel src doc x cascade tr nl :
  set_match (S fuel) src doc [] x cascade tr nl = (Exn ESet, doc, nl, []).
Proof. reflexivity. Qed.

(* success without cascade: the parent path had a first match, and the leaf step assigned there *)
Theorem set_match_success fuel src doc p x tr nl m doc' nl' es :
  set_match fuel src doc p x false tr nl = (Ok m, doc', nl', es) ->
  exists pp v pm, split_last p = Some (pp, v) /\ leaf_set doc pm v x = (Ok m, doc') /\ nl' = nl.
Proof.
  destruct fuel as [|fuel]; simpl; [discriminate|].
  destruct (split_last p) as [[pp v]|]; [|discriminate].
  match goal with |- context [jget_match ?a ?b ?c ?d ?e ?f ?g] => destruct (jget_match a b c d e f g) as [[[pm|]|e0] es0] end.
  - destruct (Mutate.leaf_set doc pm v x) as [[m0|e1] d2] eqn:Hl; intros Hx; try discriminate.
    injection Hx as <- <- <- _. exists pp, v, pm. auto.
  - discriminate.
  - destruct e0; discriminate.
Qed.

(* ------------------------------------------------------------------ pop *)
Theorem leaf_pop_frame doc m v r doc' :
  leaf_pop doc m v = (r, doc') ->
  (forall e, r = Exn e -> doc' = doc) /\
  (forall u, r = Ok u -> exists pm i, parent m = Some pm /\ label_of (tdata pm) = Some i /\ outside i doc' = outside i doc).
Proof.
  unfold leaf_pop. destruct v; try (intros Hx; injection Hx as <- <-; split; [auto | discriminate]).
  - destruct (parent m) as [pm|]; [|intros Hx; injection Hx as <- <-; split; [auto | discriminate]].
    destruct (tdata pm) eqn:Hd; try (intros Hx; injection Hx as <- <-; split; [auto | discriminate]).
    intros Hm.
    destruct (mutate_frame doc (JDict id items) (delitem (NStr k)) r doc' id Hm eq_refl) as [Ho Hu].
    { intros c [] c' Hs Hlab. eapply delitem_label; eauto. }
    split; [exact Hu|]. intros u _. exists pm, id. rewrite Hd. auto.
  - destruct (parent m) as [pm|]; [|intros Hx; injection Hx as <- <-; split; [auto | discriminate]].
    destruct (tdata pm) eqn:Hd; try (intros Hx; injection Hx as <- <-; split; [auto | discriminate]).
    intros Hm.
    destruct (mutate_frame doc (JList id items) (delitem (NInt i)) r doc' id Hm eq_refl) as [Ho Hu].
    { intros c [] c' Hs Hlab. eapply delitem_label; eauto. }
    split; [exact Hu|]. intros u _. exists pm, id. rewrite Hd. auto.
Qed.

(* pop / pop_match: no match, an unsupported last step, or any failure: the document is unchanged *)
Theorem pop_match_unchanged src doc p must tr r doc' es :
  pop_match src doc p must tr = (r, doc', es) ->
  (r = Ok None \/ exists e, r = Exn e) -> doc' = doc.
Proof.
  unfold Mutate.pop_match.
  match goal with |- context [jget_match ?a ?b ?c ?d ?e ?f ?g] => destruct (jget_match a b c d e f g) as [[[m|]|e0] es0] end.
  - destruct (split_last p) as [[pp v]|]; [|intros Hx; injection Hx as _ <- _; reflexivity].
    destruct (leaf_pop doc m v) as [[u|e1] d2] eqn:Hl; intros Hx; injection Hx as <- <- _; intros [Hn | [e Hn]]; try discriminate.
    destruct (leaf_pop_frame doc m v (Exn e1) d2 Hl) as [Hu _]. eapply Hu; eauto.
  - intros Hx; injection Hx as _ <- _; reflexivity.
  - intros Hx; injection Hx as _ <- _; reflexivity.
Qed.

Theorem pop_match_success src doc p must tr m doc' es :
  pop_match src doc p must tr = (Ok (Some m), doc', es) ->
  exists pp v pm i, split_last p = Some (pp, v) /\ parent m = Some pm /\ label_of (tdata pm) = Some i /\
                    outside i doc' = outside i doc /\ ((exists k, v = VKey k) \/ (exists z, v = VIdx z)).
Proof.
  unfold Mutate.pop_match.
  match goal with |- context [jget_match ?a ?b ?c ?d ?e ?f ?g] => destruct (jget_match a b c d e f g) as [[[m0|]|e0] es0] end; try discriminate.
  destruct (split_last p) as [[pp v]|]; [|discriminate].
  destruct (leaf_pop doc m0 v) as [[u|e1] d2] eqn:Hl; intros Hx; try discriminate. injection Hx as <- <- _.
  destruct (leaf_pop_frame doc m0 v (Ok u) d2 Hl) as [_ Hs]. destruct (Hs u eq_refl) as (pm & i & Hp & Hlab & Ho).
  exists pp, v, pm, i. repeat split; auto.
  unfold leaf_pop in Hl. destruct v; try discriminate; [left | right]; eauto.
Qed.

End WithModel.

(* ------------------------------------------------------------------ the Match facade (C14) *)
Theorem match_assign_frame doc m x r doc' :
  match_assign doc m x = (r, doc') ->
  (forall e, r = Exn e -> doc' = doc) /\
  (forall u, r = Ok u -> exists pm i, parent m = Some pm /\ label_of (tdata pm) = Some i /\ outside i doc' = outside i doc).
Proof.
  unfold match_assign. destruct (parent m) as [pm|]; [|intros Hx; injection Hx as <- <-; split; [auto | discriminate]].
  intros Hm. destruct (label_of (tdata pm)) as [i|] eqn:Hl.
  - destruct (mutate_frame doc (tdata pm) (setitem (data_name m) x) r doc' i Hm Hl) as [Ho Hu].
    { intros c [] c' Hs Hlab. eapply setitem_label; eauto. }
    split; [exact Hu|]. intros u _. exists pm, i. auto.
  - unfold mutate in Hm. rewrite Hl in Hm.
    destruct (setitem (data_name m) x (tdata pm)) as [[u c]|e] eqn:Hs; injection Hm as <- <-.
    + exfalso. unfold setitem in Hs. destruct (tdata pm); simpl in Hl; try discriminate; destruct (data_name m); discriminate.
    + split; [auto | discriminate].
Qed.

Theorem match_del_frame doc m r doc' :
  match_del doc m = (r, doc') ->
  (forall e, r = Exn e -> doc' = doc) /\
  (forall u, r = Ok u -> exists pm i, parent m = Some pm /\ label_of (tdata pm) = Some i /\ outside i doc' = outside i doc).
Proof.
  unfold match_del. destruct (parent m) as [pm|]; [|intros Hx; injection Hx as <- <-; split; [auto | discriminate]].
  destruct (mutate doc (tdata pm) (delitem (data_name m))) as [r0 d2] eqn:Hm.
  destruct (label_of (tdata pm)) as [i|] eqn:Hl.
  - destruct (mutate_frame doc (tdata pm) (delitem (data_name m)) r0 d2 i Hm Hl) as [Ho Hu].
    { intros c [] c' Hs Hlab. eapply delitem_label; eauto. }
    destruct r0 as [u|e]; intros Hx; injection Hx as <- <-.
    + split; [discriminate|]. intros u0 _. exists pm, i. auto.
    + split; [|discriminate]. intros e0 _. eapply Hu; eauto.
  - unfold mutate in Hm. rewrite Hl in Hm.
    destruct (delitem (data_name m) (tdata pm)) as [[u c]|e] eqn:Hs; injection Hm as <- <-.
    + exfalso. unfold delitem in Hs. destruct (tdata pm); simpl in Hl; try discriminate; destruct (data_name m); discriminate.
    + intros Hx; injection Hx as <- <-. split; [auto | discriminate].
Qed.

(* removing an entry that no longer exists raises PopError *)
Theorem match_del_missing doc m pm i its k :
  parent m = Some pm -> tdata pm = JDict i its -> data_name m = NStr k ->
  match find_by_id i doc with Some (JDict _ cur) => assoc k cur = None | _ => False end ->
  match_del doc m = (Exn EPop, doc).
Proof.
  intros Hp Hd Hn Hcur. unfold match_del. rewrite Hp, Hd, Hn. unfold mutate. simpl.
  destruct (find_by_id i doc) as [c|]; [|contradiction]. destruct c; try contradiction.
  simpl. unfold dict_pop. rewrite Hcur. reflexivity.
Qed.
