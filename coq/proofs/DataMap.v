(* DataMap.v -- the traverser is parametric in its data interface.
   If f : D1 -> D2 carries the one-level structure of every D1 node to that of its image
   (shape2 (f d) = map_shp f (shape1 d)), and predicates are carried along by g with their evaluation commuting,
   then every action of the machine on D2 data is the f-image of the action on D1 data: same program counters,
   same store shape, same results (mapped), same events (mapped).  Consequence: a search over a finite heap in
   which one container object is referenced from several places (a document that is a DAG, not a tree) behaves
   exactly as the search over the heap's unfolding into a JSON tree, for which the tree theorems hold.
   Proof file. *)
From Coq Require Import List ZArith String Bool PArith FMapPositive Lia.
From TP Require Import Json PyPrim Machine.
Import ListNotations.
Open Scope list_scope.

Definition map_shp {A B} (f : A -> B) (s : shp A) : shp B :=
  match s with
  | SDict its => SDict (map (fun kx => (fst kx, f (snd kx))) its)
  | SList its => SList (map f its)
  | SScalar => SScalar
  end.

Definition map_vx {P1 P2} (g : P1 -> P2) (v : vertex P1) : vertex P2 :=
  match v with
  | VKey k => VKey k | VIdx i => VIdx i | VSlice a b c => VSlice a b c | VTuple l => VTuple l
  | VKeyWild => VKeyWild | VIdxWild => VIdxWild | VGenWild d => VGenWild d | VRec => VRec | VParent => VParent
  | VPred p => VPred (g p)
  end.

Section DataMap.
Context {D1 D2 : Type}.
Variable f : D1 -> D2.
Variable shape1 : D1 -> shp D1.
Variable shape2 : D2 -> shp D2.
Hypothesis Hshape : forall d, shape2 (f d) = map_shp f (shape1 d).

Notation tm1 := (@tm D1).
Notation tm2 := (@tm D2).

Fixpoint mtm (m : tm1) : tm2 :=
  match m with
  | TRoot i d => TRoot i (f d)
  | TNRoot i o d => TNRoot i (mtm o) (f d)
  | TKey i rp k d x y => TKey i (mtm rp) k (f d) x y
  | TIdx i rp z d x y => TIdx i (mtm rp) z (f d) x y
  | TImag i rp d x y => TImag i (mtm rp) (f d) x y
  | TPar i rem rp nm d x y => TPar i (mtm rem) (mtm rp) nm (f d) x y
  end.

Definition miter (its : @iter D1) : @iter D2 := map (fun nx => (fst nx, f (snd nx))) its.
Definition mmut (m : @mut D1) : @mut D2 :=
  {| cs := option_map miter (cs m); ocm := option_map mtm (ocm m); oca := oca m |}.
Definition mstore (s : @store D1) : @store D2 := PositiveMap.map mmut s.
Definition mstate (z : @state D1) : @state D2 :=
  {| cur := option_map mtm (cur z); pc := pc z; st := mstore (st z); nid := nid z |}.
Definition mtr (t : @tracecfg D1) : @tracecfg D2 := option_map (option_map mtm) t.
Definition mev (e : @event D1) : @event D2 :=
  match e with
  | EvTrace l n vi pm => EvTrace (mtm l) (option_map mtm n) vi (option_map mtm pm)
  | EvCall t m => EvCall t (mtm m)
  | EvCallF t a => EvCallF t a
  | EvResult m => EvResult (mtm m)
  end.
Definition msrc (s : @source D1) : @source D2 :=
  match s with SrcDoc d => SrcDoc (f d) | SrcMatch o => SrcMatch (mtm o) end.

Variables P1 P2 : Type.
Variable g : P1 -> P2.
Variable ev1 : P1 -> tm1 -> @tracecfg D1 -> res json * list (@event D1).
Variable ev2 : P2 -> tm2 -> @tracecfg D2 -> res json * list (@event D2).
Hypothesis Hev : forall p m t, ev2 (g p) (mtm m) (mtr t) = (fst (ev1 p m t), map mev (snd (ev1 p m t))).

(* ------------------------------------------------------------------ projections *)
Lemma tid_m m : tid (mtm m) = tid m. Proof. destruct m; reflexivity. Qed.
Lemma tdata_m m : tdata (mtm m) = f (tdata m). Proof. destruct m; reflexivity. Qed.
Lemma tvx_m m : tvx (mtm m) = tvx m. Proof. destruct m; reflexivity. Qed.
Lemma tvi_m m : tvi (mtm m) = tvi m. Proof. destruct m; reflexivity. Qed.
Lemma real_parent_m m : real_parent (mtm m) = option_map mtm (real_parent m). Proof. destruct m; reflexivity. Qed.
Lemma is_root_m m : is_root (mtm m) = is_root m. Proof. destruct m; reflexivity. Qed.
Lemma data_name_m m : data_name (mtm m) = data_name m.
Proof. induction m; simpl; auto. Qed.
Lemma remembered_parent_m m : remembered_parent (mtm m) = option_map mtm (remembered_parent m).
Proof. induction m; simpl; auto. Qed.
Lemma parent_m m : parent (mtm m) = option_map mtm (parent m).
Proof. induction m; simpl; auto. Qed.
Lemma path_match_list_m m : path_match_list (mtm m) = map mtm (path_match_list m).
Proof. induction m; simpl; auto; rewrite map_app; simpl; congruence. Qed.

(* ------------------------------------------------------------------ the store *)
Lemma xmapi_add {A B} (h : A -> B) i v (s : PositiveMap.t A) j :
  PositiveMap.xmapi (fun _ => h) (PositiveMap.add i v s) j = PositiveMap.add i (h v) (PositiveMap.xmapi (fun _ => h) s j).
Proof.
  revert s j; induction i as [i IH|i IH|]; intros s j; destruct s as [|l o r]; simpl; try reflexivity;
    try (rewrite IH; reflexivity).
Qed.

Lemma sset_m s i m : mstore (sset s i m) = sset (mstore s) i (mmut m).
Proof. unfold mstore, sset, PositiveMap.map, PositiveMap.mapi. apply xmapi_add. Qed.

Lemma sget_m s i : sget (mstore s) i = mmut (sget s i).
Proof.
  unfold sget, mstore, PositiveMap.map. rewrite PositiveMap.gmapi.
  destruct (PositiveMap.find i s); reflexivity.
Qed.

Lemma mstore_empty : mstore (PositiveMap.empty _) = PositiveMap.empty _.
Proof. reflexivity. Qed.

Lemma remember_m m its s : mstore (remember m its s) = remember (mtm m) (miter its) (mstore s).
Proof. unfold remember. rewrite sset_m, tid_m. reflexivity. Qed.

Lemma restore_m m s : mstore (restore m s) = restore (mtm m) (mstore s).
Proof.
  unfold restore. rewrite real_parent_m, is_root_m, tid_m.
  destruct (real_parent m) as [rp|]; simpl.
  - destruct (is_root m); rewrite sset_m; [reflexivity|].
    rewrite tid_m, sget_m. reflexivity.
  - rewrite sset_m. reflexivity.
Qed.

Lemma alloc_m m s n : mstore (alloc m s n) = alloc (mtm m) (mstore s) n.
Proof. unfold alloc. rewrite sset_m, tid_m, sget_m. reflexivity. Qed.

Lemma child_m n m nm x a b : mtm (child n m nm x a b) = child n (mtm m) nm (f x) a b.
Proof. destruct nm; reflexivity. Qed.

(* ------------------------------------------------------------------ results of applying a vertex *)
Definition mvres (r : @vres D1) : @vres D2 :=
  let '(o, s, n, evs) := r in
  (match o with Ok x => Ok (option_map mtm x) | Exn e => Exn e end, mstore s, n, map mev evs).

Lemma pop_next_m m i s n : pop_next (mtm m) i (mstore s) n = mvres (pop_next m i s n).
Proof.
  unfold pop_next. rewrite tid_m, sget_m.
  destruct (cs (sget s (tid m))) as [[|[nm x] rest]|] eqn:E; simpl; try rewrite E; simpl.
  - rewrite restore_m. reflexivity.
  - rewrite alloc_m, sset_m, child_m. reflexivity.
  - reflexivity.
Qed.

Lemma assoc_m {A B} (h : A -> B) k (l : list (string * A)) :
  assoc k (map (fun kx => (fst kx, h (snd kx))) l) = option_map h (assoc k l).
Proof. induction l as [|[k' v] r IH]; simpl; [reflexivity|]. destruct (String.eqb k k'); auto. Qed.

Lemma zlen_map {A B} (h : A -> B) l : zlen (map h l) = zlen l.
Proof. unfold zlen. rewrite map_length. reflexivity. Qed.

Lemma list_get_m {A B} (h : A -> B) l i :
  list_get (map h l) i = match list_get l i with Ok x => Ok (h x) | Exn e => Exn e end.
Proof.
  unfold list_get. rewrite zlen_map. destruct (norm_index (zlen l) i) as [k|]; [|reflexivity].
  rewrite nth_error_map. destruct (nth_error l k); reflexivity.
Qed.

Lemma enum_from_m {A B} (h : A -> B) l i :
  enum_from i (map h l) = map (fun ix => (fst ix, h (snd ix))) (enum_from i l).
Proof. revert i; induction l as [|x r IH]; intros i; simpl; [reflexivity|]. rewrite IH. reflexivity. Qed.

Lemma dict_iter_m its : dict_iter (map (fun kx => (fst kx, f (snd kx))) its) = miter (dict_iter its).
Proof. unfold dict_iter, miter. rewrite !map_map. reflexivity. Qed.

Lemma list_iter_m its : list_iter (map f its) = miter (list_iter its).
Proof. unfold list_iter, miter, enumerate. rewrite enum_from_m, !map_map. reflexivity. Qed.

Lemma flat_map_map_out {A B C} (h : B -> C) (k : A -> list B) l :
  map h (flat_map k l) = flat_map (fun a => map h (k a)) l.
Proof. induction l as [|a r IH]; simpl; [reflexivity|]. rewrite map_app, IH. reflexivity. Qed.

Lemma tuple_iter_dict_m l its :
  tuple_iter_dict l (map (fun kx => (fst kx, f (snd kx))) its) = miter (tuple_iter_dict l its).
Proof.
  unfold tuple_iter_dict, miter. rewrite flat_map_map_out. apply flat_map_ext. intros [k|z]; [|reflexivity].
  rewrite assoc_m. destruct (assoc k its); reflexivity.
Qed.

Lemma tuple_iter_list_m l its : tuple_iter_list l (map f its) = miter (tuple_iter_list l its).
Proof.
  unfold tuple_iter_list, miter. rewrite flat_map_map_out. apply flat_map_ext. intros [k|z]; [reflexivity|].
  rewrite list_get_m. destruct (list_get its z); reflexivity.
Qed.

Lemma enumerate_slice_m a b c its :
  enumerate_slice a b c (map f its) =
  match enumerate_slice a b c its with Ok l => Ok (map (fun ix => (fst ix, f (snd ix))) l) | Exn e => Exn e end.
Proof.
  unfold enumerate_slice. rewrite zlen_map.
  destruct ((match c with Some s => s | None => 1 end =? 0)%Z); [reflexivity|].
  destruct (slice_indices a b _ (zlen its)) as [s e].
  f_equal. rewrite flat_map_map_out. apply flat_map_ext. intros i.
  rewrite nth_error_map. destruct (nth_error its (Z.to_nat i)); reflexivity.
Qed.

Definition mitems (r : res (option (@iter D1))) : res (option (@iter D2)) :=
  match r with Ok o => Ok (option_map miter o) | Exn e => Exn e end.

Lemma items_for_m v d : items_for shape2 P2 (map_vx g v) (f d) = mitems (items_for shape1 P1 v d).
Proof.
  unfold items_for. rewrite Hshape.
  destruct v; simpl; destruct (shape1 d) as [its|its|]; simpl; try reflexivity;
    rewrite ?dict_iter_m, ?list_iter_m, ?tuple_iter_dict_m, ?tuple_iter_list_m; try reflexivity.
  rewrite enumerate_slice_m. destruct (enumerate_slice a b c its); simpl; [|reflexivity].
  unfold miter. rewrite !map_map. reflexivity.
Qed.

Lemma multi_m v m i s n :
  multi shape2 P2 (map_vx g v) (mtm m) i (mstore s) n = mvres (multi shape1 P1 v m i s n).
Proof.
  unfold multi. rewrite tid_m, sget_m, tdata_m, items_for_m. cbn [cs mmut].
  destruct (cs (sget s (tid m))) as [its|] eqn:E; simpl.
  - apply pop_next_m.
  - destruct (items_for shape1 P1 v (tdata m)) as [[its|]|e]; simpl; try reflexivity.
    rewrite <- remember_m. apply pop_next_m.
Qed.

Lemma items_for_rec d : items_for shape2 P2 VRec (f d) = mitems (items_for shape1 P1 VRec d).
Proof. exact (items_for_m VRec d). Qed.

Lemma vrec_m m i s n : vrec shape2 P2 (mtm m) i (mstore s) n = mvres (vrec shape1 P1 m i s n).
Proof.
  unfold vrec. rewrite tid_m, sget_m, tdata_m.
  cbn [cs mmut ocm oca].
  destruct (cs (sget s (tid m))) as [[|[nm x] rest]|] eqn:E; cbn [option_map miter map fst snd].
  - unfold mvres. rewrite restore_m. reflexivity.
  - rewrite items_for_rec.
    destruct (items_for shape1 P1 VRec x) as [[its|]|e]; simpl;
      rewrite ?alloc_m, ?remember_m, ?alloc_m, ?sset_m, ?child_m; reflexivity.
  - rewrite items_for_rec.
    destruct (items_for shape1 P1 VRec (tdata m)) as [[its|]|e]; simpl; try reflexivity.
    rewrite alloc_m, remember_m. reflexivity.
Qed.

Lemma vmatch_m v m i t s n :
  vmatch shape2 P2 ev2 (map_vx g v) (mtm m) i (mtr t) (mstore s) n = mvres (vmatch shape1 P1 ev1 v m i t s n).
Proof.
  destruct v; try apply (multi_m _ m i s n).
  - simpl. rewrite tdata_m, Hshape. destruct (shape1 (tdata m)) as [its|its|]; simpl; try reflexivity.
    rewrite assoc_m. destruct (assoc k its); simpl; [rewrite alloc_m|]; reflexivity.
  - simpl. rewrite tdata_m, Hshape. destruct (shape1 (tdata m)) as [its|its|]; simpl; try reflexivity.
    rewrite list_get_m. destruct (list_get its i0); simpl; [rewrite alloc_m|]; reflexivity.
  - apply vrec_m.
  - simpl. rewrite remembered_parent_m. destruct (remembered_parent m) as [rem|]; simpl; [|reflexivity].
    rewrite alloc_m, data_name_m, tdata_m. reflexivity.
  - simpl. rewrite Hev. destruct (ev1 p m t) as [[v|e] evs]; simpl; [|reflexivity].
    destruct (truthy v); simpl; [rewrite alloc_m, tdata_m|]; reflexivity.
Qed.

(* ------------------------------------------------------------------ one action *)
Definition msres (r : @sres D1) : @sres D2 :=
  match r with
  | SNext z evs b => SNext (mstate z) (map mev evs) b
  | SRaise e z evs => SRaise e (mstate z) (map mev evs)
  end.

Lemma trace_ev_m t m r i : trace_ev (mtr t) (mtm m) (option_map mtm r) i = map mev (trace_ev t m r i).
Proof. destruct t; reflexivity. Qed.

Lemma nth_error_map_vx (vp : list (vertex P1)) k :
  nth_error (map (map_vx g) vp) k = option_map (map_vx g) (nth_error vp k).
Proof. apply nth_error_map. Qed.

Theorem step_m src vp t z :
  step shape2 P2 ev2 (msrc src) (map (map_vx g) vp) (mtr t) (mstate z) = msres (step shape1 P1 ev1 src vp t z).
Proof.
  unfold step. destruct z as [c p s n]; simpl. destruct p; simpl.
  - (* PInit *)
    unfold mstate; simpl. destruct src as [d|o]; simpl; rewrite sset_m; try rewrite tdata_m; reflexivity.
  - (* PReport *)
    destruct c as [m|]; simpl; [|reflexivity].
    rewrite tvx_m, map_length. destruct (Nat.eqb (tvx m) (List.length vp)); reflexivity.
  - (* PMatch *)
    destruct c as [m|]; simpl; [|reflexivity].
    rewrite tvi_m, nth_error_map_vx. destruct (nth_error vp (tvi m)) as [v|]; simpl; [|reflexivity].
    rewrite vmatch_m. destruct (vmatch shape1 P1 ev1 v m (S (tvi m)) t s n) as [[[[[c'|]|e] s'] n'] evs]; simpl.
    + rewrite map_app, <- trace_ev_m. reflexivity.
    + rewrite tid_m, sget_m, map_app, <- (trace_ev_m t m None). reflexivity.
    + reflexivity.
  - (* PCatch *)
    destruct c as [m|]; simpl; [|reflexivity].
    rewrite tid_m, sget_m. reflexivity.
  - (* PDone *) reflexivity.
Qed.

(* ------------------------------------------------------------------ __next__ *)
Definition macc (a : @acc D1) : @acc D2 := (mstate (fst a), map mev (snd a)).
Definition mout (o : @outcome D1) : @outcome D2 :=
  match o with OResult m => OResult (mtm m) | ORaise e => ORaise e end.

Lemma rev_append_m es evs : rev_append (map mev es) (map mev evs) = map mev (rev_append es evs).
Proof. revert evs; induction es as [|e r IH]; intros evs; simpl; [reflexivity|]. rewrite <- IH. reflexivity. Qed.

Definition mbody (r : @acc D1 + (@outcome D1 * @acc D1)) : @acc D2 + (@outcome D2 * @acc D2) :=
  match r with inl a => inl (macc a) | inr (o, a) => inr (mout o, macc a) end.

Lemma next_body_m src vp t a :
  next_body shape2 P2 ev2 (msrc src) (map (map_vx g) vp) (mtr t) (macc a) = mbody (next_body shape1 P1 ev1 src vp t a).
Proof.
  destruct a as [z evs]. unfold next_body, macc; simpl. rewrite step_m.
  destruct (step shape1 P1 ev1 src vp t z) as [z' es b|e z' es]; simpl.
  - destruct b; simpl; rewrite rev_append_m; [|reflexivity].
    destruct (cur z'); reflexivity.
  - rewrite rev_append_m. reflexivity.
Qed.

Lemma iter_until_m {S1 S2 R1 R2} (hs : S1 -> S2) (hr : R1 -> R2) (b1 : S1 -> S1 + R1) (b2 : S2 -> S2 + R2)
      (Hb : forall a, b2 (hs a) = match b1 a with inl x => inl (hs x) | inr r => inr (hr r) end) p a :
  iter_until p b2 (hs a) = match iter_until p b1 a with inl x => inl (hs x) | inr r => inr (hr r) end.
Proof.
  revert a; induction p as [p IH|p IH|]; intros a; simpl.
  - rewrite Hb. destruct (b1 a) as [a1|r]; [|reflexivity].
    rewrite IH. destruct (iter_until p b1 a1) as [a2|r]; [apply IH|reflexivity].
  - rewrite IH. destruct (iter_until p b1 a) as [a2|r]; [apply IH|reflexivity].
  - apply Hb.
Qed.

Theorem next_m B src vp t z :
  next shape2 P2 ev2 B (msrc src) (map (map_vx g) vp) (mtr t) (mstate z) =
  let '(o, z', evs) := next shape1 P1 ev1 B src vp t z in (mout o, mstate z', map mev evs).
Proof.
  unfold next.
  assert (Hlast : forall a : @acc D1,
    (let '(z1, evs) := macc a in
     match step shape2 P2 ev2 (msrc src) (map (map_vx g) vp) (mtr t) z1 with
     | SRaise e z' es => (ORaise e, (z', rev_append es evs))
     | SNext z' es _ => (ORaise EInfiniteLoop, (z', rev_append es evs))
     end) =
    (let '(o, a') := (let '(z1, evs) := a in
       match step shape1 P1 ev1 src vp t z1 with
       | SRaise e z' es => (ORaise e, (z', rev_append es evs))
       | SNext z' es _ => (ORaise EInfiniteLoop, (z', rev_append es evs))
       end) in (mout o, macc a'))).
  { intros [z1 evs]. unfold macc; simpl. rewrite step_m.
    destruct (step shape1 P1 ev1 src vp t z1) as [z' es b|e z' es]; simpl; rewrite rev_append_m; reflexivity. }
  change (mstate z, @nil (@event D2)) with (macc (z, [])).
  assert (Hbody : forall a, next_body shape2 P2 ev2 (msrc src) (map (map_vx g) vp) (mtr t) (macc a) =
            match next_body shape1 P1 ev1 src vp t a with
            | inl x => inl (macc x) | inr r => inr ((fun r => (mout (fst r), macc (snd r))) r) end).
  { intros a. rewrite next_body_m. destruct (next_body shape1 P1 ev1 src vp t a) as [x|[o x]]; reflexivity. }
  assert (Hfin : forall a : @acc D1,
    (let '(o, (z', evs)) :=
       (let '(z1, evs) := macc a in
        match step shape2 P2 ev2 (msrc src) (map (map_vx g) vp) (mtr t) z1 with
        | SRaise e z' es => (ORaise e, (z', rev_append es evs))
        | SNext z' es _ => (ORaise EInfiniteLoop, (z', rev_append es evs))
        end) in (o, z', rev evs)) =
    (let '(o, z', evs) :=
       (let '(o, (z', evs)) :=
          (let '(z1, evs) := a in
           match step shape1 P1 ev1 src vp t z1 with
           | SRaise e z' es => (ORaise e, (z', rev_append es evs))
           | SNext z' es _ => (ORaise EInfiniteLoop, (z', rev_append es evs))
           end) in (o, z', rev evs)) in (mout o, mstate z', map mev evs))).
  { intros a. rewrite Hlast. destruct a as [z1 evs1].
    destruct (step shape1 P1 ev1 src vp t z1) as [z' es b|e z' es]; simpl; rewrite map_rev; reflexivity. }
  destruct B as [B'|B'|]; [| |exact (Hfin (z, []))];
    rewrite (iter_until_m macc (fun r => (mout (fst r), macc (snd r))) (next_body shape1 P1 ev1 src vp t) _ Hbody);
    match goal with
    | |- context [iter_until ?p (next_body shape1 P1 ev1 src vp t) (z, [])] =>
        destruct (iter_until p (next_body shape1 P1 ev1 src vp t) (z, [])) as [a|[o [z' evs]]]
    end;
    try apply Hfin; simpl; rewrite map_rev; reflexivity.
Qed.

End DataMap.
