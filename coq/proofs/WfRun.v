(* WfRun.v -- every match the machine creates, parks in a resume pointer or reports is well formed; hence a
   reported value is the very node of the document its chain leads to (cdata (abs m) = tdata m). *)
From Coq Require Import List ZArith String Bool PArith Lia FMapPositive.
From TP Require Import Json PyPrim Machine Spec.
From TP.proofs Require Import RefineBase Refine NextLayer Iterate.
Import ListNotations.
Close Scope Z_scope.
Open Scope list_scope.

Definition wfs (s : jstore) : Prop := forall i m', ocm (sget s i) = Some m' -> wf m'.
Definition wfz (z : jstate) : Prop :=
  match cur z with Some m => wf m | None => True end /\ wfs (st z).

Lemma wfs_sset s i mu : wfs s -> (forall m', ocm mu = Some m' -> wf m') -> wfs (sset s i mu).
Proof.
  intros Hs Hmu j m'. destruct (Pos.eq_dec j i) as [-> | Hne].
  - rewrite sget_sset_same. apply Hmu.
  - rewrite sget_sset_other by exact Hne. apply Hs.
Qed.

Lemma wfs_empty : wfs (PositiveMap.empty jmut).
Proof. intros i m'. unfold sget. rewrite PositiveMap.gempty. discriminate. Qed.

Section WfRun.
Variable P : Type.
Variable ev : P -> jtm -> @tracecfg json -> res json * list jevent.
Variable src : @source json.
Variable vp : list (vertex P).
Variable tr : @tracecfg json.
Hypothesis Hsrc : src_wf src.
Hypothesis ev_quiet : forall p m, ev_results (snd (ev p m tr)) = [].

Notation step1 := (step jshape P ev src vp tr).

Lemma wfs_alloc (m : jtm) s n : wfs s -> wfs (alloc m s n).
Proof. intros Hs. unfold alloc. apply wfs_sset; [exact Hs|]. simpl. apply Hs. Qed.

Lemma wfs_remember (m : jtm) its s : wf m -> wfs s -> wfs (remember m its s).
Proof. intros Hm Hs. unfold remember. apply wfs_sset; [exact Hs|]. simpl. intros m' E; injection E as <-; exact Hm. Qed.

Lemma wfs_restore (m : jtm) s : wfs s -> wfs (restore m s).
Proof.
  intros Hs. unfold restore.
  destruct (real_parent m) as [rp|]; [destruct (is_root m)|]; apply wfs_sset; auto; simpl; try discriminate.
  apply Hs.
Qed.

Lemma wfs_pop_next (m : jtm) i s n r s' n' evs :
  wf m -> wfs s -> pop_next m i s n = (r, s', n', evs) ->
  wfs s' /\ (forall c, r = Ok (Some c) -> wf c).
Proof.
  intros Hm Hs. unfold pop_next.
  destruct (cs (sget s (tid m))) as [[|[nm x] rest]|] eqn:Hcs; intros E; injection E as <- <- <- <-.
  - split; [apply wfs_restore; exact Hs | discriminate].
  - split.
    + apply wfs_alloc. apply wfs_sset; [exact Hs|]. simpl. apply Hs.
    + intros c E; injection E as <-. apply wf_child; exact Hm.
  - split; [exact Hs | discriminate].
Qed.

Lemma wf_vmatch v (m : jtm) i s n r s' n' evs :
  wf m -> wfs s -> vmatch jshape P ev v m i tr s n = (r, s', n', evs) ->
  wfs s' /\ (forall c, r = Ok (Some c) -> wf c).
Proof.
  intros Hm Hs Hv.
  assert (Hmulti : forall v0, multi jshape P v0 m i s n = (r, s', n', evs) -> wfs s' /\ (forall c, r = Ok (Some c) -> wf c)).
  { intros v0. unfold multi. destruct (cs (sget s (tid m))).
    - apply wfs_pop_next; assumption.
    - destruct (items_for jshape P v0 (tdata m)) as [[its|]|e].
      + apply wfs_pop_next; [exact Hm | apply wfs_remember; assumption].
      + intros E; injection E as <- <- <- <-. split; [exact Hs | discriminate].
      + intros E; injection E as <- <- <- <-. split; [exact Hs | discriminate]. }
  destruct v as [k | i0 | a b0 c0 | l | | | dot | | | p]; simpl in Hv; try (eapply Hmulti; exact Hv).
  - destruct (jshape (tdata m)) as [its|its|]; [destruct (assoc k its)| |]; injection Hv as <- <- <- <-;
      (split; [try apply wfs_alloc; exact Hs | intros c E; try discriminate; injection E as <-; simpl; exact Hm]).
  - destruct (jshape (tdata m)) as [its|its|]; [|destruct (list_get its i0)|]; injection Hv as <- <- <- <-;
      (split; [try apply wfs_alloc; exact Hs | intros c E; try discriminate; injection E as <-; simpl; exact Hm]).
  - unfold vrec in Hv. destruct (cs (sget s (tid m))) as [[|[nm x] rest]|] eqn:Hcs.
    + injection Hv as <- <- <- <-. split; [apply wfs_restore; exact Hs | discriminate].
    + assert (Hs1 : wfs (alloc m (sset s (tid m) {| cs := Some rest; ocm := ocm (sget s (tid m)); oca := oca (sget s (tid m)) |}) n)).
      { apply wfs_alloc. apply wfs_sset; [exact Hs|]. simpl. apply Hs. }
      assert (Hc : wf (child n m nm x i (pred i))) by (apply wf_child; exact Hm).
      destruct (items_for jshape P VRec x) as [[its'|]|e]; injection Hv as <- <- <- <-.
      * split; [apply wfs_alloc; apply wfs_remember; assumption|].
        intros c E; injection E as <-. simpl. split; [exact Hc | symmetry; apply tdata_child].
      * split; [exact Hs1 | intros c E; injection E as <-; exact Hc].
      * split; [exact Hs1 | intros c E; injection E as <-; exact Hc].
    + destruct (items_for jshape P VRec (tdata m)) as [[its|]|e]; injection Hv as <- <- <- <-.
      * split; [apply wfs_alloc; apply wfs_remember; assumption|].
        intros c E; injection E as <-. simpl. auto.
      * split; [exact Hs | discriminate].
      * split; [exact Hs | discriminate].
  - pose proof (parent_step m Hm) as Hps.
    destruct (remembered_parent m) as [r0|] eqn:Hr; injection Hv as <- <- <- <-.
    + destruct Hps as [Hwr _]. split; [apply wfs_alloc; exact Hs|].
      intros c E; injection E as <-. simpl. auto.
    + split; [exact Hs | discriminate].
  - destruct (ev p m tr) as [[val|e] es0].
    + destruct (truthy val); injection Hv as <- <- <- <-.
      * split; [apply wfs_alloc; exact Hs | intros c E; injection E as <-; simpl; auto].
      * split; [exact Hs | discriminate].
    + injection Hv as <- <- <- <-. split; [exact Hs | discriminate].
Qed.

Lemma wf_root : wf (root_match src).
Proof. unfold root_match, src_wf in *. destruct src; simpl; auto. Qed.

Lemma wf_step z z' es b :
  wfz z -> step1 z = SNext z' es b -> wfz z' /\ Forall wf (ev_results es).
Proof.
  intros [Hc Hs]. unfold step. destruct (pc z).
  - intros H; injection H as <- <- <-. split; [|constructor]. split; simpl.
    + pose proof wf_root as Hr. unfold root_match in Hr. destruct src; exact Hr.
    + apply wfs_sset; [exact Hs|]. simpl. intros m' E; injection E as <-.
      pose proof wf_root as Hr. unfold root_match in Hr. destruct src; exact Hr.
  - destruct (cur z) as [m|]; [|discriminate].
    destruct (Nat.eqb (tvx m) (List.length vp)); intros H; injection H as <- <- <-.
    + split; [split; [exact Hc | exact Hs] | simpl; constructor; [exact Hc | constructor]].
    + split; [split; [exact Hc | exact Hs] | constructor].
  - destruct (cur z) as [m|]; [|discriminate].
    destruct (nth_error vp (tvi m)) as [v|]; [|discriminate].
    destruct (vmatch jshape P ev v m (S (tvi m)) tr (st z) (nid z)) as [[[r s'] n'] evs] eqn:Hv.
    destruct (wf_vmatch _ _ _ _ _ _ _ _ _ Hc Hs Hv) as [Hs' Hc'].
    pose proof (vmatch_quiet P ev tr ev_quiet _ _ _ _ _ _ _ _ _ Hv) as Hq.
    destruct r as [[c|]|e]; intros H; try discriminate; injection H as <- <- <-.
    + split; [split; [apply Hc'; reflexivity | exact Hs']|].
      rewrite ev_results_app, Hq, (trace_ev_noresult P ev tr ev_quiet). constructor.
    + split; [|rewrite ev_results_app, Hq, (trace_ev_noresult P ev tr ev_quiet); constructor].
      split; [|exact Hs']. simpl.
      destruct (ocm (sget s' (tid m))) as [m'|] eqn:E; [eapply Hs'; eauto | exact I].
  - destruct (cur z) as [m|]; [|discriminate]. intros H; injection H as <- <- <-.
    split; [|constructor]. split; [|exact Hs]. simpl.
    destruct (ocm (sget (st z) (tid m))) as [m'|] eqn:E; [eapply Hs; eauto | exact I].
  - discriminate.
Qed.

(* along a run every state is well formed and every reported match is well formed *)
Lemma wf_run k z evs z' :
  wfz z -> run P ev src vp tr k z evs z' -> wfz z' /\ Forall wf (ev_results evs).
Proof.
  intros Hz Hr. induction Hr as [z | k z z1 ev1 b z2 ev2 Hs Hr IH]; [split; [exact Hz | constructor]|].
  destruct (wf_step _ _ _ _ Hz Hs) as [Hz1 Hf1]. destruct (IH Hz1) as [Hz2 Hf2].
  split; [exact Hz2|]. rewrite ev_results_app. apply Forall_app. auto.
Qed.

Lemma wfz_init : wfz init_state.
Proof. split; [exact I | apply wfs_empty]. Qed.

End WfRun.
