(* Query.v -- the iterator returned by find_matches, characterised by the specification: successive next()
   calls deliver exactly the results of `sem`, in order, lazily, then StopIteration for ever (or the exception
   of a failing filter), for every budget larger than the number of actions of the run. *)
From Coq Require Import List ZArith String Bool PArith Lia FMapPositive.
From TP Require Import Json PyPrim Machine Spec.
From TP.proofs Require Import RefineBase Refine NextLayer Iterate WfRun.
Import ListNotations.
Close Scope Z_scope.
Open Scope list_scope.

Definition sresults (es : list sevent) : list jctx :=
  flat_map (fun e => match e with SResult c => [c] | _ => [] end) es.

Lemma sresults_app a b : sresults (a ++ b) = sresults a ++ sresults b.
Proof. unfold sresults. apply flat_map_app. Qed.

Lemma sresults_proj b es : sresults (proj b es) = sresults es.
Proof.
  destruct b; [reflexivity|]. simpl. induction es as [|e es IH]; [reflexivity|].
  simpl. destruct e; simpl; rewrite ?IH; reflexivity.
Qed.

Lemma sresults_abs evs : sresults (map abs_ev evs) = map abs (ev_results evs).
Proof.
  induction evs as [|e evs IH]; [reflexivity|]. destruct e; simpl; rewrite ?IH; reflexivity.
Qed.

Section Query.
Variable P : Type.
Variable ev : P -> jtm -> @tracecfg json -> res json * list jevent.
Variable sev : P -> jctx -> res json * list sevent.
Variable src : @source json.
Variable vp : list (vertex P).
Variable tr : @tracecfg json.

Hypothesis ev_ok : forall p m, In (VPred p) vp -> wf m ->
  (fst (ev p m tr) = fst (sev p (abs m)) /\
   map abs_ev (snd (ev p m tr)) = proj (tracing tr) (snd (sev p (abs m)))) \/
  (exists e, fst (ev p m tr) = Exn e /\ budget_exn e = true).
Hypothesis ev_quiet : forall p m, ev_results (snd (ev p m tr)) = [].
Hypothesis Hsrc : src_wf src.

Definition answer : rs := sem P sev 0 vp (pmc tr) (abs (root_match src)).

(* the iterator delivered the complete answer *)
Definition complete (d : list (@outcome json * list jevent)) : Prop :=
  exists ms,
    map abs ms = sresults (fst answer) /\ Forall wf ms /\
    outcomes d = map (fun m => OResult m) ms ++
                 [ORaise (match snd answer with None => EStop | Some e => e end)] /\
    map abs_ev (all_events d) = proj (tracing tr) (fst answer) /\
    Forall lazy_item d.

(* the iterator delivered a prefix of the answer and then a budget exception raised inside a filter *)
Definition sound_prefix (d : list (@outcome json * list jevent)) : Prop :=
  exists ms e pre suf,
    fst answer = pre ++ suf /\ map abs ms = sresults pre /\ Forall wf ms /\
    outcomes d = map (fun m => OResult m) ms ++ [ORaise e] /\ budget_exn e = true /\
    (exists z1 z2 ev2, step jshape P ev src vp tr z1 = SRaise e z2 ev2) /\
    Forall lazy_item d.

(* The whole life of the iterator.  k is the number of actions of the run (it exists for every finite
   document); every budget beyond it yields the complete answer, unless a search nested in a filter
   exhausts its own budget, in which case a correct prefix is followed by that exception. *)
Theorem iterator_spec :
  exists k : nat, forall B fuel, k < Pos.to_nat B -> List.length (sresults (fst answer)) < fuel ->
    let d := drain P ev src vp tr fuel B init_state in
    complete d \/ sound_prefix d.
Proof.
  pose proof (refinement P ev sev src vp tr (pmc tr) (fun _ => eq_refl) ev_ok Hsrc) as Href.
  fold answer in Href. destruct Href as [Href | Href].
  - unfold ok_run in Href.
    destruct (snd answer) as [e|] eqn:Hex.
    + destruct Href as (k & z1 & evs & z2 & ev2 & Hrun & Hs & Hev).
      exists k. intros B fuel HB Hfuel d. left. unfold complete. rewrite Hex.
      assert (Hr2 : ev_results ev2 = []) by (eapply step_raise_quiet; eauto).
      exists (ev_results evs).
      assert (Hres : map abs (ev_results evs) = sresults (fst answer)).
      { rewrite <- (sresults_proj (tracing tr)), <- Hev, sresults_abs, ev_results_app, Hr2, app_nil_r. reflexivity. }
      assert (Hlen : List.length (ev_results evs) < fuel) by (rewrite <- (map_length abs), Hres; exact Hfuel).
      destruct (drain_run P ev src vp tr ev_quiet B k init_state evs z1 e z2 ev2 fuel Hrun Hs HB Hlen) as (Ho & He & Hl).
      split; [exact Hres|]. split; [exact (proj2 (wf_run P ev src vp tr Hsrc ev_quiet k _ _ _ (wfz_init) Hrun))|].
      split; [exact Ho|]. split; [unfold d; rewrite He; exact Hev | exact Hl].
    + destruct Href as (k & z' & evs & Hrun & Hev & Hpc & Hstop).
      exists k. intros B fuel HB Hfuel d. left. unfold complete. rewrite Hex.
      exists (ev_results evs).
      assert (Hres : map abs (ev_results evs) = sresults (fst answer)).
      { rewrite <- (sresults_proj (tracing tr)), <- Hev, sresults_abs. reflexivity. }
      assert (Hlen : List.length (ev_results evs) < fuel) by (rewrite <- (map_length abs), Hres; exact Hfuel).
      destruct (drain_run P ev src vp tr ev_quiet B k init_state evs z' EStop z' [] fuel Hrun Hstop HB Hlen) as (Ho & He & Hl).
      split; [exact Hres|]. split; [exact (proj2 (wf_run P ev src vp tr Hsrc ev_quiet k _ _ _ (wfz_init) Hrun))|].
      split; [exact Ho|]. split; [unfold d; rewrite He, app_nil_r; exact Hev | exact Hl].
  - destruct Href as (k & z1 & evs & z2 & e & ev2 & pre & suf & Hrun & Hs & Hbe & Hfst & Hev).
    exists k. intros B fuel HB Hfuel d. right.
    exists (ev_results evs), e, pre, suf.
    assert (Hres : map abs (ev_results evs) = sresults pre).
    { rewrite <- (sresults_proj (tracing tr)), <- Hev, sresults_abs. reflexivity. }
    assert (Hlen : List.length (ev_results evs) < fuel).
    { assert (E1 : List.length (ev_results evs) = List.length (sresults pre)) by (rewrite <- Hres, map_length; reflexivity).
      assert (E2 : List.length (sresults (fst answer)) = List.length (sresults pre) + List.length (sresults suf))
        by (rewrite Hfst, sresults_app, app_length; reflexivity).
      rewrite E1. rewrite E2 in Hfuel. clear -Hfuel. lia. }
    destruct (drain_run P ev src vp tr ev_quiet B k init_state evs z1 e z2 ev2 fuel Hrun Hs HB Hlen) as (Ho & He & Hl).
    split; [exact Hfst|]. split; [exact Hres|]. split; [exact (proj2 (wf_run P ev src vp tr Hsrc ev_quiet k _ _ _ (wfz_init) Hrun))|].
    split; [exact Ho|]. split; [exact Hbe|]. split; [exists z1, z2, ev2; exact Hs | exact Hl].
Qed.

End Query.
