(* Query.v -- the iterator returned by find_matches, characterised by the specification: successive next()
   calls deliver exactly the results of `sem`, in order, lazily, then StopIteration for ever (or the exception
   of a failing filter), for every budget larger than the number of actions of the run. *)
From Coq Require Import List ZArith String Bool PArith Lia FMapPositive.
From TP Require Import Json PyPrim Machine Spec.
From TP.proofs Require Import RefineBase Refine NextLayer Iterate.
Import ListNotations.
Close Scope Z_scope.
Open Scope list_scope.

Definition sresults (es : list sevent) : list jctx :=
  flat_map (fun e => match e with SResult c => [c] | _ => [] end) es.

Lemma sresults_app a b : sresults (a ++ b) = sresults a ++ sresults b.
Proof. unfold sresults. apply flat_map_app. Qed.

Lemma sresults_proj b es : sresults (proj b es) = sresults es.
Proof.
  destruct b; [reflexivity|]. simpl. induction es as [|e es IH]; [reflexivity|].
  simpl. destruct e; simpl; rewrite ?IH; reflexivity.
Qed.

Lemma sresults_abs evs : sresults (map abs_ev evs) = map abs (ev_results evs).
Proof.
  induction evs as [|e evs IH]; [reflexivity|]. destruct e; simpl; rewrite ?IH; reflexivity.
Qed.

Section Query.
Variable P : Type.
Variable ev : P -> jtm -> @tracecfg json -> res json * list jevent.
Variable sev : P -> jctx -> res json * list sevent.
Variable src : @source json.
Variable vp : list (vertex P).
Variable tr : @tracecfg json.

Hypothesis ev_ok : forall p m, wf m ->
  fst (ev p m tr) = fst (sev p (abs m)) /\
  map abs_ev (snd (ev p m tr)) = proj (tracing tr) (snd (sev p (abs m))).
Hypothesis ev_quiet : forall p m, ev_results (snd (ev p m tr)) = [].
Hypothesis Hsrc : src_wf src.

Definition answer : rs := sem P sev 0 vp (pmc tr) (abs (root_match src)).

(* The whole life of the iterator.  k is the number of actions of the run (it exists for every finite
   document); every budget beyond it yields the complete answer. *)
Theorem iterator_spec :
  exists k : nat, forall B fuel, k < Pos.to_nat B -> List.length (sresults (fst answer)) < fuel ->
    let d := drain P ev src vp tr fuel B init_state in
    exists ms,
      map abs ms = sresults (fst answer) /\
      outcomes d = map (fun m => OResult m) ms ++
                   [ORaise (match snd answer with None => EStop | Some e => e end)] /\
      map abs_ev (all_events d) = proj (tracing tr) (fst answer) /\
      Forall lazy_item d.
Proof.
  pose proof (refinement P ev sev src vp tr ev_ok Hsrc) as Href.
  unfold realizes in Href. fold answer in Href.
  destruct (snd answer) as [e|] eqn:Hex.
  - destruct Href as (k & z1 & evs & z2 & ev2 & Hrun & Hs & Hev).
    exists k. intros B fuel HB Hfuel d.
    assert (Hr2 : ev_results ev2 = []) by (eapply step_raise_quiet; eauto).
    exists (ev_results evs).
    assert (Hres : map abs (ev_results evs) = sresults (fst answer)).
    { rewrite <- (sresults_proj (tracing tr)), <- Hev, sresults_abs, ev_results_app, Hr2, app_nil_r. reflexivity. }
    assert (Hlen : List.length (ev_results evs) < fuel) by (rewrite <- (map_length abs), Hres; exact Hfuel).
    destruct (drain_run P ev src vp tr ev_quiet B k init_state evs z1 e z2 ev2 fuel Hrun Hs HB Hlen) as (Ho & He & Hl).
    split; [exact Hres|]. split; [exact Ho|]. split; [unfold d; rewrite He; exact Hev | exact Hl].
  - destruct Href as (k & z' & evs & Hrun & Hev & Hpc & Hstop).
    exists k. intros B fuel HB Hfuel d.
    exists (ev_results evs).
    assert (Hres : map abs (ev_results evs) = sresults (fst answer)).
    { rewrite <- (sresults_proj (tracing tr)), <- Hev, sresults_abs. reflexivity. }
    assert (Hlen : List.length (ev_results evs) < fuel) by (rewrite <- (map_length abs), Hres; exact Hfuel).
    destruct (drain_run P ev src vp tr ev_quiet B k init_state evs z' EStop z' [] fuel Hrun Hstop HB Hlen) as (Ho & He & Hl).
    split; [exact Hres|]. split; [exact Ho|]. split; [unfold d; rewrite He, app_nil_r; exact Hev | exact Hl].
Qed.

End Query.
