(* BelowLemmas.v -- C02 "each exactly once": `below c d` (the pre-order walk of the recursive step) lists the
   contexts of exactly the nodes reachable from d by a non-empty chain of member steps, and -- when dict keys
   are unique, as they are in every Python dict -- no location twice. *)
From Coq Require Import List ZArith String Bool Lia.
From TP Require Import Json PyPrim Machine Spec.
From TP.proofs Require Import RefineBase Refine Query SpecLemmas.
Import ListNotations.
Close Scope Z_scope.
Open Scope list_scope.

(* c' (holding d') is reached from c (holding d) by following the member names ns *)
Inductive at_path : jctx -> json -> list name -> jctx -> json -> Prop :=
| at_nil c d : at_path c d [] c d
| at_cons c d its nm x ns c' d' :
    members d = Some its -> In (nm, x) its -> at_path (ext c nm x) x ns c' d' -> at_path c d (nm :: ns) c' d'.

(* the location of a context: the names along its chain *)
Definition cnames (c : jctx) : list name := map (fun e => snd (fst e)) c.

Lemma cnames_ext c nm x : cnames (ext c nm x) = cnames c ++ [nm].
Proof. unfold cnames, ext. rewrite map_app. reflexivity. Qed.

Lemma at_path_names c d ns c' d' : at_path c d ns c' d' -> cnames c' = cnames c ++ ns.
Proof.
  induction 1 as [c d | c d its nm x ns c' d' Hm Hin Hp IH]; [rewrite app_nil_r; reflexivity|].
  rewrite IH, cnames_ext, <- app_assoc. reflexivity.
Qed.

Lemma at_path_data c d ns c' d' : cdata c = d -> at_path c d ns c' d' -> cdata c' = d'.
Proof.
  intros Hc Hp. revert Hc. induction Hp as [c d | c d its nm x ns c' d' Hm Hin Hp IH]; intros Hc; [exact Hc|].
  apply IH. apply cdata_ext.
Qed.

(* completeness: every node below d is listed *)
Lemma below_complete c d ns c' d' : at_path c d ns c' d' -> ns <> [] -> In c' (below c d).
Proof.
  induction 1 as [c d | c d its nm x ns c' d' Hm Hin Hp IH]; intros Hne; [congruence|].
  rewrite (below_unfold _ _ _ Hm). apply in_flat_map. exists (nm, x). split; [exact Hin|]. cbn [fst snd].
  destruct ns as [|n2 ns'].
  - inversion Hp; subst. left. reflexivity.
  - right. apply IH. discriminate.
Qed.

(* soundness: only nodes below d are listed *)
Lemma below_sound : forall d c c', In c' (below c d) -> exists ns d', ns <> [] /\ at_path c d ns c' d'.
Proof.
  assert (Hloop : forall its d c c', members d = Some its ->
    (forall ix, In ix its -> forall c0 c1, In c1 (below c0 (snd ix)) -> exists ns d', ns <> [] /\ at_path c0 (snd ix) ns c1 d') ->
    In c' (below c d) -> exists ns d', ns <> [] /\ at_path c d ns c' d').
  { intros its d c c' Hm Hkids Hin. rewrite (below_unfold _ _ _ Hm) in Hin. apply in_flat_map in Hin.
    destruct Hin as ([nm x] & Hix & Hc'). cbn [fst snd] in Hc'. destruct Hc' as [<- | Hc'].
    - exists [nm], x. split; [discriminate|]. eapply at_cons; eauto. constructor.
    - destruct (Hkids (nm, x) Hix _ _ Hc') as (ns & d' & Hne & Hp). cbn [snd] in Hp.
      exists (nm :: ns), d'. split; [discriminate|]. eapply at_cons; eauto. }
  induction d as [| b | z0 | h | str | id l IHl | id l IHl] using json_ind'; intros c c' Hin;
    try (simpl in Hin; contradiction).
  - apply (Hloop (list_iter l) (JList id l) c c' eq_refl); [|exact Hin].
    intros [nm x] Hix c0 c1 H1. simpl in *. rewrite Forall_forall in IHl. apply (IHl x); [|exact H1].
    eapply members_in_list; eauto.
  - apply (Hloop (dict_iter l) (JDict id l) c c' eq_refl); [|exact Hin].
    intros [nm x] Hix c0 c1 H1. simpl in *. rewrite Forall_forall in IHl. destruct nm as [k|z1].
    + apply (IHl (k, x)); [apply members_in_dict; exact Hix | exact H1].
    + exfalso. unfold dict_iter in Hix. rewrite in_map_iff in Hix. destruct Hix as (? & E0 & _). discriminate.
Qed.

Theorem below_exact c d c' :
  In c' (below c d) <-> exists ns d', ns <> [] /\ at_path c d ns c' d'.
Proof.
  split; [apply below_sound|]. intros (ns & d' & Hne & Hp). eapply below_complete; eauto.
Qed.

(* ------------------------------------------------------------------ no location twice *)
(* dict keys are unique at every level (Python dicts; list indices are distinct by construction) *)
Inductive uniq : json -> Prop :=
| U_scalar d : members d = None -> uniq d
| U_cont d its : members d = Some its -> NoDup (map fst its) -> (forall nm x, In (nm, x) its -> uniq x) -> uniq d.

Lemma NoDup_app_intro {A} (a b : list A) :
  NoDup a -> NoDup b -> (forall x, In x a -> In x b -> False) -> NoDup (a ++ b).
Proof.
  induction a as [|x a IH]; intros Ha Hb Hd; [exact Hb|].
  inversion Ha as [|x' a' Hx Ha']; subst. simpl. constructor.
  - rewrite in_app_iff. intros [H|H]; [contradiction | exact (Hd x (or_introl eq_refl) H)].
  - apply IH; [exact Ha' | exact Hb | intros y H1 H2; exact (Hd y (or_intror H1) H2)].
Qed.

Lemma NoDup_blocks (pre : list name) (its : list (name * json)) (blk : name * json -> list (list name)) :
  NoDup (map fst its) ->
  (forall ix, In ix its -> NoDup (blk ix)) ->
  (forall ix l, In ix its -> In l (blk ix) -> exists rest, l = pre ++ fst ix :: rest) ->
  NoDup (flat_map blk its).
Proof.
  induction its as [|a its IH]; intros Hnd Hb Hp; [constructor|].
  simpl in Hnd. inversion Hnd as [|a' r' Ha Hr]; subst. cbn [flat_map].
  apply NoDup_app_intro.
  - apply Hb. left. reflexivity.
  - apply IH; [exact Hr | intros ix Hin; apply Hb; right; exact Hin | intros ix l Hin; apply Hp; right; exact Hin].
  - intros l H1 H2. apply in_flat_map in H2. destruct H2 as (ix & Hix & Hl).
    destruct (Hp a l (or_introl eq_refl) H1) as (r1 & E1).
    destruct (Hp ix l (or_intror Hix) Hl) as (r2 & E2).
    rewrite E1 in E2. apply app_inv_head in E2. injection E2 as E2 _.
    apply Ha. rewrite E2. apply in_map. exact Hix.
Qed.

Lemma below_names c d c' : In c' (below c d) -> exists nm rest, cnames c' = cnames c ++ nm :: rest.
Proof.
  intros Hin. destruct (below_sound d c c' Hin) as (ns & d' & Hne & Hp).
  rewrite (at_path_names _ _ _ _ _ Hp). destruct ns as [|nm rest]; [congruence|]. eauto.
Qed.

Theorem below_nodup : forall d, uniq d -> forall c, NoDup (map cnames (below c d)).
Proof.
  induction 1 as [d Hm | d its Hm Hnd Hkids IH]; intros c.
  - rewrite (below_scalar _ _ Hm). constructor.
  - rewrite (below_unfold _ _ _ Hm).
    replace (map cnames (flat_map (fun ix => ext c (fst ix) (snd ix) :: below (ext c (fst ix) (snd ix)) (snd ix)) its))
      with (flat_map (fun ix => cnames (ext c (fst ix) (snd ix)) :: map cnames (below (ext c (fst ix) (snd ix)) (snd ix))) its).
    2:{ clear. induction its as [|a its IH]; [reflexivity|]. cbn [flat_map map]. rewrite map_app, IH. reflexivity. }
    apply (NoDup_blocks (cnames c)); [exact Hnd | |].
    + intros [nm x] Hin. cbn [fst snd]. constructor; [|apply (IH nm x Hin)].
      intros Hhead. apply in_map_iff in Hhead. destruct Hhead as (c1 & E & Hc1).
      destruct (below_names _ _ _ Hc1) as (n1 & rest & E1). rewrite E1 in E.
      assert (Hl : List.length (cnames (ext c nm x) ++ n1 :: rest) = List.length (cnames (ext c nm x))) by (rewrite E; reflexivity).
      rewrite app_length in Hl. simpl in Hl. lia.
    + intros [nm x] l Hin Hl. cbn [fst snd] in *. destruct Hl as [<- | Hl].
      * exists []. apply cnames_ext.
      * apply in_map_iff in Hl. destruct Hl as (c1 & <- & Hc1).
        destruct (below_names _ _ _ Hc1) as (n1 & rest & E1). rewrite E1, cnames_ext, <- app_assoc.
        exists (n1 :: rest). reflexivity.
Qed.

(* the context itself is not below itself: `c :: below c (cdata c)` names no location twice either *)
Theorem rec_last_nodup c : uniq (cdata c) -> NoDup (map cnames (c :: below c (cdata c))).
Proof.
  intros Hu. cbn [map]. constructor; [|apply below_nodup; exact Hu].
  intros Hin. apply in_map_iff in Hin. destruct Hin as (c1 & E & Hc1).
  destruct (below_names _ _ _ Hc1) as (n1 & rest & E1). rewrite E1 in E.
  assert (Hl : List.length (cnames c ++ n1 :: rest) = List.length (cnames c)) by (rewrite E; reflexivity).
  rewrite app_length in Hl. simpl in Hl. lia.
Qed.

(* every JSON list has distinct indices; a dict is fine when its keys are distinct *)
Lemma enum_from_fst_lt {A} (l : list A) z i : In i (map fst (enum_from z l)) -> (z <= i)%Z.
Proof.
  revert z. induction l as [|x l IH]; intros z Hin; [contradiction|]. simpl in Hin. destruct Hin as [<-|Hin]; [lia|].
  specialize (IH _ Hin). lia.
Qed.

Lemma list_iter_nodup (l : list json) : NoDup (map fst (list_iter l)).
Proof.
  unfold list_iter, enumerate. rewrite map_map. cbn [fst]. generalize 0%Z.
  induction l as [|x l IH]; intros z; [constructor|]. cbn [enum_from map]. constructor; [|apply IH].
  intros Hin. apply in_map_iff in Hin. destruct Hin as ([i y] & E & Hin). cbn [fst] in E. injection E as E.
  assert (Hlt : (z + 1 <= i)%Z) by (apply (enum_from_fst_lt l); apply in_map_iff; exists (i, y); auto). lia.
Qed.

Lemma uniq_list id l : Forall uniq l -> uniq (JList id l).
Proof.
  intros Hl. apply (U_cont (JList id l) (list_iter l) eq_refl (list_iter_nodup l)).
  intros nm x Hin. rewrite Forall_forall in Hl. apply Hl. eapply members_in_list; eauto.
Qed.

Lemma uniq_dict id l : NoDup (map fst l) -> Forall (fun kx => uniq (snd kx)) l -> uniq (JDict id l).
Proof.
  intros Hk Hl. apply (U_cont (JDict id l) (dict_iter l) eq_refl).
  - unfold dict_iter. rewrite map_map. cbn [fst]. clear Hl. induction l as [|[k x] l IH]; [constructor|].
    simpl in *. inversion Hk as [|a r Ha Hr]; subst. constructor; [|apply IH; exact Hr].
    intros Hin. apply Ha. apply in_map_iff in Hin. destruct Hin as ([k' x'] & E & Hin). simpl in E. injection E as ->.
    apply in_map_iff. exists (k, x'). auto.
  - intros nm x Hin. rewrite Forall_forall in Hl. destruct nm as [k|z].
    + apply (Hl (k, x)). apply members_in_dict. exact Hin.
    + exfalso. unfold dict_iter in Hin. rewrite in_map_iff in Hin. destruct Hin as (? & E0 & _). discriminate.
Qed.
