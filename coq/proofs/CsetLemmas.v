(* CsetLemmas.v -- facts about the cascade specification alone (SpecSet.v): the value is found where it was
   stored, levels that exist are reused, the old document embeds in the new one whenever the location was
   missing or the assignment failed, and the recursion equations that mirror set_match (peeling the last step). *)
From Coq Require Import List ZArith String Bool Lia.
From TP Require Import Json PyPrim Machine Api Mutate SpecSet.
Import ListNotations.
Close Scope Z_scope.
Open Scope list_scope.

(* ------------------------------------------------------------------ dicts *)
Lemma dict_set_twice {A} (its : list (string * A)) k a b : dict_set (dict_set its k a) k b = dict_set its k b.
Proof.
  induction its as [|[k' v'] its IH]; simpl; [rewrite String.eqb_refl; reflexivity|].
  destruct (String.eqb k k') eqn:E; simpl; rewrite E; [reflexivity | rewrite IH; reflexivity].
Qed.

Lemma assoc_dict_set {A} (its : list (string * A)) k a : assoc k (dict_set its k a) = Some a.
Proof.
  induction its as [|[k' v'] its IH]; simpl; [rewrite String.eqb_refl; reflexivity|].
  destruct (String.eqb k k') eqn:E; simpl; rewrite E; [reflexivity | exact IH].
Qed.

Lemma dict_set_absent {A} (its : list (string * A)) k a : assoc k its = None -> dict_set its k a = its ++ [(k, a)].
Proof.
  induction its as [|[k' v'] its IH]; simpl; [reflexivity|].
  destruct (String.eqb k k'); [discriminate|]. intros H. rewrite IH by exact H. reflexivity.
Qed.

Lemma dict_set_same_val {A} (its : list (string * A)) k c : assoc k its = Some c -> dict_set its k c = its.
Proof.
  induction its as [|[k' v'] its IH]; simpl; [discriminate|].
  destruct (String.eqb k k') eqn:E; [intros H; injection H as ->; reflexivity|].
  intros H. rewrite IH by exact H. reflexivity.
Qed.

Lemma assoc_none_notin {A} (its : list (string * A)) k : assoc k its = None -> ~ In k (map fst its).
Proof.
  induction its as [|[k' v'] its IH]; simpl; [tauto|].
  destruct (String.eqb k k') eqn:E; [discriminate|]. intros H [H1|H1].
  - subst k'. rewrite String.eqb_refl in E. discriminate.
  - exact (IH H H1).
Qed.

(* the entry assoc finds, in place *)
Lemma assoc_split {A} (its : list (string * A)) k c :
  assoc k its = Some c -> exists l1 l2, its = l1 ++ (k, c) :: l2 /\ assoc k l1 = None.
Proof.
  induction its as [|[k' v'] its IH]; simpl; [discriminate|].
  destruct (String.eqb k k') eqn:E.
  - intros H; injection H as ->. apply String.eqb_eq in E. subst k'. exists [], its. auto.
  - intros H. destruct (IH H) as (l1 & l2 & -> & Hn). exists ((k', v') :: l1), l2. split; [reflexivity|].
    simpl. rewrite E. exact Hn.
Qed.

Lemma dict_set_split {A} (l1 l2 : list (string * A)) k c a :
  assoc k l1 = None -> dict_set (l1 ++ (k, c) :: l2) k a = l1 ++ (k, a) :: l2.
Proof.
  induction l1 as [|[k' v'] l1 IH]; simpl; [rewrite String.eqb_refl; reflexivity|].
  destruct (String.eqb k k'); [discriminate|]. intros H. rewrite IH by exact H. reflexivity.
Qed.

(* ------------------------------------------------------------------ lists *)
Lemma norm_index_lt {A} (l : list A) i k : norm_index (zlen l) i = Some k -> k < List.length l.
Proof.
  unfold norm_index, zlen. intros Hn.
  destruct (Z.leb_spec 0 i) as [H1|H1]; destruct (Z.ltb_spec i (Z.of_nat (List.length l))) as [H2|H2]; simpl in Hn;
    try (injection Hn as <-; lia);
    destruct (Z.ltb_spec i 0) as [H3|H3]; destruct (Z.leb_spec 0 (i + Z.of_nat (List.length l))) as [H4|H4]; simpl in Hn;
    try discriminate; injection Hn as <-; lia.
Qed.

Lemma nth_split' {A} (l : list A) n x : nth_error l n = Some x -> exists l1 l2, l = l1 ++ x :: l2 /\ List.length l1 = n.
Proof. apply nth_error_split. Qed.

Lemma set_nth_split {A} (l1 l2 : list A) x a : set_nth (l1 ++ x :: l2) (List.length l1) a = l1 ++ a :: l2.
Proof. induction l1 as [|y l1 IH]; simpl; [reflexivity | rewrite IH; reflexivity]. Qed.

Lemma set_nth_twice {A} (l : list A) n a b : set_nth (set_nth l n a) n b = set_nth l n b.
Proof. revert n. induction l as [|x l IH]; intros [|n]; simpl; try reflexivity. rewrite IH. reflexivity. Qed.

Lemma set_nth_len {A} (l : list A) n a : List.length (set_nth l n a) = List.length l.
Proof. revert n. induction l as [|x l IH]; intros [|n]; simpl; auto. Qed.

Lemma nth_set_nth {A} (l : list A) n a : n < List.length l -> nth_error (set_nth l n a) n = Some a.
Proof. revert n. induction l as [|x l IH]; intros [|n] H; simpl in *; try lia; auto. apply IH. lia. Qed.

Lemma set_nth_same_val {A} (l : list A) n c : nth_error l n = Some c -> set_nth l n c = l.
Proof. revert n. induction l as [|x l IH]; intros [|n]; simpl; try discriminate.
  - intros H; injection H as ->; reflexivity.
  - intros H. rewrite IH by exact H. reflexivity.
Qed.

Lemma list_get_ok {A} (its : list A) z y :
  list_get its z = Ok y -> exists n, norm_index (zlen its) z = Some n /\ nth_error its n = Some y.
Proof.
  unfold list_get. destruct (norm_index (zlen its) z) as [n|]; [|discriminate].
  destruct (nth_error its n) as [v|] eqn:E; [|discriminate]. intros H; injection H as ->. eauto.
Qed.

Lemma list_get_fail_norm {A} (its : list A) z e : list_get its z = Exn e -> norm_index (zlen its) z = None.
Proof.
  unfold list_get. destruct (norm_index (zlen its) z) as [n|] eqn:E; [|reflexivity].
  pose proof (norm_index_lt its z n E) as Hlt. destruct (nth_error its n) eqn:E2; [discriminate|].
  apply nth_error_None in E2. lia.
Qed.

Lemma zlen_set_nth {A} (l : list A) n a : zlen (set_nth l n a) = zlen l.
Proof. unfold zlen. rewrite set_nth_len. reflexivity. Qed.

Lemma norm_index_append {A} (its : list A) (a : A) : norm_index (zlen (its ++ [a])) (zlen its) = Some (List.length its).
Proof.
  unfold norm_index, zlen. rewrite app_length. simpl.
  destruct (Z.leb_spec 0 (Z.of_nat (List.length its))); [|lia].
  destruct (Z.ltb_spec (Z.of_nat (List.length its)) (Z.of_nat (List.length its + 1))); [|lia].
  simpl. rewrite Nat2Z.id. reflexivity.
Qed.

(* ------------------------------------------------------------------ store / child_at *)
Lemma child_at_store v a d d1 : store v a d = Some d1 -> child_at v d1 = Some a.
Proof.
  destruct v as [k | z | | | | | | | |]; destruct d as [| | | | | i its | i its]; simpl; try discriminate.
  - intros H; injection H as <-. simpl. apply assoc_dict_set.

  - unfold list_set. destruct (norm_index (zlen its) z) as [n|] eqn:En.
    + intros H; injection H as <-. simpl. unfold list_get. rewrite zlen_set_nth, En.
      rewrite nth_set_nth by (eapply norm_index_lt; eauto). reflexivity.
    + destruct (Z.eqb_spec (zlen its) z) as [<-|]; [|discriminate]. intros H; injection H as <-. simpl.
      unfold list_get, list_append. rewrite norm_index_append.
      rewrite nth_error_app2 by lia. rewrite Nat.sub_diag. reflexivity.
Qed.

Lemma store_store v a b d d1 : store v a d = Some d1 -> store v b d1 = store v b d.
Proof.
  destruct v as [k | z | | | | | | | |]; destruct d as [| | | | | i its | i its]; simpl; try discriminate.
  - intros H; injection H as <-. simpl. rewrite dict_set_twice. reflexivity.

  - unfold list_set. destruct (norm_index (zlen its) z) as [n|] eqn:En.
    + intros H; injection H as <-. simpl. unfold list_set. rewrite zlen_set_nth, En, set_nth_twice. reflexivity.
    + destruct (Z.eqb_spec (zlen its) z) as [<-|]; [|discriminate]. intros H; injection H as <-. simpl.
      unfold list_set, list_append. rewrite norm_index_append.
      replace (its ++ [a]) with (its ++ a :: []) by reflexivity. rewrite set_nth_split. reflexivity.
Qed.

Lemma store_indep v a b d d1 : store v a d = Some d1 -> exists d2, store v b d = Some d2.
Proof.
  destruct v as [k | z | | | | | | | |]; destruct d as [| | | | | i its | i its]; simpl; try discriminate; eauto.
  unfold list_set. destruct (norm_index (zlen its) z); eauto. destruct (Z.eqb (zlen its) z); [eauto | discriminate].
Qed.

Lemma store_exists v a c d : child_at v d = Some c -> exists d1, store v a d = Some d1.
Proof.
  destruct v as [k | z | | | | | | | |]; destruct d as [| | | | | i its | i its]; simpl; try discriminate; eauto.
  destruct (list_get its z) as [y|e] eqn:E; [|discriminate]. intros _.
  destruct (list_get_ok _ _ _ E) as (n & Hn & _). unfold list_set. rewrite Hn. eauto.
Qed.

Lemma store_same v c d : child_at v d = Some c -> store v c d = Some d.
Proof.
  destruct v as [k | z | | | | | | | |]; destruct d as [| | | | | i its | i its]; simpl; try discriminate.
  - intros H. rewrite dict_set_same_val by exact H. reflexivity.

  - destruct (list_get its z) as [y|e] eqn:E; [|discriminate]. intros H; injection H as ->.
    destruct (list_get_ok _ _ _ E) as (n & Hn & Hnth). unfold list_set. rewrite Hn, set_nth_same_val by exact Hnth. reflexivity.
Qed.

Lemma child_at_default v v' l : child_at v (default_for_set v' l) = None.
Proof.
  destruct v' as [k' | z' | | | | | | | |]; destruct v as [k | z | | | | | | | |]; simpl; try reflexivity.
  unfold list_get. destruct (norm_index (zlen (@nil json)) z) as [n|]; [|reflexivity]. destruct n; reflexivity.
Qed.

(* ------------------------------------------------------------------ cset: unfolding *)
Definition cnext (d : json) (v v' : vertex hp) (rlen nl : nat) : option json :=
  match child_at v d with
  | Some y => Some y
  | None => match store v (default_for_set v' (nl + rlen - 1)) d with
            | Some _ => Some (default_for_set v' (nl + rlen - 1))
            | None => None
            end
  end.

Lemma cset_one d v x nl : cset d [v] x nl = match store v x d with Some d' => (true, d') | None => (false, d) end.
Proof. reflexivity. Qed.

Lemma cset_cons2 d v v' t x nl :
  cset d (v :: v' :: t) x nl =
  match cnext d v v' (S (List.length t)) nl with
  | None => (false, d)
  | Some y => let '(ok, y') := cset y (v' :: t) x nl in
              (ok, match store v y' d with Some d' => d' | None => d end)
  end.
Proof. reflexivity. Qed.

(* the level the descent continues in holds nothing at the remaining path when it was just created *)
Lemma cnext_some d v v' n nl y :
  cnext d v v' n nl = Some y ->
  (child_at v d = Some y) \/
  (child_at v d = None /\ y = default_for_set v' (nl + n - 1) /\ exists d1, store v y d = Some d1).
Proof.
  unfold cnext. destruct (child_at v d) as [c|]; [intros H; injection H as <-; left; reflexivity|].
  destruct (store v (default_for_set v' (nl + n - 1)) d) as [d1|] eqn:E; [|discriminate].
  intros H; injection H as <-. right. eauto.
Qed.

Lemma cnext_store d v v' n nl y a : cnext d v v' n nl = Some y -> exists d1, store v a d = Some d1.
Proof.
  intros H. destruct (cnext_some _ _ _ _ _ _ H) as [Hc | (_ & _ & d1 & Hs)].
  - eapply store_exists; eauto.
  - eapply store_indep; eauto.
Qed.

Lemma lookup_default v' l r : r <> [] -> lookup (default_for_set v' l) r = None.
Proof. destruct r as [|v r]; [congruence|]. intros _. simpl. rewrite child_at_default. reflexivity. Qed.

(* ------------------------------------------------------------------ the value is where the path says *)
Theorem cset_success_lookup : forall p d x nl d', cset d p x nl = (true, d') -> lookup d' p = Some x.
Proof.
  induction p as [|v r IH]; intros d x nl d' H; [discriminate|].
  destruct r as [|v' t].
  - rewrite cset_one in H. destruct (store v x d) as [d1|] eqn:E; [|discriminate]. injection H as <-.
    simpl. rewrite (child_at_store _ _ _ _ E). reflexivity.
  - rewrite cset_cons2 in H. destruct (cnext d v v' (S (List.length t)) nl) as [y|] eqn:En; [|discriminate].
    destruct (cset y (v' :: t) x nl) as [ok y'] eqn:Ec. injection H as -> <-.
    destruct (cnext_store _ _ _ _ _ _ y' En) as (d1 & Hs). rewrite Hs.
    cbn [lookup]. rewrite (child_at_store _ _ _ _ Hs). exact (IH _ _ _ _ Ec).
Qed.

(* ------------------------------------------------------------------ levels that exist are reused *)
Theorem cset_exists : forall p d x nl old,
  p <> [] -> lookup d p = Some old -> cset d p x nl = (true, put_at d p x).
Proof.
  induction p as [|v r IH]; intros d x nl old Hne Hl; [congruence|].
  cbn [lookup] in Hl. destruct (child_at v d) as [c|] eqn:Hc; [|discriminate].
  destruct r as [|v' t].
  - rewrite cset_one. cbn [put_at]. rewrite Hc. destruct (store_exists v x c d Hc) as (d1 & Hs). rewrite Hs. reflexivity.
  - rewrite cset_cons2. unfold cnext. rewrite Hc. rewrite (IH c x nl old ltac:(discriminate) Hl).
    cbn [put_at]. rewrite Hc. reflexivity.
Qed.

(* ------------------------------------------------------------------ embedding *)
Lemma Forall2_grows_refl l : Forall2 grows l l.
Proof. induction l; constructor; [apply g_refl | assumption]. Qed.

Lemma Forall2_dict_refl (l : list (string * json)) : Forall2 (fun a b => fst a = fst b /\ grows (snd a) (snd b)) l l.
Proof. induction l; constructor; [split; [reflexivity | apply g_refl] | assumption]. Qed.

Lemma store_grows_missing v a d d' : child_at v d = None -> store v a d = Some d' -> grows d d'.
Proof.
  destruct v as [k | z | | | | | | | |]; destruct d as [| | | | | i its | i its]; simpl; try discriminate.
  - intros Hc H. injection H as <-. rewrite dict_set_absent by exact Hc.
    apply g_dict; [apply Forall2_dict_refl|]. intros k' [<-|[]]. apply assoc_none_notin. exact Hc.
  - destruct (list_get its z) as [y|e] eqn:E; [discriminate|]. intros _.
    unfold list_set. rewrite (list_get_fail_norm _ _ _ E).
    destruct (Z.eqb (zlen its) z); [|discriminate]. intros H; injection H as <-.
    apply g_list. apply Forall2_grows_refl.
Qed.

Lemma store_grows_child v c c' d d' : child_at v d = Some c -> grows c c' -> store v c' d = Some d' -> grows d d'.
Proof.
  destruct v as [k | z | | | | | | | |]; destruct d as [| | | | | i its | i its]; simpl; try discriminate.
  - intros Hc Hg H. injection H as <-. destruct (assoc_split _ _ _ Hc) as (l1 & l2 & -> & Hn).
    rewrite dict_set_split by exact Hn. rewrite <- (app_nil_r (l1 ++ (k, c') :: l2)).
    apply g_dict; [|intros k' []]. apply Forall2_app; [apply Forall2_dict_refl|].
    constructor; [split; [reflexivity | exact Hg] | apply Forall2_dict_refl].
  - destruct (list_get its z) as [y|e] eqn:E; [|discriminate]. intros H; injection H as ->. intros Hg.
    destruct (list_get_ok _ _ _ E) as (n & Hn & Hnth). unfold list_set. rewrite Hn. intros H; injection H as <-.
    destruct (nth_split' _ _ _ Hnth) as (l1 & l2 & -> & <-). rewrite set_nth_split.
    rewrite <- (app_nil_r (l1 ++ c' :: l2)). apply g_list.
    apply Forall2_app; [apply Forall2_grows_refl|]. constructor; [exact Hg | apply Forall2_grows_refl].
Qed.

(* on SetError no pre-existing node has been altered, moved or removed *)
Theorem cset_fail_grows : forall p d x nl d', cset d p x nl = (false, d') -> grows d d'.
Proof.
  induction p as [|v r IH]; intros d x nl d' H; [injection H as <-; apply g_refl|].
  destruct r as [|v' t].
  - rewrite cset_one in H. destruct (store v x d); [discriminate|]. injection H as <-. apply g_refl.
  - rewrite cset_cons2 in H. destruct (cnext d v v' (S (List.length t)) nl) as [y|] eqn:En;
      [|injection H as <-; apply g_refl].
    destruct (cset y (v' :: t) x nl) as [ok y'] eqn:Ec. injection H as -> <-.
    destruct (cnext_store _ _ _ _ _ _ y' En) as (d1 & Hs). rewrite Hs.
    destruct (cnext_some _ _ _ _ _ _ En) as [Hc | (Hc & _ & _)].
    + eapply store_grows_child; eauto.
    + eapply store_grows_missing; eauto.
Qed.

(* on success at a location that did not exist: pure additions *)
Theorem cset_ok_missing_grows : forall p d x nl d',
  lookup d p = None -> cset d p x nl = (true, d') -> grows d d'.
Proof.
  induction p as [|v r IH]; intros d x nl d' Hl H; [discriminate|].
  destruct r as [|v' t].
  - rewrite cset_one in H. destruct (store v x d) as [d1|] eqn:Hs; [|discriminate]. injection H as <-.
    cbn [lookup] in Hl. destruct (child_at v d) eqn:Hc; [discriminate|]. eapply store_grows_missing; eauto.
  - rewrite cset_cons2 in H. destruct (cnext d v v' (S (List.length t)) nl) as [y|] eqn:En; [|discriminate].
    destruct (cset y (v' :: t) x nl) as [ok y'] eqn:Ec. injection H as -> <-.
    destruct (cnext_store _ _ _ _ _ _ y' En) as (d1 & Hs). rewrite Hs.
    destruct (cnext_some _ _ _ _ _ _ En) as [Hc | (Hc & _ & _)].
    + eapply store_grows_child; eauto. eapply IH; eauto. cbn [lookup] in Hl. rewrite Hc in Hl. exact Hl.
    + eapply store_grows_missing; eauto.
Qed.

(* a freshly created container ends up holding exactly the one entry the path names *)
Definition n_members (d : json) : nat :=
  match d with JList _ l => List.length l | JDict _ l => List.length l | _ => 0 end.

Lemma store_into_empty v a v' l d' : store v a (default_for_set v' l) = Some d' -> n_members d' = 1.
Proof.
  destruct v' as [k' | z' | | | | | | | |]; destruct v as [k | z | | | | | | | |]; cbn [store default_for_set]; try discriminate.
  - intros H; injection H as <-. reflexivity.
  - unfold list_set. destruct (norm_index (zlen (@nil json)) z) as [n|] eqn:En.
    + pose proof (norm_index_lt (@nil json) z n En) as Hlt. simpl in Hlt. lia.
    + destruct (Z.eqb (zlen (@nil json)) z); [|discriminate]. intros H; injection H as <-. reflexivity.
Qed.

Lemma cset_from_empty v0 l p x nl y' : cset (default_for_set v0 l) p x nl = (true, y') -> n_members y' = 1.
Proof.
  destruct p as [|v' t]; [discriminate|]. destruct t as [|v'' t'].
  - rewrite cset_one. destruct (store v' x (default_for_set v0 l)) as [d1|] eqn:Hs; [|discriminate].
    intros H; injection H as <-. eapply store_into_empty; eauto.
  - rewrite cset_cons2. destruct (cnext (default_for_set v0 l) v' v'' (S (List.length t')) nl) as [y|] eqn:En; [|discriminate].
    destruct (cset y (v'' :: t') x nl) as [ok y2]. intros H; injection H as -> <-.
    destruct (cnext_store _ _ _ _ _ _ y2 En) as (d1 & Hs). rewrite Hs. eapply store_into_empty; eauto.
Qed.

Theorem cset_created_single d v v' t x nl d' :
  child_at v d = None -> cset d (v :: v' :: t) x nl = (true, d') ->
  exists y', child_at v d' = Some y' /\ n_members y' = 1.
Proof.
  intros Hc. rewrite cset_cons2. destruct (cnext d v v' (S (List.length t)) nl) as [y|] eqn:En; [|discriminate].
  destruct (cset y (v' :: t) x nl) as [ok y'] eqn:Ec. intros H; injection H as -> <-.
  destruct (cnext_store _ _ _ _ _ _ y' En) as (d1 & Hs). rewrite Hs.
  exists y'. split; [eapply child_at_store; eauto|].
  destruct (cnext_some _ _ _ _ _ _ En) as [Hc' | (_ & -> & _)]; [congruence|].
  eapply cset_from_empty; eauto.
Qed.

(* ------------------------------------------------------------------ peeling the last step (the shape of set_match) *)
Lemma put_at_cons d v r y :
  put_at d (v :: r) y =
  match child_at v d with
  | Some c => match store v (put_at c r y) d with Some d' => d' | None => d end
  | None => d
  end.
Proof. reflexivity. Qed.

(* the parent path resolves: plain assignment into the node it leads to *)
Theorem cset_snoc_exists : forall pp d v x nl y,
  lookup d pp = Some y ->
  cset d (pp ++ [v]) x nl =
  match store v x y with Some y' => (true, put_at d pp y') | None => (false, d) end.
Proof.
  induction pp as [|w r IH]; intros d v x nl y Hl.
  - simpl in Hl. injection Hl as <-. reflexivity.
  - cbn [lookup] in Hl. destruct (child_at w d) as [c|] eqn:Hc; [|discriminate].
    assert (Hr : exists v' t, r ++ [v] = v' :: t) by (destruct r; simpl; eauto).
    destruct Hr as (v' & t & Hr). cbn [app]. rewrite Hr, cset_cons2. unfold cnext. rewrite Hc, <- Hr.
    rewrite (IH c v x nl y Hl). cbn [put_at]. rewrite Hc.
    destruct (store v x y) as [y'|]; [reflexivity|]. rewrite (store_same _ _ _ Hc). reflexivity.
Qed.

Lemma length_snoc_cons {A} (r : list A) v v' t : r ++ [v] = v' :: t -> List.length t = List.length r.
Proof. intros H. apply (f_equal (@List.length A)) in H. rewrite app_length in H. simpl in H. lia. Qed.

(* the parent path does not resolve: first set the parent path to the default the last step needs (one label
   further), then store into that default *)
Theorem cset_snoc_missing : forall pp d v x nl,
  pp <> [] -> lookup d pp = None ->
  cset d (pp ++ [v]) x nl =
  match cset d pp (default_for_set v nl) (S nl) with
  | (false, d1) => (false, d1)
  | (true, d1) =>
      match store v x (default_for_set v nl) with
      | Some y' => (true, put_at d1 pp y')
      | None => (false, d1)
      end
  end.
Proof.
  induction pp as [|w r IH]; intros d v x nl Hne Hl; [congruence|].
  destruct r as [|w' r'].
  - (* pp = [w] *)
    cbn [lookup] in Hl. destruct (child_at w d) as [c|] eqn:Hc; [discriminate|]. clear Hl.
    cbn [app]. rewrite cset_cons2, cset_one. unfold cnext. rewrite Hc. cbn [List.length].
    replace (nl + 1 - 1) with nl by lia.
    destruct (store w (default_for_set v nl) d) as [d1|] eqn:Hs; [|reflexivity].
    rewrite cset_one. destruct (store v x (default_for_set v nl)) as [y'|] eqn:Hs2.
    + cbn [put_at]. rewrite (child_at_store _ _ _ _ Hs). rewrite (store_store _ _ y' _ _ Hs).
      destruct (store_indep _ _ y' _ _ Hs) as (d2 & Hs3). rewrite Hs3. reflexivity.
    + rewrite Hs. reflexivity.
  - (* pp = w :: w' :: r' *)
    assert (Hr : exists t, (w' :: r') ++ [v] = w' :: t /\ List.length t = S (List.length r')).
    { exists (r' ++ [v]). split; [reflexivity|]. rewrite app_length. simpl. lia. }
    destruct Hr as (t & Hr & Hlen). cbn [app] in *. injection Hr as Hr. rewrite Hr.
    rewrite !cset_cons2. rewrite Hlen.
    assert (Hcn : cnext d w w' (S (S (List.length r'))) nl = cnext d w w' (S (List.length r')) (S nl)).
    { unfold cnext. replace (nl + S (S (List.length r')) - 1) with (S nl + S (List.length r') - 1) by lia. reflexivity. }
    rewrite Hcn. destruct (cnext d w w' (S (List.length r')) (S nl)) as [c|] eqn:En; [|reflexivity].
    assert (Hlc : lookup c (w' :: r') = None).
    { destruct (cnext_some _ _ _ _ _ _ En) as [Hc | (_ & -> & _)].
      - cbn [lookup] in Hl. rewrite Hc in Hl. exact Hl.
      - apply lookup_default. discriminate. }
    rewrite <- Hr.
    rewrite (IH c v x nl ltac:(discriminate) Hlc).
    destruct (cset c (w' :: r') (default_for_set v nl) (S nl)) as [[|] c1] eqn:Ec; [|reflexivity].
    destruct (cnext_store _ _ _ _ _ _ c1 En) as (d1 & Hs1). rewrite Hs1.
    destruct (store v x (default_for_set v nl)) as [y'|]; [|rewrite Hs1; reflexivity].
    rewrite (put_at_cons d1 w). rewrite (child_at_store _ _ _ _ Hs1). rewrite (store_store _ _ (put_at c1 (w' :: r') y') _ _ Hs1).
    destruct (store_indep _ _ (put_at c1 (w' :: r') y') _ _ Hs1) as (d2 & Hs3). rewrite Hs3. reflexivity.
Qed.
