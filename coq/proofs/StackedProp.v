(* StackedProp.v -- a deprecated property stacked on an mprop: pprop(p2, mprop(p1, data)).
   Reading it is get_match(p2, get_match(p1, data, must_match=False), must_match=False); for paths of keys and
   indices this is the positional lookup of p1 ++ p2 in the current data, i.e. what get_match(p1 ++ p2, data,
   must_match=False) answers.  (The descriptor family of the correspondence encodes a stacked property by that
   concatenation; this file is the justification.  Found missing from the checks by seeded change C18-m10.) *)
From Coq Require Import List ZArith String Bool PArith Lia.
From TP Require Import Json PyPrim Machine Api Spec SpecHas Mutate SpecSet.
From TP.proofs Require Import RefineBase Refine NextLayer Iterate WfRun Query SpecLemmas Top HasScan HasLoop HasRefine ApiTop
     FirstNext MutateProofs CsetLemmas CascadeRefine CascadeFrom.
Import ListNotations.
Close Scope Z_scope.
Open Scope list_scope.

Section Stacked.
Variable B H : positive.
Variable depth : nat.
Notation sev := (seval_h depth).

(* get_match with must_match=False on a path of keys and indices: the match holds the value at that position, and
   there is no match exactly when the position does not exist *)
Lemma get_match_ki_opt (src : @source json) pp tr :
  src_wf src -> kipath pp = true ->
  let r := fst (jget_match B H depth src pp false tr) in
  let d := cdata (abs (root_match src)) in
  (exists pm, r = Ok (Some pm) /\ wf pm /\ lookup d pp = Some (tdata pm)) \/
  (r = Ok None /\ lookup d pp = None) \/
  (exists e, r = Exn e /\ budget_exn e = true).
Proof.
  intros Hwf Hk r d.
  pose proof (get_match_spec B H depth src pp false tr Hwf) as Hs. cbv zeta in Hs.
  destruct (sem_deval hp sev pp (kipath_pure sev pp Hk) (kipath_valid pp Hk) 0 (pmc tr) (abs (root_match src)))
    as [Hok Hres].
  unfold answer in Hs. rewrite Hres in Hs. red in Hok.
  destruct (deval_ki sev pp (abs (root_match src)) Hk) as [(c' & Hd & Hl) | (Hd & Hl)]; rewrite Hd in Hs.
  - destruct Hs as [(m1 & Hr & Hw & Hh) | [(Hr & Hn & _) | [(e & He & _) | (e & Hr & Hb)]]].
    + left. exists m1. split; [exact Hr|]. split; [exact Hw|]. simpl in Hh. injection Hh as ->.
      rewrite (cdata_abs m1 Hw) in Hl. exact Hl.
    + discriminate.
    + congruence.
    + right. right. eauto.
  - destruct Hs as [(m1 & Hr & Hw & Hh) | [(Hr & Hn & _) | [(e & He & _) | (e & Hr & Hb)]]].
    + discriminate.
    + right. left. split; [exact Hr | exact Hl].
    + congruence.
    + right. right. eauto.
Qed.

(* the stacked read, source present: the value is the one at p1 ++ p2 in the document *)
Theorem stacked_read doc p1 p2 tr pm :
  kipath p1 = true -> kipath p2 = true ->
  fst (jget_match B H depth (SrcDoc doc) p1 false tr) = Ok (Some pm) ->
  let r2 := fst (jget_match B H depth (SrcMatch pm) p2 false tr) in
  (exists m2, r2 = Ok (Some m2) /\ lookup doc (p1 ++ p2) = Some (tdata m2)) \/
  (r2 = Ok None /\ lookup doc (p1 ++ p2) = None) \/
  (exists e, r2 = Exn e /\ budget_exn e = true).
Proof.
  intros Hk1 Hk2 H1 r2.
  destruct (get_match_ki_opt (SrcDoc doc) p1 tr I Hk1) as [(pm' & Hr & Hw & Hl) | [(Hr & _) | (e & Hr & _)]];
    rewrite H1 in Hr; try discriminate.
  injection Hr as <-. change (cdata (abs (root_match (SrcDoc doc)))) with doc in Hl.
  destruct (get_match_ki_opt (SrcMatch pm) p2 tr Hw Hk2) as [(m2 & Hr2 & _ & Hl2) | [(Hr2 & Hl2) | Hb]];
    change (cdata (abs (root_match (SrcMatch pm)))) with (cdata (abs pm)) in *; rewrite ?(cdata_abs pm Hw) in *.
  - left. exists m2. split; [exact Hr2|]. rewrite lookup_app', Hl. exact Hl2.
  - right. left. split; [exact Hr2|]. rewrite lookup_app', Hl. exact Hl2.
  - right. right. exact Hb.
Qed.

(* the stacked read, source missing: nothing at p1, hence nothing at p1 ++ p2 *)
Theorem stacked_read_missing doc p1 p2 tr :
  kipath p1 = true ->
  fst (jget_match B H depth (SrcDoc doc) p1 false tr) = Ok None ->
  lookup doc (p1 ++ p2) = None.
Proof.
  intros Hk1 H1.
  destruct (get_match_ki_opt (SrcDoc doc) p1 tr I Hk1) as [(pm' & Hr & _) | [(_ & Hl) | (e & Hr & _)]];
    try (rewrite H1 in Hr; discriminate).
  change (cdata (abs (root_match (SrcDoc doc)))) with doc in Hl. rewrite lookup_app', Hl. reflexivity.
Qed.

(* and the plain read of the concatenated path answers the same position *)
Theorem concatenated_read doc p1 p2 tr :
  kipath p1 = true -> kipath p2 = true ->
  let r := fst (jget_match B H depth (SrcDoc doc) (p1 ++ p2) false tr) in
  (exists m, r = Ok (Some m) /\ lookup doc (p1 ++ p2) = Some (tdata m)) \/
  (r = Ok None /\ lookup doc (p1 ++ p2) = None) \/
  (exists e, r = Exn e /\ budget_exn e = true).
Proof.
  intros Hk1 Hk2 r.
  assert (Hk : kipath (p1 ++ p2) = true).
  { unfold kipath in *. rewrite forallb_app, Hk1, Hk2. reflexivity. }
  destruct (get_match_ki_opt (SrcDoc doc) (p1 ++ p2) tr I Hk) as [(m & Hr & _ & Hl) | [Hn | Hb]]; eauto.
Qed.

End Stacked.
