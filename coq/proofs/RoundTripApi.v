(* RoundTripApi.v -- C11 on the model of the API: get_match(m.path, document) for a match m that a parent-free
   path produced from a document with unique keys finds a match holding the very object m holds. *)
From Coq Require Import List ZArith String Bool PArith Lia.
From TP Require Import Json PyPrim Machine Api Spec SpecHas Mutate SpecSet Obs Dsl Run.
From TP.proofs Require Import RefineBase Refine NextLayer Iterate WfRun Query SpecLemmas BelowLemmas CsetLemmas CascadeRefine RoundTrip.
Import ListNotations.
Close Scope Z_scope.
Open Scope list_scope.

Lemma explicit_path_steps (m : jtm) : explicit_path m = steps_of (abs m).
Proof.
  unfold explicit_path, steps_of, abs. destruct (path_match_list m) as [|x l]; [reflexivity|].
  cbn [tl map]. rewrite map_map. apply map_ext. intros y. unfold entry_of. cbn [fst snd]. destruct (data_name y); reflexivity.
Qed.

Section Api.
Variable B H : positive.
Variable depth : nat.

Theorem get_match_round_trip doc (p : list (vertex hp)) (m : jtm) tr :
  uniq doc -> no_parent p -> wf m ->
  In (abs m) (deval hp (seval_h depth) p (root_ctx doc)) ->
  let r := fst (jget_match B H depth (SrcDoc doc) (explicit_path m) true tr) in
  (exists pm, r = Ok (Some pm) /\ tdata pm = tdata m) \/ (exists e, r = Exn e /\ budget_exn e = true).
Proof.
  intros Hu Hnp Hw Hin r.
  destruct (round_trip_spec (seval_h depth) doc p (abs m) Hu Hnp Hin) as [Hl Hk].
  rewrite <- explicit_path_steps in Hl, Hk. rewrite (cdata_abs m Hw) in Hl.
  destruct (get_match_ki B H depth doc (explicit_path m) tr Hk) as [(pm & Hr & Hl') | [(Hr & Hl') | Hb]].
  - left. exists pm. split; [exact Hr|]. congruence.
  - congruence.
  - right. exact Hb.
Qed.

End Api.
