(* PropLemmas.v -- corollaries in the vocabulary of the properties (C01, C02, C07, C12, C13, C17, C20). *)
From Coq Require Import List ZArith String Bool PArith Lia FMapPositive.
From TP Require Import Json PyPrim Machine Spec.
From TP.proofs Require Import RefineBase Refine NextLayer Iterate WfRun Query SpecLemmas Top.
Import ListNotations.
Close Scope Z_scope.
Open Scope list_scope.

Section Spec.
Variable P : Type.
Variable sev : P -> jctx -> res json * list sevent.
Notation deval := (deval P sev).
Notation select := (select P sev).

(* ------------------------------------------------------------------ C01: child steps *)
Definition is_child (v : vertex P) : bool :=
  match v with VRec | VParent | VPred _ => false | _ => true end.

(* a path of child steps is evaluated step by step: select, then the rest from every selected member, in order *)
Lemma deval_child_cons v r c : is_child v = true -> deval (v :: r) c = flat_map (deval r) (select v c).
Proof. destruct v; simpl; intros H; try discriminate; reflexivity. Qed.

Lemma deval_nil c : deval [] c = [c].
Proof. reflexivity. Qed.

(* a step applied to a node of the wrong kind selects nothing instead of failing *)
Lemma select_scalar v c : is_child v = true -> jshape (cdata c) = SScalar -> select v c = [].
Proof.
  intros Hc Hs. destruct v; simpl in Hc; try discriminate; unfold SpecLemmas.select, items_for; rewrite Hs; reflexivity.
Qed.
Lemma select_key_on_list k its c : jshape (cdata c) = SList its -> select (VKey k) c = [].
Proof. intros Hs. unfold SpecLemmas.select. rewrite Hs. reflexivity. Qed.
Lemma select_keywild_on_list its c : jshape (cdata c) = SList its -> select VKeyWild c = [].
Proof. intros Hs. unfold SpecLemmas.select, items_for. rewrite Hs. reflexivity. Qed.
Lemma select_idx_on_dict z its c : jshape (cdata c) = SDict its -> select (VIdx z) c = [].
Proof. intros Hs. unfold SpecLemmas.select. rewrite Hs. reflexivity. Qed.
Lemma select_slice_on_dict a b s its c : jshape (cdata c) = SDict its -> select (VSlice a b s) c = [].
Proof. intros Hs. unfold SpecLemmas.select, items_for. rewrite Hs. reflexivity. Qed.
Lemma select_idxwild_on_dict its c : jshape (cdata c) = SDict its -> select VIdxWild c = [].
Proof. intros Hs. unfold SpecLemmas.select, items_for. rewrite Hs. reflexivity. Qed.

(* the clauses themselves: dict members in insertion order, list items in index order, comma lists in the
   order written with repeats repeated and absent entries skipped, slices as Python enumerates them *)
Lemma select_key_hit k its x c :
  jshape (cdata c) = SDict its -> assoc k its = Some x -> select (VKey k) c = [ext c (NStr k) x].
Proof. intros Hs Ha. unfold SpecLemmas.select. rewrite Hs, Ha. reflexivity. Qed.
Lemma select_idx_hit z its x c :
  jshape (cdata c) = SList its -> list_get its z = Ok x -> select (VIdx z) c = [ext c (NInt z) x].
Proof. intros Hs Ha. unfold SpecLemmas.select. rewrite Hs, Ha. reflexivity. Qed.
Lemma select_keywild its c :
  jshape (cdata c) = SDict its -> select VKeyWild c = map (fun kx => ext c (NStr (fst kx)) (snd kx)) its.
Proof. intros Hs. unfold SpecLemmas.select, items_for, dict_iter. rewrite Hs, map_map. reflexivity. Qed.
Lemma select_idxwild its c :
  jshape (cdata c) = SList its ->
  select VIdxWild c = map (fun ix => ext c (NInt (fst ix)) (snd ix)) (enumerate its).
Proof. intros Hs. unfold SpecLemmas.select, items_for, list_iter. rewrite Hs, map_map. reflexivity. Qed.
Lemma select_genwild_dict dot its c :
  jshape (cdata c) = SDict its -> select (VGenWild dot) c = map (fun kx => ext c (NStr (fst kx)) (snd kx)) its.
Proof. intros Hs. unfold SpecLemmas.select, items_for, dict_iter. rewrite Hs, map_map. reflexivity. Qed.
Lemma select_genwild_list dot its c :
  jshape (cdata c) = SList its ->
  select (VGenWild dot) c = map (fun ix => ext c (NInt (fst ix)) (snd ix)) (enumerate its).
Proof. intros Hs. unfold SpecLemmas.select, items_for, list_iter. rewrite Hs, map_map. reflexivity. Qed.
Lemma select_tuple_dict l its c :
  jshape (cdata c) = SDict its ->
  select (VTuple l) c =
  flat_map (fun nm => match nm with
                      | NStr k => match assoc k its with Some x => [ext c nm x] | None => [] end
                      | NInt _ => []
                      end) l.
Proof.
  intros Hs. unfold SpecLemmas.select, items_for, tuple_iter_dict. rewrite Hs.
  induction l as [|nm l IH]; [reflexivity|]. simpl. rewrite map_app, IH.
  destruct nm as [k|z]; [destruct (assoc k its)|]; reflexivity.
Qed.
Lemma select_tuple_list l its c :
  jshape (cdata c) = SList its ->
  select (VTuple l) c =
  flat_map (fun nm => match nm with
                      | NInt i => match list_get its i with Ok x => [ext c nm x] | Exn _ => [] end
                      | NStr _ => []
                      end) l.
Proof.
  intros Hs. unfold SpecLemmas.select, items_for, tuple_iter_list. rewrite Hs.
  induction l as [|nm l IH]; [reflexivity|]. simpl. rewrite map_app, IH.
  destruct nm as [k|z]; [|destruct (list_get its z)]; reflexivity.
Qed.
Lemma select_slice a b s its l c :
  jshape (cdata c) = SList its -> enumerate_slice a b s its = Ok l ->
  select (VSlice a b s) c = map (fun ix => ext c (NInt (fst ix)) (snd ix)) l.
Proof. intros Hs He. unfold SpecLemmas.select, items_for. rewrite Hs, He, map_map. reflexivity. Qed.

(* ------------------------------------------------------------------ C02: recursive descent *)
(* as the last step: the context container, then all of its descendants in document pre-order *)
Lemma deval_rec_last c :
  deval [VRec] c = if is_container c then c :: below c (cdata c) else [].
Proof.
  cbn [SpecLemmas.deval]. destruct (is_container c); [|reflexivity]. simpl. f_equal.
  induction (below c (cdata c)) as [|c' l IH]; [reflexivity|]. simpl. rewrite IH.
  destruct (is_container c'); reflexivity.
Qed.

(* followed by further steps: the remainder at the context container and then at every descendant container,
   in the same pre-order; scalars contribute nothing *)
Lemma deval_rec_then q c :
  q <> [] ->
  deval (VRec :: q) c =
  if is_container c then flat_map (deval q) (c :: filter is_container (below c (cdata c))) else [].
Proof.
  intros Hq. cbn [SpecLemmas.deval]. destruct (is_container c); [|reflexivity].
  assert (Hl : leafb P q = false) by (destruct q; [congruence | reflexivity]). rewrite Hl.
  simpl. f_equal.
  induction (below c (cdata c)) as [|c' l IH]; [reflexivity|]. simpl.
  destruct (is_container c'); simpl; rewrite IH; reflexivity.
Qed.

(* a scalar context yields nothing *)
Lemma deval_rec_scalar q c : is_container c = false -> deval (VRec :: q) c = [].
Proof. intros H. cbn [SpecLemmas.deval]. rewrite H. reflexivity. Qed.

(* ------------------------------------------------------------------ C13: parent steps *)
Lemma select_parent c : select VParent c = match ext_parent c with Some c' => [c'] | None => [] end.
Proof. reflexivity. Qed.

Lemma stack_ext c nm x : stack (ext c nm x) = (nm, x) :: stack c.
Proof. unfold ext. rewrite stack_snoc. destruct nm; reflexivity. Qed.

(* the parent of a selected child is the node it was selected from, however that node was reached *)
Lemma parent_of_child c nm x n d :
  cnode c = Some (n, d) -> ext_parent (ext c nm x) = Some (ext c nm x ++ [(KPar, n, d)]).
Proof.
  intros Hc. unfold ext_parent, tree_parent. rewrite stack_ext. unfold cnode in Hc.
  destruct (stack c) as [|p rest]; [discriminate|]. simpl in Hc. injection Hc as ->. reflexivity.
Qed.

(* a parent entry stands at the node below the top of the stack: climbing twice climbs two levels *)
Lemma stack_parent c n d : stack (c ++ [(KPar, n, d)]) = tl (stack c).
Proof. rewrite stack_snoc. reflexivity. Qed.

(* the root has no parent *)
Lemma parent_of_root d : ext_parent (root_ctx d) = None.
Proof. reflexivity. Qed.

(* p.<child>.parent revisits the node p selected, once per selected child *)
Lemma child_then_parent c nm x n d :
  cnode c = Some (n, d) ->
  cnode (ext c nm x ++ [(KPar, n, d)]) = cnode c.
Proof.
  intros Hc. unfold cnode in *. rewrite stack_parent, stack_ext. reflexivity.
Qed.

End Spec.

(* ------------------------------------------------------------------ C07: iterators do not interfere *)
Section Interleave.
Variable P : Type.
Variable ev : P -> jtm -> @tracecfg json -> res json * list jevent.
Variable B : positive.

(* an iterator: its source, path, trace setting (shared, immutable) and its own private state *)
Record iterator := { it_src : @source json; it_vp : list (vertex P); it_tr : @tracecfg json; it_st : jstate }.

Definition it_next (it : iterator) : @outcome json * list jevent * iterator :=
  let '(o, z, es) := next jshape P ev B (it_src it) (it_vp it) (it_tr it) (it_st it) in
  (o, es, {| it_src := it_src it; it_vp := it_vp it; it_tr := it_tr it; it_st := z |}).

Fixpoint set_nth_it (l : list iterator) (k : nat) (x : iterator) : list iterator :=
  match l, k with
  | [], _ => []
  | _ :: r, O => x :: r
  | y :: r, S k' => y :: set_nth_it r k' x
  end.

(* run a schedule (which iterator is advanced next) over a family of iterators; log (index, outcome, events) *)
Fixpoint run_schedule (its : list iterator) (sched : list nat) : list (nat * (@outcome json * list jevent)) :=
  match sched with
  | [] => []
  | k :: r =>
      match nth_error its k with
      | None => run_schedule its r
      | Some it => let '(o, es, it') := it_next it in (k, (o, es)) :: run_schedule (set_nth_it its k it') r
      end
  end.

(* what iterator k would deliver alone when advanced n times *)
Fixpoint alone (it : iterator) (n : nat) : list (@outcome json * list jevent) :=
  match n with
  | O => []
  | S n' => let '(o, es, it') := it_next it in (o, es) :: alone it' n'
  end.

Definition count_k (k : nat) (sched : list nat) : nat := List.length (filter (Nat.eqb k) sched).
Definition project_k (k : nat) (log : list (nat * (@outcome json * list jevent))) :=
  map snd (filter (fun x => Nat.eqb k (fst x)) log).

Lemma nth_set_same l k x : k < List.length l -> nth_error (set_nth_it l k x) k = Some x.
Proof. revert k. induction l as [|y l IH]; intros [|k] H; simpl in *; try lia; auto. apply IH. lia. Qed.
Lemma nth_set_other l k j x : j <> k -> nth_error (set_nth_it l k x) j = nth_error l j.
Proof. revert k j. induction l as [|y l IH]; intros [|k] [|j] H; simpl; try congruence; auto. Qed.
Lemma set_nth_length l k x : List.length (set_nth_it l k x) = List.length l.
Proof. revert k. induction l as [|y l IH]; intros [|k]; simpl; auto. Qed.

(* each iterator yields exactly what it would yield alone, under every schedule *)
Theorem interleave_independent :
  forall sched its k it,
    nth_error its k = Some it ->
    project_k k (run_schedule its sched) = alone it (count_k k sched).
Proof.
  induction sched as [|j sched IH]; intros its k it Hk; [reflexivity|].
  cbn [run_schedule]. destruct (nth_error its j) as [itj|] eqn:Hj.
  - destruct (it_next itj) as [[o es] itj'] eqn:Hn.
    unfold project_k, count_k in *. cbn [filter fst map].
    destruct (Nat.eqb k j) eqn:Hkj.
    + apply Nat.eqb_eq in Hkj. subst j. rewrite Hk in Hj. injection Hj as <-.
      cbn [map snd List.length alone]. rewrite Hn. f_equal.
      apply IH. apply nth_set_same. apply nth_error_Some. congruence.
    + apply Nat.eqb_neq in Hkj. apply IH. rewrite nth_set_other by congruence. exact Hk.
  - unfold count_k in *. cbn [filter].
    destruct (Nat.eqb k j) eqn:Hkj; [apply Nat.eqb_eq in Hkj; subst j; congruence|].
    apply IH. exact Hk.
Qed.

End Interleave.
