(* CascadeFrom.v -- set_match with cascade=True when the data source is a Match (set_(p, v, match, cascade=True)):
   the assignment is the top-down specification `cset` applied to the subtree the Match holds, put back at the
   position of that subtree in the document.  (Found missing from the checks by seeded change C09-m5.) *)
From Coq Require Import List ZArith String Bool PArith Lia.
From TP Require Import Json PyPrim Machine Api Spec SpecHas Mutate SpecSet.
From TP.proofs Require Import RefineBase Refine NextLayer Iterate WfRun Query SpecLemmas Top HasScan HasLoop HasRefine ApiTop
     FirstNext MutateProofs CsetLemmas CascadeRefine.
Import ListNotations.
Close Scope Z_scope.
Open Scope list_scope.

(* ------------------------------------------------------------------ replacing a subtree at a position *)
Lemma lookup_app' d p q : lookup d (p ++ q) = match lookup d p with Some y => lookup y q | None => None end.
Proof.
  revert d. induction p as [|v p IH]; intros d; [reflexivity|]. cbn [app lookup].
  destruct (child_at v d); [apply IH | reflexivity].
Qed.

Lemma put_at_app : forall bp d t q y, lookup d bp = Some t -> put_at d (bp ++ q) y = put_at d bp (put_at t q y).
Proof.
  induction bp as [|v bp IH]; intros d t q y Hl; [simpl in Hl; injection Hl as ->; reflexivity|].
  cbn [lookup] in Hl. destruct (child_at v d) as [c|] eqn:Hc; [|discriminate].
  cbn [app]. rewrite !put_at_cons, Hc, (IH c t q y Hl). reflexivity.
Qed.

Lemma lookup_put_at : forall bp d t y, lookup d bp = Some t -> lookup (put_at d bp y) bp = Some y.
Proof.
  induction bp as [|v bp IH]; intros d t y Hl; [reflexivity|].
  cbn [lookup] in Hl. destruct (child_at v d) as [c|] eqn:Hc; [|discriminate].
  rewrite put_at_cons, Hc. destruct (store_exists v (put_at c bp y) c d Hc) as (d1 & Hs). rewrite Hs.
  cbn [lookup]. rewrite (child_at_store _ _ _ _ Hs). apply (IH c t y Hl).
Qed.

Lemma put_at_put_at : forall bp d t y1 y2, lookup d bp = Some t -> put_at (put_at d bp y1) bp y2 = put_at d bp y2.
Proof.
  induction bp as [|v bp IH]; intros d t y1 y2 Hl; [reflexivity|].
  cbn [lookup] in Hl. destruct (child_at v d) as [c|] eqn:Hc; [|discriminate].
  rewrite (put_at_cons d v bp y1), Hc. destruct (store_exists v (put_at c bp y1) c d Hc) as (d1 & Hs). rewrite Hs.
  rewrite put_at_cons, (child_at_store _ _ _ _ Hs), (IH c t y1 y2 Hl), (store_store _ _ _ _ _ Hs).
  rewrite put_at_cons, Hc. destruct (store_indep _ _ (put_at c bp y2) _ _ Hs) as (d2 & Hs2). rewrite Hs2. reflexivity.
Qed.

Lemma put_at_same : forall bp d t, lookup d bp = Some t -> put_at d bp t = d.
Proof.
  induction bp as [|v bp IH]; intros d t Hl; [simpl in Hl; injection Hl as ->; reflexivity|].
  cbn [lookup] in Hl. destruct (child_at v d) as [c|] eqn:Hc; [|discriminate].
  rewrite put_at_cons, Hc, (IH c t Hl), (store_same _ _ _ Hc). reflexivity.
Qed.

Lemma put_at_cnt : forall bp d t y i, lookup d bp = Some t ->
  cnt (labels (put_at d bp y)) i + cnt (labels t) i = cnt (labels d) i + cnt (labels y) i.
Proof.
  induction bp as [|v bp IH]; intros d t y i Hl; [simpl in Hl; injection Hl as ->; simpl; lia|].
  cbn [lookup] in Hl. destruct (child_at v d) as [c|] eqn:Hc; [|discriminate].
  rewrite put_at_cons, Hc. destruct (store_exists v (put_at c bp y) c d Hc) as (d1 & Hs). rewrite Hs.
  pose proof (store_cnt_child _ _ _ _ _ i Hc Hs). pose proof (IH c t y i Hl). lia.
Qed.

Lemma grows_put_at : forall bp d t t', lookup d bp = Some t -> grows t t' -> grows d (put_at d bp t').
Proof.
  induction bp as [|v bp IH]; intros d t t' Hl Hg; [simpl in Hl; injection Hl as ->; exact Hg|].
  cbn [lookup] in Hl. destruct (child_at v d) as [c|] eqn:Hc; [|discriminate].
  rewrite put_at_cons, Hc. destruct (store_exists v (put_at c bp t') c d Hc) as (d1 & Hs). rewrite Hs.
  eapply store_grows_child; eauto.
Qed.

Section From.
Variable B H : positive.
Variable depth : nat.
Notation set_match := (set_match B H depth).
Notation sev := (seval_h depth).

(* get_match from a well-formed Match on a path of keys and indices: positional lookup in the value it holds *)
Lemma get_match_ki_from (m : jtm) pp tr :
  wf m -> kipath pp = true ->
  let r := fst (jget_match B H depth (SrcMatch m) pp true tr) in
  (exists pm, r = Ok (Some pm) /\ lookup (tdata m) pp = Some (tdata pm)) \/
  (r = Exn ENestedMatchNotFound /\ lookup (tdata m) pp = None) \/
  (exists e, r = Exn e /\ budget_exn e = true).
Proof.
  intros Hwf Hk r.
  pose proof (get_match_spec B H depth (SrcMatch m) pp true tr Hwf) as Hs. cbv zeta in Hs.
  destruct (sem_deval hp sev pp (kipath_pure sev pp Hk) (kipath_valid pp Hk) 0 (pmc tr) (abs (root_match (SrcMatch m))))
    as [Hok Hres].
  unfold answer in Hs. rewrite Hres in Hs. red in Hok.
  change (abs (root_match (SrcMatch m))) with (abs m) in *.
  destruct (deval_ki sev pp (abs m) Hk) as [(c' & Hd & Hl) | (Hd & Hl)];
    rewrite (cdata_abs m Hwf) in Hl; rewrite Hd in Hs.
  - destruct Hs as [(m1 & Hr & Hw & Hh) | [(Hr & Hn & _) | [(e & He & _) | (e & Hr & Hb)]]].
    + left. exists m1. split; [exact Hr|]. simpl in Hh. injection Hh as ->. rewrite cdata_abs in Hl by exact Hw. exact Hl.
    + discriminate.
    + congruence.
    + right. right. eauto.
  - destruct Hs as [(m1 & Hr & Hw & Hh) | [(Hr & Hn & _) | [(e & He & _) | (e & Hr & Hb)]]].
    + discriminate.
    + right. left. split; [exact Hr | exact Hl].
    + congruence.
    + right. right. eauto.
Qed.

Theorem set_match_cset_from : forall fuel (m : jtm) bp doc p x tr nl r doc' nl' es,
  wf m -> lookup doc bp = Some (tdata m) ->
  kipath p = true -> List.length p < fuel -> fresh doc nl (List.length p) ->
  set_match fuel (SrcMatch m) doc p x true tr nl = (r, doc', nl', es) ->
  match r with
  | Ok m' => exists t', cset (tdata m) p x nl = (true, t') /\ doc' = put_at doc bp t' /\ tdata m' = x
  | Exn e => (exists t', cset (tdata m) p x nl = (false, t') /\ doc' = put_at doc bp t' /\ e = ESet) \/
             (budget_exn e = true /\ grows doc doc')
  end.
Proof.
  induction fuel as [|f IH]; intros m bp doc p x tr nl r doc' nl' es Hwf Hbp Hk Hlen Hfr Hsm; [lia|].
  cbn [Mutate.set_match] in Hsm.
  destruct (split_last p) as [[pp v]|] eqn:Hsp.
  2:{ injection Hsm as <- <- _ _. rewrite (split_last_nil _ Hsp). left. exists (tdata m).
      split; [reflexivity|]. split; [symmetry; apply (put_at_same bp doc _ Hbp) | reflexivity]. }
  pose proof (split_last_snoc _ _ _ Hsp) as Hp. subst p.
  destruct (kipath_snoc _ _ Hk) as [Hkpp Hkv].
  pose proof (get_match_ki_from m pp tr Hwf Hkpp) as Hg. cbv zeta in Hg.
  destruct (jget_match B H depth (SrcMatch m) pp true tr) as [rg es0]. cbn [fst] in Hg.
  destruct Hg as [(pm & -> & Hl) | [(-> & Hl) | (e & -> & Hb)]].
  - (* the parent path resolves inside the Match *)
    assert (Hld : lookup doc (bp ++ pp) = Some (tdata pm)) by (rewrite lookup_app', Hbp; exact Hl).
    rewrite (leaf_set_store doc pm v x (bp ++ pp) (tdata pm) Hkv Hld eq_refl (fun i Hi => fresh_one doc nl _ (bp ++ pp) _ i Hfr Hld Hi)) in Hsm.
    rewrite (cset_snoc_exists pp (tdata m) v x nl _ Hl).
    destruct (store v x (tdata pm)) as [y'|]; injection Hsm as <- <- _ _.
    + exists (put_at (tdata m) pp y'). split; [reflexivity|]. split; [apply put_at_app; exact Hbp | apply tdata_mk_child; exact Hkv].
    + left. exists (tdata m). split; [reflexivity|]. split; [symmetry; apply (put_at_same bp doc _ Hbp) | reflexivity].
  - (* it does not: cascade inside the Match *)
    assert (Hne : pp <> []) by (intros ->; discriminate Hl).
    assert (Hul : uses_label v = true) by (destruct v; try discriminate; reflexivity).
    rewrite Hul in Hsm.
    destruct (set_match f (SrcMatch m) doc pp (default_for_set v nl) true tr (S nl)) as [[[r1 doc1] nl2] es1] eqn:Hrec.
    assert (Hfr1 : fresh doc (S nl) (List.length pp)).
    { destruct Hfr as [H1 H2]; split; [exact H1 | intros i Hi; specialize (H2 i Hi); rewrite app_length in H2; simpl in H2; lia]. }
    assert (Hlen1 : List.length pp < f) by (rewrite app_length in Hlen; simpl in Hlen; lia).
    pose proof (IH m bp doc pp (default_for_set v nl) tr (S nl) r1 doc1 nl2 es1 Hwf Hbp Hkpp Hlen1 Hfr1 Hrec) as IHr.
    rewrite (cset_snoc_missing pp (tdata m) v x nl Hne Hl).
    destruct r1 as [pm|e].
    + destruct IHr as (t1 & Hc & Hd1 & Htd). rewrite Hc.
      pose proof (cset_success_lookup _ _ _ _ _ Hc) as Hl1.
      assert (Hld1 : lookup doc1 (bp ++ pp) = Some (default_for_set v nl)).
      { rewrite Hd1, lookup_app', (lookup_put_at bp doc _ t1 Hbp). exact Hl1. }
      assert (Hone : forall i, label_of (default_for_set v nl) = Some i -> cnt (labels doc1) i = 1).
      { intros i Hi. assert (i = nl) by (destruct v; try discriminate; simpl in Hi; congruence). subst i.
        pose proof (put_at_cnt bp doc _ t1 nl Hbp) as Hpc. rewrite <- Hd1 in Hpc.
        pose proof (cset_count pp (tdata m) _ (S nl) t1 nl ltac:(lia) Hl Hc) as Hcc.
        assert (H0 : cnt (labels doc) nl = 0).
        { apply count_occ_not_In. intros Hin. destruct Hfr as [_ H2]. specialize (H2 _ Hin). rewrite app_length in H2. simpl in H2. lia. }
        assert (Hd : cnt (labels (default_for_set v nl)) nl = 1)
          by (destruct v; try discriminate; simpl; destruct (Nat.eq_dec nl nl); congruence).
        lia. }
      rewrite (leaf_set_store doc1 pm v x (bp ++ pp) _ Hkv Hld1 Htd Hone) in Hsm.
      destruct (store v x (default_for_set v nl)) as [y'|]; injection Hsm as <- <- _ _.
      * exists (put_at t1 pp y'). split; [reflexivity|]. split; [|apply tdata_mk_child; exact Hkv].
        rewrite Hd1. rewrite (put_at_app bp (put_at doc bp t1) t1 pp y' (lookup_put_at bp doc _ t1 Hbp)).
        apply (put_at_put_at bp doc _ t1 _ Hbp).
      * left. exists t1. split; [reflexivity|]. split; [exact Hd1 | reflexivity].
    + injection Hsm as <- <- _ _. destruct IHr as [(t1 & Hc & Hd1 & ->) | [Hb Hg]].
      * left. exists t1. rewrite Hc. split; [reflexivity|]. split; [exact Hd1 | reflexivity].
      * right. split; assumption.
  - (* a budget exception of the search itself *)
    destruct e; try discriminate Hb; injection Hsm as <- <- _ _; right; (split; [exact Hb | apply g_refl]).
Qed.

(* whatever goes wrong, no pre-existing node of the document has been altered, moved or removed *)
Theorem set_match_from_failure_grows fuel (m : jtm) bp doc p x tr nl e doc' nl' es :
  wf m -> lookup doc bp = Some (tdata m) ->
  kipath p = true -> List.length p < fuel -> fresh doc nl (List.length p) ->
  set_match fuel (SrcMatch m) doc p x true tr nl = (Exn e, doc', nl', es) -> grows doc doc'.
Proof.
  intros Hwf Hbp Hk Hlen Hfr Hsm.
  pose proof (set_match_cset_from _ _ _ _ _ _ _ _ _ _ _ _ Hwf Hbp Hk Hlen Hfr Hsm) as Hs. cbn in Hs.
  destruct Hs as [(t' & Hc & -> & _) | [_ Hg]]; [|exact Hg].
  eapply grows_put_at; [exact Hbp | eapply cset_fail_grows; eauto].
Qed.

End From.
