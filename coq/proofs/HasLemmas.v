(* HasLemmas.v -- specification-level facts about filters and the has family (C03, C04) and about the
   exceptions a query can end in (C16). *)
From Coq Require Import List ZArith String Bool PArith Lia.
From TP Require Import Json PyPrim Machine Api Spec SpecHas.
From TP.proofs Require Import RefineBase Refine Query SpecLemmas HasScan.
Import ListNotations.
Close Scope Z_scope.
Open Scope list_scope.

Notation hp := (@hpred json).

(* ------------------------------------------------------------------ C03: filters *)
Lemma seval_user n tag f c : seval_h (S n) (HUser tag f) c = (f c, [SCall tag c]).
Proof. reflexivity. Qed.

(* a filter selects its candidate iff the predicate returns a truthy value: 1, 'x', [0] count, 0, '', None do not;
   a raising predicate selects nothing (and ends the query, see sem_pred_raise) *)
Lemma select_pred (sev : hp -> jctx -> res json * list sevent) h c :
  select hp sev (VPred h) c = match fst (sev h c) with Ok v => if truthy v then [c] else [] | Exn _ => [] end.
Proof. reflexivity. Qed.

Lemma deval_single (sev : hp -> jctx -> res json * list sevent) (v : vertex hp) c :
  is_rec hp v = false -> deval hp sev [v] c = select hp sev v c.
Proof.
  intros Hv. rewrite deval_cons_nonrec by exact Hv.
  generalize (select hp sev v c). intros l.
  induction l as [|x l IH]; [reflexivity|]. cbn [flat_map]. rewrite IH. reflexivity.
Qed.

(* q[f] keeps exactly the matches of q, in order and unchanged, on which f is truthy *)
Theorem filter_keeps_accepted (sev : hp -> jctx -> res json * list sevent) q h c :
  ends_rec hp q = false ->
  deval hp sev (q ++ [VPred h]) c =
  filter (fun c' => match fst (sev h c') with Ok v => truthy v | Exn _ => false end) (deval hp sev q c).
Proof.
  intros Hq. rewrite deval_app by exact Hq.
  induction (deval hp sev q c) as [|c' l IH]; [reflexivity|].
  cbn [flat_map filter]. rewrite IH, deval_single by reflexivity. rewrite select_pred.
  destruct (fst (sev h c')) as [v|e]; [destruct (truthy v)|]; reflexivity.
Qed.

(* steps written after the filter continue from the unchanged candidate *)
Theorem filter_then_continue (sev : hp -> jctx -> res json * list sevent) q h r c :
  ends_rec hp q = false ->
  deval hp sev (q ++ VPred h :: r) c =
  flat_map (deval hp sev r)
           (filter (fun c' => match fst (sev h c') with Ok v => truthy v | Exn _ => false end) (deval hp sev q c)).
Proof.
  intros Hq. replace (q ++ VPred h :: r) with ((q ++ [VPred h]) ++ r) by (rewrite <- app_assoc; reflexivity).
  rewrite deval_app.
  - rewrite filter_keeps_accepted by exact Hq. reflexivity.
  - clear -Hq. induction q as [|v q IH]; [reflexivity|]. simpl in *. destruct q; [reflexivity|]. apply IH. exact Hq.
Qed.

(* an exception raised by the predicate ends the query there, wrapped in TraversingError *)
Lemma sem_pred_raise (sev : hp -> jctx -> res json * list sevent) i h r pm c e :
  fst (sev h c) = Exn e -> snd (sem hp sev i (VPred h :: r) pm c) = Some (ETraversing e).
Proof. intros He. cbn [sem]. destruct (sev h c) as [o es]. simpl in He. subst o. reflexivity. Qed.

(* ------------------------------------------------------------------ C04: the has family *)
Lemma has_all_nil n c : seval_h (S n) (HAll []) c = (Ok (JBool true), []).
Proof. reflexivity. Qed.
Lemma has_any_nil n c : seval_h (S n) (HAny []) c = (Ok (JBool false), []).
Proof. reflexivity. Qed.

(* left-to-right short-circuit and *)
Lemma has_all_cons n h l c :
  seval_h (S n) (HAll (h :: l)) c =
  match seval_h n h c with
  | (Ok v, es) => if truthy v then let '(o, es') := seval_h (S n) (HAll l) c in (o, es ++ es')
                  else (Ok (JBool false), es)
  | (Exn e, es) => (Exn e, es)
  end.
Proof. reflexivity. Qed.

(* left-to-right short-circuit or *)
Lemma has_any_cons n h l c :
  seval_h (S n) (HAny (h :: l)) c =
  match seval_h n h c with
  | (Ok v, es) => if truthy v then (Ok (JBool true), es)
                  else let '(o, es') := seval_h (S n) (HAny l) c in (o, es ++ es')
  | (Exn e, es) => (Exn e, es)
  end.
Proof. reflexivity. Qed.

Lemma has_not_eq n h c :
  seval_h (S n) (HNot h) c =
  match seval_h n h c with
  | (Ok v, es) => (Ok (JBool (negb (truthy v))), es)
  | r => r
  end.
Proof. reflexivity. Qed.

(* the loop "for x in selected values: if test(x): return True" over the nested answer *)
Fixpoint first_success (test : json -> res bool * list sevent) (xs : list json) (fin : res json) : res json :=
  match xs with
  | [] => fin
  | x :: r => match fst (test x) with
              | Ok true => Ok (JBool true)
              | Ok false => first_success test r fin
              | Exn e => Exn e
              end
  end.

Lemma shas_scan_first_success test es ex :
  fst (shas_scan test es ex) = first_success test (map cdata (sresults es)) (fin_of ex).
Proof.
  induction es as [|e es IH]; [destruct ex as [[]|]; reflexivity|].
  destruct e as [l n i pmx | t c0 | t a | c0]; simpl;
    try (destruct (shas_scan test es ex); simpl in *; exact IH).
  destruct (test (cdata c0)) as [[[|]|e0] tes]; simpl; try reflexivity.
  destruct (shas_scan test es ex). simpl in *. exact IH.
Qed.

(* has(p <op> v, f1 .. fn) holds iff some selected value, tried in selection order up to the first success,
   passes the test; an exception of a conversion function, of the comparison, or of the nested search surfaces *)
Theorem has_is_first_success n p op fs c :
  let R := sem hp (seval_h n) 0 p (Some c) c in
  fst (seval_h (S n) (HHas p op fs) c) =
  first_success (shas_test op fs) (map cdata (sresults (fst R))) (fin_of (snd R)).
Proof. cbn [seval_h]. apply shas_scan_first_success. Qed.

(* has(p): p, evaluated relative to the node, selects at least one value *)
Theorem has_exists n p c :
  let R := sem hp (seval_h n) 0 p (Some c) c in
  fst (seval_h (S n) (HHas p None []) c) =
  match sresults (fst R) with [] => fin_of (snd R) | _ :: _ => Ok (JBool true) end.
Proof.
  intros R. rewrite has_is_first_success. fold R. destruct (sresults (fst R)); reflexivity.
Qed.

(* the conversion functions are applied right to left: f1(...fn(x)...) *)
Lemma sapply_fns_order tag1 f1 tag2 f2 x y z :
  f2 x = Ok y -> f1 y = Ok z ->
  fst (sapply_fns (rev [(tag1, f1); (tag2, f2)]) x) = Ok z.
Proof. intros H2 H1. simpl. rewrite H2, H1. reflexivity. Qed.

(* ------------------------------------------------------------------ C16: what a query can end in *)
Definition exn_ok (o : option exn) : Prop :=
  match o with None => True | Some e => exists e', e = ETraversing e' end.

Lemma exn_ok_rseq a b : exn_ok (snd a) -> exn_ok (snd b) -> exn_ok (snd (rseq a b)).
Proof. destruct a as [ea [xa|]]; unfold rseq; simpl; auto. Qed.

Lemma exn_ok_rconcat l : Forall (fun r => exn_ok (snd r)) l -> exn_ok (snd (rconcat l)).
Proof. induction 1; simpl; [exact I | apply exn_ok_rseq; assumption]. Qed.

Section Exn.
Variable sev : hp -> jctx -> res json * list sevent.

Lemma rec_children_exn i pm semr leaf :
  (forall c', exn_ok (snd (semr c'))) ->
  forall d c, exn_ok (snd (rec_children i pm semr leaf c d)).
Proof.
  intros Hsemr.
  induction d as [| b | z0 | h | str | id l IHl | id l IHl] using json_ind'; intros c; try exact I.
  - assert (Hm : members (JList id l) = Some (list_iter l)) by reflexivity.
    rewrite (SpecLemmas.rec_children_unfold _ _ _ _ _ _ _ Hm).
    apply exn_ok_rseq; [|exact I]. apply exn_ok_rconcat. rewrite Forall_map, Forall_forall. intros [nm x] Hin.
    unfold SpecLemmas.rec_child. cbn [fst snd]. apply exn_ok_rseq; [exact I|].
    destruct (members x); [|destruct leaf; exact I].
    apply exn_ok_rseq; [apply Hsemr|]. rewrite Forall_forall in IHl. apply IHl. eapply members_in_list; eauto.
  - assert (Hm : members (JDict id l) = Some (dict_iter l)) by reflexivity.
    rewrite (SpecLemmas.rec_children_unfold _ _ _ _ _ _ _ Hm).
    apply exn_ok_rseq; [|exact I]. apply exn_ok_rconcat. rewrite Forall_map, Forall_forall. intros [nm x] Hin.
    unfold SpecLemmas.rec_child. cbn [fst snd]. apply exn_ok_rseq; [exact I|].
    destruct (members x) eqn:Hx; [|destruct leaf; exact I].
    apply exn_ok_rseq; [apply Hsemr|]. rewrite Forall_forall in IHl.
    destruct nm as [k|z1].
    + apply (IHl (k, x)). apply members_in_dict; exact Hin.
    + exfalso. unfold dict_iter in Hin. rewrite in_map_iff in Hin. destruct Hin as (? & E & _). discriminate.
Qed.

(* for supported steps a query ends normally or in TraversingError (wrapping the exception of a filter) *)
Theorem sem_exn_traversing :
  forall r, valid_path hp r = true -> forall i pm c, exn_ok (snd (sem hp sev i r pm c)).
Proof.
  induction r as [|v r IH]; intros Hvalid i pm c; [exact I|].
  simpl in Hvalid. apply andb_prop in Hvalid. destruct Hvalid as [Hv Hr]. specialize (IH Hr).
  assert (Hgo : forall c', exn_ok (snd (rseq (rev1 (STrace c (Some c') (S i) pm)) (sem hp sev (S i) r pm c'))))
    by (intros c'; apply exn_ok_rseq; [exact I | apply IH]).
  assert (Hmulti : forall v0, valid_step hp v0 = true ->
            exn_ok (snd (match items_for jshape hp v0 (cdata c) with
                         | Ok (Some its) => rseq (rconcat (map (fun ix => rseq (rev1 (STrace c (Some (ext c (fst ix) (snd ix))) (S i) pm))
                                                                      (sem hp sev (S i) r pm (ext c (fst ix) (snd ix)))) its))
                                                 (rev1 (STrace c None (S i) pm))
                         | Ok None => rev1 (STrace c None (S i) pm)
                         | Exn e => ([], Some e)
                         end))).
  { intros v0 Hv0. destruct (items_for_valid hp v0 (cdata c) Hv0) as [[its|] ->]; [|exact I].
    apply exn_ok_rseq; [|exact I]. apply exn_ok_rconcat. rewrite Forall_map, Forall_forall. intros ix _. apply Hgo. }
  destruct v as [k | z | a b c0 | l | | | dot | | | p]; cbn [sem].
  - destruct (jshape (cdata c)) as [its|its|]; [destruct (assoc k its)| |]; first [apply Hgo | exact I].
  - destruct (jshape (cdata c)) as [its|its|]; [|destruct (list_get its z)|]; first [apply Hgo | exact I].
  - apply (Hmulti (VSlice a b c0) Hv).
  - apply (Hmulti (VTuple l) Hv).
  - apply (Hmulti VKeyWild Hv).
  - apply (Hmulti VIdxWild Hv).
  - apply (Hmulti (VGenWild dot) Hv).
  - destruct (members (cdata c)); [|exact I].
    apply exn_ok_rseq; [apply Hgo|]. apply rec_children_exn. intros c'. apply IH.
  - destruct (ext_parent c); first [apply Hgo | exact I].
  - destruct (sev p c) as [[val|e] es].
    + apply exn_ok_rseq; [exact I|]. destruct (truthy val); [apply Hgo | exact I].
    + simpl. eauto.
Qed.

End Exn.
