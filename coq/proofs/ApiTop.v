(* ApiTop.v -- the theorems instantiated for the library's own predicate language (has family + user
   callables) and its API functions: no hypothesis about the predicate evaluator is left. *)
From Coq Require Import List ZArith String Bool PArith Lia FMapPositive.
From TP Require Import Json PyPrim Machine Api Spec SpecHas.
From TP.proofs Require Import RefineBase Refine NextLayer Iterate WfRun Query SpecLemmas Top HasScan HasLoop HasRefine.
Import ListNotations.
Close Scope Z_scope.
Open Scope list_scope.

Section ApiTop.
Variable B H : positive.
Variable depth : nat.
Notation ev := (@eval_h json jshape (fun d => d) B H depth).
Notation sev := (seval_h depth).
Notation hp := (@hpred json).

Lemma api_ev_ok tr (vp : list (vertex hp)) : forall p m, In (VPred p) vp -> wf m ->
  (fst (ev p m tr) = fst (sev p (abs m)) /\ map abs_ev (snd (ev p m tr)) = proj (tracing tr) (snd (sev p (abs m)))) \/
  (exists e, fst (ev p m tr) = Exn e /\ budget_exn e = true).
Proof. intros p m _ Hwf. exact (has_refine B H depth p m tr Hwf). Qed.

(* the iterator of find_matches / nested_find_matches, for every path of the library's language *)
Theorem api_iterator (src : @source json) (vp : list (vertex hp)) (tr : @tracecfg json) :
  src_wf src ->
  exists k : nat, forall fuel, k < Pos.to_nat B ->
    List.length (sresults (fst (answer hp sev src vp tr))) < fuel ->
    let d := drain hp ev src vp tr fuel B init_state in
    complete hp sev src vp tr d \/ sound_prefix hp ev sev src vp tr d.
Proof.
  intros Hsrc.
  destruct (iterator_spec hp ev sev src vp tr (api_ev_ok tr vp) (fun p m => eval_h_quiet B H depth p m tr) Hsrc) as [k Hk].
  exists k. intros fuel HB Hf. apply Hk; assumption.
Qed.

(* ... and the exact answer when no filter of the path raises *)
Theorem api_find_matches_exact (src : @source json) (vp : list (vertex hp)) (tr : @tracecfg json) :
  src_wf src -> pure_sev hp sev vp -> valid_path hp vp = true ->
  exists k : nat, forall fuel, k < Pos.to_nat B ->
    List.length (deval hp sev vp (start src)) < fuel ->
    let d := drain hp ev src vp tr fuel B init_state in
    exact_answer hp sev src vp d \/ sound_prefix hp ev sev src vp tr d.
Proof.
  intros Hsrc Hpure Hvalid.
  destruct (find_matches_deval hp ev sev src vp tr (api_ev_ok tr vp) (fun p m => eval_h_quiet B H depth p m tr)
              Hsrc Hpure Hvalid) as [k Hk].
  exists k. intros fuel HB Hf. apply Hk; assumption.
Qed.

(* ------------------------------------------------------------------ get_match / get (C05) *)
Notation api_next := (@api_next json jshape (fun d => d) B H depth).
Notation get_match := (@get_match json jshape (fun d => d) B H depth).
Notation get := (@get json jshape (fun d => d) B H depth).

(* get_match is the first next() of the iterator *)
Theorem get_match_first src p must tr :
  get_match src p must tr =
  match api_next src p tr init_state with
  | (OResult m, _, es) => (Ok (Some m), es)
  | (ORaise EStop, _, es) => (if must then Exn (not_found src) else Ok None, es)
  | (ORaise e, _, es) => (Exn e, es)
  end.
Proof. reflexivity. Qed.

(* a value that is present counts as found, whatever it is (None, 0, False, '', [], {}): the default is not used *)
Theorem get_found_ignores_default src p dflt tr m es :
  get_match src p (match dflt with DNotSet => true | _ => false end) tr = (Ok (Some m), es) ->
  get src p dflt tr = (Ok (GData m), es).
Proof. intros Hg. unfold Api.get. rewrite Hg. reflexivity. Qed.

(* no match: the default; a callable default is invoked exactly once, after the search *)
Theorem get_missing_constant src p v tr es :
  get_match src p false tr = (Ok None, es) -> get src p (DConst v) tr = (Ok (GDefault v), es).
Proof. intros Hg. unfold Api.get. rewrite Hg. reflexivity. Qed.

Theorem get_missing_callable src p tag v tr es :
  get_match src p false tr = (Ok None, es) ->
  get src p (DCall tag v) tr = (Ok (GDefault v), es ++ [EvCallF tag JNull]).
Proof. intros Hg. unfold Api.get. rewrite Hg. reflexivity. Qed.

Theorem get_no_default_raises src p tr es :
  api_next src p tr init_state = (ORaise EStop, snd (fst (api_next src p tr init_state)), es) ->
  get src p DNotSet tr = (Exn (not_found src), es).
Proof.
  intros Hn. unfold Api.get, Api.get_match.
  destruct (api_next src p tr init_state) as [[o z] es0]. simpl in Hn. injection Hn as -> ->. reflexivity.
Qed.

(* get_match never answers None when must_match is True *)
Theorem get_match_must src p tr r es : get_match src p true tr = (r, es) -> r <> Ok None.
Proof.
  unfold Api.get_match. destruct (api_next src p tr init_state) as [[o z] es0].
  destruct o as [m|e]; [|destruct e]; intros Hx; injection Hx as <- _; discriminate.
Qed.

End ApiTop.
