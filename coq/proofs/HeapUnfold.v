(* HeapUnfold.v -- documents that share sub-objects.
   A finite heap whose references all point forward (a DAG: one dict or list object may be referenced from several
   places, nothing refers back) unfolds into a JSON tree, and the traverser on the heap is, action for action, the
   traverser on that tree (DataMap.next_m).  So everything proved about searches over trees -- every occurrence of a
   shared object is a node of its own, reported once per place, in pre-order -- holds for such documents too.
   Proof file. *)
From Coq Require Import List ZArith String Bool PArith Lia.
From TP Require Import Json PyPrim Machine Obs RunC.
From TP Require Import Spec.
From TP.proofs Require Import DataMap RefineBase Refine NextLayer Iterate WfRun Query SpecLemmas Top.
Import ListNotations.
Open Scope list_scope.
Open Scope nat_scope.

(* the tree below heap node i; fuel bounds the depth (JNull when it runs out or the index is dangling) *)
Fixpoint unf (fuel : nat) (heap : list hnode) (i : nat) : json :=
  match fuel with
  | O => JNull
  | S k =>
      match nth_error heap i with
      | Some (HDict its) => JDict 0 (map (fun kj => (fst kj, unf k heap (snd kj))) its)
      | Some (HList its) => JList 0 (map (unf k heap) its)
      | Some (HScalar v) => v
      | None => JNull
      end
  end.

Definition unfold (heap : list hnode) (i : nat) : json := unf (S (List.length heap)) heap i.

(* references point forward, scalar nodes hold scalars *)
Definition node_ok (i : nat) (n : hnode) : bool :=
  match n with
  | HDict its => forallb (fun kj => Nat.ltb i (snd kj)) its
  | HList its => forallb (Nat.ltb i) its
  | HScalar v => match jshape v with SScalar => true | _ => false end
  end.
Fixpoint dag_from (i : nat) (h : list hnode) : bool :=
  match h with [] => true | n :: r => node_ok i n && dag_from (S i) r end.
Definition dagb (h : list hnode) : bool := dag_from 0 h.

Lemma dag_from_nth h : forall s i n, dag_from s h = true -> nth_error h i = Some n -> node_ok (s + i) n = true.
Proof.
  induction h as [|x r IH]; intros s i n Hd Hn; [destruct i; discriminate|].
  simpl in Hd. apply andb_true_iff in Hd. destruct Hd as [Hx Hr].
  destruct i as [|i]; simpl in Hn.
  - injection Hn as <-. rewrite Nat.add_0_r. exact Hx.
  - replace (s + S i)%nat with (S s + i)%nat by lia. eapply IH; eassumption.
Qed.

Lemma dag_nth h i n : dagb h = true -> nth_error h i = Some n -> node_ok i n = true.
Proof. intros Hd Hn. exact (dag_from_nth h 0 i n Hd Hn). Qed.

Lemma unf_dangling heap fuel i : List.length heap <= i -> unf fuel heap i = JNull.
Proof.
  intros Hi. destruct fuel; [reflexivity|]. simpl.
  assert (E : nth_error heap i = None) by (apply nth_error_None; exact Hi). rewrite E. reflexivity.
Qed.

(* enough fuel is enough *)
Lemma unf_stable heap : dagb heap = true ->
  forall f1 f2 i, List.length heap - i < f1 -> List.length heap - i < f2 -> unf f1 heap i = unf f2 heap i.
Proof.
  intros Hd. induction f1 as [|f1 IH]; intros f2 i H1 H2; [lia|].
  destruct f2 as [|f2]; [lia|]. simpl.
  destruct (nth_error heap i) as [[its|its|v]|] eqn:E; try reflexivity.
  - assert (Hi : i < List.length heap) by (apply nth_error_Some; congruence).
    pose proof (dag_nth heap i _ Hd E) as Hok. simpl in Hok. rewrite forallb_forall in Hok.
    f_equal. apply map_ext_in. intros [k j] Hin. simpl.
    specialize (Hok _ Hin). simpl in Hok. apply Nat.ltb_lt in Hok.
    f_equal. apply IH; lia.
  - assert (Hi : i < List.length heap) by (apply nth_error_Some; congruence).
    pose proof (dag_nth heap i _ Hd E) as Hok. simpl in Hok. rewrite forallb_forall in Hok.
    f_equal. apply map_ext_in. intros j Hin.
    specialize (Hok _ Hin). apply Nat.ltb_lt in Hok.
    apply IH; lia.
Qed.

(* the unfolding carries the heap's one-level structure to the tree's *)
Theorem unfold_shape heap : dagb heap = true ->
  forall i, jshape (unfold heap i) = map_shp (unfold heap) (hshape heap i).
Proof.
  intros Hd i. unfold unfold, hshape. cbn [unf].
  destruct (nth_error heap i) as [[its|its|v]|] eqn:E; cbn [jshape map_shp]; try reflexivity.
  - assert (Hi : i < List.length heap) by (apply nth_error_Some; congruence).
    pose proof (dag_nth heap i _ Hd E) as Hok. cbn [node_ok] in Hok. rewrite forallb_forall in Hok.
    f_equal. apply map_ext_in. intros [k j] Hin. cbn [fst snd]. f_equal.
    specialize (Hok _ Hin). cbn [snd] in Hok. apply Nat.ltb_lt in Hok.
    change (unf (List.length heap) heap j = unf (S (List.length heap)) heap j).
    apply (unf_stable heap Hd); lia.
  - assert (Hi : i < List.length heap) by (apply nth_error_Some; congruence).
    pose proof (dag_nth heap i _ Hd E) as Hok. cbn [node_ok] in Hok. rewrite forallb_forall in Hok.
    f_equal. apply map_ext_in. intros j Hin.
    specialize (Hok _ Hin). apply Nat.ltb_lt in Hok.
    change (unf (List.length heap) heap j = unf (S (List.length heap)) heap j).
    apply (unf_stable heap Hd); lia.
  - pose proof (dag_nth heap i _ Hd E) as Hok. cbn [node_ok] in Hok.
    destruct (jshape v); try discriminate. reflexivity.
Qed.

Definition no_pred {P2 : Type} (e : Empty_set) : P2 := match e with end.

(* one next() on the heap is one next() on the unfolded tree: outcome, state and events are the images *)
Theorem heap_next_is_tree_next (heap : list hnode) (P2 : Type)
        (ev2 : P2 -> @tm json -> @tracecfg json -> res json * list (@event json)) :
  dagb heap = true ->
  forall B src (vp : list (vertex Empty_set)) t z,
    next jshape P2 ev2 B (msrc (unfold heap) src) (map (map_vx no_pred) vp) (mtr (unfold heap) t)
         (mstate (unfold heap) z) =
    let '(o, z', evs) := next (hshape heap) Empty_set ev_none B src vp t z in
    (mout (unfold heap) o, mstate (unfold heap) z', map (mev (unfold heap)) evs).
Proof.
  intros Hd B src vp t z.
  apply (next_m (unfold heap) (hshape heap) jshape (unfold_shape heap Hd) Empty_set P2 no_pred ev_none ev2).
  intros [].
Qed.

(* the initial state is its own image, so the correspondence starts at the first next() and carries through every
   later one (the theorem above is stated for an arbitrary state z) *)
Lemma init_state_m heap : mstate (unfold heap) init_state = init_state.
Proof. reflexivity. Qed.

(* non-vacuity: {"a": X, "b": [X]} with X = {"k": 1} one object; the unfolding holds X twice *)
Example shared_heap :
  let heap := [HDict [("a"%string, 2); ("b"%string, 1)]; HList [2]; HDict [("k"%string, 3)]; HScalar (JInt 1)] in
  dagb heap = true /\
  unfold heap 0 = JDict 0 [("a"%string, JDict 0 [("k"%string, JInt 1)]);
                           ("b"%string, JList 0 [JDict 0 [("k"%string, JInt 1)]])].
Proof. split; reflexivity. Qed.

(* ------------------------------------------------------------------ whole searches *)
(* successive next() calls on the heap: outcome and events of each, until the first exception (Iterate.drain's twin) *)
Fixpoint hdrain (heap : list hnode) (src : @source nat) (vp : list (vertex Empty_set)) (tr : @tracecfg nat)
         (fuel : nat) (B : positive) (z : @state nat) : list (@outcome nat * list (@event nat)) :=
  match fuel with
  | O => []
  | S k => match next (hshape heap) Empty_set ev_none B src vp tr z with
           | (OResult m, z', es) => (OResult m, es) :: hdrain heap src vp tr k B z'
           | (ORaise e, _, es) => [(ORaise e, es)]
           end
  end.

Definition mitem (u : nat -> json) (x : @outcome nat * list (@event nat)) : @outcome json * list (@event json) :=
  (mout u (fst x), map (mev u) (snd x)).

Lemma map_vx_no_pred (vp : list (vertex Empty_set)) : map (map_vx (@no_pred Empty_set)) vp = vp.
Proof.
  induction vp as [|v r IH]; [reflexivity|]. simpl. rewrite IH. f_equal.
  destruct v as [| | | | | | | | |p]; try reflexivity. destruct p.
Qed.

Theorem heap_drain_is_tree_drain heap : dagb heap = true ->
  forall src vp tr fuel B z,
    drain Empty_set ev0 (msrc (unfold heap) src) vp (mtr (unfold heap) tr) fuel B (mstate (unfold heap) z) =
    map (mitem (unfold heap)) (hdrain heap src vp tr fuel B z).
Proof.
  intros Hd src vp tr fuel B. induction fuel as [|k IH]; intros z; [reflexivity|].
  cbn [drain hdrain].
  pose proof (heap_next_is_tree_next heap Empty_set ev0 Hd B src vp tr z) as Hn.
  rewrite map_vx_no_pred in Hn. rewrite Hn.
  destruct (next (hshape heap) Empty_set ev_none B src vp tr z) as [[[m|e] z'] es]; cbn [mout map mitem fst snd].
  - rewrite IH. reflexivity.
  - reflexivity.
Qed.

(* a search over a document that shares objects (the heap, started at node root) delivers, image for image, the exact
   answer of the search over the document's unfolding: every occurrence of a shared object is reported at its own
   place, once, in the specification's order (pre-order for the recursive step), and the run ends in StopIteration *)
Theorem shared_document_search heap root (vp : list (vertex Empty_set)) tr :
  dagb heap = true -> valid_path Empty_set vp = true ->
  exists k : nat, forall B fuel, (k < Pos.to_nat B)%nat ->
    (List.length (deval Empty_set sev0 vp (abs (root_match (SrcDoc (unfold heap root))))) < fuel)%nat ->
    exact_answer Empty_set sev0 (SrcDoc (unfold heap root)) vp
                 (map (mitem (unfold heap)) (hdrain heap (SrcDoc root) vp tr fuel B init_state)).
Proof.
  intros Hd Hv.
  destruct (find_matches_nopred (SrcDoc (unfold heap root)) vp (mtr (unfold heap) tr) I Hv) as [k Hk].
  exists k. intros B fuel HB Hf.
  rewrite <- (heap_drain_is_tree_drain heap Hd (SrcDoc root) vp tr fuel B init_state).
  exact (Hk B fuel HB Hf).
Qed.

(* what the heap family's observation prints for a result is what the tree family prints for its image *)
Lemma hsegment_m u (m : @tm nat) : path_segment (mtm u m) = hsegment m.
Proof. induction m; simpl; auto. Qed.

Theorem hpath_m u (m : @tm nat) : path_as_str (mtm u m) = hpath m.
Proof.
  unfold path_as_str, hpath. rewrite path_match_list_m, map_map. f_equal.
  apply map_ext. intros x. apply hsegment_m.
Qed.

Theorem tdata_unfold heap (m : @tm nat) : tdata (mtm (unfold heap) m) = unfold heap (tdata m).
Proof. apply tdata_m. Qed.
