(* NoTwice.v -- C11 "never the same location twice": in a document with unique dict keys, a parent-free path
   with at most one recursive step and no comma-delimited step yields no two results at the same location.
   A location is the chain of positions from the root: the key in a dict, the normalised (non-negative) index
   in a list -- so $[-1] and $[2] of a three-item list are the same location. *)
From Coq Require Import List ZArith String Bool PArith Lia.
From TP Require Import Json PyPrim Machine Api Spec SpecHas Mutate SpecSet.
From TP.proofs Require Import RefineBase Refine NextLayer Iterate WfRun Query SpecLemmas BelowLemmas CsetLemmas RoundTrip.
Import ListNotations.
Close Scope Z_scope.
Open Scope list_scope.

Inductive poskey := PK (k : string) | PI (n : nat).

(* the position step v designates in container d *)
Definition pos (v : vertex hp) (d : json) : option poskey :=
  match v, d with
  | VKey k, JDict _ _ => Some (PK k)
  | VIdx z, JList _ its => option_map PI (norm_index (zlen its) z)
  | _, _ => None
  end.

Fixpoint nloc (d : json) (p : list (vertex hp)) : list (option poskey) :=
  match p with
  | [] => []
  | v :: r => pos v d :: match child_at v d with Some x => nloc x r | None => [] end
  end.

Lemma nloc_app d p q y : lookup d p = Some y -> nloc d (p ++ q) = nloc d p ++ nloc y q.
Proof.
  revert d. induction p as [|v p IH]; intros d Hl; [simpl in Hl; injection Hl as ->; reflexivity|].
  cbn [lookup] in Hl. cbn [app nloc]. destruct (child_at v d) as [x|]; [|discriminate]. rewrite (IH x Hl). reflexivity.
Qed.

Section Loc.
Variable doc : json.

(* the location of a context of doc *)
Definition loc (c : jctx) : list (option poskey) := nloc doc (steps_of c).

Lemma loc_ext c nm x :
  chain_ok doc c -> child_at (vstep nm) (cdata c) = Some x ->
  loc (ext c nm x) = loc c ++ [pos (vstep nm) (cdata c)].
Proof.
  intros (Hne & Hl & _) Hc. unfold loc. rewrite steps_ext by exact Hne. rewrite (nloc_app _ _ _ _ Hl).
  cbn [nloc]. rewrite Hc. reflexivity.
Qed.

(* ------------------------------------------------------------------ generic list facts *)
Lemma app_inv_length {A} (a b s t : list A) : a ++ s = b ++ t -> List.length a = List.length b -> a = b /\ s = t.
Proof.
  revert b. induction a as [|x a IH]; intros [|y b] H Hl; simpl in *; try discriminate; [auto|].
  injection H as -> H. destruct (IH b H ltac:(lia)) as [-> ->]. auto.
Qed.

Lemma NoDup_blocks' {A K} (g : A -> K) (pre : list K) (its : list A) (blk : A -> list (list K)) :
  NoDup (map g its) ->
  (forall ix, In ix its -> NoDup (blk ix)) ->
  (forall ix l, In ix its -> In l (blk ix) -> exists rest, l = pre ++ g ix :: rest) ->
  NoDup (flat_map blk its).
Proof.
  induction its as [|a its IH]; intros Hnd Hb Hp; [constructor|].
  simpl in Hnd. inversion Hnd as [|a' r' Ha Hr]; subst. cbn [flat_map].
  apply NoDup_app_intro.
  - apply Hb. left. reflexivity.
  - apply IH; [exact Hr | intros ix Hin; apply Hb; right; exact Hin | intros ix l Hin; apply Hp; right; exact Hin].
  - intros l H1 H2. apply in_flat_map in H2. destruct H2 as (ix & Hix & Hl).
    destruct (Hp a l (or_introl eq_refl) H1) as (r1 & E1).
    destruct (Hp ix l (or_intror Hix) Hl) as (r2 & E2).
    rewrite E1 in E2. apply app_inv_head in E2. injection E2 as E2 _.
    apply Ha. rewrite E2. apply in_map. exact Hix.
Qed.

Lemma NoDup_map_filter {A B} (f : A -> B) (g : A -> bool) l : NoDup (map f l) -> NoDup (map f (filter g l)).
Proof.
  induction l as [|a l IH]; intros H; [constructor|]. simpl in *. inversion H as [|x r Hx Hr]; subst.
  destruct (g a); [|apply IH; exact Hr]. simpl. constructor; [|apply IH; exact Hr].
  intros Hin. apply Hx. apply in_map_iff in Hin. destruct Hin as (y & E & Hy). apply filter_In in Hy.
  apply in_map_iff. exists y. tauto.
Qed.

Lemma NoDup_map_inj {A B} (f : A -> B) l : (forall x y, In x l -> In y l -> f x = f y -> x = y) -> NoDup l -> NoDup (map f l).
Proof.
  induction l as [|a l IH]; intros Hinj Hnd; [constructor|]. inversion Hnd as [|x r Hx Hr]; subst. simpl.
  constructor.
  - intros Hin. apply in_map_iff in Hin. destruct Hin as (y & E & Hy).
    assert (y = a) by (apply Hinj; [right; exact Hy | left; reflexivity | exact E]). subst y. contradiction.
  - apply IH; [intros x y Hx' Hy'; apply Hinj; right; assumption | exact Hr].
Qed.

(* ------------------------------------------------------------------ the members a step selects sit at distinct positions *)
Lemma norm_index_nonneg n i : (0 <= i < n)%Z -> norm_index n i = Some (Z.to_nat i).
Proof.
  intros Hi. unfold norm_index. destruct (Z.leb_spec 0 i); [|lia]. destruct (Z.ltb_spec i n); [|lia]. reflexivity.
Qed.

(* items named by non-negative in-range indices, pairwise distinct *)
Lemma list_items_pos_nodup j (l : list json) (its : list (name * json)) (idx : list Z) :
  map fst its = map NInt idx -> NoDup idx -> (forall i, In i idx -> (0 <= i < zlen l)%Z) ->
  NoDup (map (fun ix => pos (vstep (fst ix)) (JList j l)) its).
Proof.
  intros Hm Hnd Hr.
  replace (map (fun ix => pos (vstep (fst ix)) (JList j l)) its) with (map (fun nm => pos (vstep nm) (JList j l)) (map fst its))
    by (rewrite map_map; reflexivity).
  rewrite Hm, map_map. apply NoDup_map_inj; [|exact Hnd].
  intros x y Hx Hy. cbn [vstep pos]. rewrite !norm_index_nonneg by (apply Hr; assumption). cbn [option_map].
  intros E. injection E as E. pose proof (Hr x Hx). pose proof (Hr y Hy). lia.
Qed.

Lemma enum_from_idx {A} (l : list A) z : map fst (enum_from z l) = map (fun k => (z + Z.of_nat k)%Z) (seq 0 (List.length l)).
Proof.
  revert z. induction l as [|x l IH]; intros z; [reflexivity|]. cbn [enum_from map List.length seq fst].
  rewrite Z.add_0_r. f_equal. rewrite IH, <- seq_shift, map_map. apply map_ext. intros k. lia.
Qed.

Lemma list_iter_pos_nodup j (l : list json) :
  NoDup (map (fun ix => pos (vstep (fst ix)) (JList j l)) (list_iter l)).
Proof.
  apply (list_items_pos_nodup j l (list_iter l) (map (fun k => Z.of_nat k) (seq 0 (List.length l)))).
  - unfold list_iter, enumerate. rewrite !map_map. cbn [fst].
    rewrite <- (map_map fst NInt), enum_from_idx, !map_map. apply map_ext. intros k. reflexivity.
  - apply NoDup_map_inj; [intros x y _ _ E; lia | apply seq_NoDup].
  - intros i Hin. apply in_map_iff in Hin. destruct Hin as (k & <- & Hk). apply in_seq in Hk. unfold zlen. lia.
Qed.

Lemma dict_iter_pos_nodup j (l : list (string * json)) :
  NoDup (map fst l) -> NoDup (map (fun ix => pos (vstep (fst ix)) (JDict j l)) (dict_iter l)).
Proof.
  intros Hnd. unfold dict_iter. rewrite map_map. cbn [fst vstep pos].
  rewrite <- (map_map fst (fun k => Some (PK k))). apply NoDup_map_inj; [|exact Hnd].
  intros x y _ _ E. congruence.
Qed.

Lemma range_list_nodup s e step : step <> 0%Z -> NoDup (range_list s e step).
Proof.
  intros Hne. unfold range_list. apply NoDup_map_inj; [|apply seq_NoDup].
  intros x y _ _ E. assert (Z.of_nat x * step = Z.of_nat y * step)%Z by lia.
  apply Z.mul_reg_r in H; [lia | exact Hne].
Qed.

Lemma slice_pos_nodup j (l : list json) a b c its :
  enumerate_slice a b c l = Ok its ->
  NoDup (map (fun ix => pos (vstep (fst ix)) (JList j l)) (map (fun ix => (NInt (fst ix), snd ix)) its)).
Proof.
  intros Es.
  assert (Hall : forall i x, In (i, x) its -> list_get l i = Ok x) by (intros i x; eapply enumerate_slice_child; eauto).
  unfold enumerate_slice in Es. set (step := match c with Some s => s | None => 1%Z end) in *.
  destruct (Z.eqb_spec step 0) as [|Hne]; [discriminate|].
  destruct (slice_indices a b step (zlen l)) as [s e] eqn:Esl. injection Es as Es.
  apply (list_items_pos_nodup j l _ (map fst its)).
  - rewrite !map_map. reflexivity.
  - rewrite <- Es. clear Hall Es.
    pose proof (range_list_nodup s e step Hne) as Hr. induction (range_list s e step) as [|i r IH]; [constructor|].
    inversion Hr as [|x r' Hx Hr']; subst. cbn [flat_map]. rewrite map_app. apply NoDup_app_intro.
    + destruct (nth_error l (Z.to_nat i)); repeat constructor. intros [].
    + apply IH. exact Hr'.
    + intros y H1 H2. destruct (nth_error l (Z.to_nat i)); [|contradiction]. destruct H1 as [<-|[]]. cbn [fst] in H2.
      apply in_map_iff in H2. destruct H2 as ([i' v'] & E & Hin). cbn [fst] in E. subst i'.
      apply in_flat_map in Hin. destruct Hin as (i2 & Hi2 & Hv). destruct (nth_error l (Z.to_nat i2)); [|contradiction].
      destruct Hv as [E|[]]. injection E as -> _. contradiction.
  - intros i Hin. apply in_map_iff in Hin. destruct Hin as ([i' x] & E & Hin). cbn [fst] in E. subst i'.
    pose proof (Hall i x Hin) as Hg. destruct (list_get_ok _ _ _ Hg) as (n & Hn & _).
    assert (Hge : (0 <= i)%Z).
    { rewrite <- Es in Hin. apply in_flat_map in Hin. destruct Hin as (i2 & Hi2 & Hv).
      destruct (nth_error l (Z.to_nat i2)); [|contradiction]. destruct Hv as [E|[]]. injection E as -> _.
      destruct (slice_start_stop a b step (zlen l) s e ltac:(unfold zlen; lia) Esl) as [H1 H2].
      eapply range_list_nonneg; eauto. }
    pose proof (norm_index_lt l i n Hn). unfold norm_index in Hn.
    destruct (Z.leb_spec 0 i); [|lia]. destruct (Z.ltb_spec i (zlen l)); [lia|]. simpl in Hn.
    destruct (Z.ltb_spec i 0); [lia|]. simpl in Hn. discriminate.
Qed.

(* ------------------------------------------------------------------ one step *)
Definition child_step (v : vertex hp) : bool :=
  match v with VRec | VParent | VPred _ | VTuple _ => false | _ => true end.
Definition is_pred (v : vertex hp) : bool := match v with VPred _ => true | _ => false end.
(* no recursive step, no comma-delimited step, no parent step *)
Definition simple (q : list (vertex hp)) : bool := forallb (fun v => child_step v || is_pred v) q.

Variable sev : hp -> jctx -> res json * list sevent.
Hypothesis Hdoc : uniq doc.

Lemma items_pos_nodup (v : vertex hp) d its :
  child_step v = true -> uniq d -> items_for jshape hp v d = Ok (Some its) ->
  NoDup (map (fun ix => pos (vstep (fst ix)) d) its).
Proof.
  intros Hv Hu Hi. unfold items_for in Hi.
  assert (Hkeys : forall j l, d = JDict j l -> NoDup (map fst l)).
  { intros j l ->. inversion Hu as [d0 Hn | d0 its0 Hm0 Hnd Hkids]; subst; simpl in *; [discriminate|].
    injection Hm0 as <-. unfold dict_iter in Hnd. rewrite map_map in Hnd. cbn [fst] in Hnd.
    clear -Hnd. induction l as [|[k0 x0] l IH]; [constructor|]. simpl in *. inversion Hnd as [|a r Ha Hr]; subst.
    constructor; [|apply IH; exact Hr]. intros Hin. apply Ha. apply in_map_iff in Hin. destruct Hin as ([k1 x1] & E & Hin).
    simpl in E. subst k1. apply in_map_iff. exists (k0, x1). auto. }
  destruct v as [k | z | a b c | l | | | dot | | | p]; try discriminate Hv;
    destruct d as [| | | | | j its0 | j its0]; cbn [jshape] in Hi; try discriminate; try (injection Hi as <-).
  - destruct (enumerate_slice a b c its0) as [l0|e] eqn:Es; [|discriminate]. injection Hi as <-.
    eapply slice_pos_nodup; eauto.
  - apply dict_iter_pos_nodup. eapply Hkeys; eauto.
  - apply list_iter_pos_nodup.
  - apply list_iter_pos_nodup.
  - apply dict_iter_pos_nodup. eapply Hkeys; eauto.
Qed.

(* what a child step selects: extensions of the context at pairwise distinct positions *)
Lemma select_child v c :
  child_step v = true -> chain_ok doc c ->
  exists its, select hp sev v c = map (fun ix => ext c (fst ix) (snd ix)) its /\
              NoDup (map (fun ix => pos (vstep (fst ix)) (cdata c)) its) /\
              (forall ix, In ix its -> child_at (vstep (fst ix)) (cdata c) = Some (snd ix)).
Proof.
  intros Hv Hok. destruct Hok as (Hne & Hl & Hu).
  assert (Hitems : forall v', child_step v' = true -> (match v' with VKey _ | VIdx _ => False | _ => True end) ->
     exists its, match items_for jshape hp v' (cdata c) with
                 | Ok (Some its0) => map (fun ix => ext c (fst ix) (snd ix)) its0 | _ => [] end
                 = map (fun ix => ext c (fst ix) (snd ix)) its /\
              NoDup (map (fun ix => pos (vstep (fst ix)) (cdata c)) its) /\
              (forall ix, In ix its -> child_at (vstep (fst ix)) (cdata c) = Some (snd ix))).
  { intros v' Hv' _. destruct (items_for jshape hp v' (cdata c)) as [[its|]|e] eqn:Ei.
    - exists its. split; [reflexivity|]. split; [eapply items_pos_nodup; eauto|].
      intros [nm x] Hin. eapply items_child; eauto.
    - exists []. repeat split; [constructor | intros ix []].
    - exists []. repeat split; [constructor | intros ix []]. }
  destruct v as [k | z | a b c0 | l | | | dot | | | p]; try discriminate Hv; unfold select;
    try (apply Hitems; [reflexivity | exact I]).
  - destruct (cdata c) as [| | | | | j its | j its] eqn:Hd; cbn [jshape];
      try (exists []; repeat split; [constructor | intros ix []]).
    destruct (assoc k its) as [x|] eqn:Ea; [|exists []; repeat split; [constructor | intros ix []]].
    exists [(NStr k, x)]. split; [reflexivity|]. split; [repeat constructor; intros []|].
    intros ix [<-|[]]. exact Ea.
  - destruct (cdata c) as [| | | | | j its | j its] eqn:Hd; cbn [jshape];
      try (exists []; repeat split; [constructor | intros ix []]).
    destruct (list_get its z) as [x|e] eqn:Ea; [|exists []; repeat split; [constructor | intros ix []]].
    exists [(NInt z, x)]. split; [reflexivity|]. split; [repeat constructor; intros []|].
    intros ix [<-|[]]. cbn [vstep child_at fst snd]. rewrite Ea. reflexivity.
Qed.

Lemma select_child_locs v c :
  child_step v = true -> chain_ok doc c ->
  NoDup (map loc (select hp sev v c)) /\
  (forall c', In c' (select hp sev v c) -> chain_ok doc c' /\ exists a, loc c' = loc c ++ [a]).
Proof.
  intros Hv Hok. destruct (select_child v c Hv Hok) as (its & -> & Hnd & Hch). split.
  - rewrite map_map.
    replace (map (fun x => loc (ext c (fst x) (snd x))) its)
      with (map (fun a => loc c ++ [a]) (map (fun ix => pos (vstep (fst ix)) (cdata c)) its)).
    + apply NoDup_map_inj; [|exact Hnd]. intros x y _ _ E. apply app_inv_head in E. congruence.
    + rewrite map_map. apply map_ext_in. intros ix Hin. symmetry. apply loc_ext; [exact Hok | apply Hch; exact Hin].
  - intros c' Hin. apply in_map_iff in Hin. destruct Hin as (ix & <- & Hin). split.
    + apply chain_ext; [exact Hok | apply Hch; exact Hin].
    + eexists. apply loc_ext; [exact Hok | apply Hch; exact Hin].
Qed.

Lemma select_pred_filter p L :
  flat_map (select hp sev (VPred p)) L =
  filter (fun c => match fst (sev p c) with Ok v => truthy v | Exn _ => false end) L.
Proof.
  induction L as [|c L IH]; [reflexivity|]. cbn [flat_map filter]. rewrite IH. unfold select.
  destruct (fst (sev p c)) as [v|e]; [destruct (truthy v)|]; reflexivity.
Qed.

Lemma flat_select_nodup v L :
  child_step v || is_pred v = true -> (forall c, In c L -> chain_ok doc c) -> NoDup (map loc L) ->
  NoDup (map loc (flat_map (select hp sev v) L)) /\ (forall c', In c' (flat_map (select hp sev v) L) -> chain_ok doc c').
Proof.
  intros Hv Hok Hnd. destruct (is_pred v) eqn:Hp.
  - destruct v; try discriminate Hp. rewrite select_pred_filter. split; [apply NoDup_map_filter; exact Hnd|].
    intros c' Hin. apply filter_In in Hin. apply Hok. tauto.
  - rewrite orb_false_r in Hv. split.
    + induction L as [|c L IH]; [constructor|]. cbn [flat_map]. rewrite map_app.
      simpl in Hnd. inversion Hnd as [|x r Hx Hr]; subst.
      destruct (select_child_locs v c Hv (Hok c (or_introl eq_refl))) as [H1 H2].
      apply NoDup_app_intro; [exact H1 | apply IH; [intros c0 Hin; apply Hok; right; exact Hin | exact Hr]|].
      intros l Ha Hb. apply in_map_iff in Ha. destruct Ha as (c1 & <- & Hc1). destruct (H2 c1 Hc1) as [_ (a & Ea)].
      apply in_map_iff in Hb. destruct Hb as (c2 & E2 & Hc2). apply in_flat_map in Hc2. destruct Hc2 as (c3 & Hc3 & Hc2).
      destruct (select_child_locs v c3 Hv (Hok c3 (or_intror Hc3))) as [_ H3]. destruct (H3 c2 Hc2) as [_ (b & Eb)].
      rewrite Ea, Eb in E2. apply app_inj_tail in E2. destruct E2 as [E2 _].
      apply Hx. rewrite <- E2. apply in_map. exact Hc3.
    + intros c' Hin. apply in_flat_map in Hin. destruct Hin as (c & Hc & Hin).
      exact (proj1 (proj2 (select_child_locs v c Hv (Hok c Hc)) c' Hin)).
Qed.

(* ------------------------------------------------------------------ paths without recursion *)
Lemma flat_map_nil_path (L : list jctx) : flat_map (deval hp sev []) L = L.
Proof. induction L as [|a L IH]; [reflexivity|]. simpl. f_equal. exact IH. Qed.

Lemma deval_simple_flat q : forall L, simple q = true ->
  (forall c, In c L -> chain_ok doc c) -> NoDup (map loc L) ->
  NoDup (map loc (flat_map (deval hp sev q) L)) /\ (forall c', In c' (flat_map (deval hp sev q) L) -> chain_ok doc c').
Proof.
  induction q as [|v r IH]; intros L Hs Hok Hnd.
  - rewrite flat_map_nil_path.
    split; assumption.
  - cbn [simple forallb] in Hs. apply andb_prop in Hs. destruct Hs as [Hv Hr].
    assert (Hnr : is_rec hp v = false) by (destruct v; try reflexivity; discriminate Hv).
    replace (flat_map (deval hp sev (v :: r)) L) with (flat_map (deval hp sev r) (flat_map (select hp sev v) L)).
    + destruct (flat_select_nodup v L Hv Hok Hnd) as [H1 H2]. apply IH; assumption.
    + rewrite flat_map_flat_map. apply flat_map_ext_in. intros c. rewrite deval_cons_nonrec by exact Hnr. reflexivity.
Qed.

Definition nchild (q : list (vertex hp)) : nat := List.length (filter child_step q).

Lemma deval_simple_len q : forall c, simple q = true -> chain_ok doc c ->
  forall c', In c' (deval hp sev q c) -> List.length (loc c') = List.length (loc c) + nchild q.
Proof.
  induction q as [|v r IH]; intros c Hs Hok c' Hin.
  - destruct Hin as [<-|[]]. unfold nchild. simpl. lia.
  - cbn [simple forallb] in Hs. apply andb_prop in Hs. destruct Hs as [Hv Hr].
    assert (Hnr : is_rec hp v = false) by (destruct v; try reflexivity; discriminate Hv).
    rewrite deval_cons_nonrec in Hin by exact Hnr. apply in_flat_map in Hin. destruct Hin as (c1 & Hc1 & Hin).
    unfold nchild. cbn [filter]. destruct (child_step v) eqn:Hcs.
    + destruct (proj2 (select_child_locs v c Hcs Hok) c1 Hc1) as [Hok1 (a & Ea)].
      rewrite (IH c1 Hr Hok1 c' Hin), Ea, app_length. unfold nchild. simpl. lia.
    + destruct v; try discriminate. unfold select in Hc1.
      destruct (fst (sev p c)) as [val|e]; [|contradiction]. destruct (truthy val); [|contradiction].
      destruct Hc1 as [<-|[]]. rewrite (IH c Hr Hok c' Hin). reflexivity.
Qed.

(* ------------------------------------------------------------------ the recursive step *)
Lemma at_path_loc c d ns c' d' :
  at_path c d ns c' d' -> cdata c = d -> chain_ok doc c ->
  exists rest, loc c' = loc c ++ rest /\ List.length rest = List.length ns.
Proof.
  induction 1 as [c d | c d its nm x ns c' d' Hm Hin Hp IH]; intros Hcd Hok.
  - exists []. rewrite app_nil_r. auto.
  - assert (Hu : uniq d) by (destruct Hok as (_ & _ & Hu); rewrite Hcd in Hu; exact Hu).
    pose proof (proj1 (member_child d its nm x Hu Hm Hin)) as Hc. rewrite <- Hcd in Hc.
    destruct (IH (cdata_ext c nm x) (chain_ext doc c nm x Hok Hc)) as (rest & E & Hl).
    exists (pos (vstep nm) (cdata c) :: rest). rewrite E, (loc_ext c nm x Hok Hc), <- app_assoc. simpl. auto.
Qed.

Lemma below_loc c c' :
  chain_ok doc c -> In c' (below c (cdata c)) -> exists a rest, loc c' = loc c ++ a :: rest.
Proof.
  intros Hok Hin. destruct (below_sound _ _ _ Hin) as (ns & d' & Hne & Hp).
  destruct (at_path_loc _ _ _ _ _ Hp eq_refl Hok) as (rest & E & Hl).
  destruct rest as [|a rest]; [destruct ns; [congruence | discriminate]|]. eauto.
Qed.

Lemma members_pos_nodup d its : uniq d -> members d = Some its -> NoDup (map (fun ix => pos (vstep (fst ix)) d) its).
Proof.
  intros Hu Hm. destruct d as [| | | | | j l | j l]; simpl in Hm; try discriminate; injection Hm as <-.
  - apply list_iter_pos_nodup.
  - apply (items_pos_nodup VKeyWild (JDict j l) (dict_iter l) eq_refl Hu eq_refl).
Qed.

Lemma below_loc_nodup : forall d, uniq d -> forall c, chain_ok doc c -> cdata c = d -> NoDup (map loc (below c d)).
Proof.
  induction 1 as [d Hm | d its Hm Hnd Hkids IH]; intros c Hok Hcd.
  - rewrite (below_scalar _ _ Hm). constructor.
  - assert (Hu : uniq d) by (eapply U_cont; eauto).
    rewrite (below_unfold _ _ _ Hm).
    replace (map loc (flat_map (fun ix => ext c (fst ix) (snd ix) :: below (ext c (fst ix) (snd ix)) (snd ix)) its))
      with (flat_map (fun ix => loc (ext c (fst ix) (snd ix)) :: map loc (below (ext c (fst ix) (snd ix)) (snd ix))) its).
    2:{ clear. induction its as [|a its IH]; [reflexivity|]. cbn [flat_map map]. rewrite map_app, IH. reflexivity. }
    assert (Hch : forall ix, In ix its -> child_at (vstep (fst ix)) (cdata c) = Some (snd ix)).
    { intros [nm x] Hin. rewrite Hcd. exact (proj1 (member_child d its nm x Hu Hm Hin)). }
    apply (NoDup_blocks' (fun ix => pos (vstep (fst ix)) d) (loc c)); [apply members_pos_nodup; assumption | |].
    + intros [nm x] Hin. cbn [fst snd].
      assert (Hok1 : chain_ok doc (ext c nm x)) by (apply chain_ext; [exact Hok | apply (Hch (nm, x) Hin)]).
      constructor; [|apply (IH nm x Hin); [exact Hok1 | apply cdata_ext]].
      intros Hhead. apply in_map_iff in Hhead. destruct Hhead as (c1 & E & Hc1).
      rewrite <- (cdata_ext c nm x) in Hc1 at 2. destruct (below_loc _ _ Hok1 Hc1) as (a & rest & E1). rewrite E1 in E.
      apply (f_equal (@List.length _)) in E. rewrite app_length in E. simpl in E. lia.
    + intros [nm x] l Hin Hl. cbn [fst snd] in *.
      assert (Hok1 : chain_ok doc (ext c nm x)) by (apply chain_ext; [exact Hok | apply (Hch (nm, x) Hin)]).
      pose proof (loc_ext c nm x Hok (Hch (nm, x) Hin)) as Ee. rewrite Hcd in Ee. cbn [fst] in Ee.
      destruct Hl as [<- | Hl].
      * exists []. exact Ee.
      * apply in_map_iff in Hl. destruct Hl as (c1 & <- & Hc1).
        rewrite <- (cdata_ext c nm x) in Hc1 at 2. destruct (below_loc _ _ Hok1 Hc1) as (a & rest & E1).
        rewrite E1, Ee, <- app_assoc. exists (a :: rest). reflexivity.
Qed.

Definition expand (c : jctx) : list jctx := if is_container c then c :: below c (cdata c) else [].

Lemma expand_nodup c : chain_ok doc c -> NoDup (map loc (expand c)).
Proof.
  intros Hok. unfold expand. destruct (is_container c); [|constructor]. cbn [map].
  constructor; [|apply (below_loc_nodup (cdata c)); [destruct Hok as (_ & _ & Hu); exact Hu | exact Hok | reflexivity]].
  intros Hin. apply in_map_iff in Hin. destruct Hin as (c1 & E & Hc1). destruct (below_loc _ _ Hok Hc1) as (a & rest & E1).
  rewrite E1 in E. apply (f_equal (@List.length _)) in E. rewrite app_length in E. simpl in E. lia.
Qed.

Lemma expand_prefix c c' : chain_ok doc c -> In c' (expand c) -> chain_ok doc c' /\ exists s, loc c' = loc c ++ s.
Proof.
  intros Hok Hin. unfold expand in Hin. destruct (is_container c); [|contradiction]. destruct Hin as [<-|Hin].
  - split; [exact Hok | exists []; rewrite app_nil_r; reflexivity].
  - split.
    + destruct (below_sound _ _ _ Hin) as (ns & d' & _ & Hp). eapply chain_at_path; eauto.
    + destruct (below_loc _ _ Hok Hin) as (a & rest & E). eauto.
Qed.

Lemma expand_all_nodup L :
  (forall c, In c L -> chain_ok doc c) -> NoDup (map loc L) ->
  (forall c1 c2, In c1 L -> In c2 L -> List.length (loc c1) = List.length (loc c2)) ->
  NoDup (map loc (flat_map expand L)).
Proof.
  induction L as [|c L IH]; intros Hok Hnd Hlen; [constructor|]. cbn [flat_map]. rewrite map_app.
  simpl in Hnd. inversion Hnd as [|x r Hx Hr]; subst.
  apply NoDup_app_intro.
  - apply expand_nodup. apply Hok. left. reflexivity.
  - apply IH; [intros c0 Hin; apply Hok; right; exact Hin | exact Hr | intros c1 c2 H1 H2; apply Hlen; right; assumption].
  - intros l Ha Hb. apply in_map_iff in Ha. destruct Ha as (c1 & <- & Hc1).
    destruct (expand_prefix c c1 (Hok c (or_introl eq_refl)) Hc1) as [_ (s1 & E1)].
    apply in_map_iff in Hb. destruct Hb as (c2 & E2 & Hc2). apply in_flat_map in Hc2. destruct Hc2 as (c3 & Hc3 & Hc2).
    destruct (expand_prefix c3 c2 (Hok c3 (or_intror Hc3)) Hc2) as [_ (s2 & E3)].
    rewrite E1, E3 in E2. destruct (app_inv_length _ _ _ _ E2 (Hlen c3 c (or_intror Hc3) (or_introl eq_refl))) as [E _].
    apply Hx. rewrite <- E. apply in_map. exact Hc3.
Qed.

(* deval of a recursive step followed by q2, as one flat_map over the context and its descendants *)
Definition after_rec (q2 : list (vertex hp)) (c' : jctx) : list jctx :=
  if is_container c' then deval hp sev q2 c' else if leafb hp q2 then [c'] else [].

Lemma deval_rec_flat q2 c : deval hp sev (VRec :: q2) c = flat_map (after_rec q2) (expand c).
Proof.
  cbn [deval]. unfold expand. destruct (is_container c) eqn:Hc; [|reflexivity].
  cbn [flat_map]. unfold after_rec at 1. rewrite Hc. reflexivity.
Qed.

Lemma simple_ends_rec q : simple q = true -> ends_rec hp q = false.
Proof.
  induction q as [|v r IH]; intros Hs; [reflexivity|]. cbn [simple forallb] in Hs. apply andb_prop in Hs. destruct Hs as [Hv Hr].
  cbn [ends_rec]. destruct r as [|v' r']; [destruct v; try reflexivity; discriminate Hv | apply IH; exact Hr].
Qed.

(* C11: at most one recursive step, no comma-delimited step, no parent step: no location twice *)
Theorem no_location_twice_simple q :
  simple q = true -> NoDup (map loc (deval hp sev q (root_ctx doc))).
Proof.
  intros Hs. pose proof (deval_simple_flat q [root_ctx doc] Hs) as H. cbn [flat_map] in H. rewrite app_nil_r in H.
  apply H; [intros c [<-|[]]; apply chain_root; exact Hdoc | repeat constructor; intros []].
Qed.

Theorem no_location_twice_rec q1 q2 :
  simple q1 = true -> simple q2 = true ->
  NoDup (map loc (deval hp sev (q1 ++ VRec :: q2) (root_ctx doc))).
Proof.
  intros Hs1 Hs2. rewrite (deval_app hp sev q1 (VRec :: q2) (simple_ends_rec q1 Hs1)).
  set (L1 := deval hp sev q1 (root_ctx doc)).
  assert (Hroot : chain_ok doc (root_ctx doc)) by (apply chain_root; exact Hdoc).
  assert (H1 : NoDup (map loc L1) /\ (forall c', In c' L1 -> chain_ok doc c')).
  { pose proof (deval_simple_flat q1 [root_ctx doc] Hs1) as H. cbn [flat_map] in H. rewrite app_nil_r in H.
    apply H; [intros c [<-|[]]; exact Hroot | repeat constructor; intros []]. }
  destruct H1 as [Hnd1 Hok1].
  assert (Hlen1 : forall c1 c2, In c1 L1 -> In c2 L1 -> List.length (loc c1) = List.length (loc c2)).
  { intros c1 c2 Ha Hb. rewrite (deval_simple_len q1 _ Hs1 Hroot c1 Ha), (deval_simple_len q1 _ Hs1 Hroot c2 Hb). reflexivity. }
  replace (flat_map (deval hp sev (VRec :: q2)) L1) with (flat_map (after_rec q2) (flat_map expand L1))
    by (rewrite flat_map_flat_map; apply flat_map_ext_in; intros c; symmetry; apply deval_rec_flat).
  set (M := flat_map expand L1).
  assert (HM : NoDup (map loc M)) by (apply expand_all_nodup; assumption).
  assert (HokM : forall c, In c M -> chain_ok doc c).
  { intros c Hin. apply in_flat_map in Hin. destruct Hin as (c0 & Hc0 & Hin). exact (proj1 (expand_prefix c0 c (Hok1 c0 Hc0) Hin)). }
  destruct q2 as [|v2 r2].
  - (* the recursive step is the last one *)
    replace (flat_map (after_rec []) M) with M; [exact HM|].
    clear. induction M as [|a M IH]; [reflexivity|]. cbn [flat_map]. rewrite <- IH. unfold after_rec. simpl.
    destruct (is_container a); reflexivity.
  - replace (flat_map (after_rec (v2 :: r2)) M) with (flat_map (deval hp sev (v2 :: r2)) (filter is_container M)).
    + apply (deval_simple_flat (v2 :: r2) (filter is_container M) Hs2).
      * intros c Hin. apply filter_In in Hin. apply HokM. tauto.
      * apply NoDup_map_filter. exact HM.
    + clear. induction M as [|a M IH]; [reflexivity|]. cbn [flat_map filter]. unfold after_rec at 1. cbn [leafb].
      destruct (is_container a); cbn [flat_map app]; rewrite IH; reflexivity.
Qed.

End Loc.
