(* FirstNext.v -- the first next() of an iterator, for every budget B (get_match is exactly that call):
   it yields the first result of the specification, or reports that there is none, or raises the filter
   exception that precedes every result, or dies of a budget exception (F1). *)
From Coq Require Import List ZArith String Bool PArith Lia FMapPositive.
From TP Require Import Json PyPrim Machine Api Spec SpecHas.
From TP.proofs Require Import RefineBase Refine NextLayer Iterate WfRun Query SpecLemmas Top HasScan HasLoop HasRefine ApiTop.
Import ListNotations.
Close Scope Z_scope.
Open Scope list_scope.

Section FirstNext.
Variable P : Type.
Variable ev : P -> jtm -> @tracecfg json -> res json * list jevent.
Variable sev : P -> jctx -> res json * list sevent.
Variable src : @source json.
Variable vp : list (vertex P).
Variable tr : @tracecfg json.

Hypothesis ev_ok : forall p m, In (VPred p) vp -> wf m ->
  (fst (ev p m tr) = fst (sev p (abs m)) /\
   map abs_ev (snd (ev p m tr)) = proj (tracing tr) (snd (sev p (abs m)))) \/
  (exists e, fst (ev p m tr) = Exn e /\ budget_exn e = true).
Hypothesis ev_quiet : forall p m, ev_results (snd (ev p m tr)) = [].
Hypothesis Hsrc : src_wf src.

Notation step1 := (step jshape P ev src vp tr).
Notation quiet := (quiet P ev src vp tr).
Notation answer := (answer P sev src vp tr).

Lemma quiet_prefix k z evs z1 :
  quiet k z evs z1 -> forall j, j < k ->
  exists e1 za zb e2, quiet j z e1 za /\ step1 za = SNext zb e2 false.
Proof.
  induction 1 as [z | k z z1 ev1 z2 ev2 Hs Hq IH]; intros j Hj; [lia|].
  destruct j as [|j].
  - exists [], z, z1, ev1. split; [constructor | exact Hs].
  - destruct (IH j ltac:(lia)) as (e1 & za & zb & e2 & Hq1 & Hs1).
    exists (ev1 ++ e1), za, zb, e2. split; [econstructor; eauto | exact Hs1].
Qed.

(* a run that ends in a raising action, cut by the budget: what the first next() returns *)
Lemma first_next_of_run B k evs z1 e z2 ev2 :
  run P ev src vp tr k init_state evs z1 -> step1 z1 = SRaise e z2 ev2 ->
  let o := fst (fst (next jshape P ev B src vp tr init_state)) in
  (exists m rest, o = OResult m /\ ev_results evs = m :: rest) \/
  (o = ORaise e /\ ev_results evs = []) \/
  (o = ORaise EInfiniteLoop).
Proof.
  intros Hrun Hs o.
  destruct (run_split P ev src vp tr ev_quiet _ _ _ _ Hrun) as
      [(Hq & Hn) | (k1 & k2 & e1 & za & zb & m & e2 & Hq1 & Hn1 & Hsa & Hc & Hr2 & Hk & Hevs)].
  - destruct (Nat.lt_ge_cases k (Pos.to_nat B)) as [Hlt | Hge].
    + right. left. split; [|exact Hn]. unfold o.
      rewrite (next_raise P ev src vp tr B k init_state evs z1 z2 e ev2 Hq Hs Hlt). reflexivity.
    + right. right. unfold o.
      assert (Hj : Pos.to_nat B - 1 < k) by (pose proof (Pos2Nat.is_pos B); lia).
      destruct (quiet_prefix _ _ _ _ Hq _ Hj) as (ea & zc & zd & eb & Hqa & Hsc).
      rewrite (next_budget P ev src vp tr B (Pos.to_nat B - 1) init_state ea zc zd eb false Hqa Hsc
                 ltac:(pose proof (Pos2Nat.is_pos B); lia)). reflexivity.
  - destruct (Nat.lt_ge_cases (S k1) (Pos.to_nat B)) as [Hlt | Hge].
    + left. exists m, (ev_results e2). split.
      * unfold o. rewrite (next_result P ev src vp tr B k1 init_state e1 za zb m Hq1 Hsa Hc Hlt). reflexivity.
      * rewrite Hevs, !ev_results_app, Hn1. reflexivity.
    + right. right. unfold o.
      destruct (Nat.eq_dec (S k1) (Pos.to_nat B)) as [Heq | Hne].
      * rewrite (next_budget P ev src vp tr B k1 init_state e1 za zb [EvResult m] true Hq1 Hsa Heq). reflexivity.
      * assert (Hj : Pos.to_nat B - 1 < k1) by (pose proof (Pos2Nat.is_pos B); lia).
        destruct (quiet_prefix _ _ _ _ Hq1 _ Hj) as (ea & zc & zd & eb & Hqa & Hsc).
        rewrite (next_budget P ev src vp tr B (Pos.to_nat B - 1) init_state ea zc zd eb false Hqa Hsc
                   ltac:(pose proof (Pos2Nat.is_pos B); lia)). reflexivity.
Qed.

(* the first next(), whatever the budget *)
Theorem first_next B :
  let o := fst (fst (next jshape P ev B src vp tr init_state)) in
  (exists m, o = OResult m /\ wf m /\ hd_error (sresults (fst answer)) = Some (abs m)) \/
  (o = ORaise EStop /\ sresults (fst answer) = [] /\ snd answer = None) \/
  (exists e, o = ORaise e /\ sresults (fst answer) = [] /\ snd answer = Some e) \/
  (exists e, o = ORaise e /\ budget_exn e = true).
Proof.
  intros o.
  pose proof (refinement P ev sev src vp tr (pmc tr) (fun _ => eq_refl) ev_ok Hsrc) as Href.
  fold answer in Href.
  assert (Hwfrun : forall k evs z1, run P ev src vp tr k init_state evs z1 -> Forall wf (ev_results evs)).
  { intros k evs z1 Hr. exact (proj2 (wf_run P ev src vp tr Hsrc ev_quiet k _ _ _ (wfz_init) Hr)). }
  destruct Href as [Href | Href].
  - unfold ok_run in Href. destruct (snd answer) as [e|] eqn:Hex.
    + destruct Href as (k & z1 & evs & z2 & ev2 & Hrun & Hs & Hev).
      assert (Hr2 : ev_results ev2 = []) by (eapply (step_raise_quiet P ev src vp tr ev_quiet); eauto).
      assert (Hres : map abs (ev_results evs) = sresults (fst answer)).
      { rewrite <- (sresults_proj (tracing tr)), <- Hev, sresults_abs, ev_results_app, Hr2, app_nil_r. reflexivity. }
      destruct (first_next_of_run B k evs z1 e z2 ev2 Hrun Hs) as [(m & rest & Ho & He) | [(Ho & He) | Ho]]; fold o in Ho.
      * left. exists m. split; [exact Ho|]. pose proof (Hwfrun _ _ _ Hrun) as Hw. rewrite He in Hw, Hres.
        inversion Hw; subst. split; [assumption|]. rewrite <- Hres. reflexivity.
      * right. right. left. exists e. rewrite He in Hres. auto.
      * right. right. right. exists EInfiniteLoop. auto.
    + destruct Href as (k & z' & evs & Hrun & Hev & Hpc & Hstop).
      assert (Hres : map abs (ev_results evs) = sresults (fst answer)).
      { rewrite <- (sresults_proj (tracing tr)), <- Hev, sresults_abs. reflexivity. }
      destruct (first_next_of_run B k evs z' EStop z' [] Hrun Hstop) as [(m & rest & Ho & He) | [(Ho & He) | Ho]]; fold o in Ho.
      * left. exists m. split; [exact Ho|]. pose proof (Hwfrun _ _ _ Hrun) as Hw. rewrite He in Hw, Hres.
        inversion Hw; subst. split; [assumption|]. rewrite <- Hres. reflexivity.
      * right. left. rewrite He in Hres. auto.
      * right. right. right. exists EInfiniteLoop. auto.
  - destruct Href as (k & z1 & evs & z2 & e & ev2 & pre & suf & Hrun & Hs & Hbe & Hfst & Hev).
    assert (Hres : map abs (ev_results evs) = sresults pre).
    { rewrite <- (sresults_proj (tracing tr)), <- Hev, sresults_abs. reflexivity. }
    destruct (first_next_of_run B k evs z1 e z2 ev2 Hrun Hs) as [(m & rest & Ho & He) | [(Ho & He) | Ho]]; fold o in Ho.
    + left. exists m. split; [exact Ho|]. pose proof (Hwfrun _ _ _ Hrun) as Hw. rewrite He in Hw, Hres.
      inversion Hw; subst. split; [assumption|]. rewrite Hfst, sresults_app, <- Hres. reflexivity.
    + right. right. right. exists e. auto.
    + right. right. right. exists EInfiniteLoop. auto.
Qed.

End FirstNext.

(* ------------------------------------------------------------------ get_match / nested_get_match *)
Section GetMatch.
Variable B H : positive.
Variable depth : nat.
Notation ev := (@eval_h json jshape (fun d => d) B H depth).
Notation sev := (seval_h depth).
Notation hp := (@hpred json).
Notation get_match := (@get_match json jshape (fun d => d) B H depth).

Theorem get_match_spec (src : @source json) (p : list (vertex hp)) (must : bool) (tr : @tracecfg json) :
  src_wf src ->
  let r := fst (get_match src p must tr) in
  let ans := answer hp sev src p tr in
  (exists m, r = Ok (Some m) /\ wf m /\ hd_error (sresults (fst ans)) = Some (abs m)) \/
  (r = (if must then Exn (not_found src) else Ok None) /\ sresults (fst ans) = [] /\ snd ans = None) \/
  (exists e, snd ans = Some e /\ sresults (fst ans) = [] /\
             r = match e with EStop => if must then Exn (not_found src) else Ok None | _ => Exn e end) \/
  (exists e, r = Exn e /\ budget_exn e = true).
Proof.
  intros Hsrc r ans.
  pose proof (first_next hp ev sev src p tr (api_ev_ok B H depth tr p) (fun q m => eval_h_quiet B H depth q m tr) Hsrc B) as Hf.
  cbv zeta in Hf. unfold r, Api.get_match, api_next.
  destruct (next jshape hp ev B src p tr init_state) as [[o z] es]. cbn [fst] in Hf.
  destruct Hf as [(m & -> & Hw & Hh) | [(-> & Hn & He) | [(e & -> & Hn & He) | (e & -> & Hb)]]].
  - left. exists m. auto.
  - right. left. auto.
  - right. right. left. exists e. split; [exact He|]. split; [exact Hn|]. destruct e; reflexivity.
  - right. right. right. exists e. split; [|exact Hb]. destruct e; try reflexivity. discriminate.
Qed.

End GetMatch.
