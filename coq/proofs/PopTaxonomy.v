(* PopTaxonomy.v -- which exceptions pop can end in (C16, C10).
   pop / pop_match on a path of keys and indices, over a document with unique keys and unique identity labels:
   when the path selects a node the removal succeeds (the deletion by object identity is the deletion at that
   position, so no KeyError / IndexError / TypeError can come out of it); otherwise the outcome is the not-found
   error (only with must_match), PopError for the root path, or the budget exception. *)
From Coq Require Import List ZArith String Bool PArith Lia.
From TP Require Import Json PyPrim Machine Api Spec SpecHas Mutate SpecSet Obs Dsl Run.
From TP.proofs Require Import RefineBase Refine NextLayer Iterate WfRun Query SpecLemmas BelowLemmas MatchLemmas
     Top HasScan HasLoop HasRefine ApiTop FirstNext MutateProofs CsetLemmas CascadeRefine RoundTrip RoundTripApi AssignPosition.
Import ListNotations.
Close Scope Z_scope.
Open Scope list_scope.

Lemma split_last_none {A} (l : list A) : split_last l = None -> l = [].
Proof.
  induction l as [|x l IH]; [reflexivity|]. destruct l as [|y l']; [discriminate|]. intros Hs.
  change (split_last (x :: y :: l')) with
    (match split_last (y :: l') with Some (i, z) => Some (x :: i, z) | None => None end) in Hs.
  destruct (split_last (y :: l')) as [[i z]|] eqn:E; [discriminate Hs|]. specialize (IH eq_refl). discriminate IH.
Qed.

(* a well-formed match without a parent (and not standing for a parent step) is a root: its explicit path is empty *)
Lemma no_parent_is_root : forall (m : jtm), wf m -> top_par m = false -> parent m = None -> steps_of (abs m) = [].
Proof.
  induction m as [i d | i o IHo d | i rp IHrp k d x y | i rp IHrp z d x y | i rp IHrp d x y
                  | i rem IHrem rp IHrp nm d x y]; intros Hwf Htp Hp; simpl in *.
  - reflexivity.
  - destruct Hwf as [Ho ->]. exact (IHo Ho Htp Hp).
  - discriminate.
  - discriminate.
  - destruct Hwf as [Hrp ->]. exact (IHrp Hrp Htp Hp).
  - discriminate.
Qed.

Section PopTaxonomy.
Variable B H : positive.
Variable depth : nat.
Notation sev := (seval_h depth).

Theorem pop_match_exceptions d0 doc (p : list (vertex hp)) must tr e doc' es :
  kipath p = true -> uniq doc -> NoDup (labels doc) ->
  pop_match B H depth (SrcDoc d0) doc p must tr = (Exn e, doc', es) ->
  (p = [] /\ e = EPop) \/ (must = true /\ e = EMatchNotFound) \/ budget_exn e = true.
Proof.
  intros Hk Hu Hnd Hpop. unfold pop_match, jget_match in Hpop.
  pose proof (get_match_spec B H depth (SrcDoc doc) p must tr I) as Hs. cbv zeta in Hs.
  destruct (sem_deval hp sev p (kipath_pure sev p Hk) (kipath_valid p Hk) 0 (pmc tr) (abs (root_match (SrcDoc doc)))) as [Hok Hres].
  unfold answer in Hs. rewrite Hres in Hs. red in Hok.
  match type of Hs with context [fst ?X] => destruct X as [rg es0] end. cbn [fst] in Hs.
  destruct rg as [[m0|]|e0]; try discriminate Hpop.
  - (* a match was found: the removal cannot fail, except at the root *)
    destruct (split_last p) as [[pp v]|] eqn:Hsp.
    2:{ injection Hpop as <- _ _. left. split; [apply split_last_none; exact Hsp | reflexivity]. }
    exfalso.
    pose proof (split_last_snoc _ _ _ Hsp) as Hp.
    destruct (leaf_pop doc m0 v) as [[u|e1] d2] eqn:Hlp; [discriminate Hpop|].
    destruct Hs as [(m1 & Hr & Hw & Hh) | [(Hr & _) | [(e2 & _ & _ & Hr) | (e2 & Hr & _)]]];
      [injection Hr as <- | destruct must; simpl in Hr; discriminate Hr
       | destruct e2; try discriminate Hr; destruct must; simpl in Hr; discriminate Hr | discriminate Hr].
    change (abs (root_match (SrcDoc doc))) with (root_ctx doc) in *.
    destruct (deval_ki sev p (root_ctx doc) Hk) as [(c' & Hd & Hl) | (Hd & _)]; rewrite Hd in Hh; [|discriminate].
    simpl in Hh. injection Hh as Hc'. subst c'.
    assert (Hreach : reach doc (abs m0)).
    { pose proof (deval_reach sev doc Hu p (root_ctx doc) (kipath_no_parent p Hk) (reach_root doc)) as Hall.
      rewrite Forall_forall in Hall. apply Hall. rewrite Hd. left. reflexivity. }
    pose proof (deval_ki_steps sev p (root_ctx doc) (abs m0) Hk ltac:(discriminate) Hd) as Hsteps. cbn [steps_of root_ctx tl map app] in Hsteps.
    destruct (parent m0) as [pm|] eqn:Hpar.
    2:{ (* no parent: the match is the root, whose explicit path is empty *)
        destruct (kipath_snoc pp v ltac:(rewrite <- Hp; exact Hk)) as [_ Hkv].
        pose proof (no_parent_is_root m0 Hw (reach_top_par doc m0 Hreach) Hpar) as Hroot.
        rewrite Hroot in Hsteps. rewrite Hp in Hsteps. destruct pp; discriminate Hsteps. }
    destruct (parent_chain m0 pm Hw (reach_top_par doc m0 Hreach) Hpar) as [Eabs Hwpm].
    rewrite Eabs in Hreach. destruct (reach_ext_inv doc _ _ _ (abs_nonempty pm) Hreach) as [Hrpm Hc].
    destruct (reach_chain_ok doc _ Hu Hrpm) as (_ & Hlpm & _).
    rewrite (cdata_abs pm Hwpm) in Hlpm, Hc.
    rewrite Eabs, steps_ext in Hsteps by apply abs_nonempty. rewrite Hp in Hsteps.
    apply app_inj_tail in Hsteps. destruct Hsteps as [Epp Ev]. subst pp v.
    destruct (delitem_remove (data_name m0) (tdata pm) (tdata m0) Hc) as (y' & i & Hdel & Hrem & Hlab).
    assert (Hone : cnt (labels doc) i = 1).
    { pose proof (lookup_cnt _ _ _ _ Hlpm Hlab). pose proof (proj1 (NoDup_count_occ Nat.eq_dec (labels doc)) Hnd i). lia. }
    destruct (by_id_is_by_position _ doc (tdata pm) i y' Hlpm Hlab Hone) as [Hf Hrep].
    unfold leaf_pop in Hlp. rewrite Hpar in Hlp.
    destruct (data_name m0) as [k|z]; cbn [vstep] in *;
      destruct (tdata pm) as [| | | | | j its | j its] eqn:Etd; cbn [child_at] in Hc; try discriminate Hc;
      unfold mutate in Hlp; cbn [label_of] in Hlp, Hlab; injection Hlab as ->; rewrite Hf, Hdel in Hlp;
      discriminate Hlp.
  - (* get_match raised *)
    injection Hpop as <- _ _.
    destruct (deval_ki sev p (abs (root_match (SrcDoc doc))) Hk) as [(c' & Hd & Hl) | (Hd & _)]; rewrite Hd in Hs.
    + destruct Hs as [(m1 & Hr & _) | [(Hr & Hn & _) | [(e2 & He2 & _) | (e2 & Hr & Hb)]]]; try discriminate.
      * congruence.
      * injection Hr as <-. right. right. exact Hb.
    + destruct Hs as [(m1 & _ & _ & Hh) | [(Hr & _) | [(e2 & He2 & _) | (e2 & Hr & Hb)]]]; try discriminate.
      * destruct must; [|discriminate Hr]. injection Hr as <-. right. left. split; reflexivity.
      * congruence.
      * injection Hr as <-. right. right. exact Hb.
Qed.

End PopTaxonomy.
