(* AssignPosition.v -- C14: `m.data = v` writes at the position of m in the document.  For every well-formed
   match whose public chain was reached from the root by child steps (whatever bookkeeping matches of filters,
   recursion or nested searches stand behind it: they forward parent and data_name), the assignment -- which
   goes through match.parent.data[match.data_name] and mutates by object identity -- replaces exactly the node
   at the explicit path of m. *)
From Coq Require Import List ZArith String Bool PArith Lia.
From TP Require Import Json PyPrim Machine Api Spec SpecHas Mutate SpecSet Obs Dsl Run.
From TP.proofs Require Import RefineBase Refine NextLayer Iterate WfRun Query SpecLemmas BelowLemmas MatchLemmas
     MutateProofs CsetLemmas CascadeRefine RoundTrip RoundTripApi.
Import ListNotations.
Close Scope Z_scope.
Open Scope list_scope.

(* the match stands for a parent step (possibly behind bookkeeping matches) *)
Fixpoint top_par (m : jtm) : bool :=
  match m with
  | TPar _ _ _ _ _ _ _ => true
  | TImag _ rp _ _ _ => top_par rp
  | TNRoot _ o _ => top_par o
  | _ => false
  end.

Lemma abs_nonempty (m : jtm) : abs m <> [].
Proof.
  destruct (path_match_list_starts_at_root m) as (r & rest & E & _). unfold abs. rewrite E. discriminate.
Qed.

(* parent / data_name forward through bookkeeping matches to the container and the name of the public chain *)
Lemma parent_chain : forall (m pm : jtm),
  wf m -> top_par m = false -> parent m = Some pm ->
  abs m = ext (abs pm) (data_name m) (tdata m) /\ wf pm.
Proof.
  induction m as [i d | i o IHo d | i rp IHrp k d x y | i rp IHrp z d x y | i rp IHrp d x y
                  | i rem IHrem rp IHrp nm d x y]; intros pm Hwf Htp Hp; simpl in *.
  - discriminate.
  - destruct Hwf as [Ho ->]. destruct (IHo pm Ho Htp Hp) as [E Hw]. split; [exact E | exact Hw].
  - injection Hp as <-. split; [apply abs_snoc; reflexivity | exact Hwf].
  - injection Hp as <-. split; [apply abs_snoc; reflexivity | exact Hwf].
  - destruct Hwf as [Hrp ->]. destruct (IHrp pm Hrp Htp Hp) as [E Hw]. split; [exact E | exact Hw].
  - discriminate.
Qed.

Lemma reach_ext_inv doc c nm x :
  c <> [] -> reach doc (ext c nm x) -> reach doc c /\ child_at (vstep nm) (cdata c) = Some x.
Proof.
  intros Hne Hr. inversion Hr as [Hroot | c0 nm0 x0 Hr0 Hc0 E].
  - exfalso. unfold root_ctx, ext in Hroot. destruct c as [|e [|e' c']]; [congruence | discriminate | discriminate].
  - unfold ext in E. apply app_inj_tail in E. destruct E as [-> E]. injection E as _ -> ->. auto.
Qed.

Lemma put_at_snoc : forall p d v x y y',
  lookup d p = Some y -> (exists c, child_at v y = Some c) -> store v x y = Some y' ->
  put_at d (p ++ [v]) x = put_at d p y'.
Proof.
  induction p as [|w p IH]; intros d v x y y' Hl (c & Hc) Hs.
  - simpl in Hl. injection Hl as ->. cbn [app put_at]. rewrite Hc, Hs. reflexivity.
  - cbn [lookup] in Hl. destruct (child_at w d) as [c0|] eqn:Hw; [|discriminate].
    cbn [app]. rewrite !put_at_cons, Hw. rewrite (IH c0 v x y y' Hl (ex_intro _ c Hc) Hs). reflexivity.
Qed.

Lemma setitem_store nm x y c :
  child_at (vstep nm) y = Some c ->
  exists y' i, setitem nm x y = Ok (tt, y') /\ store (vstep nm) x y = Some y' /\ label_of y = Some i.
Proof.
  destruct nm as [k|z]; destruct y as [| | | | | j its | j its]; cbn [vstep child_at]; try discriminate.
  - intros _. exists (JDict j (dict_set its k x)), j. repeat split.
  - destruct (list_get its z) as [v|e] eqn:E; [|discriminate]. intros _.
    destruct (list_get_ok _ _ _ E) as (n & Hn & _). unfold setitem, store, list_set. rewrite Hn.
    exists (JList j (set_nth its n x)), j. repeat split.
Qed.

Theorem match_assign_position doc (m pm : jtm) x :
  uniq doc -> NoDup (labels doc) -> wf m -> top_par m = false -> reach doc (abs m) -> parent m = Some pm ->
  match_assign doc m x = (Ok tt, put_at doc (explicit_path m) x).
Proof.
  intros Hu Hnd Hwf Htp Hr Hp.
  destruct (parent_chain m pm Hwf Htp Hp) as [Eabs Hwpm].
  rewrite Eabs in Hr. destruct (reach_ext_inv doc _ _ _ (abs_nonempty pm) Hr) as [Hrpm Hc].
  destruct (reach_chain_ok doc _ Hu Hrpm) as (_ & Hl & _).
  rewrite (cdata_abs pm Hwpm) in Hl, Hc.
  destruct (setitem_store (data_name m) x (tdata pm) (tdata m) Hc) as (y' & i & Hset & Hst & Hlab).
  assert (Hone : cnt (labels doc) i = 1).
  { pose proof (lookup_cnt _ _ _ _ Hl Hlab). pose proof (proj1 (NoDup_count_occ Nat.eq_dec (labels doc)) Hnd i). lia. }
  destruct (by_id_is_by_position _ doc (tdata pm) i y' Hl Hlab Hone) as [Hf Hrep].
  unfold match_assign. rewrite Hp. unfold mutate. rewrite Hlab, Hf, Hset, Hrep. f_equal.
  rewrite explicit_path_steps, Eabs, steps_ext by apply abs_nonempty.
  symmetry. eapply put_at_snoc; eauto.
Qed.

(* a chain reached by child steps has no parent entry, so the match does not stand for a parent step *)
Lemma reach_no_par doc c : reach doc c -> Forall (fun e => fst (fst e) <> KPar) c.
Proof.
  induction 1 as [|c nm x Hr IH Hc]; [repeat constructor; discriminate|].
  unfold ext. apply Forall_app. split; [exact IH|]. constructor; [|constructor]. destruct nm; discriminate.
Qed.

Lemma top_par_last (m : jtm) : top_par m = true -> exists c e, abs m = c ++ [e] /\ fst (fst e) = KPar.
Proof.
  induction m as [i d | i o IHo d | i rp IHrp k d x y | i rp IHrp z d x y | i rp IHrp d x y
                  | i rem IHrem rp IHrp nm d x y]; simpl; intros H; try discriminate.
  - exact (IHo H).
  - exact (IHrp H).
  - exists (abs rp), (KPar, nm, d). split; [apply abs_snoc; reflexivity | reflexivity].
Qed.

Lemma reach_top_par doc (m : jtm) : reach doc (abs m) -> top_par m = false.
Proof.
  intros Hr. destruct (top_par m) eqn:E; [|reflexivity]. exfalso.
  destruct (top_par_last m E) as (c & e & Ea & Hk). pose proof (reach_no_par doc _ Hr) as Hall.
  rewrite Ea in Hall. apply Forall_app in Hall. destruct Hall as [_ Hall]. inversion Hall; subst. contradiction.
Qed.

(* for every match a parent-free query delivers *)
Theorem match_assign_delivered doc (sev : hp -> jctx -> res json * list sevent) (p : list (vertex hp)) (m pm : jtm) x :
  uniq doc -> NoDup (labels doc) -> no_parent p -> wf m ->
  In (abs m) (deval hp sev p (root_ctx doc)) -> parent m = Some pm ->
  match_assign doc m x = (Ok tt, put_at doc (explicit_path m) x).
Proof.
  intros Hu Hnd Hnp Hwf Hin Hp.
  pose proof (deval_reach sev doc Hu p (root_ctx doc) Hnp (reach_root doc)) as Hall. rewrite Forall_forall in Hall.
  pose proof (Hall _ Hin) as Hr.
  exact (match_assign_position doc m pm x Hu Hnd Hwf (reach_top_par doc m Hr) Hr Hp).
Qed.
