(* AssignPosition.v -- C14: `m.data = v` writes at the position of m in the document.  For every well-formed
   match whose public chain was reached from the root by child steps (whatever bookkeeping matches of filters,
   recursion or nested searches stand behind it: they forward parent and data_name), the assignment -- which
   goes through match.parent.data[match.data_name] and mutates by object identity -- replaces exactly the node
   at the explicit path of m. *)
From Coq Require Import List ZArith String Bool PArith Lia.
From TP Require Import Json PyPrim Machine Api Spec SpecHas Mutate SpecSet Obs Dsl Run.
From TP.proofs Require Import RefineBase Refine NextLayer Iterate WfRun Query SpecLemmas BelowLemmas MatchLemmas
     Top HasScan HasLoop HasRefine ApiTop FirstNext MutateProofs CsetLemmas CascadeRefine RoundTrip RoundTripApi.
Import ListNotations.
Close Scope Z_scope.
Open Scope list_scope.

(* the match stands for a parent step (possibly behind bookkeeping matches) *)
Fixpoint top_par (m : jtm) : bool :=
  match m with
  | TPar _ _ _ _ _ _ _ => true
  | TImag _ rp _ _ _ => top_par rp
  | TNRoot _ o _ => top_par o
  | _ => false
  end.

Lemma abs_nonempty (m : jtm) : abs m <> [].
Proof.
  destruct (path_match_list_starts_at_root m) as (r & rest & E & _). unfold abs. rewrite E. discriminate.
Qed.

(* parent / data_name forward through bookkeeping matches to the container and the name of the public chain *)
Lemma parent_chain : forall (m pm : jtm),
  wf m -> top_par m = false -> parent m = Some pm ->
  abs m = ext (abs pm) (data_name m) (tdata m) /\ wf pm.
Proof.
  induction m as [i d | i o IHo d | i rp IHrp k d x y | i rp IHrp z d x y | i rp IHrp d x y
                  | i rem IHrem rp IHrp nm d x y]; intros pm Hwf Htp Hp; simpl in *.
  - discriminate.
  - destruct Hwf as [Ho ->]. destruct (IHo pm Ho Htp Hp) as [E Hw]. split; [exact E | exact Hw].
  - injection Hp as <-. split; [apply abs_snoc; reflexivity | exact Hwf].
  - injection Hp as <-. split; [apply abs_snoc; reflexivity | exact Hwf].
  - destruct Hwf as [Hrp ->]. destruct (IHrp pm Hrp Htp Hp) as [E Hw]. split; [exact E | exact Hw].
  - discriminate.
Qed.

Lemma reach_ext_inv doc c nm x :
  c <> [] -> reach doc (ext c nm x) -> reach doc c /\ child_at (vstep nm) (cdata c) = Some x.
Proof.
  intros Hne Hr. inversion Hr as [Hroot | c0 nm0 x0 Hr0 Hc0 E].
  - exfalso. unfold root_ctx, ext in Hroot. destruct c as [|e [|e' c']]; [congruence | discriminate | discriminate].
  - unfold ext in E. apply app_inj_tail in E. destruct E as [-> E]. injection E as _ -> ->. auto.
Qed.

Lemma put_at_snoc : forall p d v x y y',
  lookup d p = Some y -> (exists c, child_at v y = Some c) -> store v x y = Some y' ->
  put_at d (p ++ [v]) x = put_at d p y'.
Proof.
  induction p as [|w p IH]; intros d v x y y' Hl (c & Hc) Hs.
  - simpl in Hl. injection Hl as ->. cbn [app put_at]. rewrite Hc, Hs. reflexivity.
  - cbn [lookup] in Hl. destruct (child_at w d) as [c0|] eqn:Hw; [|discriminate].
    cbn [app]. rewrite !put_at_cons, Hw. rewrite (IH c0 v x y y' Hl (ex_intro _ c Hc) Hs). reflexivity.
Qed.

Lemma setitem_store nm x y c :
  child_at (vstep nm) y = Some c ->
  exists y' i, setitem nm x y = Ok (tt, y') /\ store (vstep nm) x y = Some y' /\ label_of y = Some i.
Proof.
  destruct nm as [k|z]; destruct y as [| | | | | j its | j its]; cbn [vstep child_at]; try discriminate.
  - intros _. exists (JDict j (dict_set its k x)), j. repeat split.
  - destruct (list_get its z) as [v|e] eqn:E; [|discriminate]. intros _.
    destruct (list_get_ok _ _ _ E) as (n & Hn & _). unfold setitem, store, list_set. rewrite Hn.
    exists (JList j (set_nth its n x)), j. repeat split.
Qed.

Theorem match_assign_position doc (m pm : jtm) x :
  uniq doc -> NoDup (labels doc) -> wf m -> top_par m = false -> reach doc (abs m) -> parent m = Some pm ->
  match_assign doc m x = (Ok tt, put_at doc (explicit_path m) x).
Proof.
  intros Hu Hnd Hwf Htp Hr Hp.
  destruct (parent_chain m pm Hwf Htp Hp) as [Eabs Hwpm].
  rewrite Eabs in Hr. destruct (reach_ext_inv doc _ _ _ (abs_nonempty pm) Hr) as [Hrpm Hc].
  destruct (reach_chain_ok doc _ Hu Hrpm) as (_ & Hl & _).
  rewrite (cdata_abs pm Hwpm) in Hl, Hc.
  destruct (setitem_store (data_name m) x (tdata pm) (tdata m) Hc) as (y' & i & Hset & Hst & Hlab).
  assert (Hone : cnt (labels doc) i = 1).
  { pose proof (lookup_cnt _ _ _ _ Hl Hlab). pose proof (proj1 (NoDup_count_occ Nat.eq_dec (labels doc)) Hnd i). lia. }
  destruct (by_id_is_by_position _ doc (tdata pm) i y' Hl Hlab Hone) as [Hf Hrep].
  unfold match_assign. rewrite Hp. unfold mutate. rewrite Hlab, Hf, Hset, Hrep. f_equal.
  rewrite explicit_path_steps, Eabs, steps_ext by apply abs_nonempty.
  symmetry. eapply put_at_snoc; eauto.
Qed.

(* a chain reached by child steps has no parent entry, so the match does not stand for a parent step *)
Lemma reach_no_par doc c : reach doc c -> Forall (fun e => fst (fst e) <> KPar) c.
Proof.
  induction 1 as [|c nm x Hr IH Hc]; [repeat constructor; discriminate|].
  unfold ext. apply Forall_app. split; [exact IH|]. constructor; [|constructor]. destruct nm; discriminate.
Qed.

Lemma top_par_last (m : jtm) : top_par m = true -> exists c e, abs m = c ++ [e] /\ fst (fst e) = KPar.
Proof.
  induction m as [i d | i o IHo d | i rp IHrp k d x y | i rp IHrp z d x y | i rp IHrp d x y
                  | i rem IHrem rp IHrp nm d x y]; simpl; intros H; try discriminate.
  - exact (IHo H).
  - exact (IHrp H).
  - exists (abs rp), (KPar, nm, d). split; [apply abs_snoc; reflexivity | reflexivity].
Qed.

Lemma reach_top_par doc (m : jtm) : reach doc (abs m) -> top_par m = false.
Proof.
  intros Hr. destruct (top_par m) eqn:E; [|reflexivity]. exfalso.
  destruct (top_par_last m E) as (c & e & Ea & Hk). pose proof (reach_no_par doc _ Hr) as Hall.
  rewrite Ea in Hall. apply Forall_app in Hall. destruct Hall as [_ Hall]. inversion Hall; subst. contradiction.
Qed.

(* for every match a parent-free query delivers *)
Theorem match_assign_delivered doc (sev : hp -> jctx -> res json * list sevent) (p : list (vertex hp)) (m pm : jtm) x :
  uniq doc -> NoDup (labels doc) -> no_parent p -> wf m ->
  In (abs m) (deval hp sev p (root_ctx doc)) -> parent m = Some pm ->
  match_assign doc m x = (Ok tt, put_at doc (explicit_path m) x).
Proof.
  intros Hu Hnd Hnp Hwf Hin Hp.
  pose proof (deval_reach sev doc Hu p (root_ctx doc) Hnp (reach_root doc)) as Hall. rewrite Forall_forall in Hall.
  pose proof (Hall _ Hin) as Hr.
  exact (match_assign_position doc m pm x Hu Hnd Hwf (reach_top_par doc m Hr) Hr Hp).
Qed.

(* ------------------------------------------------------------------ C10: pop removes the node at the position of the path *)
(* del d[k] / del l[i] *)
Definition remove (v : vertex hp) (d : json) : option json :=
  match v, d with
  | VKey k, JDict i its => match dict_pop its k with Ok (_, l) => Some (JDict i l) | Exn _ => None end
  | VIdx z, JList i its => match list_del its z with Ok l => Some (JList i l) | Exn _ => None end
  | _, _ => None
  end.

Lemma delitem_remove nm y c :
  child_at (vstep nm) y = Some c ->
  exists y' i, delitem nm y = Ok (tt, y') /\ remove (vstep nm) y = Some y' /\ label_of y = Some i.
Proof.
  destruct nm as [k|z]; destruct y as [| | | | | j its | j its]; cbn [vstep child_at]; try discriminate.
  - intros Ha. unfold delitem, remove, dict_pop. rewrite Ha. exists (JDict j (dict_remove its k)), j. repeat split.
  - destruct (list_get its z) as [v|e] eqn:E; [|discriminate]. intros _.
    destruct (list_get_ok _ _ _ E) as (n & Hn & _). unfold delitem, remove, list_del. rewrite Hn.
    exists (JList j (del_nth its n)), j. repeat split.
Qed.

Lemma deval_ki_steps (sev : hp -> jctx -> res json * list sevent) : forall p c c',
  kipath p = true -> c <> [] -> deval hp sev p c = [c'] -> steps_of c' = steps_of c ++ p.
Proof.
  induction p as [|v r IH]; intros c c' Hk Hne Hd; [simpl in Hd; injection Hd as <-; rewrite app_nil_r; reflexivity|].
  cbn [kipath forallb] in Hk. apply andb_prop in Hk. destruct Hk as [Hv Hr].
  assert (Hext : forall nm x, vstep nm = v -> deval hp sev r (ext c nm x) = [c'] -> steps_of c' = steps_of c ++ v :: r).
  { intros nm x Ev H1. rewrite (IH (ext c nm x) c' Hr ltac:(unfold ext; destruct c; discriminate) H1).
    rewrite steps_ext by exact Hne. rewrite Ev, <- app_assoc. reflexivity. }
  destruct v as [k | z | | | | | | | |]; try discriminate Hv; cbn [deval] in Hd; unfold select in Hd.
  - destruct (cdata c) as [| | | | | j its | j its]; cbn [jshape] in Hd; try discriminate.
    destruct (assoc k its) as [x|]; [|discriminate]. cbn [flat_map] in Hd. rewrite app_nil_r in Hd.
    exact (Hext (NStr k) x eq_refl Hd).
  - destruct (cdata c) as [| | | | | j its | j its]; cbn [jshape] in Hd; try discriminate.
    destruct (list_get its z) as [x|e]; [|discriminate]. cbn [flat_map] in Hd. rewrite app_nil_r in Hd.
    exact (Hext (NInt z) x eq_refl Hd).
Qed.

Lemma kipath_no_parent p : kipath p = true -> no_parent p.
Proof. intros Hk Hin. unfold kipath in Hk. rewrite forallb_forall in Hk. specialize (Hk _ Hin). discriminate. Qed.

Section Pop.
Variable B H : positive.
Variable depth : nat.
Notation sev := (seval_h depth).

Theorem pop_match_position d0 doc (p : list (vertex hp)) must tr (m : jtm) doc' es :
  kipath p = true -> uniq doc -> NoDup (labels doc) ->
  pop_match B H depth (SrcDoc d0) doc p must tr = (Ok (Some m), doc', es) ->
  exists pp v y y', p = pp ++ [v] /\ lookup doc pp = Some y /\ child_at v y = Some (tdata m) /\
                    remove v y = Some y' /\ doc' = put_at doc pp y'.
Proof.
  intros Hk Hu Hnd Hpop. unfold pop_match, jget_match in Hpop.
  pose proof (get_match_spec B H depth (SrcDoc doc) p must tr I) as Hs. cbv zeta in Hs.
  destruct (sem_deval hp sev p (kipath_pure sev p Hk) (kipath_valid p Hk) 0 (pmc tr) (abs (root_match (SrcDoc doc)))) as [Hok Hres].
  unfold answer in Hs. rewrite Hres in Hs. red in Hok.
  match type of Hs with context [fst ?X] => destruct X as [rg es0] end. cbn [fst] in Hs.
  destruct rg as [[m0|]|e0]; try discriminate Hpop.
  destruct (split_last p) as [[pp v]|] eqn:Hsp; [|discriminate Hpop].
  pose proof (split_last_snoc _ _ _ Hsp) as Hp.
  destruct (leaf_pop doc m0 v) as [[u|e1] d2] eqn:Hlp; [|discriminate Hpop]. injection Hpop as <- <- _.
  (* the match found is the single result of the path *)
  destruct Hs as [(m1 & Hr & Hw & Hh) | [(Hr & _) | [(e & _ & _ & Hr) | (e & Hr & _)]]];
    [injection Hr as <- | destruct must; simpl in Hr; discriminate Hr
     | destruct e; try discriminate Hr; destruct must; simpl in Hr; discriminate Hr | discriminate Hr].
  change (abs (root_match (SrcDoc doc))) with (root_ctx doc) in *.
  destruct (deval_ki sev p (root_ctx doc) Hk) as [(c' & Hd & Hl) | (Hd & _)]; rewrite Hd in Hh; [|discriminate].
  simpl in Hh. injection Hh as Hc'. subst c'.
  assert (Hreach : reach doc (abs m0)).
  { pose proof (deval_reach sev doc Hu p (root_ctx doc) (kipath_no_parent p Hk) (reach_root doc)) as Hall.
    rewrite Forall_forall in Hall. apply Hall. rewrite Hd. left. reflexivity. }
  pose proof (deval_ki_steps sev p (root_ctx doc) (abs m0) Hk ltac:(discriminate) Hd) as Hsteps. cbn [steps_of root_ctx tl map app] in Hsteps.
  (* its forwarding parent holds the container at the parent position *)
  destruct (parent m0) as [pm|] eqn:Hpar.
  2:{ destruct (kipath_snoc pp v ltac:(rewrite <- Hp; exact Hk)) as [_ Hkv].
      destruct v; try discriminate Hkv; unfold leaf_pop in Hlp; rewrite Hpar in Hlp; discriminate Hlp. }
  destruct (parent_chain m0 pm Hw (reach_top_par doc m0 Hreach) Hpar) as [Eabs Hwpm].
  rewrite Eabs in Hreach. destruct (reach_ext_inv doc _ _ _ (abs_nonempty pm) Hreach) as [Hrpm Hc].
  destruct (reach_chain_ok doc _ Hu Hrpm) as (_ & Hlpm & _).
  rewrite (cdata_abs pm Hwpm) in Hlpm, Hc.
  rewrite Eabs, steps_ext in Hsteps by apply abs_nonempty. rewrite Hp in Hsteps.
  apply app_inj_tail in Hsteps. destruct Hsteps as [Epp Ev]. subst pp v.
  destruct (delitem_remove (data_name m0) (tdata pm) (tdata m0) Hc) as (y' & i & Hdel & Hrem & Hlab).
  assert (Hone : cnt (labels doc) i = 1).
  { pose proof (lookup_cnt _ _ _ _ Hlpm Hlab). pose proof (proj1 (NoDup_count_occ Nat.eq_dec (labels doc)) Hnd i). lia. }
  destruct (by_id_is_by_position _ doc (tdata pm) i y' Hlpm Hlab Hone) as [Hf Hrep].
  exists (steps_of (abs pm)), (vstep (data_name m0)), (tdata pm), y'.
  split; [exact Hp|]. split; [exact Hlpm|]. split; [exact Hc|]. split; [exact Hrem|].
  (* the deletion by identity is the deletion at that position *)
  unfold leaf_pop in Hlp. rewrite Hpar in Hlp.
  destruct (data_name m0) as [k|z]; cbn [vstep] in *;
    destruct (tdata pm) as [| | | | | j its | j its] eqn:Etd; cbn [child_at] in Hc; try discriminate Hc;
    unfold mutate in Hlp; cbn [label_of] in Hlp, Hlab; injection Hlab as ->; rewrite Hf, Hdel in Hlp;
    injection Hlp as _ <-; exact Hrep.
Qed.

End Pop.

(* ------------------------------------------------------------------ C14: del m.data / m.pop() at the position of m *)
Theorem match_del_delivered doc (sev : hp -> jctx -> res json * list sevent) (p : list (vertex hp)) (m pm : jtm) :
  uniq doc -> NoDup (labels doc) -> no_parent p -> wf m ->
  In (abs m) (deval hp sev p (root_ctx doc)) -> parent m = Some pm ->
  exists y', lookup doc (steps_of (abs pm)) = Some (tdata pm) /\
             explicit_path m = steps_of (abs pm) ++ [vstep (data_name m)] /\
             remove (vstep (data_name m)) (tdata pm) = Some y' /\
             match_del doc m = (Ok tt, put_at doc (steps_of (abs pm)) y').
Proof.
  intros Hu Hnd Hnp Hwf Hin Hp.
  pose proof (deval_reach sev doc Hu p (root_ctx doc) Hnp (reach_root doc)) as Hall. rewrite Forall_forall in Hall.
  pose proof (Hall _ Hin) as Hr.
  destruct (parent_chain m pm Hwf (reach_top_par doc m Hr) Hp) as [Eabs Hwpm].
  rewrite Eabs in Hr. destruct (reach_ext_inv doc _ _ _ (abs_nonempty pm) Hr) as [Hrpm Hc].
  destruct (reach_chain_ok doc _ Hu Hrpm) as (_ & Hl & _).
  rewrite (cdata_abs pm Hwpm) in Hl, Hc.
  destruct (delitem_remove (data_name m) (tdata pm) (tdata m) Hc) as (y' & i & Hdel & Hrem & Hlab).
  assert (Hone : cnt (labels doc) i = 1).
  { pose proof (lookup_cnt _ _ _ _ Hl Hlab). pose proof (proj1 (NoDup_count_occ Nat.eq_dec (labels doc)) Hnd i). lia. }
  destruct (by_id_is_by_position _ doc (tdata pm) i y' Hl Hlab Hone) as [Hf Hrep].
  exists y'. split; [exact Hl|]. split; [rewrite explicit_path_steps, Eabs, steps_ext by apply abs_nonempty; reflexivity|].
  split; [exact Hrem|].
  unfold match_del. rewrite Hp. unfold mutate. rewrite Hlab, Hf, Hdel, Hrep. reflexivity.
Qed.

(* ------------------------------------------------------------------ pop with a Match as data source *)
Section PopFrom.
Variable B H : positive.
Variable depth : nat.
Notation sev := (seval_h depth).

(* pop(p, m0): m0 a current view of the document reached by child steps; the removal happens at the position
   of m0 extended by the parent path of p *)
Theorem pop_match_position_from doc (m0 : jtm) (p : list (vertex hp)) must tr (m : jtm) doc' es :
  kipath p = true -> uniq doc -> NoDup (labels doc) -> wf m0 -> reach doc (abs m0) ->
  pop_match B H depth (SrcMatch m0) doc p must tr = (Ok (Some m), doc', es) ->
  exists pp v y y', p = pp ++ [v] /\ lookup doc (steps_of (abs m0) ++ pp) = Some y /\ child_at v y = Some (tdata m) /\
                    remove v y = Some y' /\ doc' = put_at doc (steps_of (abs m0) ++ pp) y'.
Proof.
  intros Hk Hu Hnd Hw0 Hr0 Hpop. unfold pop_match, jget_match in Hpop.
  pose proof (get_match_spec B H depth (SrcMatch m0) p must tr Hw0) as Hs. cbv zeta in Hs.
  destruct (sem_deval hp sev p (kipath_pure sev p Hk) (kipath_valid p Hk) 0 (pmc tr) (abs (root_match (SrcMatch m0)))) as [Hok Hres].
  unfold answer in Hs. rewrite Hres in Hs. red in Hok.
  match type of Hs with context [fst ?X] => destruct X as [rg es0] end. cbn [fst] in Hs.
  destruct rg as [[m1|]|e0]; try discriminate Hpop.
  destruct (split_last p) as [[pp v]|] eqn:Hsp; [|discriminate Hpop].
  pose proof (split_last_snoc _ _ _ Hsp) as Hp.
  destruct (leaf_pop doc m1 v) as [[u|e1] d2] eqn:Hlp; [|discriminate Hpop]. injection Hpop as <- <- _.
  destruct Hs as [(m2 & Hr & Hw & Hh) | [(Hr & _) | [(e & _ & _ & Hr) | (e & Hr & _)]]];
    [injection Hr as <- | destruct must; simpl in Hr; discriminate Hr
     | destruct e; try discriminate Hr; destruct must; simpl in Hr; discriminate Hr | discriminate Hr].
  change (abs (root_match (SrcMatch m0))) with (abs m0) in *.
  destruct (deval_ki sev p (abs m0) Hk) as [(c' & Hd & Hl) | (Hd & _)]; rewrite Hd in Hh; [|discriminate].
  simpl in Hh. injection Hh as Hc'. subst c'.
  assert (Hreach : reach doc (abs m1)).
  { pose proof (deval_reach sev doc Hu p (abs m0) (kipath_no_parent p Hk) Hr0) as Hall.
    rewrite Forall_forall in Hall. apply Hall. rewrite Hd. left. reflexivity. }
  pose proof (deval_ki_steps sev p (abs m0) (abs m1) Hk (abs_nonempty m0) Hd) as Hsteps.
  destruct (parent m1) as [pm|] eqn:Hpar.
  2:{ destruct (kipath_snoc pp v ltac:(rewrite <- Hp; exact Hk)) as [_ Hkv].
      destruct v; try discriminate Hkv; unfold leaf_pop in Hlp; rewrite Hpar in Hlp; discriminate Hlp. }
  destruct (parent_chain m1 pm Hw (reach_top_par doc m1 Hreach) Hpar) as [Eabs Hwpm].
  rewrite Eabs in Hreach. destruct (reach_ext_inv doc _ _ _ (abs_nonempty pm) Hreach) as [Hrpm Hc].
  destruct (reach_chain_ok doc _ Hu Hrpm) as (_ & Hlpm & _).
  rewrite (cdata_abs pm Hwpm) in Hlpm, Hc.
  rewrite Eabs, steps_ext in Hsteps by apply abs_nonempty. rewrite Hp, app_assoc in Hsteps.
  apply app_inj_tail in Hsteps. destruct Hsteps as [Epp Ev]. subst v.
  destruct (delitem_remove (data_name m1) (tdata pm) (tdata m1) Hc) as (y' & i & Hdel & Hrem & Hlab).
  assert (Hone : cnt (labels doc) i = 1).
  { pose proof (lookup_cnt _ _ _ _ Hlpm Hlab). pose proof (proj1 (NoDup_count_occ Nat.eq_dec (labels doc)) Hnd i). lia. }
  destruct (by_id_is_by_position _ doc (tdata pm) i y' Hlpm Hlab Hone) as [Hf Hrep].
  exists pp, (vstep (data_name m1)), (tdata pm), y'. rewrite <- Epp.
  split; [exact Hp|]. split; [exact Hlpm|]. split; [exact Hc|]. split; [exact Hrem|].
  unfold leaf_pop in Hlp. rewrite Hpar in Hlp.
  destruct (data_name m1) as [k|z]; cbn [vstep] in *;
    destruct (tdata pm) as [| | | | | j its | j its] eqn:Etd; cbn [child_at] in Hc; try discriminate Hc;
    unfold mutate in Hlp; cbn [label_of] in Hlp, Hlab; injection Hlab as ->; rewrite Hf, Hdel in Hlp;
    injection Hlp as _ <-; exact Hrep.
Qed.

End PopFrom.
