(* SpecWork.v -- two facts about the event stream of the specification alone.
   (1) C20: the number of match attempts (trace events) of a query is bounded by twice the number of
       node/step examinations its declarative definition requires (`exams`), filters included.
   (2) C17: outside filter evaluation, the successful attempts of the path's last step are, one-to-one and in
       order, the results; every successful attempt leads from last_match to a node the attempted step
       selects; events of filter evaluations are stamped with a candidate and carry no results. *)
From Coq Require Import List ZArith String Bool Lia.
From TP Require Import Json PyPrim Machine Api Spec SpecHas.
From TP.proofs Require Import RefineBase Refine NextLayer Iterate WfRun Query SpecLemmas.
Import ListNotations.
Close Scope Z_scope.
Open Scope list_scope.

(* ------------------------------------------------------------------ counting attempts *)
Definition ntr (es : list sevent) : nat := List.length (filter is_trace es).
Arguments ntr !es /.

Lemma ntr_app a b : ntr (a ++ b) = ntr a + ntr b.
Proof. unfold ntr. rewrite filter_app, app_length. reflexivity. Qed.

Lemma ntr_rseq a b : ntr (fst (rseq a b)) <= ntr (fst a) + ntr (fst b).
Proof. unfold rseq. destruct (snd a); cbn [fst]; [lia | rewrite ntr_app; lia]. Qed.

Lemma ntr_trace_rseq l n vi pm X : ntr (fst (rseq (rev1 (STrace l n vi pm)) X)) = S (ntr (fst X)).
Proof. reflexivity. Qed.
Lemma ntr_rev1_trace l n vi pm : ntr (fst (rev1 (STrace l n vi pm))) = 1.
Proof. reflexivity. Qed.
Lemma ntr_rev1_result c : ntr (fst (rev1 (SResult c))) = 0.
Proof. reflexivity. Qed.

Lemma ntr_rconcat l : ntr (fst (rconcat l)) <= list_sum (map (fun a => ntr (fst a)) l).
Proof.
  induction l as [|a l IH]; [simpl; lia|]. cbn [rconcat map list_sum fold_right].
  pose proof (ntr_rseq a (rconcat l)). unfold list_sum in IH. lia.
Qed.

Lemma ntr_proj b es : ntr (proj b es) <= ntr es.
Proof.
  destruct b; [simpl; lia|]. unfold proj, ntr.
  induction es as [|e es IH]; [simpl; lia|]. destruct e; simpl; lia.
Qed.

Lemma list_sum_le {A} (f g : A -> nat) l :
  (forall a, In a l -> f a <= g a) -> list_sum (map f l) <= list_sum (map g l).
Proof.
  induction l as [|a l IH]; intros H; [simpl; lia|]. simpl.
  pose proof (H a (or_introl eq_refl)). pose proof (IH (fun x Hx => H x (or_intror Hx))). lia.
Qed.

Section Work.
Variable P : Type.
Variable sev : P -> jctx -> res json * list sevent.
(* examinations the evaluation of a filter at a candidate requires (0 for a user callable) *)
Variable pw : P -> jctx -> nat.

Notation sem := (sem P sev).
Notation select := (select P sev).

(* the number of (node, remaining path) evaluations the declarative definition of the path requires:
   one per application of a step to a context, one per node visited by a recursive step, plus what the
   filters themselves require *)
Fixpoint exams (rest : list (vertex P)) (c : jctx) : nat :=
  match rest with
  | [] => 1
  | VRec :: r =>
      if is_container c
      then 1 + exams r c +
           list_sum (map (fun c' => if is_container c' then 1 + exams r c' else 1) (below c (cdata c)))
      else 1
  | VPred p :: r => 1 + pw p c + list_sum (map (exams r) (select (VPred p) c))
  | v :: r => 1 + list_sum (map (exams r) (select v c))
  end.

Lemma exams_pos rest c : 1 <= exams rest c.
Proof. destruct rest as [|v r]; [simpl; lia|]. destruct v; simpl; try lia. destruct (is_container c); lia. Qed.

Definition pw_ok (rest : list (vertex P)) : Prop :=
  forall p c, In (VPred p) rest -> ntr (snd (sev p c)) <= 2 * pw p c.

(* the walk below a container: every member costs one attempt (two for a scalar that is re-examined) *)
Lemma rec_children_work i pm semr leaf (E : jctx -> nat) :
  (forall c', ntr (fst (semr c')) + 1 <= 2 * E c') ->
  forall d c,
    ntr (fst (rec_children i pm semr leaf c d)) + (match members d with Some _ => 0 | None => 1 end) <=
    1 + 2 * list_sum (map (fun c' => if is_container c' then 1 + E c' else 1) (below c d)).
Proof.
  intros Hsemr.
  assert (Hloop : forall its c,
    (forall ix, In ix its -> forall c0,
       ntr (fst (rec_children i pm semr leaf c0 (snd ix))) + (match members (snd ix) with Some _ => 0 | None => 1 end) <=
       1 + 2 * list_sum (map (fun c' => if is_container c' then 1 + E c' else 1) (below c0 (snd ix)))) ->
    ntr (fst (rconcat (map (rec_child i pm semr leaf c) its))) <=
    2 * list_sum (map (fun c' => if is_container c' then 1 + E c' else 1)
                      (flat_map (fun ix => ext c (fst ix) (snd ix) :: below (ext c (fst ix) (snd ix)) (snd ix)) its))).
  { induction its as [|[nm x] its IHits]; intros c Hkids; [simpl; lia|].
    pose proof (Hkids (nm, x) (or_introl eq_refl) (ext c nm x)) as Hx. cbn [fst snd] in Hx.
    pose proof (IHits c (fun ix Hin => Hkids ix (or_intror Hin))) as Hr.
    cbn [map rconcat flat_map fst snd]. rewrite map_app, list_sum_app. cbn [map list_sum fold_right].
    pose proof (ntr_rseq (rec_child i pm semr leaf c (nm, x)) (rconcat (map (rec_child i pm semr leaf c) its))) as H1.
    assert (Hc : ntr (fst (rec_child i pm semr leaf c (nm, x))) <=
                 2 * ((if is_container (ext c nm x) then 1 + E (ext c nm x) else 1) +
                      list_sum (map (fun c' => if is_container c' then 1 + E c' else 1) (below (ext c nm x) x)))).
    { unfold rec_child. cbn [fst snd].
      replace (is_container (ext c nm x)) with (match members x with Some _ => true | None => false end)
        by (unfold is_container; rewrite cdata_ext; reflexivity).
      destruct (members x) as [its'|] eqn:Hmx.
      - rewrite ntr_trace_rseq.
        pose proof (ntr_rseq (semr (ext c nm x)) (rec_children i pm semr leaf (ext c nm x) x)) as H3.
        pose proof (Hsemr (ext c nm x)) as H4. unfold list_sum in *. lia.
      - rewrite (below_scalar _ _ Hmx), ntr_trace_rseq.
        destruct leaf; [rewrite ntr_rev1_result | rewrite ntr_rev1_trace]; cbn [map list_sum fold_right]; lia. }
    unfold list_sum in *. lia. }
  induction d as [| b | z0 | h | str | id l IHl | id l IHl] using json_ind'; intros c;
    try (simpl; lia).
  - assert (Hm : members (JList id l) = Some (list_iter l)) by reflexivity.
    rewrite Hm, (rec_children_unfold _ _ _ _ _ _ _ Hm), (below_unfold _ _ _ Hm).
    pose proof (ntr_rseq (rconcat (map (rec_child i pm semr leaf c) (list_iter l))) (rev1 (STrace c None i pm))) as H1.
    assert (H2 := Hloop (list_iter l) c). rewrite ntr_rev1_trace in H1.
    assert (H3 : forall ix, In ix (list_iter l) -> forall c0,
       ntr (fst (rec_children i pm semr leaf c0 (snd ix))) + (match members (snd ix) with Some _ => 0 | None => 1 end) <=
       1 + 2 * list_sum (map (fun c' => if is_container c' then 1 + E c' else 1) (below c0 (snd ix)))).
    { intros [nm x] Hin. simpl. rewrite Forall_forall in IHl. apply IHl. eapply members_in_list; eauto. }
    specialize (H2 H3). lia.
  - assert (Hm : members (JDict id l) = Some (dict_iter l)) by reflexivity.
    rewrite Hm, (rec_children_unfold _ _ _ _ _ _ _ Hm), (below_unfold _ _ _ Hm).
    pose proof (ntr_rseq (rconcat (map (rec_child i pm semr leaf c) (dict_iter l))) (rev1 (STrace c None i pm))) as H1.
    assert (H2 := Hloop (dict_iter l) c). rewrite ntr_rev1_trace in H1.
    assert (H3 : forall ix, In ix (dict_iter l) -> forall c0,
       ntr (fst (rec_children i pm semr leaf c0 (snd ix))) + (match members (snd ix) with Some _ => 0 | None => 1 end) <=
       1 + 2 * list_sum (map (fun c' => if is_container c' then 1 + E c' else 1) (below c0 (snd ix)))).
    { intros [nm x] Hin. simpl. rewrite Forall_forall in IHl. destruct nm as [k|z1].
      - apply (IHl (k, x)). apply members_in_dict; exact Hin.
      - exfalso. unfold dict_iter in Hin. rewrite in_map_iff in Hin. destruct Hin as (? & E0 & _). discriminate. }
    specialize (H2 H3). lia.
Qed.

(* the items of a wildcard / slice / comma step: one attempt each, one closing attempt *)
Lemma items_work i r pm c (its : list (name * json)) :
  (forall c', ntr (fst (sem (S i) r pm c')) + 1 <= 2 * exams r c') ->
  ntr (fst (rseq (rconcat (map (fun ix => rseq (rev1 (STrace c (Some (ext c (fst ix) (snd ix))) (S i) pm))
                                              (sem (S i) r pm (ext c (fst ix) (snd ix)))) its))
                 (rev1 (STrace c None (S i) pm)))) + 1 <=
  2 * (1 + list_sum (map (exams r) (map (fun ix => ext c (fst ix) (snd ix)) its))).
Proof.
  intros IH.
  pose proof (ntr_rseq (rconcat (map (fun ix => rseq (rev1 (STrace c (Some (ext c (fst ix) (snd ix))) (S i) pm))
                                              (sem (S i) r pm (ext c (fst ix) (snd ix)))) its))
                       (rev1 (STrace c None (S i) pm))) as H1.
  pose proof (ntr_rconcat (map (fun ix => rseq (rev1 (STrace c (Some (ext c (fst ix) (snd ix))) (S i) pm))
                                              (sem (S i) r pm (ext c (fst ix) (snd ix)))) its)) as H2.
  rewrite !map_map in *. rewrite ntr_rev1_trace in H1.
  assert (H3 : list_sum (map (fun x => ntr (fst (rseq (rev1 (STrace c (Some (ext c (fst x) (snd x))) (S i) pm))
                                              (sem (S i) r pm (ext c (fst x) (snd x)))))) its) <=
               list_sum (map (fun x => 2 * exams r (ext c (fst x) (snd x))) its)).
  { apply list_sum_le. intros ix _.
    rewrite ntr_trace_rseq. pose proof (IH (ext c (fst ix) (snd ix))). lia. }
  assert (H5 : list_sum (map (fun x => 2 * exams r (ext c (fst x) (snd x))) its) =
               2 * list_sum (map (fun x => exams r (ext c (fst x) (snd x))) its)).
  { clear. induction its as [|a l IH]; [reflexivity|]. cbn [map list_sum fold_right]. unfold list_sum in *. lia. }
  lia.
Qed.

(* C20: attempts <= 2 x examinations (whatever exceptions cut the stream short) *)
Theorem attempts_bound :
  forall rest, pw_ok rest -> forall i pm c, ntr (fst (sem i rest pm c)) + 1 <= 2 * exams rest c.
Proof.
  induction rest as [|v r IH]; intros Hpw i pm c; [simpl; lia|].
  specialize (IH (fun p c Hin => Hpw p c (or_intror Hin))).
  assert (Hgo : forall c', ntr (fst (rseq (rev1 (STrace c (Some c') (S i) pm)) (sem (S i) r pm c'))) <= 2 * exams r c').
  { intros c'. rewrite ntr_trace_rseq. pose proof (IH (S i) pm c'). lia. }
  assert (Hitems : forall v', (match v' with VKey _ | VIdx _ | VParent | VPred _ | VRec => False | _ => True end) ->
     ntr (fst (match items_for jshape P v' (cdata c) with
               | Ok (Some its) => rseq (rconcat (map (fun ix => rseq (rev1 (STrace c (Some (ext c (fst ix) (snd ix))) (S i) pm))
                                              (sem (S i) r pm (ext c (fst ix) (snd ix)))) its)) (rev1 (STrace c None (S i) pm))
               | Ok None => rev1 (STrace c None (S i) pm)
               | Exn e => ([], Some e)
               end)) + 1 <=
     2 * (1 + list_sum (map (exams r) (match items_for jshape P v' (cdata c) with
                                       | Ok (Some its) => map (fun ix => ext c (fst ix) (snd ix)) its
                                       | _ => []
                                       end)))).
  { intros v' _. destruct (items_for jshape P v' (cdata c)) as [[its|]|e]; [|simpl; lia|simpl; lia].
    apply items_work. intros c'. apply IH. }
  destruct v as [k | z | a b c0 | l | | | dot | | | p]; cbn [Spec.sem exams];
    try (unfold SpecLemmas.select; apply Hitems; exact I).
  - (* key *) unfold SpecLemmas.select. destruct (jshape (cdata c)) as [its|its|]; [destruct (assoc k its) as [x|]| |];
      cbn [map list_sum fold_right]; try (simpl; lia). pose proof (Hgo (ext c (NStr k) x)). lia.
  - (* index *) unfold SpecLemmas.select. destruct (jshape (cdata c)) as [its|its|]; [|destruct (list_get its z) as [x|e]|];
      cbn [map list_sum fold_right]; try (simpl; lia). pose proof (Hgo (ext c (NInt z) x)). lia.
  - (* recursive descent *)
    assert (Hic : is_container c = match members (cdata c) with Some _ => true | None => false end) by reflexivity.
    rewrite Hic. clear Hic. destruct (members (cdata c)) as [its|] eqn:Hm; [|simpl; lia].
    pose proof (ntr_rseq (rseq (rev1 (STrace c (Some c) (S i) pm)) (sem (S i) r pm c))
                         (rec_children (S i) pm (sem (S i) r pm) (match r with [] => true | _ :: _ => false end) c (cdata c))) as H1.
    pose proof (rec_children_work (S i) pm (sem (S i) r pm) (match r with [] => true | _ :: _ => false end) (exams r)
                  (fun c' => IH (S i) pm c') (cdata c) c) as H2.
    rewrite Hm in H2. pose proof (Hgo c).
    lia.
  - (* parent *) unfold SpecLemmas.select. destruct (ext_parent c) as [c'|]; cbn [map list_sum fold_right]; try (simpl; lia).
    pose proof (Hgo c'). lia.
  - (* filter *)
    unfold SpecLemmas.select. pose proof (Hpw p c (or_introl eq_refl)) as Hp.
    destruct (sev p c) as [o es]. cbn [fst snd] in *. destruct o as [val|e]; [|simpl; lia].
    pose proof (ntr_rseq (es, None) (if truthy val then rseq (rev1 (STrace c (Some c) (S i) pm)) (sem (S i) r pm c)
                                     else rev1 (STrace c None (S i) pm))) as H1. cbn [fst] in H1.
    destruct (truthy val); cbn [map list_sum fold_right].
    + pose proof (Hgo c). lia.
    + rewrite ntr_rev1_trace in H1. lia.
Qed.

End Work.

(* ------------------------------------------------------------------ the has family: its own work *)
Fixpoint hwork (n : nat) (h : jpred) (c : jctx) {struct n} : nat :=
  match n with
  | O => 0
  | S n' =>
      match h with
      | HUser _ _ => 0
      | HHas p _ _ => exams jpred (seval_h n') (hwork n') p c
      | HGetMatch p _ => exams jpred (seval_h n') (hwork n') p c
      | HNot h' => hwork n' h' c
      | HAll l => list_sum (map (fun h' => hwork n' h' c) l)
      | HAny l => list_sum (map (fun h' => hwork n' h' c) l)
      end
  end.

Lemma sapply_fns_ntr fs v : ntr (snd (sapply_fns fs v)) = 0.
Proof.
  revert v. induction fs as [|[tag f] fs IH]; intros v; [reflexivity|]. cbn [sapply_fns].
  destruct (f v) as [v'|e]; [|reflexivity]. specialize (IH v'). destruct (sapply_fns fs v') as [o es].
  cbn [snd] in *. unfold ntr in *. simpl. exact IH.
Qed.

Lemma shas_test_ntr op fs x : ntr (snd (shas_test op fs x)) = 0.
Proof.
  unfold shas_test. pose proof (sapply_fns_ntr (rev fs) x) as H.
  destruct (sapply_fns (rev fs) x) as [r es]. cbn [snd] in H.
  destruct op as [[o c]|]; destruct fs as [|f fs]; try reflexivity;
    destruct r as [v|e]; cbn [snd]; try exact H; try (destruct (py_cmp o v c); exact H).
Qed.

Lemma shas_scan_ntr test es ex :
  (forall x, ntr (snd (test x)) = 0) -> ntr (snd (shas_scan test es ex)) <= ntr es.
Proof.
  intros Ht. induction es as [|e es IH]; [simpl; lia|].
  destruct e as [l nx vi pm | tag c | tag arg | c]; cbn [shas_scan].
  - destruct (shas_scan test es ex) as [o es']. cbn [snd] in *. unfold ntr in *. simpl. lia.
  - destruct (shas_scan test es ex) as [o es']. cbn [snd] in *. unfold ntr in *. simpl. lia.
  - destruct (shas_scan test es ex) as [o es']. cbn [snd] in *. unfold ntr in *. simpl. lia.
  - pose proof (Ht (cdata c)) as Hc. destruct (test (cdata c)) as [t tes]. cbn [snd] in Hc.
    destruct t as [[|]|e0]; cbn [snd].
    + change (ntr (SResult c :: es)) with (ntr es). lia.
    + destruct (shas_scan test es ex) as [o es']. cbn [snd] in *. rewrite ntr_app.
      change (ntr (SResult c :: es)) with (ntr es). lia.
    + change (ntr (SResult c :: es)) with (ntr es). lia.
Qed.

Lemma sgetmatch_ntr must es ex : ntr (snd (sgetmatch must es ex)) <= ntr es.
Proof.
  induction es as [|e es IH]; [destruct ex as [[]|]; simpl; destruct must; simpl; lia|].
  destruct e as [l nx vi pm | tag c | tag arg | c]; cbn [sgetmatch];
    try (destruct (sgetmatch must es ex) as [o es']; cbn [snd] in *; unfold ntr in *; simpl; lia).
Qed.

(* every filter of the has family costs at most twice the examinations of its own nested searches *)
Theorem hwork_ok : forall n h c, ntr (snd (seval_h n h c)) <= 2 * hwork n h c.
Proof.
  induction n as [|n IH]; intros h c; [simpl; lia|].
  destruct h as [tag f | p op fs | l | l | h' | p must]; cbn [seval_h hwork].
  - simpl. lia.
  - pose proof (attempts_bound jpred (seval_h n) (hwork n) p (fun q c' _ => IH q c') 0 (Some c) c) as Hb.
    pose proof (shas_scan_ntr (shas_test op fs) (fst (sem jpred (seval_h n) 0 p (Some c) c))
                              (snd (sem jpred (seval_h n) 0 p (Some c) c)) (shas_test_ntr op fs)). lia.
  - induction l as [|h' l IHl]; [simpl; lia|]. cbn [map list_sum fold_right].
    pose proof (IH h' c) as Hh. destruct (seval_h n h' c) as [[v|e] es]; cbn [snd] in *; [|unfold list_sum; lia].
    destruct (truthy v); [|cbn [snd]; unfold list_sum; lia].
    match goal with |- context [match ?X with pair _ _ => _ end] => destruct X as [o es'] end.
    cbn [snd] in *. rewrite ntr_app. unfold list_sum in *. lia.
  - induction l as [|h' l IHl]; [simpl; lia|]. cbn [map list_sum fold_right].
    pose proof (IH h' c) as Hh. destruct (seval_h n h' c) as [[v|e] es]; cbn [snd] in *; [|unfold list_sum; lia].
    destruct (truthy v); [cbn [snd]; unfold list_sum; lia|].
    match goal with |- context [match ?X with pair _ _ => _ end] => destruct X as [o es'] end.
    cbn [snd] in *. rewrite ntr_app. unfold list_sum in *. lia.
  - pose proof (IH h' c) as Hh. destruct (seval_h n h' c) as [[v|e] es]; exact Hh.
  - pose proof (attempts_bound jpred (seval_h n) (hwork n) p (fun q c' _ => IH q c') 0 (Some c) c) as Hb.
    pose proof (sgetmatch_ntr must (fst (sem jpred (seval_h n) 0 p (Some c) c))
                              (snd (sem jpred (seval_h n) 0 p (Some c) c))). lia.
Qed.

(* ------------------------------------------------------------------ generic: a property of every event *)
Lemma Forall_rseq (Q : sevent -> Prop) a b : Forall Q (fst a) -> Forall Q (fst b) -> Forall Q (fst (rseq a b)).
Proof. intros Ha Hb. unfold rseq. destruct (snd a); cbn [fst]; [exact Ha | apply Forall_app; split; assumption]. Qed.

Lemma Forall_rconcat (Q : sevent -> Prop) l : Forall (fun a => Forall Q (fst a)) l -> Forall Q (fst (rconcat l)).
Proof. induction 1 as [|a l Ha Hl IH]; [constructor|]. cbn [rconcat]. apply Forall_rseq; assumption. Qed.

Section Events.
Variable P : Type.
Variable sev : P -> jctx -> res json * list sevent.
Notation sem := (sem P sev).
Variable Q : sevent -> Prop.

Lemma rec_children_events i pm semr leaf :
  (forall c', Forall Q (fst (semr c'))) ->
  (forall l n, Q (STrace l n i pm)) -> (forall c, Q (SResult c)) ->
  forall d c, Forall Q (fst (rec_children i pm semr leaf c d)).
Proof.
  intros Hsemr Ht Hr.
  assert (Hloop : forall its c,
    (forall ix, In ix its -> forall c0, Forall Q (fst (rec_children i pm semr leaf c0 (snd ix)))) ->
    Forall Q (fst (rconcat (map (rec_child i pm semr leaf c) its)))).
  { intros its c Hkids. apply Forall_rconcat. rewrite Forall_map, Forall_forall. intros [nm x] Hin.
    unfold rec_child. cbn [fst snd]. apply Forall_rseq; [repeat constructor; apply Ht|].
    destruct (members x).
    - apply Forall_rseq; [apply Hsemr | apply (Hkids (nm, x) Hin)].
    - destruct leaf; repeat constructor; [apply Hr | apply Ht]. }
  induction d as [| b | z0 | h | str | id l IHl | id l IHl] using json_ind'; intros c; try constructor.
  - assert (Hm : members (JList id l) = Some (list_iter l)) by reflexivity.
    rewrite (rec_children_unfold _ _ _ _ _ _ _ Hm). apply Forall_rseq; [|repeat constructor; apply Ht].
    apply Hloop. intros [nm x] Hin. simpl. rewrite Forall_forall in IHl. apply IHl. eapply members_in_list; eauto.
  - assert (Hm : members (JDict id l) = Some (dict_iter l)) by reflexivity.
    rewrite (rec_children_unfold _ _ _ _ _ _ _ Hm). apply Forall_rseq; [|repeat constructor; apply Ht].
    apply Hloop. intros [nm x] Hin. simpl. rewrite Forall_forall in IHl. destruct nm as [k|z1].
    + apply (IHl (k, x)). apply members_in_dict; exact Hin.
    + exfalso. unfold dict_iter in Hin. rewrite in_map_iff in Hin. destruct Hin as (? & E0 & _). discriminate.
Qed.

(* whatever holds of the events of the filters, of every attempt stamped pm and of every result holds of the
   whole stream *)
Theorem sem_events :
  forall rest pm,
    (forall p c, In (VPred p) rest -> Forall Q (snd (sev p c))) ->
    (forall l n vi, Q (STrace l n vi pm)) -> (forall c, Q (SResult c)) ->
    forall i c, Forall Q (fst (sem i rest pm c)).
Proof.
  induction rest as [|v r IH]; intros pm Hp Ht Hr i c; [repeat constructor; apply Hr|].
  specialize (IH pm (fun p c Hin => Hp p c (or_intror Hin)) Ht Hr).
  assert (Hgo : forall c', Forall Q (fst (rseq (rev1 (STrace c (Some c') (S i) pm)) (sem (S i) r pm c')))).
  { intros c'. apply Forall_rseq; [repeat constructor; apply Ht | apply IH]. }
  assert (Hnone : Forall Q (fst (rev1 (STrace c None (S i) pm)))) by (repeat constructor; apply Ht).
  assert (Hitems : forall v',
     Forall Q (fst (match items_for jshape P v' (cdata c) with
               | Ok (Some its) => rseq (rconcat (map (fun ix => rseq (rev1 (STrace c (Some (ext c (fst ix) (snd ix))) (S i) pm))
                                              (sem (S i) r pm (ext c (fst ix) (snd ix)))) its)) (rev1 (STrace c None (S i) pm))
               | Ok None => rev1 (STrace c None (S i) pm)
               | Exn e => ([], Some e)
               end))).
  { intros v'. destruct (items_for jshape P v' (cdata c)) as [[its|]|e]; [|exact Hnone|constructor].
    apply Forall_rseq; [|exact Hnone]. apply Forall_rconcat. rewrite Forall_map, Forall_forall. intros ix _. apply Hgo. }
  destruct v as [k | z | a b c0 | l | | | dot | | | p]; cbn [Spec.sem]; try apply Hitems.
  - destruct (jshape (cdata c)) as [its|its|]; [destruct (assoc k its)| |]; first [apply Hgo | exact Hnone].
  - destruct (jshape (cdata c)) as [its|its|]; [|destruct (list_get its z)|]; first [apply Hgo | exact Hnone].
  - destruct (members (cdata c)); [|exact Hnone]. apply Forall_rseq; [apply Hgo|].
    apply rec_children_events; [intros c'; apply IH | intros; apply Ht | exact Hr].
  - destruct (ext_parent c); first [apply Hgo | exact Hnone].
  - pose proof (Hp p c (or_introl eq_refl)) as Hpc. destruct (sev p c) as [[val|e] es]; cbn [snd] in Hpc; [|exact Hpc].
    apply (Forall_rseq Q (es, None)); [exact Hpc|]. destruct (truthy val); [apply Hgo | exact Hnone].
Qed.

End Events.

(* ------------------------------------------------------------------ C17: events of filter evaluations *)
(* an event of a filter evaluation: stamped with a candidate, never a result of the enclosing search *)
Definition stamped_ev (e : sevent) : Prop :=
  match e with STrace _ _ _ None => False | SResult _ => False | _ => True end.
Definition stamped (es : list sevent) : Prop := Forall stamped_ev es.

(* what the nested search of a filter at a candidate produces: attempts stamped with that candidate, results
   (consumed by the filter), and events of filters nested deeper *)
Definition inner_ev (e : sevent) : Prop :=
  match e with STrace _ _ _ None => False | _ => True end.

Lemma sapply_fns_stamped fs v : stamped (snd (sapply_fns fs v)).
Proof.
  revert v. induction fs as [|[tag f] fs IH]; intros v; [constructor|]. cbn [sapply_fns].
  destruct (f v) as [v'|e]; [|repeat constructor]. specialize (IH v'). destruct (sapply_fns fs v') as [o es].
  cbn [snd] in *. constructor; [exact I | exact IH].
Qed.

Lemma shas_test_stamped op fs x : stamped (snd (shas_test op fs x)).
Proof.
  unfold shas_test. pose proof (sapply_fns_stamped (rev fs) x) as H.
  destruct (sapply_fns (rev fs) x) as [r es]. cbn [snd] in H.
  destruct op as [[o c]|]; destruct fs as [|f fs]; try constructor;
    destruct r as [v|e]; cbn [snd]; try exact H; try (destruct (py_cmp o v c); exact H).
Qed.

Lemma shas_scan_stamped test es ex :
  (forall x, stamped (snd (test x))) -> Forall inner_ev es -> stamped (snd (shas_scan test es ex)).
Proof.
  intros Ht. induction es as [|e es IH]; intros Hes; [constructor|].
  inversion Hes as [|e' es' He Hes']; subst. specialize (IH Hes').
  destruct e as [l nx vi pm | tag c | tag arg | c]; cbn [shas_scan].
  - destruct (shas_scan test es ex) as [o es']. cbn [snd] in *. constructor; [|exact IH].
    destruct pm; [exact I | exact He].
  - destruct (shas_scan test es ex) as [o es']. cbn [snd] in *. constructor; [exact I | exact IH].
  - destruct (shas_scan test es ex) as [o es']. cbn [snd] in *. constructor; [exact I | exact IH].
  - pose proof (Ht (cdata c)) as Hc. destruct (test (cdata c)) as [t tes]. cbn [snd] in Hc.
    destruct t as [[|]|e0]; cbn [snd]; try exact Hc.
    destruct (shas_scan test es ex) as [o es']. cbn [snd] in *. apply Forall_app. split; assumption.
Qed.

Lemma sgetmatch_stamped must es ex : Forall inner_ev es -> stamped (snd (sgetmatch must es ex)).
Proof.
  induction es as [|e es IH]; intros Hes; [destruct ex as [[]|]; simpl; destruct must; constructor|].
  inversion Hes as [|e' es' He Hes']; subst. specialize (IH Hes').
  destruct e as [l nx vi pm | tag c | tag arg | c]; cbn [sgetmatch]; try constructor;
    destruct (sgetmatch must es ex) as [o es']; cbn [snd] in *; constructor; try exact IH; try exact I.
  destruct pm; [exact I | exact He].
Qed.

Lemma stamped_inner es : stamped es -> Forall inner_ev es.
Proof. apply Forall_impl. intros [l n vi [pm|] | | | ]; simpl; tauto. Qed.

(* the events of every has-family filter are stamped (the candidate under test or a deeper one) *)
Theorem seval_h_stamped : forall n h c, stamped (snd (seval_h n h c)).
Proof.
  induction n as [|n IH]; intros h c; [constructor|].
  assert (Hsem : forall p, Forall inner_ev (fst (sem jpred (seval_h n) 0 p (Some c) c))).
  { intros p. apply sem_events; [intros q c' _; apply stamped_inner; apply IH | intros; exact I | intros; exact I]. }
  destruct h as [tag f | p op fs | l | l | h' | p must]; cbn [seval_h].
  - repeat constructor.
  - apply shas_scan_stamped; [apply shas_test_stamped | apply Hsem].
  - induction l as [|h' l IHl]; [constructor|].
    pose proof (IH h' c) as Hh. destruct (seval_h n h' c) as [[v|e] es]; cbn [snd] in *; [|exact Hh].
    destruct (truthy v); [|exact Hh].
    match goal with |- context [match ?X with pair _ _ => _ end] => destruct X as [o es'] end.
    cbn [snd] in *. apply Forall_app. split; assumption.
  - induction l as [|h' l IHl]; [constructor|].
    pose proof (IH h' c) as Hh. destruct (seval_h n h' c) as [[v|e] es]; cbn [snd] in *; [|exact Hh].
    destruct (truthy v); [exact Hh|].
    match goal with |- context [match ?X with pair _ _ => _ end] => destruct X as [o es'] end.
    cbn [snd] in *. apply Forall_app. split; assumption.
  - pose proof (IH h' c) as Hh. destruct (seval_h n h' c) as [[v|e] es]; exact Hh.
  - apply sgetmatch_stamped. apply Hsem.
Qed.

(* the attempts a has(p) filter makes at candidate c for a filter-free p all carry c as predicate_match *)
Definition stamped_with (c : jctx) (e : sevent) : Prop :=
  match e with STrace _ _ _ pm => pm = Some c | _ => True end.

Theorem has_events_carry_candidate :
  forall n (p : list (vertex jpred)) c,
    (forall q, ~ In (VPred q) p) ->
    Forall (stamped_with c) (fst (sem jpred (seval_h n) 0 p (Some c) c)).
Proof.
  intros n p c Hnp. apply sem_events; [intros q c' Hin; elim (Hnp q Hin) | intros; reflexivity | intros; exact I].
Qed.

(* ------------------------------------------------------------------ C17: successful last-step attempts = results *)
Definition last_success (n : nat) (e : sevent) : list jctx :=
  match e with STrace _ (Some c') vi None => if Nat.eqb vi n then [c'] else [] | _ => [] end.
Definition lsucc (n : nat) (es : list sevent) : list jctx := flat_map (last_success n) es.

Lemma lsucc_app n a b : lsucc n (a ++ b) = lsucc n a ++ lsucc n b.
Proof. apply flat_map_app. Qed.

Lemma stamped_silent n es : stamped es -> lsucc n es = [] /\ sresults es = [].
Proof.
  induction 1 as [|e es He Hes [IH1 IH2]]; [split; reflexivity|].
  destruct e as [l nx vi [pm|] | tag c | tag arg | c]; simpl in He; try contradiction;
    unfold lsucc, sresults in *; simpl; rewrite ?IH1, ?IH2; try (destruct nx); split; reflexivity.
Qed.

Definition bal (n : nat) (X : rs) : Prop := lsucc n (fst X) = sresults (fst X).

Lemma bal_rseq n a b : bal n a -> bal n b -> bal n (rseq a b).
Proof.
  unfold bal, rseq. intros Ha Hb. destruct (snd a); cbn [fst]; [exact Ha|].
  rewrite lsucc_app, sresults_app, Ha, Hb. reflexivity.
Qed.

Lemma bal_rconcat n l : Forall (bal n) l -> bal n (rconcat l).
Proof. induction 1 as [|a l Ha Hl IH]; [reflexivity|]. cbn [rconcat]. apply bal_rseq; assumption. Qed.

Lemma bal_none n c i pm : bal n (rev1 (STrace c None i pm)).
Proof. reflexivity. Qed.

Lemma bal_hit n c0 c' i : i = n -> bal n (rseq (rev1 (STrace c0 (Some c') i None)) (rev1 (SResult c'))).
Proof.
  intros ->. unfold bal, lsucc, sresults, rseq, rev1. cbn [fst snd app flat_map last_success].
  rewrite Nat.eqb_refl. reflexivity.
Qed.

Lemma bal_miss n c0 c' i : i <> n -> bal n (rev1 (STrace c0 (Some c') i None)).
Proof.
  intros H. unfold bal, lsucc, sresults, rev1. cbn [fst flat_map last_success].
  destruct (Nat.eqb i n) eqn:E; [apply Nat.eqb_eq in E; contradiction | reflexivity].
Qed.

Section OneToOne.
Variable P : Type.
Variable sev : P -> jctx -> res json * list sevent.
Notation sem := (sem P sev).

Lemma rec_children_bal n i semr leaf :
  (forall c c', bal n (rseq (rev1 (STrace c (Some c') i None)) (semr c'))) ->
  (leaf = true -> forall c c', bal n (rseq (rev1 (STrace c (Some c') i None)) (rev1 (SResult c')))) ->
  (leaf = false -> i <> n) ->
  forall d c, bal n (rec_children i None semr leaf c d).
Proof.
  intros Hgo Hleaf Hnl.
  assert (Hloop : forall its c,
    (forall ix, In ix its -> forall c0, bal n (rec_children i None semr leaf c0 (snd ix))) ->
    bal n (rconcat (map (rec_child i None semr leaf c) its))).
  { intros its c Hkids. apply bal_rconcat. rewrite Forall_map, Forall_forall. intros [nm x] Hin.
    unfold rec_child. cbn [fst snd]. destruct (members x).
    - rewrite <- rseq_assoc. apply bal_rseq; [apply Hgo | apply (Hkids (nm, x) Hin)].
    - destruct leaf eqn:Hl; [apply Hleaf; reflexivity|].
      apply bal_rseq; [apply bal_miss; apply Hnl; reflexivity | apply bal_none]. }
  induction d as [| b | z0 | h | str | id l IHl | id l IHl] using json_ind'; intros c; try reflexivity.
  - assert (Hm : members (JList id l) = Some (list_iter l)) by reflexivity.
    rewrite (rec_children_unfold _ _ _ _ _ _ _ Hm). apply bal_rseq; [|apply bal_none].
    apply Hloop. intros [nm x] Hin. simpl. rewrite Forall_forall in IHl. apply IHl. eapply members_in_list; eauto.
  - assert (Hm : members (JDict id l) = Some (dict_iter l)) by reflexivity.
    rewrite (rec_children_unfold _ _ _ _ _ _ _ Hm). apply bal_rseq; [|apply bal_none].
    apply Hloop. intros [nm x] Hin. simpl. rewrite Forall_forall in IHl. destruct nm as [k|z1].
    + apply (IHl (k, x)). apply members_in_dict; exact Hin.
    + exfalso. unfold dict_iter in Hin. rewrite in_map_iff in Hin. destruct Hin as (? & E0 & _). discriminate.
Qed.

(* outside filter evaluation, the successful attempts of the last step are exactly the results, in order
   (also when an exception cuts the stream short) *)
Theorem last_step_one_to_one :
  forall rest, rest <> [] ->
    (forall p c, In (VPred p) rest -> stamped (snd (sev p c))) ->
    forall i c, bal (i + List.length rest) (sem i rest None c).
Proof.
  induction rest as [|v r IH]; intros Hne Hp i c; [congruence|].
  set (n := i + List.length (v :: r)).
  assert (Hn : n = S i + List.length r) by (unfold n; simpl; lia).
  assert (Hgo : forall c0 c', bal n (rseq (rev1 (STrace c0 (Some c') (S i) None)) (sem (S i) r None c'))).
  { intros c0 c'. destruct r as [|v' r'].
    - apply bal_hit. simpl in Hn. lia.
    - apply bal_rseq.
      + apply bal_miss. simpl in Hn. lia.
      + rewrite Hn. apply IH; [discriminate | intros p c1 Hin; apply Hp; right; exact Hin]. }
  assert (Hitems : forall v',
     bal n (match items_for jshape P v' (cdata c) with
               | Ok (Some its) => rseq (rconcat (map (fun ix => rseq (rev1 (STrace c (Some (ext c (fst ix) (snd ix))) (S i) None))
                                              (sem (S i) r None (ext c (fst ix) (snd ix)))) its)) (rev1 (STrace c None (S i) None))
               | Ok None => rev1 (STrace c None (S i) None)
               | Exn e => ([], Some e)
               end)).
  { intros v'. destruct (items_for jshape P v' (cdata c)) as [[its|]|e]; try reflexivity.
    apply bal_rseq; [|apply bal_none]. apply bal_rconcat. rewrite Forall_map, Forall_forall. intros ix _. apply Hgo. }
  destruct v as [k | z | a b c0 | l | | | dot | | | p]; cbn [Spec.sem]; try apply Hitems.
  - destruct (jshape (cdata c)) as [its|its|]; [destruct (assoc k its)| |]; first [apply Hgo | apply bal_none].
  - destruct (jshape (cdata c)) as [its|its|]; [|destruct (list_get its z)|]; first [apply Hgo | apply bal_none].
  - destruct (members (cdata c)); [|apply bal_none]. apply bal_rseq; [apply Hgo|].
    apply rec_children_bal; [apply Hgo | | ].
    + intros Hl c0 c'. destruct r; [|discriminate]. apply Hgo.
    + intros Hl. destruct r; [discriminate|]. simpl in Hn. lia.
  - destruct (ext_parent c); first [apply Hgo | apply bal_none].
  - pose proof (Hp p c (or_introl eq_refl)) as Hpc. destruct (sev p c) as [[val|e] es]; cbn [snd] in Hpc.
    + apply (bal_rseq n (es, None)).
      * unfold bal. cbn [fst]. destruct (stamped_silent n es Hpc) as [-> ->]. reflexivity.
      * destruct (truthy val); [apply Hgo | apply bal_none].
    + unfold bal. cbn [fst]. destruct (stamped_silent n es Hpc) as [-> ->]. reflexivity.
Qed.

End OneToOne.

(* ------------------------------------------------------------------ C17: next_match is reached by the attempted step *)
Section Reached.
Variable P : Type.
Variable sev : P -> jctx -> res json * list sevent.
Notation sem := (sem P sev).

(* c' is what step v can produce from c: a member the step selects; for a recursive step the context itself
   or one of its members; for a filter the candidate itself *)
Definition reached (v : vertex P) (c c' : jctx) : Prop :=
  match v with
  | VRec => c' = c \/ exists its nm x, members (cdata c) = Some its /\ In (nm, x) its /\ c' = ext c nm x
  | VPred _ => c' = c
  | _ => In c' (select P sev v c)
  end.

(* an event outside filter evaluation names a step of the path (vertex_index, 1-based) and, when it has a
   next_match, that match is reached from last_match by that step *)
Definition step_ok (path : list (vertex P)) (e : sevent) : Prop :=
  match e with
  | STrace c (Some c') (S k) None => exists v, nth_error path k = Some v /\ reached v c c'
  | STrace c (Some c') O None => False
  | _ => True
  end.

Lemma stamped_step_ok path es : stamped es -> Forall (step_ok path) es.
Proof. apply Forall_impl. intros [l [n|] [|vi] [pm|] | | | ]; simpl; tauto. Qed.

Lemma rec_children_reached path i semr leaf :
  nth_error path i = Some VRec ->
  (forall c', Forall (step_ok path) (fst (semr c'))) ->
  forall d c, cdata c = d -> Forall (step_ok path) (fst (rec_children (S i) None semr leaf c d)).
Proof.
  intros Hnth Hsemr.
  assert (Hloop : forall its c, members (cdata c) = Some its ->
    (forall ix, In ix its -> forall c0, cdata c0 = snd ix ->
        Forall (step_ok path) (fst (rec_children (S i) None semr leaf c0 (snd ix)))) ->
    Forall (step_ok path) (fst (rconcat (map (rec_child (S i) None semr leaf c) its)))).
  { intros its c Hm Hkids. apply Forall_rconcat. rewrite Forall_map, Forall_forall. intros [nm x] Hin.
    unfold rec_child. cbn [fst snd]. apply Forall_rseq.
    - repeat constructor. exists VRec. split; [exact Hnth|]. right. exists its, nm, x. auto.
    - destruct (members x).
      + apply Forall_rseq; [apply Hsemr | apply (Hkids (nm, x) Hin); apply cdata_ext].
      + destruct leaf; repeat constructor. }
  induction d as [| b | z0 | h | str | id l IHl | id l IHl] using json_ind'; intros c Hc; try constructor.
  - assert (Hm : members (JList id l) = Some (list_iter l)) by reflexivity.
    rewrite (rec_children_unfold _ _ _ _ _ _ _ Hm). apply Forall_rseq; [|repeat constructor].
    apply Hloop; [rewrite Hc; exact Hm|]. intros [nm x] Hin. simpl. rewrite Forall_forall in IHl. apply IHl.
    eapply members_in_list; eauto.
  - assert (Hm : members (JDict id l) = Some (dict_iter l)) by reflexivity.
    rewrite (rec_children_unfold _ _ _ _ _ _ _ Hm). apply Forall_rseq; [|repeat constructor].
    apply Hloop; [rewrite Hc; exact Hm|]. intros [nm x] Hin. simpl. rewrite Forall_forall in IHl. destruct nm as [k|z1].
    + apply (IHl (k, x)). apply members_in_dict; exact Hin.
    + exfalso. unfold dict_iter in Hin. rewrite in_map_iff in Hin. destruct Hin as (? & E0 & _). discriminate.
Qed.

Theorem next_is_reached :
  forall path rest i,
    (forall k, nth_error rest k = nth_error path (i + k)) ->
    (forall p c, In (VPred p) rest -> stamped (snd (sev p c))) ->
    forall c, Forall (step_ok path) (fst (sem i rest None c)).
Proof.
  intros path. induction rest as [|v r IH]; intros i Hnth Hp c; [repeat constructor|].
  assert (Hv : nth_error path i = Some v) by (pose proof (Hnth 0) as H0; rewrite Nat.add_0_r in H0; rewrite <- H0; reflexivity).
  assert (IH' : forall c', Forall (step_ok path) (fst (sem (S i) r None c'))).
  { apply IH; [|intros p c1 Hin; apply Hp; right; exact Hin].
    intros k. replace (S i + k) with (i + S k) by lia. rewrite <- Hnth. reflexivity. }
  clear IH.
  assert (Hgo : forall c', reached v c c' ->
             Forall (step_ok path) (fst (rseq (rev1 (STrace c (Some c') (S i) None)) (sem (S i) r None c')))).
  { intros c' Hr. apply Forall_rseq; [|apply IH']. repeat constructor. exists v. split; assumption. }
  assert (Hnone : Forall (step_ok path) (fst (rev1 (STrace c None (S i) None)))) by (repeat constructor).
  assert (Hitems : (match v with VKey _ | VIdx _ | VParent | VPred _ | VRec => False | _ => True end) ->
     Forall (step_ok path) (fst (match items_for jshape P v (cdata c) with
               | Ok (Some its) => rseq (rconcat (map (fun ix => rseq (rev1 (STrace c (Some (ext c (fst ix) (snd ix))) (S i) None))
                                              (sem (S i) r None (ext c (fst ix) (snd ix)))) its)) (rev1 (STrace c None (S i) None))
               | Ok None => rev1 (STrace c None (S i) None)
               | Exn e => ([], Some e)
               end))).
  { intros Hk. destruct (items_for jshape P v (cdata c)) as [[its|]|e] eqn:Hi; [|exact Hnone|constructor].
    apply Forall_rseq; [|exact Hnone]. apply Forall_rconcat. rewrite Forall_map, Forall_forall. intros ix Hin.
    apply Hgo. assert (Hsel : In (ext c (fst ix) (snd ix)) (select P sev v c)).
    { destruct v; try contradiction; unfold select; rewrite Hi; apply in_map_iff; exists ix; auto. }
    destruct v; try contradiction; exact Hsel. }
  destruct v as [k | z | a b c0 | l | | | dot | | | p]; cbn [Spec.sem]; try (apply Hitems; exact I).
  - destruct (jshape (cdata c)) as [its|its|] eqn:Hs; [destruct (assoc k its) as [x|] eqn:Ha| |]; try exact Hnone.
    apply Hgo. simpl. rewrite Hs, Ha. left. reflexivity.
  - destruct (jshape (cdata c)) as [its|its|] eqn:Hs; [|destruct (list_get its z) as [x|e] eqn:Ha|]; try exact Hnone.
    apply Hgo. simpl. rewrite Hs, Ha. left. reflexivity.
  - destruct (members (cdata c)); [|exact Hnone]. apply Forall_rseq; [apply Hgo; left; reflexivity|].
    apply rec_children_reached; [exact Hv | exact IH' | reflexivity].
  - destruct (ext_parent c) as [c'|] eqn:He; [|exact Hnone]. apply Hgo. simpl. rewrite He. left. reflexivity.
  - pose proof (Hp p c (or_introl eq_refl)) as Hpc. destruct (sev p c) as [[val|e] es]; cbn [snd] in Hpc;
      [|apply stamped_step_ok; exact Hpc].
    apply (Forall_rseq _ (es, None)); [apply stamped_step_ok; exact Hpc|].
    destruct (truthy val); [apply Hgo; reflexivity | exact Hnone].
Qed.

End Reached.

(* ------------------------------------------------------------------ the same facts about a drained iterator *)
Section Run.
Variable P : Type.
Variable ev : P -> jtm -> @tracecfg json -> res json * list jevent.
Variable sev : P -> jctx -> res json * list sevent.
Variable src : @source json.
Variable vp : list (vertex P).
Variable tr : @tracecfg json.

(* C20: the attempts the trace callable is told about, over the whole life of the iterator *)
Theorem attempts_bound_run pw d :
  pw_ok P sev pw vp -> complete P sev src vp tr d ->
  ntr (map abs_ev (all_events d)) + 1 <= 2 * exams P sev pw vp (abs (root_match src)).
Proof.
  intros Hpw (ms & _ & _ & _ & Hev & _). rewrite Hev. unfold answer.
  pose proof (ntr_proj (tracing tr) (fst (sem P sev 0 vp (pmc tr) (abs (root_match src))))).
  pose proof (attempts_bound P sev pw vp Hpw 0 (pmc tr) (abs (root_match src))). lia.
Qed.

(* C17: a query traced from the top (no enclosing filter): the successful attempts of the last step delivered
   to the trace callable are, in order, exactly the matches the iterator yielded *)
Theorem one_to_one_run d :
  tr = Some None -> vp <> [] ->
  (forall p c, In (VPred p) vp -> stamped (snd (sev p c))) ->
  complete P sev src vp tr d ->
  exists ms, map abs ms = lsucc (List.length vp) (map abs_ev (all_events d)) /\
             outcomes d = map (fun m => OResult m) ms ++
                          [ORaise (match snd (answer P sev src vp tr) with None => EStop | Some e => e end)].
Proof.
  intros Htr Hne Hst (ms & Hms & _ & Ho & Hev & _). exists ms. split; [|exact Ho].
  rewrite Hev, Hms. unfold answer. subst tr. cbn [tracing pmc proj option_map].
  symmetry. exact (last_step_one_to_one P sev vp Hne Hst 0 (abs (root_match src))).
Qed.

Theorem next_is_reached_run d :
  tr = Some None ->
  (forall p c, In (VPred p) vp -> stamped (snd (sev p c))) ->
  complete P sev src vp tr d ->
  Forall (step_ok P sev vp) (map abs_ev (all_events d)).
Proof.
  intros Htr Hst (ms & _ & _ & _ & Hev & _). rewrite Hev. unfold answer. subst tr. cbn [tracing pmc proj option_map].
  apply next_is_reached; [intros k; reflexivity | exact Hst].
Qed.

End Run.
