(* Top.v -- the user-level theorem about find_matches: for every document, path and (pure) predicate
   evaluator, successive next() calls deliver exactly the contexts of the declarative evaluator `deval`, in
   order, lazily, by reference, and then StopIteration for ever. *)
From Coq Require Import List ZArith String Bool PArith Lia FMapPositive.
From TP Require Import Json PyPrim Machine Spec.
From TP.proofs Require Import RefineBase Refine NextLayer Iterate WfRun Query SpecLemmas.
Import ListNotations.
Close Scope Z_scope.
Open Scope list_scope.

Section Top.
Variable P : Type.
Variable ev : P -> jtm -> @tracecfg json -> res json * list jevent.
Variable sev : P -> jctx -> res json * list sevent.
Variable src : @source json.
Variable vp : list (vertex P).
Variable tr : @tracecfg json.

Hypothesis ev_ok : forall p m, In (VPred p) vp -> wf m ->
  (fst (ev p m tr) = fst (sev p (abs m)) /\
   map abs_ev (snd (ev p m tr)) = proj (tracing tr) (snd (sev p (abs m)))) \/
  (exists e, fst (ev p m tr) = Exn e /\ budget_exn e = true).
Hypothesis ev_quiet : forall p m, ev_results (snd (ev p m tr)) = [].
Hypothesis Hsrc : src_wf src.
Hypothesis Hpure : pure_sev P sev vp.
Hypothesis Hvalid : valid_path P vp = true.

Definition start : jctx := abs (root_match src).

(* what the caller sees of a drained iterator: the yielded matches, then the final exception *)
Definition yields (d : list (@outcome json * list jevent)) (ms : list jtm) (e : exn) : Prop :=
  outcomes d = map (fun m => OResult m) ms ++ [ORaise e].

(* the complete, ordered, lazy, by-reference answer *)
Definition exact_answer (d : list (@outcome json * list jevent)) : Prop :=
  exists ms,
    yields d ms EStop /\
    map abs ms = deval P sev vp start /\
    Forall wf ms /\
    Forall (fun m => cdata (abs m) = tdata m) ms /\
    Forall lazy_item d.

Theorem find_matches_deval :
  exists k : nat, forall B fuel, k < Pos.to_nat B -> List.length (deval P sev vp start) < fuel ->
    let d := drain P ev src vp tr fuel B init_state in
    exact_answer d \/ sound_prefix P ev sev src vp tr d.
Proof.
  destruct (sem_deval P sev vp Hpure Hvalid 0 (pmc tr) start) as [Hok Hres].
  destruct (iterator_spec P ev sev src vp tr ev_ok ev_quiet Hsrc) as [k Hk].
  exists k. intros B fuel HB Hfuel d.
  unfold answer in Hk. fold start in Hk.
  destruct (Hk B fuel HB ltac:(rewrite Hres; exact Hfuel)) as [Hc | Hp]; [left | right; exact Hp].
  destruct Hc as (ms & Hms & Hwf & Ho & _ & Hl).
  unfold answer in *. fold start in Hms, Ho. red in Hok. rewrite Hok in Ho.
  exists ms. split; [exact Ho|]. split; [rewrite Hms; exact Hres|]. split; [exact Hwf|]. split; [|exact Hl].
  rewrite Forall_forall in *. intros m Hin. apply cdata_abs. apply Hwf. exact Hin.
Qed.

(* after StopIteration: StopIteration again, nothing changes (the repaired restore_on_catch) *)
Theorem stays_exhausted B z :
  pc z = PDone -> next jshape P ev B src vp tr z = (ORaise EStop, z, []).
Proof. apply done_absorbing. Qed.

End Top.

(* ------------------------------------------------------------------ paths without filters: no hypotheses left *)
Section NoPred.
Variable src : @source json.
Variable vp : list (vertex Empty_set).
Variable tr : @tracecfg json.
Hypothesis Hsrc : src_wf src.
Hypothesis Hvalid : valid_path Empty_set vp = true.

Definition ev0 (p : Empty_set) (m : jtm) (t : @tracecfg json) : res json * list jevent := match p with end.
Definition sev0 (p : Empty_set) (c : jctx) : res json * list sevent := match p with end.

(* a raising action of a filter-free search never carries a budget exception *)
Lemma step_raise_nobudget z e z2 ev2 :
  step jshape Empty_set ev0 src vp tr z = SRaise e z2 ev2 -> budget_exn e = false.
Proof.
  unfold step. destruct (pc z).
  - discriminate.
  - destruct (cur z) as [m|]; [|intros H; injection H as <- _ _; reflexivity].
    destruct (Nat.eqb (tvx m) (List.length vp)); discriminate.
  - destruct (cur z) as [m|]; [|intros H; injection H as <- _ _; reflexivity].
    destruct (nth_error vp (tvi m)) as [v|]; [|intros H; injection H as <- _ _; reflexivity].
    destruct (vmatch jshape Empty_set ev0 v m (S (tvi m)) tr (st z) (nid z)) as [[[r s'] n'] evs] eqn:Hv.
    destruct r as [[c|]|e0]; intros H; try discriminate. injection H as <- _ _.
    destruct v as [k | i0 | a b0 c0 | l | | | dot | | | p]; [| | | | | | | | | destruct p]; simpl in Hv.
    all: unfold multi, pop_next, vrec in Hv.
    all: repeat match type of Hv with
                | context [match ?x with _ => _ end] => destruct x eqn:?
                end; try discriminate; injection Hv as <- _ _ _.
    all: try reflexivity.
    all: match goal with
         | H : items_for _ _ _ _ = Exn _ |- _ =>
             unfold items_for in H;
             repeat match type of H with context [match ?x with _ => _ end] => destruct x eqn:? end;
             try discriminate; injection H as <-
         end.
    all: match goal with
         | H : enumerate_slice _ _ _ _ = Exn _ |- _ =>
             unfold enumerate_slice in H;
             repeat match type of H with context [match ?x with _ => _ end] => destruct x eqn:? end;
             try discriminate; injection H as <-; reflexivity
         end.
  - destruct (cur z) as [m|]; [discriminate | intros H; injection H as <- _ _; reflexivity].
  - intros H; injection H as <- _ _; reflexivity.
Qed.

Theorem find_matches_nopred :
  exists k : nat, forall B fuel, k < Pos.to_nat B ->
    List.length (deval Empty_set sev0 vp (abs (root_match src))) < fuel ->
    exact_answer Empty_set sev0 src vp (drain Empty_set ev0 src vp tr fuel B init_state).
Proof.
  assert (Hok : forall p m, In (VPred p) vp -> wf m ->
    (fst (ev0 p m tr) = fst (sev0 p (abs m)) /\
     map abs_ev (snd (ev0 p m tr)) = proj (tracing tr) (snd (sev0 p (abs m)))) \/
    (exists e, fst (ev0 p m tr) = Exn e /\ budget_exn e = true)) by (intros []).
  assert (Hq : forall p m, ev_results (snd (ev0 p m tr)) = []) by (intros []).
  assert (Hpure : pure_sev Empty_set sev0 vp) by (intros []).
  destruct (find_matches_deval Empty_set ev0 sev0 src vp tr Hok Hq Hsrc Hpure Hvalid) as [k Hk].
  exists k. intros B fuel HB Hfuel.
  destruct (Hk B fuel HB Hfuel) as [H | H]; [exact H|].
  exfalso. destruct H as (ms & e & pre & suf & _ & _ & _ & _ & Hbe & (z1 & z2 & ev2 & Hs) & _).
  rewrite (step_raise_nobudget _ _ _ _ Hs) in Hbe. discriminate.
Qed.

End NoPred.

(* ------------------------------------------------------------------ filter-free paths over any predicate language *)
Section PredFree.
Variable P : Type.
Variable ev : P -> jtm -> @tracecfg json -> res json * list jevent.
Variable src : @source json.
Variable vp : list (vertex P).
Variable tr : @tracecfg json.
Hypothesis Hsrc : src_wf src.
Hypothesis Hvalid : valid_path P vp = true.
Hypothesis Hfree : forall p, ~ In (VPred p) vp.

Definition sev_const (p : P) (c : jctx) : res json * list sevent := (Ok JNull, []).

Lemma step_raise_nobudget_free z e z2 ev2 :
  step jshape P ev src vp tr z = SRaise e z2 ev2 -> budget_exn e = false.
Proof.
  unfold step. destruct (pc z).
  - discriminate.
  - destruct (cur z) as [m|]; [|intros H; injection H as <- _ _; reflexivity].
    destruct (Nat.eqb (tvx m) (List.length vp)); discriminate.
  - destruct (cur z) as [m|]; [|intros H; injection H as <- _ _; reflexivity].
    destruct (nth_error vp (tvi m)) as [v|] eqn:Hn; [|intros H; injection H as <- _ _; reflexivity].
    destruct (vmatch jshape P ev v m (S (tvi m)) tr (st z) (nid z)) as [[[r s'] n'] evs] eqn:Hv.
    destruct r as [[c|]|e0]; intros H; try discriminate. injection H as <- _ _.
    destruct v as [k | i0 | a b0 c0 | l | | | dot | | | p];
      [| | | | | | | | | exfalso; apply (Hfree p); eapply nth_error_In; eauto]; simpl in Hv.
    all: unfold multi, pop_next, vrec in Hv.
    all: repeat match type of Hv with
                | context [match ?x with _ => _ end] => destruct x eqn:?
                end; try discriminate; injection Hv as <- _ _ _.
    all: try reflexivity.
    all: match goal with
         | H : items_for _ _ _ _ = Exn _ |- _ =>
             unfold items_for in H;
             repeat match type of H with context [match ?x with _ => _ end] => destruct x eqn:? end;
             try discriminate; injection H as <-
         end.
    all: match goal with
         | H : enumerate_slice _ _ _ _ = Exn _ |- _ =>
             unfold enumerate_slice in H;
             repeat match type of H with context [match ?x with _ => _ end] => destruct x eqn:? end;
             try discriminate; injection H as <-; reflexivity
         end.
  - destruct (cur z) as [m|]; [discriminate | intros H; injection H as <- _ _; reflexivity].
  - intros H; injection H as <- _ _; reflexivity.
Qed.

Hypothesis ev_quiet : forall p m, ev_results (snd (ev p m tr)) = [].

Theorem find_matches_predfree :
  exists k : nat, forall B fuel, k < Pos.to_nat B ->
    List.length (deval P sev_const vp (abs (root_match src))) < fuel ->
    exact_answer P sev_const src vp (drain P ev src vp tr fuel B init_state).
Proof.
  assert (Hok : forall p m, In (VPred p) vp -> wf m ->
    (fst (ev p m tr) = fst (sev_const p (abs m)) /\
     map abs_ev (snd (ev p m tr)) = proj (tracing tr) (snd (sev_const p (abs m)))) \/
    (exists e, fst (ev p m tr) = Exn e /\ budget_exn e = true)) by (intros p m Hin; exfalso; eapply Hfree; eauto).
  assert (Hpure : pure_sev P sev_const vp) by (intros p c _; split; [exists JNull; reflexivity | reflexivity]).
  destruct (find_matches_deval P ev sev_const src vp tr Hok ev_quiet Hsrc Hpure Hvalid) as [k Hk].
  exists k. intros B fuel HB Hfuel.
  destruct (Hk B fuel HB Hfuel) as [H | H]; [exact H|].
  exfalso. destruct H as (ms & e & pre & suf & _ & _ & _ & _ & Hbe & (z1 & z2 & ev2 & Hs) & _).
  rewrite (step_raise_nobudget_free _ _ _ _ Hs) in Hbe. discriminate.
Qed.

End PredFree.
