(* SpecLemmas.v -- facts about the specification alone: the result list of `sem` unfolds to the step-by-step
   selection the properties talk about (child steps, recursive descent in pre-order, filters, parent steps),
   and evaluation is compositional (eval (p ++ q) = flat_map (eval q) . eval p). *)
From Coq Require Import List ZArith String Bool Lia.
From TP Require Import Json PyPrim Machine Spec.
From TP.proofs Require Import RefineBase Refine Query.
Import ListNotations.
Close Scope Z_scope.
Open Scope list_scope.

Definition ok (r : rs) : Prop := snd r = None.

Lemma ok_rseq a b : ok a -> ok b -> ok (rseq a b) /\ fst (rseq a b) = fst a ++ fst b.
Proof. unfold ok. intros Ha Hb. rewrite rseq_ok by exact Ha. simpl. auto. Qed.

Lemma ok_rev1 e : ok (rev1 e). Proof. reflexivity. Qed.

Lemma ok_rconcat l : Forall ok l -> ok (rconcat l) /\ fst (rconcat l) = List.concat (map fst l).
Proof.
  induction 1 as [|a l Ha Hl [IH1 IH2]]; [split; reflexivity|].
  simpl. destruct (ok_rseq a (rconcat l) Ha IH1) as [H1 H2]. split; [exact H1|]. rewrite H2, IH2. reflexivity.
Qed.

Lemma sresults_concat l : sresults (List.concat l) = List.concat (map sresults l).
Proof. induction l as [|a l IH]; [reflexivity|]. simpl. rewrite sresults_app, IH. reflexivity. Qed.

Lemma concat_map_flat_map {A B} (f : A -> list B) l : List.concat (map f l) = flat_map f l.
Proof. induction l as [|a l IH]; [reflexivity|]. simpl. rewrite IH. reflexivity. Qed.

Section Lemmas.
Variable P : Type.
Variable sev : P -> jctx -> res json * list sevent.

Notation sem := (sem P sev).

(* no filter raises, and events of filter evaluations carry no results of the enclosing search *)
Definition pure_sev (r : list (vertex P)) : Prop :=
  forall p c, In (VPred p) r -> (exists v, fst (sev p c) = Ok v) /\ sresults (snd (sev p c)) = [].

(* slices with step 0 raise ValueError when matched (outside the supported steps, DESIGN.md 6/C16) *)
Definition valid_step (v : vertex P) : bool :=
  match v with VSlice _ _ (Some z) => negb (Z.eqb z 0) | _ => true end.
Definition valid_path (p : list (vertex P)) : bool := forallb valid_step p.

Lemma items_for_valid v d : valid_step v = true -> exists o, items_for jshape P v d = Ok o.
Proof.
  intros Hv. unfold items_for.
  destruct v as [k | i | a b c | l | | | dot | | | p]; destruct (jshape d) as [its|its|]; eauto.
  unfold enumerate_slice. destruct c as [z|]; simpl in Hv.
  - destruct (Z.eqb z 0); [discriminate|]. destruct (slice_indices a b z (zlen its)). eauto.
  - simpl. destruct (slice_indices a b 1 (zlen its)). eauto.
Qed.

(* ------------------------------------------------------------------ recursive descent *)
Definition rec_child (i : nat) (pm : option jctx) (semr : jctx -> rs) (leaf : bool) (c : jctx) (ix : name * json) : rs :=
  let c' := ext c (fst ix) (snd ix) in
  rseq (rev1 (STrace c (Some c') i pm))
       (match members (snd ix) with
        | Some _ => rseq (semr c') (rec_children i pm semr leaf c' (snd ix))
        | None => if leaf then rev1 (SResult c') else rev1 (STrace c' None i pm)
        end).

Lemma rec_children_unfold i pm semr leaf c d its :
  members d = Some its ->
  rec_children i pm semr leaf c d =
  rseq (rconcat (map (rec_child i pm semr leaf c) its)) (rev1 (STrace c None i pm)).
Proof.
  intros H. destruct d as [| | | | | id l | id l]; simpl in H; try discriminate; injection H as <-.
  - cbn [rec_children]. f_equal. unfold list_iter, enumerate. generalize 0%Z.
    induction l as [|x l IH]; intros z; [reflexivity|].
    cbn [enum_from map rconcat]. rewrite IH. reflexivity.
  - cbn [rec_children]. f_equal. unfold dict_iter.
    induction l as [|[k x] l IH]; [reflexivity|].
    cbn [map rconcat fst snd]. rewrite IH. reflexivity.
Qed.

Lemma rec_children_scalar i pm semr leaf c d : members d = None -> rec_children i pm semr leaf c d = ([], None).
Proof. destruct d; simpl; intros H; try discriminate; reflexivity. Qed.

(* all nodes below d in document pre-order (d itself excluded), as contexts extending c *)
Fixpoint below (c : jctx) (d : json) : list jctx :=
  match d with
  | JDict _ l =>
      (fix go (l : list (string * json)) : list jctx :=
         match l with
         | [] => []
         | (k, x) :: r => (ext c (NStr k) x :: below (ext c (NStr k) x) x) ++ go r
         end) l
  | JList _ l =>
      (fix go (z : Z) (l : list json) : list jctx :=
         match l with
         | [] => []
         | x :: r => (ext c (NInt z) x :: below (ext c (NInt z) x) x) ++ go (z + 1)%Z r
         end) 0%Z l
  | _ => []
  end.

Lemma below_unfold c d its :
  members d = Some its ->
  below c d = flat_map (fun ix => ext c (fst ix) (snd ix) :: below (ext c (fst ix) (snd ix)) (snd ix)) its.
Proof.
  intros H. destruct d as [| | | | | id l | id l]; simpl in H; try discriminate; injection H as <-.
  - cbn [below]. unfold list_iter, enumerate. generalize 0%Z.
    induction l as [|x l IH]; intros z; [reflexivity|]. cbn [enum_from map flat_map fst snd]. rewrite IH. reflexivity.
  - cbn [below]. unfold dict_iter.
    induction l as [|[k x] l IH]; [reflexivity|]. cbn [map flat_map fst snd]. rewrite IH. reflexivity.
Qed.

Lemma below_scalar c d : members d = None -> below c d = [].
Proof. destruct d; simpl; intros H; try discriminate; reflexivity. Qed.

Definition is_container (c : jctx) : bool := match members (cdata c) with Some _ => true | None => false end.

Lemma cdata_ext c nm x : cdata (ext c nm x) = x.
Proof. unfold cdata, cnode, ext. rewrite stack_snoc. destruct nm; reflexivity. Qed.

Definition walk_results (semr : jctx -> rs) (leaf : bool) (c' : jctx) : list jctx :=
  if is_container c' then sresults (fst (semr c')) else if leaf then [c'] else [].

Lemma rec_loop_results i pm semr leaf c its :
  (forall c', ok (semr c')) ->
  (forall ix, In ix its -> forall c0,
        ok (rec_children i pm semr leaf c0 (snd ix)) /\
        sresults (fst (rec_children i pm semr leaf c0 (snd ix))) =
        flat_map (walk_results semr leaf) (below c0 (snd ix))) ->
  ok (rconcat (map (rec_child i pm semr leaf c) its)) /\
  sresults (fst (rconcat (map (rec_child i pm semr leaf c) its))) =
  flat_map (walk_results semr leaf)
           (flat_map (fun ix => ext c (fst ix) (snd ix) :: below (ext c (fst ix) (snd ix)) (snd ix)) its).
Proof.
  intros Hsemr. induction its as [|[nm x] its IHits]; intros Hkids; [split; reflexivity|].
  destruct (Hkids (nm, x) (or_introl eq_refl) (ext c nm x)) as [Hxok Hxres]. simpl in Hxok, Hxres.
  destruct (IHits (fun ix Hin => Hkids ix (or_intror Hin))) as [Hrok Hrres].
  cbn [map rconcat flat_map fst snd].
  assert (Hchild : ok (rec_child i pm semr leaf c (nm, x)) /\
                   sresults (fst (rec_child i pm semr leaf c (nm, x))) =
                   walk_results semr leaf (ext c nm x) ++ flat_map (walk_results semr leaf) (below (ext c nm x) x)).
  { unfold rec_child, walk_results at 1, is_container. cbn [fst snd]. rewrite cdata_ext.
    destruct (members x) as [its'|] eqn:Hmx.
    - destruct (ok_rseq _ _ (Hsemr (ext c nm x)) Hxok) as [H1 H2].
      destruct (ok_rseq (rev1 (STrace c (Some (ext c nm x)) i pm)) _ (ok_rev1 _) H1) as [H3 H4].
      split; [exact H3|]. rewrite H4, H2. simpl. rewrite sresults_app, Hxres. reflexivity.
    - rewrite (below_scalar _ _ Hmx). destruct leaf; split; reflexivity. }
  destruct Hchild as [Hcok Hcres].
  destruct (ok_rseq _ _ Hcok Hrok) as [H5 H6].
  split; [exact H5|]. rewrite H6, sresults_app, Hcres, Hrres.
  rewrite flat_map_app. cbn [flat_map]. rewrite <- app_assoc. reflexivity.
Qed.

(* results of the walk below d: the continuation at every container below d, in pre-order; when the recursive
   step is the last one (leaf), the scalars below d are results too, in their pre-order position *)
Lemma rec_children_results i pm semr leaf :
  (forall c', ok (semr c')) ->
  forall d c,
  ok (rec_children i pm semr leaf c d) /\
  sresults (fst (rec_children i pm semr leaf c d)) = flat_map (walk_results semr leaf) (below c d).
Proof.
  intros Hsemr.
  induction d as [| b | z0 | h | str | id l IHl | id l IHl] using json_ind'; intros c;
    try (split; reflexivity).
  - assert (Hm : members (JList id l) = Some (list_iter l)) by reflexivity.
    rewrite (rec_children_unfold _ _ _ _ _ _ _ Hm), (below_unfold _ _ _ Hm).
    destruct (rec_loop_results i pm semr leaf c (list_iter l) Hsemr) as [H1 H2].
    { intros [nm x] Hin. simpl. rewrite Forall_forall in IHl. apply IHl. eapply members_in_list; eauto. }
    destruct (ok_rseq _ (rev1 (STrace c None i pm)) H1 (ok_rev1 _)) as [H3 H4].
    split; [exact H3|]. rewrite H4, sresults_app, H2. simpl. rewrite app_nil_r. reflexivity.
  - assert (Hm : members (JDict id l) = Some (dict_iter l)) by reflexivity.
    rewrite (rec_children_unfold _ _ _ _ _ _ _ Hm), (below_unfold _ _ _ Hm).
    destruct (rec_loop_results i pm semr leaf c (dict_iter l) Hsemr) as [H1 H2].
    { intros [nm x] Hin. simpl. rewrite Forall_forall in IHl. destruct nm as [k|z1].
      - apply (IHl (k, x)). apply members_in_dict; exact Hin.
      - exfalso. unfold dict_iter in Hin. rewrite in_map_iff in Hin. destruct Hin as (? & E & _). discriminate. }
    destruct (ok_rseq _ (rev1 (STrace c None i pm)) H1 (ok_rev1 _)) as [H3 H4].
    split; [exact H3|]. rewrite H4, sresults_app, H2. simpl. rewrite app_nil_r. reflexivity.
Qed.

(* ------------------------------------------------------------------ the step-by-step definition *)
(* what one step selects from a context (the text of C01 / C03 / C13, one clause per step kind) *)
Definition select (v : vertex P) (c : jctx) : list jctx :=
  match v with
  | VKey k =>
      match jshape (cdata c) with
      | SDict its => match assoc k its with Some x => [ext c (NStr k) x] | None => [] end
      | _ => []
      end
  | VIdx z =>
      match jshape (cdata c) with
      | SList its => match list_get its z with Ok x => [ext c (NInt z) x] | Exn _ => [] end
      | _ => []
      end
  | VParent => match ext_parent c with Some c' => [c'] | None => [] end
  | VPred p => match fst (sev p c) with Ok v => if truthy v then [c] else [] | Exn _ => [] end
  | VRec => []      (* handled by deval *)
  | _ => match items_for jshape P v (cdata c) with
         | Ok (Some its) => map (fun ix => ext c (fst ix) (snd ix)) its
         | _ => []
         end
  end.

Definition leafb (r : list (vertex P)) : bool := match r with [] => true | _ => false end.

(* the declarative evaluator: no events, no machine *)
Fixpoint deval (r : list (vertex P)) (c : jctx) : list jctx :=
  match r with
  | [] => [c]
  | VRec :: r' =>
      if is_container c
      then deval r' c ++
           flat_map (fun c' => if is_container c' then deval r' c' else if leafb r' then [c'] else [])
                    (below c (cdata c))
      else []
  | v :: r' => flat_map (deval r') (select v c)
  end.

Lemma flat_map_map' {A B C} (f : B -> list C) (g : A -> B) l : flat_map f (map g l) = flat_map (fun x => f (g x)) l.
Proof. induction l as [|a l IH]; [reflexivity|]. simpl. rewrite IH. reflexivity. Qed.

Lemma flat_map_ext_in {A B} (f g : A -> list B) l : (forall a, f a = g a) -> flat_map f l = flat_map g l.
Proof. intros H. induction l as [|a l IH]; [reflexivity|]. simpl. rewrite H, IH. reflexivity. Qed.

Lemma go_results i r pm c c' :
  ok (sem (S i) r pm c') ->
  ok (rseq (rev1 (STrace c (Some c') (S i) pm)) (sem (S i) r pm c')) /\
  sresults (fst (rseq (rev1 (STrace c (Some c') (S i) pm)) (sem (S i) r pm c'))) = sresults (fst (sem (S i) r pm c')).
Proof.
  intros H. destruct (ok_rseq (rev1 (STrace c (Some c') (S i) pm)) _ (ok_rev1 _) H) as [H1 H2].
  split; [exact H1|]. rewrite H2. reflexivity.
Qed.

(* sem computes deval *)
Theorem sem_deval :
  forall r, pure_sev r -> valid_path r = true ->
  forall i pm c, ok (sem i r pm c) /\ sresults (fst (sem i r pm c)) = deval r c.
Proof.
  induction r as [|v r IH]; intros Hpure Hvalid i pm c; [split; reflexivity|].
  simpl in Hvalid. apply andb_prop in Hvalid. destruct Hvalid as [Hv Hr].
  specialize (IH (fun p c Hin => Hpure p c (or_intror Hin)) Hr).
  assert (Hgo : forall c', ok (rseq (rev1 (STrace c (Some c') (S i) pm)) (sem (S i) r pm c')) /\
                            sresults (fst (rseq (rev1 (STrace c (Some c') (S i) pm)) (sem (S i) r pm c'))) = deval r c').
  { intros c'. destruct (IH (S i) pm c') as [H1 H2]. destruct (go_results i r pm c c' H1) as [H3 H4].
    split; [exact H3 | rewrite H4; exact H2]. }
  assert (Hnone : ok (rev1 (STrace c None (S i) pm)) /\ sresults (fst (rev1 (STrace c None (S i) pm))) = []) by (split; reflexivity).
  destruct v as [k | z | a b c0 | l | | | dot | | | p]; cbn [Spec.sem deval].
  - (* key *) unfold select. destruct (jshape (cdata c)) as [its|its|]; [destruct (assoc k its)| |];
      cbn [flat_map]; rewrite ?app_nil_r; first [apply Hgo | exact Hnone].
  - (* index *) unfold select. destruct (jshape (cdata c)) as [its|its|]; [|destruct (list_get its z)|];
      cbn [flat_map]; rewrite ?app_nil_r; first [apply Hgo | exact Hnone].
  - (* slice *) unfold select. destruct (items_for_valid (VSlice a b c0) (cdata c) Hv) as [[its|] ->]; [|exact Hnone].
    assert (Hall : Forall ok (map (fun ix => rseq (rev1 (STrace c (Some (ext c (fst ix) (snd ix))) (S i) pm)) (sem (S i) r pm (ext c (fst ix) (snd ix)))) its))
      by (rewrite Forall_map, Forall_forall; intros ix _; apply Hgo).
    destruct (ok_rconcat _ Hall) as [H1 H2]. destruct (ok_rseq _ _ H1 (proj1 Hnone)) as [H3 H4].
    split; [exact H3|]. rewrite H4, sresults_app, H2, sresults_concat. simpl. rewrite app_nil_r, !map_map.
    rewrite concat_map_flat_map, flat_map_map'.
    apply flat_map_ext_in. intros ix. apply Hgo.
  - (* tuple *) unfold select. destruct (items_for_valid (VTuple l) (cdata c) Hv) as [[its|] ->]; [|exact Hnone].
    assert (Hall : Forall ok (map (fun ix => rseq (rev1 (STrace c (Some (ext c (fst ix) (snd ix))) (S i) pm)) (sem (S i) r pm (ext c (fst ix) (snd ix)))) its))
      by (rewrite Forall_map, Forall_forall; intros ix _; apply Hgo).
    destruct (ok_rconcat _ Hall) as [H1 H2]. destruct (ok_rseq _ _ H1 (proj1 Hnone)) as [H3 H4].
    split; [exact H3|]. rewrite H4, sresults_app, H2, sresults_concat. simpl. rewrite app_nil_r, !map_map.
    rewrite concat_map_flat_map, flat_map_map'.
    apply flat_map_ext_in. intros ix. apply Hgo.
  - (* key wildcard *) unfold select. destruct (items_for_valid VKeyWild (cdata c) Hv) as [[its|] ->]; [|exact Hnone].
    assert (Hall : Forall ok (map (fun ix => rseq (rev1 (STrace c (Some (ext c (fst ix) (snd ix))) (S i) pm)) (sem (S i) r pm (ext c (fst ix) (snd ix)))) its))
      by (rewrite Forall_map, Forall_forall; intros ix _; apply Hgo).
    destruct (ok_rconcat _ Hall) as [H1 H2]. destruct (ok_rseq _ _ H1 (proj1 Hnone)) as [H3 H4].
    split; [exact H3|]. rewrite H4, sresults_app, H2, sresults_concat. simpl. rewrite app_nil_r, !map_map.
    rewrite concat_map_flat_map, flat_map_map'.
    apply flat_map_ext_in. intros ix. apply Hgo.
  - (* index wildcard *) unfold select. destruct (items_for_valid VIdxWild (cdata c) Hv) as [[its|] ->]; [|exact Hnone].
    assert (Hall : Forall ok (map (fun ix => rseq (rev1 (STrace c (Some (ext c (fst ix) (snd ix))) (S i) pm)) (sem (S i) r pm (ext c (fst ix) (snd ix)))) its))
      by (rewrite Forall_map, Forall_forall; intros ix _; apply Hgo).
    destruct (ok_rconcat _ Hall) as [H1 H2]. destruct (ok_rseq _ _ H1 (proj1 Hnone)) as [H3 H4].
    split; [exact H3|]. rewrite H4, sresults_app, H2, sresults_concat. simpl. rewrite app_nil_r, !map_map.
    rewrite concat_map_flat_map, flat_map_map'.
    apply flat_map_ext_in. intros ix. apply Hgo.
  - (* generic wildcard *) unfold select. destruct (items_for_valid (VGenWild dot) (cdata c) Hv) as [[its|] ->]; [|exact Hnone].
    assert (Hall : Forall ok (map (fun ix => rseq (rev1 (STrace c (Some (ext c (fst ix) (snd ix))) (S i) pm)) (sem (S i) r pm (ext c (fst ix) (snd ix)))) its))
      by (rewrite Forall_map, Forall_forall; intros ix _; apply Hgo).
    destruct (ok_rconcat _ Hall) as [H1 H2]. destruct (ok_rseq _ _ H1 (proj1 Hnone)) as [H3 H4].
    split; [exact H3|]. rewrite H4, sresults_app, H2, sresults_concat. simpl. rewrite app_nil_r, !map_map.
    rewrite concat_map_flat_map, flat_map_map'.
    apply flat_map_ext_in. intros ix. apply Hgo.
  - (* recursive descent *)
    unfold is_container. destruct (members (cdata c)) as [its|] eqn:Hm; [|exact Hnone].
    destruct (Hgo c) as [G1 G2].
    destruct (rec_children_results (S i) pm (sem (S i) r pm) (match r with [] => true | _ :: _ => false end)
                (fun c' => proj1 (IH (S i) pm c')) (cdata c) c) as [R1 R2].
    destruct (ok_rseq _ _ G1 R1) as [H3 H4]. split; [exact H3|].
    rewrite H4, sresults_app, G2, R2. f_equal. apply flat_map_ext_in. intros c'.
    unfold walk_results, is_container, leafb. destruct (members (cdata c')); [apply IH | reflexivity].
  - (* parent *) unfold select. destruct (ext_parent c); cbn [flat_map]; rewrite ?app_nil_r; first [apply Hgo | exact Hnone].
  - (* filter *)
    unfold select. destruct (Hpure p c (or_introl eq_refl)) as [[val Hval] Hnr].
    destruct (sev p c) as [o es]. simpl in Hval, Hnr. subst o. simpl.
    destruct (truthy val).
    + destruct (Hgo c) as [G1 G2]. destruct (ok_rseq (es, None) _ eq_refl G1) as [H3 H4].
      split; [exact H3|]. rewrite sresults_app, Hnr, G2. simpl. rewrite app_nil_r. reflexivity.
    + destruct (ok_rseq (es, None) _ eq_refl (proj1 Hnone)) as [H3 H4].
      split; [exact H3|]. rewrite sresults_app, Hnr. reflexivity.
Qed.

(* ------------------------------------------------------------------ compositionality *)
Definition is_rec (v : vertex P) : bool := match v with VRec => true | _ => false end.
Fixpoint ends_rec (p : list (vertex P)) : bool :=
  match p with
  | [] => false
  | v :: r => match r with [] => is_rec v | _ => ends_rec r end
  end.

Lemma flat_map_flat_map {A B C} (f : A -> list B) (g : B -> list C) l :
  flat_map g (flat_map f l) = flat_map (fun a => flat_map g (f a)) l.
Proof. induction l as [|a l IH]; [reflexivity|]. simpl. rewrite flat_map_app, IH. reflexivity. Qed.

Lemma deval_cons_nonrec v r c : is_rec v = false -> deval (v :: r) c = flat_map (deval r) (select v c).
Proof. destruct v; simpl; intros H; try discriminate; reflexivity. Qed.

(* evaluating p ++ q is evaluating q from every result of p, in order: unless p ends in a recursive step,
   whose scalar results are results only when nothing follows *)
Theorem deval_app p q :
  ends_rec p = false ->
  forall c, deval (p ++ q) c = flat_map (deval q) (deval p c).
Proof.
  induction p as [|v p IH]; intros Hend c.
  - simpl. rewrite app_nil_r. reflexivity.
  - assert (Hp : p <> [] -> ends_rec p = false) by (intros Hne; simpl in Hend; destruct p; [congruence | exact Hend]).
    destruct (is_rec v) eqn:Hv.
    + (* recursive step: something follows it inside p *)
      destruct v; try discriminate Hv.
      assert (Hne : p <> []) by (intros ->; simpl in Hend; discriminate).
      specialize (IH (Hp Hne)).
      assert (Hl1 : leafb (p ++ q) = false) by (destruct p; [congruence | reflexivity]).
      assert (Hl2 : leafb p = false) by (destruct p; [congruence | reflexivity]).
      cbn [app deval]. rewrite Hl1, Hl2.
      destruct (is_container c); [|reflexivity].
      rewrite flat_map_app, IH. f_equal.
      rewrite flat_map_flat_map. apply flat_map_ext_in. intros c'.
      destruct (is_container c'); [apply IH | reflexivity].
    + rewrite <- app_comm_cons. rewrite !deval_cons_nonrec by exact Hv.
      rewrite flat_map_flat_map. apply flat_map_ext_in. intros c'.
      destruct p as [|v' p'].
      * simpl. rewrite app_nil_r. reflexivity.
      * apply IH. apply Hp. discriminate.
Qed.

End Lemmas.
