(* Iterate.v -- the iterator protocol on top of NextLayer: a complete run of the machine, cut at its
   result events, is what successive next() calls deliver, one result each, followed by the final
   StopIteration (or the exception of a failing filter); nothing is computed ahead; done is absorbing. *)
From Coq Require Import List ZArith String Bool PArith Lia FMapPositive.
From TP Require Import Json PyPrim Machine Spec.
From TP.proofs Require Import RefineBase NextLayer.
Import ListNotations.
Close Scope Z_scope.
Open Scope list_scope.

Definition is_res (e : jevent) : bool := match e with EvResult _ => true | _ => false end.
Definition ev_results (es : list jevent) : list jtm :=
  flat_map (fun e => match e with EvResult m => [m] | _ => [] end) es.

Lemma ev_results_app a b : ev_results (a ++ b) = ev_results a ++ ev_results b.
Proof. unfold ev_results. apply flat_map_app. Qed.

Section Iterate.
Variable P : Type.
Variable ev : P -> jtm -> @tracecfg json -> res json * list jevent.
Variable src : @source json.
Variable vp : list (vertex P).
Variable tr : @tracecfg json.

(* predicates never hand results of their nested searches to the outer stream *)
Hypothesis ev_quiet : forall p m, ev_results (snd (ev p m tr)) = [].

Notation step1 := (step jshape P ev src vp tr).
Notation run := (run P ev src vp tr).
Notation quiet := (quiet P ev src vp tr).
Notation nextB B := (next jshape P ev B src vp tr).

Lemma trace_ev_noresult m r i : ev_results (trace_ev tr m r i) = [].
Proof. unfold trace_ev. destruct tr; reflexivity. Qed.

Lemma vmatch_quiet v m i s n r s' n' evs :
  vmatch jshape P ev v m i tr s n = (r, s', n', evs) -> ev_results evs = [].
Proof.
  intros Hv. destruct v as [k | i0 | a b0 c0 | l | | | dot | | | p]; simpl in Hv.
  1-9: (unfold multi, pop_next, vrec in Hv;
        repeat match type of Hv with
               | context [match ?x with _ => _ end] => destruct x
               end; injection Hv as <- <- <- <-; reflexivity).
  pose proof (ev_quiet p m) as Hq. destruct (ev p m tr) as [[val|e] es0]; simpl in Hq.
  - destruct (truthy val); injection Hv as <- <- <- <-; exact Hq.
  - injection Hv as <- <- <- <-; exact Hq.
Qed.

Lemma step_raise_quiet z e z2 ev2 : step1 z = SRaise e z2 ev2 -> ev_results ev2 = [].
Proof.
  unfold step. destruct (pc z).
  - discriminate.
  - destruct (cur z) as [m|]; [|intros H; injection H as <- <- <-; reflexivity].
    destruct (Nat.eqb (tvx m) (List.length vp)); discriminate.
  - destruct (cur z) as [m|]; [|intros H; injection H as <- <- <-; reflexivity].
    destruct (nth_error vp (tvi m)) as [v|]; [|intros H; injection H as <- <- <-; reflexivity].
    destruct (vmatch jshape P ev v m (S (tvi m)) tr (st z) (nid z)) as [[[r s'] n'] evs] eqn:Hv.
    pose proof (vmatch_quiet _ _ _ _ _ _ _ _ _ Hv) as Hq.
    destruct r as [[c|]|e0]; intros H; try discriminate. injection H as <- <- <-. exact Hq.
  - destruct (cur z) as [m|]; [discriminate | intros H; injection H as <- <- <-; reflexivity].
  - intros H; injection H as <- <- <-; reflexivity.
Qed.

(* what a single action can emit, and when it reports *)
Lemma step_shape z z' es b :
  step1 z = SNext z' es b ->
  (b = true /\ exists m, es = [EvResult m] /\ cur z' = Some m) \/ (b = false /\ ev_results es = []).
Proof.
  unfold step. destruct (pc z).
  - intros H; injection H as <- <- <-. right; auto.
  - destruct (cur z) as [m|]; [|discriminate].
    destruct (Nat.eqb (tvx m) (List.length vp)); intros H; injection H as <- <- <-.
    + left. split; [reflexivity|]. exists m. auto.
    + right; auto.
  - destruct (cur z) as [m|]; [|discriminate].
    destruct (nth_error vp (tvi m)) as [v|]; [|discriminate].
    destruct (vmatch jshape P ev v m (S (tvi m)) tr (st z) (nid z)) as [[[r s'] n'] evs] eqn:Hv.
    pose proof (vmatch_quiet _ _ _ _ _ _ _ _ _ Hv) as Hevs.
    destruct r as [[c|]|e]; intros H; try discriminate; injection H as <- <- <-; right; split; auto;
      rewrite ev_results_app, Hevs, trace_ev_noresult; reflexivity.
  - destruct (cur z) as [m|]; [|discriminate]. intros H; injection H as <- <- <-. right; auto.
  - discriminate.
Qed.

(* cut a run at its first result *)
Lemma run_split k z evs z1 :
  run k z evs z1 ->
  (quiet k z evs z1 /\ ev_results evs = []) \/
  (exists k1 k2 e1 za zb m e2,
      quiet k1 z e1 za /\ ev_results e1 = [] /\ step1 za = SNext zb [EvResult m] true /\ cur zb = Some m /\
      run k2 zb e2 z1 /\ k = k1 + 1 + k2 /\ evs = e1 ++ [EvResult m] ++ e2).
Proof.
  induction 1 as [z | k z z1 ev1 b z2 ev2 Hs Hr IH].
  - left. split; [constructor | reflexivity].
  - destruct (step_shape _ _ _ _ Hs) as [(-> & m & -> & Hc) | (-> & Hq)].
    + right. exists 0, k, [], z, z1, m, ev2. repeat split; auto. constructor.
    + destruct IH as [(Hq2 & Hn2) | (k1 & k2 & e1 & za & zb & m & e2 & Hq1 & Hn1 & Hsa & Hc & Hr2 & -> & ->)].
      * left. split; [econstructor; eauto | rewrite ev_results_app, Hq, Hn2; reflexivity].
      * right. exists (S k1), k2, (ev1 ++ e1), za, zb, m, e2.
        split; [econstructor; eauto|]. split; [rewrite ev_results_app, Hq, Hn1; reflexivity|].
        repeat split; auto. rewrite <- app_assoc. reflexivity.
Qed.

(* successive next() calls: outcome and events of each, until the first exception *)
Fixpoint drain (fuel : nat) (B : positive) (z : jstate) : list (@outcome json * list jevent) :=
  match fuel with
  | O => []
  | S f => match nextB B z with
           | (OResult m, z', es) => (OResult m, es) :: drain f B z'
           | (ORaise e, _, es) => [(ORaise e, es)]
           end
  end.

Definition outcomes (l : list (@outcome json * list jevent)) := map fst l.
Definition all_events (l : list (@outcome json * list jevent)) := List.concat (map snd l).

(* the events of a next() that yields m: everything up to and including that result, and no other result *)
Definition lazy_item (x : @outcome json * list jevent) : Prop :=
  match fst x with
  | OResult m => exists es0, snd x = es0 ++ [EvResult m] /\ ev_results es0 = []
  | ORaise _ => True
  end.

(* a complete run that ends in a raising action (StopIteration of the done state, or a failing filter), within
   the budget: next() delivers its results one by one, in order, each with exactly the events up to it *)
Theorem drain_run B :
  forall k z evs z1 e z2 ev2 fuel,
    run k z evs z1 -> step1 z1 = SRaise e z2 ev2 -> k < Pos.to_nat B ->
    List.length (ev_results evs) < fuel ->
    outcomes (drain fuel B z) = map (fun m => OResult m) (ev_results evs) ++ [ORaise e] /\
    all_events (drain fuel B z) = evs ++ ev2 /\
    Forall lazy_item (drain fuel B z).
Proof.
  induction k as [k IHk] using lt_wf_ind. intros z evs z1 e z2 ev2 fuel Hrun Hs HB Hfuel.
  destruct fuel as [|fuel]; [lia|].
  destruct (run_split _ _ _ _ Hrun) as [(Hq & Hn) | (k1 & k2 & e1 & za & zb & m & e2 & Hq1 & Hn1 & Hsa & Hc & Hr2 & -> & ->)].
  - cbn [drain]. rewrite (next_raise P ev src vp tr B k z evs z1 z2 e ev2 Hq Hs HB). rewrite Hn. simpl.
    unfold all_events. simpl. rewrite app_nil_r. repeat split; auto. constructor; [exact I | constructor].
  - cbn [drain].
    rewrite (next_result P ev src vp tr B k1 z e1 za zb m Hq1 Hsa Hc) by (unfold within; lia).
    rewrite !ev_results_app, Hn1 in *. cbn [ev_results flat_map app] in *. simpl in Hfuel.
    destruct (IHk k2 ltac:(lia) zb e2 z1 e z2 ev2 fuel Hr2 Hs ltac:(lia) ltac:(simpl in Hfuel; lia)) as (Ho & He & Hl).
    split; [|split].
    + unfold outcomes in *. simpl. rewrite Ho. reflexivity.
    + unfold all_events in *. simpl. rewrite He. rewrite <- !app_assoc. reflexivity.
    + constructor; [|exact Hl]. red. simpl. exists e1. auto.
Qed.

(* once next() has raised StopIteration from the done state it does so again, and nothing changes *)
Theorem done_absorbing B z :
  pc z = PDone -> nextB B z = (ORaise EStop, z, []).
Proof.
  intros Hpc.
  assert (Hs : step1 z = SRaise EStop z []) by (unfold step; rewrite Hpc; reflexivity).
  rewrite (next_raise P ev src vp tr B 0 z [] z z EStop [] (quiet_nil _ _ _ _ _ z) Hs) by lia.
  reflexivity.
Qed.

End Iterate.
