(* ExnTaxonomy.v -- which exceptions get_match can end in (C16).
   For a path of supported steps, get_match from a document or from a well-formed Match either answers, or raises
   MatchNotFoundError / NestedMatchNotFoundError (only when must_match is set), or TraversingError wrapping the
   exception of a filter, or the budget exception; never a bare KeyError, IndexError, TypeError or AttributeError. *)
From Coq Require Import List ZArith String Bool PArith Lia.
From TP Require Import Json PyPrim Machine Api Spec SpecHas.
From TP.proofs Require Import RefineBase Refine NextLayer Iterate WfRun Query SpecLemmas Top HasScan HasLoop HasRefine ApiTop
     HasLemmas FirstNext.
Import ListNotations.

Section Taxonomy.
Variable B H : positive.
Variable depth : nat.
Notation hp := (@hpred json).
Notation get_match := (@get_match json jshape (fun d => d) B H depth).

Definition documented (src : @source json) (must : bool) (e : exn) : Prop :=
  (must = true /\ e = not_found src) \/ (exists c, e = ETraversing c) \/ budget_exn e = true.

Theorem get_match_exceptions (src : @source json) (p : list (vertex hp)) (must : bool) (tr : @tracecfg json) e :
  src_wf src -> valid_path hp p = true ->
  fst (get_match src p must tr) = Exn e -> documented src must e.
Proof.
  intros Hsrc Hv Hr.
  pose proof (get_match_spec B H depth src p must tr Hsrc) as Hs. cbv zeta in Hs.
  pose proof (sem_exn_traversing (seval_h depth) p Hv 0 (pmc tr) (abs (root_match src))) as Hok.
  destruct Hs as [(m & Hm & _) | [(Hn & _ & _) | [(e' & He' & _ & Hn) | (e' & Hb & Hbud)]]].
  - rewrite Hm in Hr. discriminate.
  - rewrite Hn in Hr. destruct must; [|discriminate]. injection Hr as <-. left. auto.
  - unfold answer in He'. rewrite He' in Hok. destruct Hok as (c & ->).
    rewrite Hn in Hr. injection Hr as <-. right. left. eauto.
  - rewrite Hb in Hr. injection Hr as <-. right. right. exact Hbud.
Qed.

(* in particular none of Python's bare lookup / type errors *)
Corollary get_match_no_bare_error (src : @source json) (p : list (vertex hp)) (must : bool) (tr : @tracecfg json) e :
  src_wf src -> valid_path hp p = true ->
  fst (get_match src p must tr) = Exn e ->
  e <> EKey /\ e <> EIndex /\ e <> EType /\ e <> EAttr /\ e <> EValue.
Proof.
  intros Hsrc Hv Hr.
  destruct (get_match_exceptions src p must tr e Hsrc Hv Hr) as [(_ & ->) | [(c & ->) | Hb]].
  - destruct src; repeat split; discriminate.
  - repeat split; discriminate.
  - repeat split; intros ->; discriminate.
Qed.

(* get: the same, and with a default the not-found error is impossible too *)
Theorem get_exceptions (src : @source json) (p : list (vertex hp)) (dflt : @default) (tr : @tracecfg json) e :
  src_wf src -> valid_path hp p = true ->
  fst (@get json jshape (fun d => d) B H depth src p dflt tr) = Exn e ->
  (dflt = DNotSet /\ e = not_found src) \/ (exists c, e = ETraversing c) \/ budget_exn e = true.
Proof.
  intros Hsrc Hv Hr. unfold get in Hr.
  set (must := match dflt with DNotSet => true | _ => false end) in *.
  pose proof (get_match_exceptions src p must tr) as Hg.
  pose proof (get_match_must B H depth src p tr) as Hmust.
  destruct (get_match src p must tr) as [[[m|]|e0] es] eqn:E; cbn [fst] in *.
  - discriminate.
  - destruct dflt; try discriminate. subst must. exfalso. exact (Hmust _ _ E eq_refl).
  - injection Hr as <-. destruct (Hg e0 Hsrc Hv eq_refl) as [(Hm & ->) | [Ht | Hb]]; auto.
    left. split; [|reflexivity]. destruct dflt; [reflexivity | discriminate Hm | discriminate Hm].
Qed.

End Taxonomy.

(* ------------------------------------------------------------------ assignment *)
From TP Require Import Mutate SpecSet.
From TP.proofs Require Import MutateProofs CsetLemmas CascadeRefine.

Section SetTaxonomy.
Variable B H : positive.
Variable depth : nat.

(* set_ without cascade on a path of keys and indices, on a document with unique identity labels: the only exceptions
   are SetError (a missing parent, a parent of the wrong kind, an index out of range) and the budget exception *)
Theorem set_match_plain_exceptions fuel d0 doc pp v x tr nl e doc' nl' es :
  kipath (pp ++ [v]) = true -> NoDup (labels doc) ->
  Mutate.set_match B H depth (S fuel) (SrcDoc d0) doc (pp ++ [v]) x false tr nl = (Exn e, doc', nl', es) ->
  e = ESet \/ budget_exn e = true.
Proof.
  intros Hk Hnd Hsm. destruct (kipath_snoc _ _ Hk) as [Hkpp Hkv].
  cbn [Mutate.set_match] in Hsm.
  assert (Hsp : split_last (pp ++ [v]) = Some (pp, v)).
  { clear. induction pp as [|w r IH]; [reflexivity|]. cbn [app split_last]. rewrite IH. destruct (r ++ [v]) eqn:E; [destruct r; discriminate | reflexivity]. }
  rewrite Hsp in Hsm.
  pose proof (get_match_ki B H depth doc pp tr Hkpp) as Hg. cbv zeta in Hg.
  destruct (jget_match B H depth (SrcDoc doc) pp true tr) as [rg es0]. cbn [fst] in Hg.
  destruct Hg as [(pm & -> & Hl) | [(-> & Hl) | (e0 & -> & Hb)]].
  - assert (Hone : forall i, label_of (tdata pm) = Some i -> cnt (labels doc) i = 1).
    { intros i Hi. pose proof (lookup_cnt _ _ _ _ Hl Hi). pose proof (proj1 (NoDup_count_occ Nat.eq_dec (labels doc)) Hnd i). lia. }
    rewrite (leaf_set_store doc pm v x pp (tdata pm) Hkv Hl eq_refl Hone) in Hsm.
    destruct (store v x (tdata pm)) as [y'|] eqn:Hs; [discriminate|]. injection Hsm as <- _ _ _. left. reflexivity.
  - injection Hsm as <- _ _ _. left. reflexivity.
  - destruct e0; try discriminate Hb; injection Hsm as <- _ _ _; right; exact Hb.
Qed.

End SetTaxonomy.
