(* HasLoop.v -- has_loop / get_match-in-a-predicate over the run of the nested machine: the loop over next()
   calls (each with its budget, the loop with its fuel) computes the scan of the nested events up to the first
   selected value passing the test, or ends in a budget exception. *)
From Coq Require Import List ZArith String Bool PArith Lia FMapPositive.
From TP Require Import Json PyPrim Machine Api Spec SpecHas.
From TP.proofs Require Import RefineBase Refine NextLayer Iterate WfRun HasScan.
Import ListNotations.
Close Scope Z_scope.
Open Scope list_scope.

Lemma nested_events_quiet (es : list jevent) : ev_results es = [] -> nested_events es = es.
Proof.
  induction es as [|e es IH]; [reflexivity|]. destruct e; simpl; intros H; try (rewrite IH by exact H; reflexivity).
  discriminate.
Qed.

Lemma nested_events_app (a b : list jevent) : nested_events (a ++ b) = nested_events a ++ nested_events b.
Proof. unfold nested_events. apply filter_app. Qed.

Lemma noresult_m_result (es : list jevent) : ev_results es = [] -> forall e, In e es -> m_result e = None.
Proof.
  induction es as [|x es IH]; intros H e Hin; [destruct Hin|]. destruct Hin as [<- | Hin].
  - destruct x; try reflexivity. discriminate.
  - apply IH; [|exact Hin]. destruct x; simpl in H; try exact H. discriminate.
Qed.

Section Loop.
Variable B H : positive.
Variable ev : (@hpred json) -> jtm -> @tracecfg json -> res json * list jevent.
Variable m : jtm.
Variable p : list (vertex (@hpred json)).
Variable tr' : @tracecfg json.
Hypothesis ev_quiet : forall q m0, ev_results (snd (ev q m0 tr')) = [].

Notation src := (SrcMatch m).
Notation step1 := (step jshape (@hpred json) ev src p tr').
Notation run := (run (@hpred json) ev src p tr').
Notation quiet := (quiet (@hpred json) ev src p tr').
Notation nextB := (next jshape (@hpred json) ev B src p tr').

Lemma quiet_prefix k z evs z1 :
  quiet k z evs z1 -> forall j, j < k ->
  exists zj ej zj' e', quiet j z ej zj /\ step1 zj = SNext zj' e' false.
Proof.
  induction 1 as [z | k z za ev1 zb ev2 Hs Hq IH]; intros j Hj; [lia|].
  destruct j as [|j].
  - exists z, [], za, ev1. split; [constructor | exact Hs].
  - destruct (IH j ltac:(lia)) as (zj & ej & zj' & e' & Hqj & Hsj).
    exists zj, (ev1 ++ ej), zj', e'. split; [econstructor; eauto | exact Hsj].
Qed.

(* a quiet stretch of at least B actions: the next() that performs it raises InfiniteLoopDetected *)
Lemma next_over k z evs z1 :
  quiet k z evs z1 -> Pos.to_nat B <= k -> exists z' es, nextB z = (ORaise EInfiniteLoop, z', es).
Proof.
  intros Hq HB.
  destruct (quiet_prefix k z evs z1 Hq (Pos.to_nat B - 1)) as (zj & ej & zj' & e' & Hqj & Hsj); [lia|].
  eexists; eexists. eapply next_budget; eauto. lia.
Qed.

Section Has.
Variable op : option (cmpop * json).
Variable fs : list fn.
Notation body := (@has_body json jshape (fun d => d) B ev p op fs m tr').
Notation tm_test := (@has_test json (fun d => d) op fs).

Definition final (e : exn) : res json := match e with EStop => Ok (JBool false) | _ => Exn e end.

Lemma has_iter : forall k z evs z1 e z2 ev2 acc fuel,
  run k z evs z1 -> step1 z1 = SRaise e z2 ev2 ->
  match iter_nat body fuel (z, acc) with
  | inr (o, es) =>
      (o = (match snd (scan2 m_result tm_test (evs ++ ev2)) with Some o' => o' | None => final e end) /\
       es = acc ++ fst (scan2 m_result tm_test (evs ++ ev2)))
      \/ (exists e', o = Exn e' /\ budget_exn e' = true)
  | inl _ => True
  end.
Proof.
  induction k as [k IHk] using lt_wf_ind. intros z evs z1 e z2 ev2 acc fuel Hrun Hs.
  destruct fuel as [|fuel]; [exact I|]. cbn [iter_nat]. unfold has_body at 1.
  pose proof (step_raise_quiet (@hpred json) ev src p tr' ev_quiet _ _ _ _ Hs) as Hq2.
  destruct (run_split (@hpred json) ev src p tr' ev_quiet _ _ _ _ Hrun)
    as [(Hq & Hn) | (k1 & k2 & e1 & za & zb & m1 & e2 & Hq1 & Hn1 & Hsa & Hc & Hr2 & -> & ->)].
  - (* no result before the end of the nested run *)
    destruct (le_lt_dec (Pos.to_nat B) k) as [Hover | Hin].
    + destruct (next_over k z evs z1 Hq Hover) as (z' & es & Hnx). rewrite Hnx. right. exists EInfiniteLoop. auto.
    + rewrite (next_raise (@hpred json) ev src p tr' B k z evs z1 z2 e ev2 Hq Hs Hin).
      assert (Hnr : ev_results (evs ++ ev2) = []) by (rewrite ev_results_app, Hn, Hq2; reflexivity).
      rewrite (scan2_noresult m_result tm_test (evs ++ ev2) (noresult_m_result _ Hnr)).
      rewrite (nested_events_quiet _ Hnr). simpl.
      destruct e; left; split; reflexivity.
  - (* a first result m1 after k1 quiet actions *)
    assert (Hshape : scan2 m_result tm_test ((e1 ++ [EvResult m1] ++ e2) ++ ev2) =
                     let '(t, tes) := tm_test (tdata m1) in
                     match t with
                     | Ok true => (e1 ++ tes, Some (Ok (JBool true)))
                     | Ok false => let '(es', d) := scan2 m_result tm_test (e2 ++ ev2) in (e1 ++ tes ++ es', d)
                     | Exn ex => (e1 ++ tes, Some (Exn ex))
                     end).
    { rewrite <- !app_assoc. rewrite scan2_app.
      rewrite (scan2_noresult m_result tm_test e1 (noresult_m_result _ Hn1)).
      cbn [app scan2 m_result]. destruct (tm_test (tdata m1)) as [[[|]|ex] tes]; try reflexivity.
      destruct (scan2 m_result tm_test (e2 ++ ev2)). reflexivity. }
    destruct (lt_eq_lt_dec (S k1) (Pos.to_nat B)) as [[Hlt | Heq] | Hgt].
    + rewrite (next_result (@hpred json) ev src p tr' B k1 z e1 za zb m1 Hq1 Hsa Hc) by (unfold within; lia).
      rewrite Hshape. rewrite nested_events_app, (nested_events_quiet _ Hn1). cbn [nested_events filter]. rewrite app_nil_r.
      destruct (tm_test (tdata m1)) as [[[|]|ex] tes].
      * left. split; [reflexivity | rewrite <- ?app_assoc; reflexivity].
      * specialize (IHk k2 ltac:(lia) zb e2 z1 e z2 ev2 (acc ++ e1 ++ tes) fuel Hr2 Hs).
        destruct (iter_nat body fuel (zb, acc ++ e1 ++ tes)) as [a | [o es]]; [exact I|].
        destruct (scan2 m_result tm_test (e2 ++ ev2)) as [sh d]. simpl in *.
        destruct IHk as [[Ho He] | Hb]; [left | right; exact Hb].
        split; [exact Ho | rewrite He, <- !app_assoc; reflexivity].
      * left. split; [reflexivity | rewrite <- ?app_assoc; reflexivity].
    + rewrite (next_budget (@hpred json) ev src p tr' B k1 z e1 za zb [EvResult m1] true Hq1 Hsa Heq).
      right. exists EInfiniteLoop. auto.
    + destruct (next_over k1 z e1 za Hq1 ltac:(lia)) as (z' & es & Hnx). rewrite Hnx. right. exists EInfiniteLoop. auto.
Qed.

(* has_loop itself: the scan, or a budget exception (of a nested next(), of the search below, or the loop's own fuel) *)
Theorem has_loop_scan k evs z1 e z2 ev2 :
  run k init_state evs z1 -> step1 z1 = SRaise e z2 ev2 ->
  let r := @has_loop json jshape (fun d => d) B H ev p op fs m tr' in
  (fst r = (match snd (scan2 m_result tm_test (evs ++ ev2)) with Some o' => o' | None => final e end) /\
   snd r = fst (scan2 m_result tm_test (evs ++ ev2)))
  \/ (exists e', fst r = Exn e' /\ budget_exn e' = true).
Proof.
  intros Hrun Hs. unfold has_loop. rewrite iter_until_nat.
  pose proof (has_iter k init_state evs z1 e z2 ev2 [] (Pos.to_nat H) Hrun Hs) as Hi.
  destruct (iter_nat body (Pos.to_nat H) (init_state, [])) as [[za acc] | [o es]].
  - right. exists EFuel. auto.
  - destruct Hi as [[Ho He] | Hb]; [left | right; exact Hb]. simpl in He. auto.
Qed.

End Has.

(* lambda m: get_match(p, m, must_match=must): one next() *)
Theorem getmatch_scan must k evs z1 e z2 ev2 :
  run k init_state evs z1 -> step1 z1 = SRaise e z2 ev2 ->
  let r := @getmatch_pred json jshape B ev p must m tr' in
  let sc := scan2 m_result (fun _ => (Ok true, [])) (evs ++ ev2) in
  (fst r = (match snd sc with
            | Some o' => o'
            | None => match e with EStop => if must then Exn ENestedMatchNotFound else Ok JNull | _ => Exn e end
            end) /\ snd r = fst sc)
  \/ (exists e', fst r = Exn e' /\ budget_exn e' = true).
Proof.
  intros Hrun Hs. unfold getmatch_pred.
  pose proof (step_raise_quiet (@hpred json) ev src p tr' ev_quiet _ _ _ _ Hs) as Hq2.
  destruct (run_split (@hpred json) ev src p tr' ev_quiet _ _ _ _ Hrun)
    as [(Hq & Hn) | (k1 & k2 & e1 & za & zb & m1 & e2 & Hq1 & Hn1 & Hsa & Hc & Hr2 & -> & ->)].
  - destruct (le_lt_dec (Pos.to_nat B) k) as [Hover | Hin].
    + destruct (next_over k init_state evs z1 Hq Hover) as (z' & es & Hnx). rewrite Hnx. right. exists EInfiniteLoop. auto.
    + rewrite (next_raise (@hpred json) ev src p tr' B k init_state evs z1 z2 e ev2 Hq Hs Hin).
      assert (Hnr : ev_results (evs ++ ev2) = []) by (rewrite ev_results_app, Hn, Hq2; reflexivity).
      rewrite (scan2_noresult m_result _ (evs ++ ev2) (noresult_m_result _ Hnr)).
      rewrite (nested_events_quiet _ Hnr). simpl. destruct e; left; split; reflexivity.
  - assert (Hshape : scan2 m_result (fun _ : json => (Ok true, @nil jevent)) ((e1 ++ [EvResult m1] ++ e2) ++ ev2) =
                     (e1, Some (Ok (JBool true)))).
    { rewrite <- !app_assoc. rewrite scan2_app.
      rewrite (scan2_noresult m_result _ e1 (noresult_m_result _ Hn1)). cbn [app scan2 m_result]. rewrite app_nil_r. reflexivity. }
    destruct (lt_eq_lt_dec (S k1) (Pos.to_nat B)) as [[Hlt | Heq] | Hgt].
    + rewrite (next_result (@hpred json) ev src p tr' B k1 init_state e1 za zb m1 Hq1 Hsa Hc) by (unfold within; lia).
      rewrite Hshape. rewrite nested_events_app, (nested_events_quiet _ Hn1). cbn [nested_events filter]. rewrite app_nil_r.
      left. split; reflexivity.
    + rewrite (next_budget (@hpred json) ev src p tr' B k1 init_state e1 za zb [EvResult m1] true Hq1 Hsa Heq).
      right. exists EInfiniteLoop. auto.
    + destruct (next_over k1 init_state e1 za Hq1 ltac:(lia)) as (z' & es & Hnx). rewrite Hnx. right. exists EInfiniteLoop. auto.
Qed.

End Loop.
