(* SemApp.v -- the event stream of a path is compositional: the stream of q ++ s is the stream of q with every
   result c' replaced by the stream of s from c' (an exception cuts everything after it).  Consequence (C03):
   a user filter placed after q is called exactly once per result of q, in the order q delivers them. *)
From Coq Require Import List ZArith String Bool Lia.
From TP Require Import Json PyPrim Machine Api Spec SpecHas.
From TP.proofs Require Import RefineBase Refine Query SpecLemmas.
Import ListNotations.
Close Scope Z_scope.
Open Scope list_scope.

(* replace every result of a stream by a continuation stream *)
Fixpoint bind_results (es : list sevent) (ex : option exn) (k : jctx -> rs) : rs :=
  match es with
  | [] => ([], ex)
  | SResult c :: r => rseq (k c) (bind_results r ex k)
  | e :: r => rseq (rev1 e) (bind_results r ex k)
  end.
Definition bindr (X : rs) (k : jctx -> rs) : rs := bind_results (fst X) (snd X) k.

Lemma rseq_nil_r' (a : rs) : rseq a ([], None) = a.
Proof. destruct a as [es [e|]]; unfold rseq; simpl; [reflexivity | rewrite app_nil_r; reflexivity]. Qed.

Lemma bind_exn es e k : snd (bind_results es (Some e) k) <> None.
Proof.
  induction es as [|x es IH]; [discriminate|].
  assert (H : forall a, snd (rseq a (bind_results es (Some e) k)) <> None).
  { intros a. unfold rseq. destruct (snd a) eqn:E; [rewrite E; discriminate | exact IH]. }
  destruct x; cbn [bind_results]; apply H.
Qed.

Lemma bind_app a b ex k :
  bind_results (a ++ b) ex k = rseq (bind_results a None k) (bind_results b ex k).
Proof.
  induction a as [|x a IH]; [cbn [app bind_results]; rewrite rseq_nil_l; reflexivity|].
  destruct x; cbn [app bind_results]; rewrite IH, rseq_assoc; reflexivity.
Qed.

Lemma bindr_rseq a b k : bindr (rseq a b) k = rseq (bindr a k) (bindr b k).
Proof.
  unfold bindr. destruct a as [ea [xa|]].
  - unfold rseq at 1 2. cbn [fst snd]. unfold rseq. destruct (snd (bind_results ea (Some xa) k)) eqn:E; [reflexivity|].
    exfalso. exact (bind_exn ea xa k E).
  - rewrite rseq_ok by reflexivity. cbn [fst snd]. apply bind_app.
Qed.

Lemma bindr_rconcat l k : bindr (rconcat l) k = rconcat (map (fun a => bindr a k) l).
Proof. induction l as [|a l IH]; [reflexivity|]. cbn [rconcat map]. rewrite bindr_rseq, IH. reflexivity. Qed.

Lemma bindr_trace l n vi pm k : bindr (rev1 (STrace l n vi pm)) k = rev1 (STrace l n vi pm).
Proof. reflexivity. Qed.

Lemma bind_noresult es ex k : sresults es = [] -> bind_results es ex k = (es, ex).
Proof.
  induction es as [|x es IH]; intros Hn; [reflexivity|].
  destruct x; cbn [bind_results]; try discriminate Hn; rewrite IH by exact Hn; reflexivity.
Qed.

Section SemApp.
Variable P : Type.
Variable sev : P -> jctx -> res json * list sevent.
Notation sem := (sem P sev).

(* filters deliver no result of the enclosing search *)
Definition quiet_sev (q : list (vertex P)) : Prop := forall p c, In (VPred p) q -> sresults (snd (sev p c)) = [].

Lemma bindr_rec_children i pm semr k :
  forall d c, bindr (rec_children i pm semr false c d) k = rec_children i pm (fun c' => bindr (semr c') k) false c d.
Proof.
  assert (Hloop : forall its c,
    (forall ix, In ix its -> forall c0,
        bindr (rec_children i pm semr false c0 (snd ix)) k = rec_children i pm (fun c' => bindr (semr c') k) false c0 (snd ix)) ->
    bindr (rconcat (map (rec_child i pm semr false c) its)) k =
    rconcat (map (rec_child i pm (fun c' => bindr (semr c') k) false c) its)).
  { intros its c Hkids. rewrite bindr_rconcat, map_map. f_equal. apply map_ext_in. intros [nm x] Hin.
    unfold rec_child. cbn [fst snd]. rewrite bindr_rseq, bindr_trace. f_equal.
    destruct (members x); [|reflexivity]. rewrite bindr_rseq. f_equal. apply (Hkids (nm, x) Hin). }
  induction d as [| b | z0 | h | str | id l IHl | id l IHl] using json_ind'; intros c; try reflexivity.
  - assert (Hm : members (JList id l) = Some (list_iter l)) by reflexivity.
    rewrite !(rec_children_unfold _ _ _ _ _ _ _ Hm), bindr_rseq, bindr_trace. f_equal.
    apply Hloop. intros [nm x] Hin c0. simpl. rewrite Forall_forall in IHl. apply IHl. eapply members_in_list; eauto.
  - assert (Hm : members (JDict id l) = Some (dict_iter l)) by reflexivity.
    rewrite !(rec_children_unfold _ _ _ _ _ _ _ Hm), bindr_rseq, bindr_trace. f_equal.
    apply Hloop. intros [nm x] Hin c0. simpl. rewrite Forall_forall in IHl. destruct nm as [k0|z1].
    + apply (IHl (k0, x)). apply members_in_dict; exact Hin.
    + exfalso. unfold dict_iter in Hin. rewrite in_map_iff in Hin. destruct Hin as (? & E0 & _). discriminate.
Qed.

Lemma rec_children_ext i pm semr semr' leaf :
  (forall c', semr c' = semr' c') -> forall d c, rec_children i pm semr leaf c d = rec_children i pm semr' leaf c d.
Proof.
  intros Hext.
  assert (Hloop : forall its c,
    (forall ix, In ix its -> forall c0, rec_children i pm semr leaf c0 (snd ix) = rec_children i pm semr' leaf c0 (snd ix)) ->
    rconcat (map (rec_child i pm semr leaf c) its) = rconcat (map (rec_child i pm semr' leaf c) its)).
  { intros its c Hkids. f_equal. apply map_ext_in. intros [nm x] Hin. unfold rec_child. cbn [fst snd].
    rewrite Hext, (Hkids (nm, x) Hin). reflexivity. }
  induction d as [| b | z0 | h | str | id l IHl | id l IHl] using json_ind'; intros c; try reflexivity.
  - assert (Hm : members (JList id l) = Some (list_iter l)) by reflexivity.
    rewrite !(rec_children_unfold _ _ _ _ _ _ _ Hm). f_equal.
    apply Hloop. intros [nm x] Hin c0. simpl. rewrite Forall_forall in IHl. apply IHl. eapply members_in_list; eauto.
  - assert (Hm : members (JDict id l) = Some (dict_iter l)) by reflexivity.
    rewrite !(rec_children_unfold _ _ _ _ _ _ _ Hm). f_equal.
    apply Hloop. intros [nm x] Hin c0. simpl. rewrite Forall_forall in IHl. destruct nm as [k0|z1].
    + apply (IHl (k0, x)). apply members_in_dict; exact Hin.
    + exfalso. unfold dict_iter in Hin. rewrite in_map_iff in Hin. destruct Hin as (? & E0 & _). discriminate.
Qed.

(* the stream of q ++ s: the stream of q, every result replaced by the stream of s from it *)
Theorem sem_app :
  forall q s, ends_rec P q = false -> quiet_sev q ->
  forall i pm c, sem i (q ++ s) pm c = bindr (sem i q pm c) (fun c' => sem (i + List.length q) s pm c').
Proof.
  induction q as [|v q IH]; intros s Hend Hq i pm c.
  - cbn [app List.length]. rewrite Nat.add_0_r. unfold bindr. cbn [Spec.sem rev1 fst snd bind_results].
    rewrite rseq_nil_r'. reflexivity.
  - assert (Hqq : quiet_sev q) by (intros p c0 Hin; apply Hq; right; exact Hin).
    assert (Hendq : q <> [] -> ends_rec P q = false) by (intros Hne; simpl in Hend; destruct q; [congruence | exact Hend]).
    assert (Hlen : forall c', sem (i + List.length (v :: q)) s pm c' = sem (S i + List.length q) s pm c')
      by (intros c'; cbn [List.length]; rewrite Nat.add_succ_r; reflexivity).
    set (k := fun c' => sem (i + List.length (v :: q)) s pm c').
    assert (IH' : forall c', sem (S i) (q ++ s) pm c' = bindr (sem (S i) q pm c') k).
    { intros c'. destruct q as [|v' q'].
      - cbn [app]. unfold bindr, k. cbn [Spec.sem rev1 fst snd bind_results List.length].
        rewrite rseq_nil_r'. rewrite Nat.add_1_r. reflexivity.
      - rewrite (IH s (Hendq ltac:(discriminate)) Hqq (S i) pm c'). unfold k. f_equal.
        (* functional equality of the continuations, pointwise *)
        assert (E : (fun c'0 => sem (S i + List.length (v' :: q')) s pm c'0) = (fun c'0 => sem (i + List.length (v :: v' :: q')) s pm c'0)).
        { replace (S i + List.length (v' :: q')) with (i + List.length (v :: v' :: q')) by (cbn [List.length]; lia). reflexivity. }
        exact E. }
    assert (Hgo : forall c', rseq (rev1 (STrace c (Some c') (S i) pm)) (sem (S i) (q ++ s) pm c') =
                             bindr (rseq (rev1 (STrace c (Some c') (S i) pm)) (sem (S i) q pm c')) k).
    { intros c'. rewrite bindr_rseq, bindr_trace, IH'. reflexivity. }
    assert (Hitems : forall v',
      match items_for jshape P v' (cdata c) with
      | Ok (Some its) => rseq (rconcat (map (fun ix => rseq (rev1 (STrace c (Some (ext c (fst ix) (snd ix))) (S i) pm))
                                 (sem (S i) (q ++ s) pm (ext c (fst ix) (snd ix)))) its)) (rev1 (STrace c None (S i) pm))
      | Ok None => rev1 (STrace c None (S i) pm)
      | Exn e => ([], Some e)
      end =
      bindr (match items_for jshape P v' (cdata c) with
      | Ok (Some its) => rseq (rconcat (map (fun ix => rseq (rev1 (STrace c (Some (ext c (fst ix) (snd ix))) (S i) pm))
                                 (sem (S i) q pm (ext c (fst ix) (snd ix)))) its)) (rev1 (STrace c None (S i) pm))
      | Ok None => rev1 (STrace c None (S i) pm)
      | Exn e => ([], Some e)
      end) k).
    { intros v'. destruct (items_for jshape P v' (cdata c)) as [[its|]|e]; try reflexivity.
      rewrite bindr_rseq, bindr_trace, bindr_rconcat, map_map. f_equal. f_equal. apply map_ext. intros ix. apply Hgo. }
    destruct v as [k0 | z | a b c0 | l | | | dot | | | p]; cbn [app Spec.sem]; try apply Hitems.
    + destruct (jshape (cdata c)) as [its|its|]; [destruct (assoc k0 its)| |]; first [apply Hgo | reflexivity].
    + destruct (jshape (cdata c)) as [its|its|]; [|destruct (list_get its z)|]; first [apply Hgo | reflexivity].
    + (* recursive step: something follows it inside q *)
      assert (Hne : q <> []) by (intros ->; simpl in Hend; discriminate).
      assert (Hl1 : match q ++ s with [] => true | _ :: _ => false end = false) by (destruct q; [congruence | reflexivity]).
      assert (Hl2 : match q with [] => true | _ :: _ => false end = false) by (destruct q; [congruence | reflexivity]).
      rewrite Hl1, Hl2. destruct (members (cdata c)); [|reflexivity].
      rewrite bindr_rseq, <- Hgo. f_equal. rewrite bindr_rec_children. apply rec_children_ext. exact IH'.
    + destruct (ext_parent c); first [apply Hgo | reflexivity].
    + pose proof (Hq p c (or_introl eq_refl)) as Hn. destruct (sev p c) as [[val|e] es]; cbn [snd] in Hn.
      * rewrite bindr_rseq. unfold bindr at 1. cbn [fst snd]. rewrite (bind_noresult es None k Hn). f_equal.
        destruct (truthy val); [apply Hgo | reflexivity].
      * unfold bindr. cbn [fst snd]. rewrite (bind_noresult es _ k Hn). reflexivity.
Qed.

End SemApp.

(* ------------------------------------------------------------------ C03: a user filter after q *)
From TP.proofs Require Import SpecWork.

Lemma has_quiet n q : quiet_sev (@hpred json) (seval_h n) q.
Proof. intros p c _. exact (proj2 (stamped_silent 0 _ (seval_h_stamped n p c))). Qed.

(* path q[f] r: the stream is that of q with every result c' -- in the order q delivers them -- replaced by
   exactly one call of f on c' followed by the attempt of the filter step (and the rest of the path when f's
   answer is truthy); an exception of f ends the stream as TraversingError *)
Theorem user_filter_once_per_candidate n q tag f r i pm c :
  ends_rec (@hpred json) q = false ->
  sem (@hpred json) (seval_h (S n)) i (q ++ VPred (HUser tag f) :: r) pm c =
  bindr (sem (@hpred json) (seval_h (S n)) i q pm c)
        (fun c' =>
           match f c' with
           | Ok v =>
               rseq ([SCall tag c'], None)
                    (if truthy v
                     then rseq (rev1 (STrace c' (Some c') (S (i + List.length q)) pm))
                               (sem (@hpred json) (seval_h (S n)) (S (i + List.length q)) r pm c')
                     else rev1 (STrace c' None (S (i + List.length q)) pm))
           | Exn e => ([SCall tag c'], Some (ETraversing e))
           end).
Proof.
  intros Hend. rewrite (sem_app (@hpred json) (seval_h (S n)) q _ Hend (has_quiet (S n) q)). reflexivity.
Qed.
