(* RunLength.v -- the number of actions of a traced run is at most 3 x (match attempts) + 3: between two
   attempts the machine performs at most a report action and a catch action.  With `attempts_bound` this makes
   the "number k of actions" of the iterator theorems explicit: k <= 6 x exams. *)
From Coq Require Import List ZArith String Bool PArith Lia FMapPositive.
From TP Require Import Json PyPrim Machine Spec.
From TP.proofs Require Import RefineBase Refine NextLayer Iterate WfRun Query SpecLemmas SpecWork.
Import ListNotations.
Close Scope Z_scope.
Open Scope list_scope.

Definition is_trace_ev (e : jevent) : bool := match e with EvTrace _ _ _ _ => true | _ => false end.
Definition ntr_ev (es : list jevent) : nat := List.length (filter is_trace_ev es).

Lemma ntr_ev_app a b : ntr_ev (a ++ b) = ntr_ev a + ntr_ev b.
Proof. unfold ntr_ev. rewrite filter_app, app_length. reflexivity. Qed.

Lemma ntr_ev_abs es : ntr (map abs_ev es) = ntr_ev es.
Proof.
  unfold ntr, ntr_ev. induction es as [|e es IH]; [reflexivity|]. destruct e; simpl; rewrite ?IH; reflexivity.
Qed.

(* how many actions may still pass before the next attempt *)
Definition credit (p : pcs) : nat :=
  match p with PInit => 0 | PReport => 1 | PCatch => 2 | PMatch => 3 | PDone => 3 end.

Section RunLength.
Variable P : Type.
Variable ev : P -> jtm -> @tracecfg json -> res json * list jevent.
Variable src : @source json.
Variable vp : list (vertex P).
Variable pm : option jtm.

Notation step1 := (step jshape P ev src vp (Some pm)).

Lemma step_credit z z' es b :
  step1 z = SNext z' es b -> credit (pc z) + 1 <= 3 * ntr_ev es + credit (pc z').
Proof.
  unfold step. destruct (pc z) eqn:Hpc.
  - intros H; injection H as <- <- <-. simpl. lia.
  - destruct (cur z) as [m|]; [|discriminate].
    destruct (Nat.eqb (tvx m) (List.length vp)); intros H; injection H as <- <- <-; simpl; lia.
  - destruct (cur z) as [m|]; [|discriminate].
    destruct (nth_error vp (tvi m)) as [v|]; [|discriminate].
    destruct (vmatch jshape P ev v m (S (tvi m)) (Some pm) (st z) (nid z)) as [[[r s'] n'] evs].
    destruct r as [[c|]|e]; intros H; try discriminate; injection H as <- <- <-;
      rewrite ntr_ev_app; cbn [trace_ev ntr_ev filter is_trace_ev List.length pc mk]; unfold ntr_ev; simpl.
    + lia.
    + destruct (oca (sget s' (tid m))); simpl; lia.
  - destruct (cur z) as [m|]; [|discriminate]. intros H; injection H as <- <- <-.
    simpl. destruct (oca (sget (st z) (tid m))); simpl; lia.
  - discriminate.
Qed.

Theorem run_length k z evs z' :
  run P ev src vp (Some pm) k z evs z' -> k + credit (pc z) <= 3 * ntr_ev evs + credit (pc z').
Proof.
  induction 1 as [z | k z z1 ev1 b z2 ev2 Hs Hr IH]; [simpl; lia|].
  pose proof (step_credit _ _ _ _ Hs). rewrite ntr_ev_app. lia.
Qed.

Corollary run_length_init k evs z' :
  run P ev src vp (Some pm) k init_state evs z' -> k <= 3 * ntr_ev evs + 3.
Proof.
  intros Hr. pose proof (run_length _ _ _ _ Hr) as H. simpl in H.
  assert (credit (pc z') <= 3) by (destruct (pc z'); simpl; lia). lia.
Qed.

End RunLength.

(* ------------------------------------------------------------------ the iterator theorem with an explicit k *)
Section Bounded.
Variable P : Type.
Variable ev : P -> jtm -> @tracecfg json -> res json * list jevent.
Variable sev : P -> jctx -> res json * list sevent.
Variable src : @source json.
Variable vp : list (vertex P).
Variable pm0 : option jtm.
Notation tr := (Some pm0 : @tracecfg json).

Hypothesis ev_ok : forall p m, In (VPred p) vp -> wf m ->
  (fst (ev p m tr) = fst (sev p (abs m)) /\
   map abs_ev (snd (ev p m tr)) = proj (tracing tr) (snd (sev p (abs m)))) \/
  (exists e, fst (ev p m tr) = Exn e /\ budget_exn e = true).
Hypothesis ev_quiet : forall p m, ev_results (snd (ev p m tr)) = [].
Hypothesis Hsrc : src_wf src.

Notation answer := (answer P sev src vp tr).

(* a traced iterator: every budget beyond 3 x attempts + 3 -- at most 6 x exams -- delivers the complete
   answer (or a correct prefix followed by the budget exception of a search nested in a filter) *)
Theorem iterator_spec_bounded :
  exists k : nat, k <= 3 * ntr (fst answer) + 3 /\
    forall B fuel, k < Pos.to_nat B -> List.length (sresults (fst answer)) < fuel ->
    let d := drain P ev src vp tr fuel B init_state in
    complete P sev src vp tr d \/ sound_prefix P ev sev src vp tr d.
Proof.
  pose proof (refinement P ev sev src vp tr (pmc tr) (fun _ => eq_refl) ev_ok Hsrc) as Href.
  fold answer in Href. destruct Href as [Href | Href].
  - unfold ok_run in Href.
    destruct (snd answer) as [e|] eqn:Hex.
    + destruct Href as (k & z1 & evs & z2 & ev2 & Hrun & Hs & Hev).
      exists k. split.
      { pose proof (run_length_init P ev src vp pm0 k evs z1 Hrun) as Hk. cbn [tracing proj] in Hev.
        rewrite <- Hev, ntr_ev_abs, ntr_ev_app. lia. }
      intros B fuel HB Hfuel d. left. unfold complete. rewrite Hex.
      assert (Hr2 : ev_results ev2 = []) by (eapply (step_raise_quiet P ev src vp tr ev_quiet); eauto).
      exists (ev_results evs).
      assert (Hres : map abs (ev_results evs) = sresults (fst answer)).
      { rewrite <- (sresults_proj (tracing tr)), <- Hev, sresults_abs, ev_results_app, Hr2, app_nil_r. reflexivity. }
      assert (Hlen : List.length (ev_results evs) < fuel) by (rewrite <- (map_length abs), Hres; exact Hfuel).
      destruct (drain_run P ev src vp tr ev_quiet B k init_state evs z1 e z2 ev2 fuel Hrun Hs HB Hlen) as (Ho & He & Hl).
      split; [exact Hres|]. split; [exact (proj2 (wf_run P ev src vp tr Hsrc ev_quiet k _ _ _ (wfz_init) Hrun))|].
      split; [exact Ho|]. split; [unfold d; rewrite He; exact Hev | exact Hl].
    + destruct Href as (k & z' & evs & Hrun & Hev & Hpc & Hstop).
      exists k. split.
      { pose proof (run_length_init P ev src vp pm0 k evs z' Hrun) as Hk. cbn [tracing proj] in Hev.
        rewrite <- Hev, ntr_ev_abs. exact Hk. }
      intros B fuel HB Hfuel d. left. unfold complete. rewrite Hex.
      exists (ev_results evs).
      assert (Hres : map abs (ev_results evs) = sresults (fst answer)).
      { rewrite <- (sresults_proj (tracing tr)), <- Hev, sresults_abs. reflexivity. }
      assert (Hlen : List.length (ev_results evs) < fuel) by (rewrite <- (map_length abs), Hres; exact Hfuel).
      destruct (drain_run P ev src vp tr ev_quiet B k init_state evs z' EStop z' [] fuel Hrun Hstop HB Hlen) as (Ho & He & Hl).
      split; [exact Hres|]. split; [exact (proj2 (wf_run P ev src vp tr Hsrc ev_quiet k _ _ _ (wfz_init) Hrun))|].
      split; [exact Ho|]. split; [unfold d; rewrite He, app_nil_r; exact Hev | exact Hl].
  - destruct Href as (k & z1 & evs & z2 & e & ev2 & pre & suf & Hrun & Hs & Hbe & Hfst & Hev).
    exists k. split.
    { pose proof (run_length_init P ev src vp pm0 k evs z1 Hrun) as Hk. cbn [tracing proj] in Hev.
      rewrite Hfst, ntr_app, <- Hev, ntr_ev_abs. lia. }
    intros B fuel HB Hfuel d. right.
    exists (ev_results evs), e, pre, suf.
    assert (Hres : map abs (ev_results evs) = sresults pre).
    { rewrite <- (sresults_proj (tracing tr)), <- Hev, sresults_abs. reflexivity. }
    assert (Hlen : List.length (ev_results evs) < fuel).
    { assert (E1 : List.length (ev_results evs) = List.length (sresults pre)) by (rewrite <- Hres, map_length; reflexivity).
      assert (E2 : List.length (sresults (fst answer)) = List.length (sresults pre) + List.length (sresults suf))
        by (rewrite Hfst, sresults_app, app_length; reflexivity).
      rewrite E1. rewrite E2 in Hfuel. clear -Hfuel. lia. }
    destruct (drain_run P ev src vp tr ev_quiet B k init_state evs z1 e z2 ev2 fuel Hrun Hs HB Hlen) as (Ho & He & Hl).
    split; [exact Hfst|]. split; [exact Hres|]. split; [exact (proj2 (wf_run P ev src vp tr Hsrc ev_quiet k _ _ _ (wfz_init) Hrun))|].
    split; [exact Ho|]. split; [exact Hbe|]. split; [exists z1, z2, ev2; exact Hs | exact Hl].
Qed.

(* ... in terms of the examinations the path's definition requires *)
Corollary iterator_spec_exams pw :
  pw_ok P sev pw vp ->
  exists k : nat, k <= 6 * exams P sev pw vp (abs (root_match src)) /\
    forall B fuel, k < Pos.to_nat B -> List.length (sresults (fst answer)) < fuel ->
    let d := drain P ev src vp tr fuel B init_state in
    complete P sev src vp tr d \/ sound_prefix P ev sev src vp tr d.
Proof.
  intros Hpw. destruct iterator_spec_bounded as (k & Hk & Hall). exists k. split; [|exact Hall].
  pose proof (attempts_bound P sev pw vp Hpw 0 (pmc tr) (abs (root_match src))) as Ha. unfold Query.answer in Hk. lia.
Qed.

End Bounded.
