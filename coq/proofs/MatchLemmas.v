(* MatchLemmas.v -- the Match facade's metadata (C11): path_as_str, Match.__eq__, bookkeeping matches. *)
From Coq Require Import List ZArith String Bool PArith.
From TP Require Import Json PyPrim Machine Spec Obs SpecLemmas.
From TP.proofs Require Import RefineBase PropLemmas.
Import ListNotations.
Close Scope Z_scope.
Open Scope list_scope.

(* path_as_str is '$' followed by the segments of the chain *)
Lemma path_as_str_segments (m : jtm) :
  path_as_str m = String.concat "" (map path_segment (path_match_list m)).
Proof. reflexivity. Qed.

Lemma path_match_list_starts_at_root (m : jtm) :
  exists r rest, path_match_list m = r :: rest /\ (exists i d, r = TRoot i d).
Proof.
  induction m as [i d | i o IHo d | i rp IHrp k d x y | i rp IHrp z d x y | i rp IHrp d x y | i rem _ rp IHrp nm d x y]; simpl.
  - exists (TRoot i d), []. split; [reflexivity | eauto].
  - exact IHo.
  - destruct IHrp as (r & rest & -> & Hr). exists r, (rest ++ [TKey i rp k d x y]). auto.
  - destruct IHrp as (r & rest & -> & Hr). exists r, (rest ++ [TIdx i rp z d x y]). auto.
  - exact IHrp.
  - destruct IHrp as (r & rest & -> & Hr). exists r, (rest ++ [TPar i rem rp nm d x y]). auto.
Qed.

(* bookkeeping matches (filters, recursion, nested searches) never show up in the chain *)
Lemma imaginary_invisible i (rp : jtm) d x y : abs (TImag i rp d x y) = abs rp.
Proof. reflexivity. Qed.
Lemma nested_root_invisible i (o : jtm) d : abs (TNRoot i o d) = abs o.
Proof. reflexivity. Qed.

(* Match.__eq__ is equality of the chains m, m.parent, m.parent.parent, ...: same length, equal data (Python ==)
   and equal data_name at every level *)
Fixpoint chains_equal (k l : list jtm) : bool :=
  match k, l with
  | [], [] => true
  | x :: k', y :: l' => py_eq (tdata x) (tdata y) && name_eqb (data_name x) (data_name y) && chains_equal k' l'
  | _, _ => false
  end.

Lemma match_eq_chains a b : match_eq a b = chains_equal (pchain a) (pchain b).
Proof.
  reflexivity.
Qed.

(* equal values under equal keys in different places are different matches *)
Lemma match_eq_needs_equal_names a b :
  match_eq a b = true -> name_eqb (data_name a) (data_name b) = true.
Proof.
  rewrite match_eq_chains.
  destruct a, b; simpl; intros H; repeat (apply andb_prop in H; destruct H as [H ?]); try discriminate; auto;
    repeat match goal with H : _ && _ = true |- _ => apply andb_prop in H; destruct H end; auto.
Qed.
