(* DocListProofs.v -- keep_all retains exactly the elements satisfying the predicate, in their original order,
   for arbitrary converters and predicates: the write index never overtakes the read index. *)
From Coq Require Import List ZArith String Bool Arith Lia.
From TP Require Import Json PyPrim DocList.
Import ListNotations.
Close Scope Z_scope.
Open Scope list_scope.

Section KeepAll.
Variables (J W : Type) (to_wrapped : J -> W) (to_json : W -> J) (is_keep : W -> bool).

Notation loop := (keep_loop J W to_wrapped to_json is_keep).
Definition rt (x : J) : J := to_json (to_wrapped x).
Definition kept (l : list J) : list J := map rt (filter (fun x => is_keep (to_wrapped x)) l).

Lemma set_nth_app (pre : list J) v x rest : set_nth (pre ++ x :: rest) (List.length pre) v = pre ++ v :: rest.
Proof. induction pre; simpl; congruence. Qed.

Lemma nth_error_mid (pre mid : list J) x suf :
  nth_error (pre ++ mid ++ x :: suf) (List.length pre + List.length mid) = Some x.
Proof.
  rewrite app_assoc. rewrite <- app_length. rewrite nth_error_app2 by lia. rewrite Nat.sub_diag. reflexivity.
Qed.

Ltac fin junk He Hl :=
  exists junk; split;
  [ rewrite He; unfold kept, rt; rewrite <- ?app_assoc; simpl; f_equal; lia
  | unfold kept in *; rewrite ?app_length in *; simpl in *; rewrite ?app_length in *; simpl in *; lia ].

(* invariant: data = written prefix ++ stale middle ++ unread suffix; w = |prefix| <= r = |prefix|+|middle| *)
Lemma loop_spec : forall suf fuel pre mid,
  List.length suf < fuel ->
  exists junk,
    loop fuel (pre ++ mid ++ suf) (List.length pre + List.length mid) (List.length pre)
    = (pre ++ kept suf ++ junk, List.length pre + List.length (kept suf))
    /\ List.length (kept suf ++ junk) = List.length (mid ++ suf).
Proof.
  induction suf as [|x s IH]; intros fuel pre mid Hf.
  - destruct fuel; [simpl in Hf; lia|]. cbn [keep_loop]. rewrite app_nil_r.
    rewrite nth_error_app2 by lia.
    replace (List.length pre + List.length mid - List.length pre) with (List.length mid) by lia.
    rewrite (proj2 (nth_error_None mid (List.length mid))) by lia.
    exists mid. unfold kept. simpl. rewrite Nat.add_0_r. split; reflexivity.
  - destruct fuel; [simpl in Hf; lia|]. simpl in Hf. cbn [keep_loop]. rewrite nth_error_mid.
    unfold kept. cbn [filter]. destruct (is_keep (to_wrapped x)) eqn:Hk; cbn [map].
    + destruct mid as [|y mid'].
      * simpl app at 1. rewrite set_nth_app. simpl List.length. rewrite Nat.add_0_r.
        destruct (IH fuel (pre ++ [rt x]) [] ltac:(lia)) as (junk & He & Hl).
        rewrite app_length in He. simpl in He. rewrite Nat.add_0_r in He.
        rewrite <- app_assoc in He. simpl in He.
        replace (S (List.length pre)) with (List.length pre + 1) by lia.
        unfold rt in He. fin junk He Hl.
      * simpl app at 1. rewrite set_nth_app.
        destruct (IH fuel (pre ++ [rt x]) (mid' ++ [x]) ltac:(lia)) as (junk & He & Hl).
        rewrite !app_length in He. simpl in He.
        replace ((pre ++ [rt x]) ++ (mid' ++ [x]) ++ s) with (pre ++ to_json (to_wrapped x) :: mid' ++ x :: s) in He
          by (unfold rt; rewrite <- !app_assoc; reflexivity).
        simpl List.length.
        replace (S (List.length pre + S (List.length mid'))) with (List.length pre + 1 + (List.length mid' + 1)) by lia.
        replace (S (List.length pre)) with (List.length pre + 1) by lia.
        fin junk He Hl.
    + destruct (IH fuel pre (mid ++ [x]) ltac:(lia)) as (junk & He & Hl).
      rewrite app_length in He. simpl in He.
      replace (pre ++ (mid ++ [x]) ++ s) with (pre ++ mid ++ x :: s) in He by (rewrite <- !app_assoc; reflexivity).
      replace (S (List.length pre + List.length mid)) with (List.length pre + (List.length mid + 1)) by lia.
      fin junk He Hl.
Qed.

(* the predicate is called on every element exactly once, in list order, whatever it answers *)
Lemma loop_calls_spec : forall suf fuel pre mid,
  List.length suf < fuel ->
  keep_loop_calls J W to_wrapped to_json is_keep fuel (pre ++ mid ++ suf) (List.length pre + List.length mid) (List.length pre)
  = map to_wrapped suf.
Proof.
  induction suf as [|x s IH]; intros fuel pre mid Hf.
  - destruct fuel; [simpl in Hf; lia|]. cbn [keep_loop_calls]. rewrite app_nil_r.
    rewrite nth_error_app2 by lia.
    replace (List.length pre + List.length mid - List.length pre) with (List.length mid) by lia.
    rewrite (proj2 (nth_error_None mid (List.length mid))) by lia. reflexivity.
  - destruct fuel; [simpl in Hf; lia|]. simpl in Hf. cbn [keep_loop_calls map]. rewrite nth_error_mid. f_equal.
    destruct (is_keep (to_wrapped x)) eqn:Hk.
    + destruct mid as [|y mid'].
      * simpl app at 1. rewrite set_nth_app. simpl List.length. rewrite Nat.add_0_r.
        pose proof (IH fuel (pre ++ [rt x]) [] ltac:(lia)) as He.
        rewrite app_length in He. simpl in He. rewrite Nat.add_0_r in He. rewrite <- app_assoc in He. simpl in He.
        replace (S (List.length pre)) with (List.length pre + 1) by lia. exact He.
      * simpl app at 1. rewrite set_nth_app.
        pose proof (IH fuel (pre ++ [rt x]) (mid' ++ [x]) ltac:(lia)) as He.
        rewrite !app_length in He. simpl in He.
        replace ((pre ++ [rt x]) ++ (mid' ++ [x]) ++ s) with (pre ++ to_json (to_wrapped x) :: mid' ++ x :: s) in He
          by (unfold rt; rewrite <- !app_assoc; reflexivity).
        simpl List.length.
        replace (S (List.length pre + S (List.length mid'))) with (List.length pre + 1 + (List.length mid' + 1)) by lia.
        replace (S (List.length pre)) with (List.length pre + 1) by lia. exact He.
    + pose proof (IH fuel pre (mid ++ [x]) ltac:(lia)) as He.
      rewrite app_length in He. simpl in He.
      replace (pre ++ (mid ++ [x]) ++ s) with (pre ++ mid ++ x :: s) in He by (rewrite <- !app_assoc; reflexivity).
      replace (S (List.length pre + List.length mid)) with (List.length pre + (List.length mid + 1)) by lia. exact He.
Qed.

Theorem keep_calls_spec data : keep_calls J W to_wrapped to_json is_keep data = map to_wrapped data.
Proof. unfold keep_calls. exact (loop_calls_spec data (S (List.length data)) [] [] ltac:(lia)). Qed.

Theorem keep_all_spec data :
  keep_all J W to_wrapped to_json is_keep data = map rt (filter (fun x => is_keep (to_wrapped x)) data).
Proof.
  unfold keep_all.
  destruct (loop_spec data (S (List.length data)) [] [] ltac:(lia)) as (junk & He & _).
  cbn [app List.length Nat.add] in He. rewrite He. fold (kept data).
  rewrite firstn_app, firstn_all, Nat.sub_diag. simpl. apply app_nil_r.
Qed.

End KeepAll.

Theorem remove_all_spec (J W : Type) (to_wrapped : J -> W) (to_json : W -> J) (is_remove : W -> bool) data :
  remove_all J W to_wrapped to_json is_remove data =
  map (fun x => to_json (to_wrapped x)) (filter (fun x => negb (is_remove (to_wrapped x))) data).
Proof. unfold remove_all. apply keep_all_spec. Qed.
