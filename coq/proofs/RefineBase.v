(* RefineBase.v -- infrastructure for the refinement proof: store laws, step-indexed runs, the
   "realizes" predicate (a run of the machine produces a given specification stream and ends in a state
   satisfying a postcondition, or ends in a raising step), well-formed matches and the chain lemma. *)
From Coq Require Import List ZArith String Bool PArith Lia FMapPositive.
From TP Require Import Json PyPrim Machine Spec.
Import ListNotations.
Close Scope Z_scope.
Open Scope list_scope.

Notation jtm := (@tm json).
Notation jstate := (@state json).
Notation jevent := (@event json).
Notation jstore := (@store json).
Notation jmut := (@mut json).

(* ------------------------------------------------------------------ store laws *)
Lemma sget_sset_same (s : jstore) i (m : jmut) : sget (sset s i m) i = m.
Proof. unfold sget, sset. rewrite PositiveMap.gss. reflexivity. Qed.

Lemma sget_sset_other (s : jstore) i j (m : jmut) : j <> i -> sget (sset s i m) j = sget s j.
Proof. intros H. unfold sget, sset. rewrite PositiveMap.gso by exact H. reflexivity. Qed.

Definition agree_below (n : positive) (s s' : jstore) : Prop :=
  forall j, (j < n)%positive -> sget s' j = sget s j.

Lemma agree_refl n s : agree_below n s s. Proof. red; auto. Qed.
Lemma agree_trans n s1 s2 s3 : agree_below n s1 s2 -> agree_below n s2 s3 -> agree_below n s1 s3.
Proof. unfold agree_below; intros H1 H2 j Hj. rewrite H2, H1; auto. Qed.
Lemma agree_weaken n n' s s' : (n' <= n)%positive -> agree_below n s s' -> agree_below n' s s'.
Proof. unfold agree_below; intros Hle H j Hj. apply H. lia. Qed.
Lemma agree_sset n s i m : (n <= i)%positive -> agree_below n s (sset s i m).
Proof. unfold agree_below; intros Hle j Hj. apply sget_sset_other. lia. Qed.

(* ------------------------------------------------------------------ abstraction of events *)
Definition abs_ev (e : jevent) : sevent :=
  match e with
  | EvTrace l n i pm => STrace (abs l) (option_map abs n) i (option_map abs pm)
  | EvCall t m => SCall t (abs m)
  | EvCallF t a => SCallF t a
  | EvResult m => SResult (abs m)
  end.

Lemma proj_app b x y : proj b (x ++ y) = proj b x ++ proj b y.
Proof. destruct b; simpl; [reflexivity | apply filter_app]. Qed.
Lemma proj_nil b : proj b [] = []. Proof. destruct b; reflexivity. Qed.
Lemma proj_nontrace b e : is_trace e = false -> proj b [e] = [e].
Proof. intros H. destruct b; simpl; [reflexivity|]. rewrite H. reflexivity. Qed.

Lemma rseq_nil_l r : rseq ([], None) r = r.
Proof. unfold rseq; simpl. destruct r; reflexivity. Qed.
Lemma rseq_assoc a b c : rseq (rseq a b) c = rseq a (rseq b c).
Proof.
  destruct a as [ea [xa|]], b as [eb [xb|]], c as [ec xc]; unfold rseq; simpl; try reflexivity;
    rewrite ?app_assoc; reflexivity.
Qed.
Lemma rseq_ok a b : snd a = None -> rseq a b = (fst a ++ fst b, snd b).
Proof. intros H. unfold rseq. rewrite H. reflexivity. Qed.

(* exceptions that report an exhausted budget (the library's InfiniteLoopDetected, possibly wrapped by the
   filters it went through; EFuel is the model's own out-of-fuel value of has-loops) *)
Fixpoint budget_exn (e : exn) : bool :=
  match e with
  | EInfiniteLoop | EFuel => true
  | ETraversing c => budget_exn c
  | _ => false
  end.

Section Runs.
Variable P : Type.
Variable ev : P -> jtm -> @tracecfg json -> res json * list jevent.
Variable src : @source json.
Variable vp : list (vertex P).
Variable tr : @tracecfg json.

Definition tracing : bool := match tr with Some _ => true | None => false end.
Definition pmc : option jctx := match tr with Some pm => option_map abs pm | None => None end.

Notation step1 := (step jshape P ev src vp tr).

(* k ordinary actions (none of them raises) *)
Inductive run : nat -> jstate -> list jevent -> jstate -> Prop :=
| run_nil z : run 0 z [] z
| run_cons k z z1 ev1 b z2 ev2 :
    step1 z = SNext z1 ev1 b -> run k z1 ev2 z2 -> run (S k) z (ev1 ++ ev2) z2.

Lemma run_trans k1 k2 z1 e1 z2 e2 z3 :
  run k1 z1 e1 z2 -> run k2 z2 e2 z3 -> run (k1 + k2) z1 (e1 ++ e2) z3.
Proof.
  induction 1; intros H2; simpl; auto.
  rewrite <- app_assoc. econstructor; eauto.
Qed.

Lemma run_one z z1 ev1 b : step1 z = SNext z1 ev1 b -> run 1 z ev1 z1.
Proof. intros H. rewrite <- (app_nil_r ev1). econstructor; eauto. constructor. Qed.

(* the machine, started in z, produces the specification stream r; if r ends normally the run ends in a
   state satisfying Post, otherwise it ends in an action that raises r's exception *)
Definition ok_run (z : jstate) (r : rs) (Post : jstate -> Prop) : Prop :=
  match snd r with
  | None => exists k z' evs, run k z evs z' /\ map abs_ev evs = proj tracing (fst r) /\ Post z'
  | Some e => exists k z1 evs z2 ev2,
        run k z evs z1 /\ step1 z1 = SRaise e z2 ev2 /\ map abs_ev (evs ++ ev2) = proj tracing (fst r)
  end.

(* ... or the machine produces a prefix of r and then dies of a budget exception raised inside a filter
   (InfiniteLoopDetected of a nested search, wrapped in TraversingError): finding F1 *)
Definition budget_run (z : jstate) (r : rs) : Prop :=
  exists k z1 evs z2 e ev2 pre suf,
    run k z evs z1 /\ step1 z1 = SRaise e z2 ev2 /\ budget_exn e = true /\
    fst r = pre ++ suf /\ map abs_ev evs = proj tracing pre.

Definition realizes (z : jstate) (r : rs) (Post : jstate -> Prop) : Prop :=
  ok_run z r Post \/ budget_run z r.

Lemma realizes_nil z (Post : jstate -> Prop) : Post z -> realizes z ([], None) Post.
Proof. intros H. left. red; simpl. exists 0, z, []. split; [constructor|]. rewrite proj_nil. auto. Qed.

Lemma realizes_conseq z r (Post Post' : jstate -> Prop) :
  realizes z r Post -> (forall z', Post z' -> Post' z') -> realizes z r Post'.
Proof.
  intros [H | H] Himp; [left | right; exact H].
  unfold ok_run in *. destruct (snd r); auto.
  destruct H as (k & z' & evs & H1 & H2 & H3). exists k, z', evs. auto.
Qed.

Lemma realizes_seq z a b (Q Post : jstate -> Prop) :
  realizes z a Q -> (forall z', Q z' -> realizes z' b Post) -> realizes z (rseq a b) Post.
Proof.
  intros [Ha | Ha] Hb.
  - unfold ok_run in Ha. destruct a as [ea [xa|]]; simpl in Ha.
    + left. unfold rseq; simpl. exact Ha.
    + destruct Ha as (k & z' & evs & Hrun & Hev & HQ).
      specialize (Hb z' HQ). rewrite rseq_ok by reflexivity. simpl.
      destruct Hb as [Hb | Hb].
      * left. unfold ok_run in *. simpl. destruct (snd b) as [xb|].
        -- destruct Hb as (k2 & z1 & evs2 & z2 & ev2 & Hr2 & Hs & He).
           exists (k + k2), z1, (evs ++ evs2), z2, ev2. split; [eapply run_trans; eauto|]. split; [exact Hs|].
           rewrite <- app_assoc, map_app, proj_app, Hev, He. reflexivity.
        -- destruct Hb as (k2 & z2 & evs2 & Hr2 & He & HP).
           exists (k + k2), z2, (evs ++ evs2). split; [eapply run_trans; eauto|]. split; [|exact HP].
           rewrite map_app, proj_app, Hev, He. reflexivity.
      * right. destruct Hb as (k2 & z1 & evs2 & z2 & e & ev2 & pre & suf & Hr2 & Hs & Hbe & Hfst & He).
        exists (k + k2), z1, (evs ++ evs2), z2, e, ev2, (ea ++ pre), suf.
        split; [eapply run_trans; eauto|]. split; [exact Hs|]. split; [exact Hbe|]. simpl.
        split; [rewrite Hfst, app_assoc; reflexivity|].
        rewrite map_app, proj_app, Hev, He. reflexivity.
  - right. destruct Ha as (k & z1 & evs & z2 & e & ev2 & pre & suf & Hr & Hs & Hbe & Hfst & He).
    destruct a as [ea xa]. simpl in Hfst. subst ea.
    destruct xa as [x|].
    + exists k, z1, evs, z2, e, ev2, pre, suf. unfold rseq; simpl. auto.
    + exists k, z1, evs, z2, e, ev2, pre, (suf ++ fst b). rewrite rseq_ok by reflexivity. simpl.
      repeat split; auto. rewrite app_assoc. reflexivity.
Qed.

(* one ordinary action *)
Lemma realizes_step z z1 ev1 b sevs r Post :
  step1 z = SNext z1 ev1 b -> map abs_ev ev1 = proj tracing sevs ->
  realizes z1 r Post -> realizes z (rseq (sevs, None) r) Post.
Proof.
  intros Hs He Hr. eapply realizes_seq with (Q := fun z' => z' = z1).
  - left. red; simpl. exists 1, z1, ev1. split; [eapply run_one; eauto|]. auto.
  - intros z' ->. exact Hr.
Qed.

Lemma realizes_step0 z z1 b r Post :
  step1 z = SNext z1 [] b -> realizes z1 r Post -> realizes z r Post.
Proof.
  intros Hs Hr. rewrite <- (rseq_nil_l r). eapply realizes_step; eauto. rewrite proj_nil. reflexivity.
Qed.

(* an action that raises *)
Lemma realizes_raise z e z2 ev2 sevs Post :
  step1 z = SRaise e z2 ev2 -> map abs_ev ev2 = proj tracing sevs -> realizes z (sevs, Some e) Post.
Proof.
  intros Hs He. left. red; simpl. exists 0, z, [], z2, ev2. split; [constructor|]. split; [exact Hs|]. exact He.
Qed.

(* an action that dies of a budget exception *)
Lemma realizes_budget z e z2 ev2 r Post :
  step1 z = SRaise e z2 ev2 -> budget_exn e = true -> realizes z r Post.
Proof.
  intros Hs Hb. right. exists 0, z, [], z2, e, ev2, [], (fst r).
  split; [constructor|]. split; [exact Hs|]. split; [exact Hb|]. split; [reflexivity|]. rewrite proj_nil. reflexivity.
Qed.

Lemma trace_ev_abs m r i :
  map abs_ev (trace_ev tr m r i) = proj tracing [STrace (abs m) (option_map abs r) i pmc].
Proof. unfold trace_ev, tracing, pmc. destruct tr; reflexivity. Qed.

End Runs.

(* ------------------------------------------------------------------ well-formed matches, chain lemma *)
Fixpoint wf (m : jtm) : Prop :=
  match m with
  | TRoot _ _ => True
  | TNRoot _ o d => wf o /\ d = tdata o
  | TKey _ rp _ _ _ _ | TIdx _ rp _ _ _ _ => wf rp
  | TImag _ rp d _ _ => wf rp /\ d = tdata rp
  | TPar _ rem rp nm d _ _ =>
      wf rp /\ wf rem /\ remembered_parent rp = Some rem /\ nm = data_name rem /\ d = tdata rem
  end.

Lemma stack_snoc c e : stack (c ++ [e]) = push_entry (stack c) e.
Proof. unfold stack. rewrite fold_left_app. reflexivity. Qed.

Lemma abs_snoc (m rp : jtm) :
  path_match_list m = path_match_list rp ++ [m] -> abs m = abs rp ++ [entry_of m].
Proof. intros H. unfold abs. rewrite H, map_app. reflexivity. Qed.

(* the top of the stack is the current node; the repaired remembered_parent is the rest of the stack *)
Lemma chain m :
  wf m ->
  cnode (abs m) = Some (data_name m, tdata m) /\
  match remembered_parent m with
  | Some r => wf r /\ stack (abs r) = tl (stack (abs m))
  | None => tl (stack (abs m)) = []
  end.
Proof.
  induction m as [i d | i o IHo d | i rp IHrp k d x y | i rp IHrp z d x y | i rp IHrp d x y
                  | i rem IHrem rp IHrp nm d x y]; simpl; intros Hwf.
  - split; reflexivity.
  - destruct Hwf as [Ho ->]. destruct (IHo Ho) as [Ha Hb]. split; [exact Ha | exact Hb].
  - destruct (IHrp Hwf) as [Ha Hb].
    assert (E : abs (TKey i rp k d x y) = abs rp ++ [(KKey, NStr k, d)]) by (apply abs_snoc; reflexivity).
    unfold cnode. rewrite E, stack_snoc. simpl. split; [reflexivity|]. split; [exact Hwf | reflexivity].
  - destruct (IHrp Hwf) as [Ha Hb].
    assert (E : abs (TIdx i rp z d x y) = abs rp ++ [(KIdx, NInt z, d)]) by (apply abs_snoc; reflexivity).
    unfold cnode. rewrite E, stack_snoc. simpl. split; [reflexivity|]. split; [exact Hwf | reflexivity].
  - destruct Hwf as [Hrp ->]. destruct (IHrp Hrp) as [Ha Hb]. split; [exact Ha | exact Hb].
  - destruct Hwf as (Hrp & Hrem & Hrr & -> & ->).
    destruct (IHrp Hrp) as [Ha Hb]. destruct (IHrem Hrem) as [Hra Hrb].
    rewrite Hrr in Hb. destruct Hb as [_ Hst].
    assert (E : abs (TPar i rem rp (data_name rem) (tdata rem) x y) = abs rp ++ [(KPar, data_name rem, tdata rem)])
      by (apply abs_snoc; reflexivity).
    unfold cnode in *. rewrite E, stack_snoc. simpl. rewrite <- Hst. split; [exact Hra|].
    destruct (remembered_parent rem) as [r|]; [destruct Hrb as [Hwr Hrs]; split; [exact Hwr | exact Hrs] | exact Hrb].
Qed.

Lemma cdata_abs m : wf m -> cdata (abs m) = tdata m.
Proof. intros H. unfold cdata. destruct (chain m H) as [-> _]. reflexivity. Qed.

(* ParentVertex.match refines the specification's parent step *)
Lemma parent_step m :
  wf m ->
  match remembered_parent m with
  | Some r => wf r /\ ext_parent (abs m) = Some (abs m ++ [(KPar, data_name r, tdata r)])
  | None => ext_parent (abs m) = None
  end.
Proof.
  intros H. destruct (chain m H) as [Ha Hb]. unfold ext_parent, tree_parent.
  unfold cnode in Ha. destruct (stack (abs m)) as [|top rest] eqn:Es; [discriminate|]. simpl in Hb.
  destruct (remembered_parent m) as [r|].
  - destruct Hb as [Hwr Hs]. split; [exact Hwr|].
    destruct (chain r Hwr) as [Hra _]. unfold cnode in Hra. rewrite Hs in Hra.
    destruct rest as [|p rest']; [discriminate|]. simpl in Hra. injection Hra as ->. reflexivity.
  - subst rest. reflexivity.
Qed.
