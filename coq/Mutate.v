(* Mutate.v -- set_ / set_match (with cascade), pop / pop_match, get(store_default=True) and the Match
   facade's data setter / deleter / pop, on id-labelled trees with mutation by identity label
   (DESIGN.md 3.2, 6/C08-C10, C14).  Model file: definitions only. *)
From Coq Require Import List ZArith String Bool PArith.
From TP Require Import Json PyPrim Machine Api.
Import ListNotations.
Open Scope list_scope.

(* ------------------------------------------------------------------ mutation by identity *)
(* the container labelled i, first in pre-order (documents are trees: labels are unique) *)
Fixpoint find_by_id (i : nat) (d : json) : option json :=
  match d with
  | JList j l =>
      if Nat.eqb i j then Some d
      else (fix go (l : list json) : option json :=
              match l with [] => None | x :: r => match find_by_id i x with Some c => Some c | None => go r end end) l
  | JDict j l =>
      if Nat.eqb i j then Some d
      else (fix go (l : list (string * json)) : option json :=
              match l with [] => None | kx :: r => match find_by_id i (snd kx) with Some c => Some c | None => go r end end) l
  | _ => None
  end.

(* replace the container labelled i by c *)
Fixpoint replace_by_id (i : nat) (c : json) (d : json) : json :=
  match d with
  | JList j l => if Nat.eqb i j then c else JList j (map (replace_by_id i c) l)
  | JDict j l => if Nat.eqb i j then c else JDict j (map (fun kx => (fst kx, replace_by_id i c (snd kx))) l)
  | _ => d
  end.

Definition label_of (d : json) : option nat :=
  match d with JList i _ | JDict i _ => Some i | _ => None end.

(* all identity labels of a document, pre-order *)
Fixpoint labels (d : json) : list nat :=
  match d with
  | JList i l => i :: flat_map labels l
  | JDict i l => i :: flat_map (fun kx => labels (snd kx)) l
  | _ => []
  end.

Fixpoint nodupb (l : list nat) : bool :=
  match l with [] => true | x :: r => negb (existsb (Nat.eqb x) r) && nodupb r end.

(* labels are unique and none lies in the window [nl, nl + n) from which a cascade over n steps allocates *)
Definition freshb (doc : json) (nl n : nat) : bool :=
  nodupb (labels doc) && forallb (fun i => Nat.ltb i nl || Nat.leb (nl + n) i) (labels doc).

(* apply an in-place operation to the object `target` (a container seen earlier) inside document doc.
   The operation sees the object's current contents.  A detached object is not part of the document:
   the operation then has no effect on doc (the harness never generates that situation). *)
Definition mutate {A} (doc target : json) (f : json -> res (A * json)) : res A * json :=
  match label_of target with
  | None => match f target with Ok (a, _) => (Ok a, doc) | Exn e => (Exn e, doc) end
  | Some i =>
      let cur := match find_by_id i doc with Some c => c | None => target end in
      match f cur with
      | Ok (a, c') => (Ok a, replace_by_id i c' doc)
      | Exn e => (Exn e, doc)
      end
  end.

(* data[name] = value *)
Definition setitem (nm : name) (v : json) (c : json) : res (unit * json) :=
  match c, nm with
  | JDict i its, NStr k => Ok (tt, JDict i (dict_set its k v))
  | JList i its, NInt z => match list_set its z v with Ok l => Ok (tt, JList i l) | Exn e => Exn e end
  | JList _ _, NStr _ => Exn EType
  | JDict _ _, NInt _ => Exn EKey        (* never generated: JSON dicts have str keys *)
  | _, _ => Exn EType
  end.

(* del data[name] *)
Definition delitem (nm : name) (c : json) : res (unit * json) :=
  match c, nm with
  | JDict i its, NStr k => match dict_pop its k with Ok (_, l) => Ok (tt, JDict i l) | Exn e => Exn e end
  | JList i its, NInt z => match list_del its z with Ok l => Ok (tt, JList i l) | Exn e => Exn e end
  | JList _ _, NStr _ => Exn EType
  | JDict _ _, NInt _ => Exn EKey
  | _, _ => Exn EType
  end.

Section Mut.
Variable B : positive.
Variable H : positive.
Variable depth : nat.

Notation jtm := (@tm json).
Notation jevent := (@event json).
Notation jpath := (list (vertex (@hpred json))).
Definition jget_match := @get_match json jshape (fun d => d) B H depth.

Definition mk_child (pm : jtm) (nm : name) (v : json) : jtm :=
  child 1%positive pm nm v (S (tvi pm)) (S (tvi pm)).

(* leaf_vertex.set(parent_match, value): KeyVertex.set / ListIndexVertex.set / Vertex.set *)
Definition leaf_set (doc : json) (pm : jtm) (v : vertex (@hpred json)) (x : json) : res jtm * json :=
  match v with
  | VKey k =>
      match tdata pm with
      | JDict _ _ =>
          match mutate doc (tdata pm) (setitem (NStr k) x) with
          | (Ok _, doc') => (Ok (mk_child pm (NStr k) x), doc')
          | (Exn e, doc') => (Exn e, doc')
          end
      | _ => (Exn ESet, doc)                                   (* raise_invalid_set *)
      end
  | VIdx z =>
      match tdata pm with
      | JList _ _ =>
          match mutate doc (tdata pm)
                  (fun c => match c with
                            | JList i its =>
                                match list_set its z x with
                                | Ok l => Ok (tt, JList i l)
                                | Exn _ => if Z.eqb (zlen its) z then Ok (tt, JList i (list_append its x))
                                           else Exn ESet       (* index is out of range *)
                                end
                            | _ => Exn EType
                            end) with
          | (Ok _, doc') => (Ok (mk_child pm (NInt z) x), doc')
          | (Exn e, doc') => (Exn e, doc')
          end
      | _ => (Exn ESet, doc)
      end
  | _ => (Exn ESet, doc)                                       (* Vertex.set: does not support set *)
  end.

(* vertex.default_value_for_set *)
Definition default_for_set (v : vertex (@hpred json)) (fresh : nat) : json :=
  match v with
  | VKey _ => JDict fresh []
  | VIdx _ => JList fresh []
  | _ => JNull
  end.

Definition uses_label (v : vertex (@hpred json)) : bool :=
  match v with VKey _ | VIdx _ => true | _ => false end.

Fixpoint split_last {A} (l : list A) : option (list A * A) :=
  match l with
  | [] => None
  | [x] => Some ([], x)
  | x :: r => match split_last r with Some (i, y) => Some (x :: i, y) | None => None end
  end.

(* set_match.  fuel >= length of the path; nl = next free identity label for containers created by cascade.
   Returns the outcome, the document afterwards (changed even on some failures), the next label, events. *)
Fixpoint set_match (fuel : nat) (src : @source json) (doc : json) (p : jpath) (x : json) (cascade : bool)
         (tr : @tracecfg json) (nl : nat) : res jtm * json * nat * list jevent :=
  match fuel with
  | O => (Exn EFuel, doc, nl, [])
  | S fuel' =>
      match split_last p with
      | None => (Exn ESet, doc, nl, [])                         (* the root path (repaired defect D3) *)
      | Some (pp, v) =>
          (* the data source of a search from the document is the document as it is now *)
          let src' := match src with SrcDoc _ => SrcDoc doc | s => s end in
          match jget_match src' pp true tr with
          | (Ok (Some pm), es) => let '(r, doc') := leaf_set doc pm v x in (r, doc', nl, es)
          | (Ok None, es) => (Exn EAttr, doc, nl, es)           (* unreachable: must_match=True *)
          | (Exn EMatchNotFound, es) | (Exn ENestedMatchNotFound, es) =>
              if cascade then
                let dflt := default_for_set v nl in
                let nl1 := if uses_label v then S nl else nl in
                match set_match fuel' src doc pp dflt true tr nl1 with
                | (Ok pm, doc1, nl2, es') => let '(r, doc2) := leaf_set doc1 pm v x in (r, doc2, nl2, es ++ es')
                | (Exn e, doc1, nl2, es') => (Exn e, doc1, nl2, es ++ es')
                end
              else (Exn ESet, doc, nl, es)
          | (Exn e, es) => (Exn e, doc, nl, es)
          end
      end
  end.

(* leaf_vertex.pop(match): KeyVertex.pop / ListIndexVertex.pop / Vertex.pop *)
Definition leaf_pop (doc : json) (m : jtm) (v : vertex (@hpred json)) : res unit * json :=
  match v with
  | VKey k =>
      match parent m with
      | None => (Exn EAttr, doc)
      | Some pm =>
          match tdata pm with
          | JDict _ _ => mutate doc (tdata pm) (delitem (NStr k))
          | _ => (Exn EPop, doc)                               (* raise_invalid_pop *)
          end
      end
  | VIdx z =>
      match parent m with
      | None => (Exn EAttr, doc)
      | Some pm =>
          match tdata pm with
          | JList _ _ => mutate doc (tdata pm) (delitem (NInt z))
          | _ => (Exn EPop, doc)
          end
      end
  | _ => (Exn EPop, doc)                                       (* Vertex.pop: does not support pop *)
  end.

(* pop_match *)
Definition pop_match (src : @source json) (doc : json) (p : jpath) (must : bool) (tr : @tracecfg json)
  : res (option jtm) * json * list jevent :=
  let src' := match src with SrcDoc _ => SrcDoc doc | s => s end in
  match jget_match src' p must tr with
  | (Ok (Some m), es) =>
      match split_last p with
      | None => (Exn EPop, doc, es)                            (* RootVertex inherits Vertex.pop *)
      | Some (_, v) =>
          match leaf_pop doc m v with
          | (Ok _, doc') => (Ok (Some m), doc', es)
          | (Exn e, doc') => (Exn e, doc', es)
          end
      end
  | (Ok None, es) => (Ok None, doc, es)
  | (Exn e, es) => (Exn e, doc, es)
  end.

(* ------------------------------------------------------------------ the Match facade: m.data = v, del m.data, m.pop() *)
Definition match_assign (doc : json) (m : jtm) (x : json) : res unit * json :=
  match parent m with
  | None => (Exn EAttr, doc)                                   (* 'NoneType' object has no attribute 'data' *)
  | Some pm => mutate doc (tdata pm) (setitem (data_name m) x)
  end.

Definition lookup_to_pop (e : exn) : exn :=
  match e with EKey | EIndex => EPop | _ => e end.             (* except LookupError -> PopError *)

Definition match_del (doc : json) (m : jtm) : res unit * json :=
  match parent m with
  | None => (Exn EAttr, doc)
  | Some pm =>
      match mutate doc (tdata pm) (delitem (data_name m)) with
      | (Ok u, doc') => (Ok u, doc')
      | (Exn e, doc') => (Exn (lookup_to_pop e), doc')
      end
  end.

End Mut.
