(* RunL.v -- histories of operations on the view of a list-typed attribute (C19).  Model file. *)
From Coq Require Import List ZArith String Bool PArith.
From TP Require Import Json PyPrim Machine Obs DocList.
Import ListNotations.
Open Scope string_scope.
Open Scope list_scope.

Inductive lpred := LpConst (b : bool) | LpTruthy | LpEq (v : json) | LpLt (z : Z) | LpIsBool.

Definition lp_eval (p : lpred) (x : json) : bool :=
  match p with
  | LpConst b => b
  | LpTruthy => truthy x
  | LpEq v => py_eq x v
  | LpLt z => match x with JInt n => Z.ltb (2 * n) (2 * z) | JFloat h => Z.ltb h (2 * z) | _ => false end
  | LpIsBool => match x with JBool _ => true | _ => false end
  end.

Inductive lop :=
| LLen | LGet (i : Z) | LSet (i : Z) (v : json) | LDel (i : Z) | LIn (v : json) | LAppend (v : json)
| LPop (i : Z) | LIter | LKeep (p : lpred) | LRemove (p : lpred)
(* it = iter(view); k x next(it); a mutation through the view (failures ignored); list(it): the view's iterator
   is the list's own (an index into the live list), not a snapshot *)
| LIterMut (k : nat) (m : lmut)
with lmut := MuAppend (v : json) | MuDel (i : Z) | MuPop (i : Z) | MuSet (i : Z) (v : json).

(* l_partial: the converter to_wrapped_value raises Boom(7) on strings (a converter need not be total) *)
Record lcase := { l_id : nat; l_items : list json; l_ops : list lop; l_partial : bool }.

Definition idj (x : json) : json := x.

Definition apply_mut (data : list json) (m : lmut) : list json :=
  match m with
  | MuAppend v => dl_append json json idj data v
  | MuDel i => match dl_delitem json data i with Ok l => l | Exn _ => data end
  | MuPop i => match dl_pop json json idj data i with Ok (_, l) => l | Exn _ => data end
  | MuSet i v => match dl_setitem json json idj data i v with Ok l => l | Exn _ => data end
  end.

Definition is_str (x : json) : bool := match x with JStr _ => true | _ => false end.

Definition run_lop (partial : bool) (data : list json) (o : lop) : otree * list json :=
  match o with
  | LGet i =>
      match dl_getitem json json idj data i with
      | Ok x => if partial && is_str x then (ON "get" [ON "raise" [oexn (EUser 7)]], data) else (ON "get" [lval x], data)
      | Exn e => (ON "get" [ON "raise" [oexn e]], data)
      end
  | LPop i =>
      (* value = data.pop(i); return to_wrapped_value(value): the element is gone when the converter raises *)
      match dl_pop json json idj data i with
      | Ok (x, l) => if partial && is_str x then (ON "pop" [ON "raise" [oexn (EUser 7)]], l) else (ON "pop" [lval x], l)
      | Exn e => (ON "pop" [ON "raise" [oexn e]], data)
      end
  | LIterMut k m =>
      let data' := apply_mut data m in
      (* k calls of next(): the first min(k, len) items; when the list was shorter the iterator is exhausted for good *)
      let rest := if Nat.leb k (List.length data) then skipn k data' else [] in
      (ON "itermut" [ON "first" (map lval (firstn k data)); ON "rest" (map lval rest)], data')
  | LLen => (ON "len" [OZ (zlen data)], data)
  | LSet i v => match dl_setitem json json idj data i v with
                | Ok l => (ON "set" [], l) | Exn e => (ON "set" [ON "raise" [oexn e]], data) end
  | LDel i => match dl_delitem json data i with
              | Ok l => (ON "del" [], l) | Exn e => (ON "del" [ON "raise" [oexn e]], data) end
  | LIn v => (ON "in" [obool (py_in v data)], data)
  | LAppend v => (ON "append" [], dl_append json json idj data v)
  | LIter => (ON "iter" (map lval (dl_iter json json idj data)), data)
  | LKeep p => (ON "keep" [ON "calls" (map lval (keep_calls json json idj idj (lp_eval p) data))],
                keep_all json json idj idj (lp_eval p) data)
  | LRemove p => (ON "keep" [ON "calls" (map lval (keep_calls json json idj idj (fun x => negb (lp_eval p x)) data))],
                  remove_all json json idj idj (lp_eval p) data)
  end.

Fixpoint run_lops (partial : bool) (id : nat) (data : list json) (os : list lop) : list otree :=
  match os with
  | [] => []
  | o :: r => let '(ob, d') := run_lop partial data o in
              ON "op" [ob; snapshot (JList id d')] :: run_lops partial id d' r
  end.

Definition run_lcase (c : lcase) : otree :=
  ON "l" (snapshot (JList (l_id c) (l_items c)) :: run_lops (l_partial c) (l_id c) (l_items c) (l_ops c)).
