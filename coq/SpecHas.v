(* SpecHas.v -- what the has family means (C04), on the specification side: has(p ...) scans the complete
   nested answer of p from the candidate up to the first selected value that satisfies the test; has_all /
   has_any / has_not are left-to-right short-circuit and / or / not.  Depth-indexed only because predicates and
   paths are mutually nested.  Specification file: definitions only. *)
From Coq Require Import List ZArith String Bool.
From TP Require Import Json PyPrim Machine Api Spec.
Import ListNotations.
Open Scope list_scope.

Definition jpred := @hpred json.
Definition jfn := fn.

(* for function in single_arg_functions[::-1]: value = function(value) -- fs given already reversed *)
Fixpoint sapply_fns (fs : list jfn) (v : json) : res json * list sevent :=
  match fs with
  | [] => (Ok v, [])
  | (tag, f) :: r =>
      match f v with
      | Ok v' => let '(o, es) := sapply_fns r v' in (o, SCallF tag v :: es)
      | Exn e => (Exn e, [SCallF tag v])
      end
  end.

Definition shas_test (op : option (cmpop * json)) (fs : list jfn) (x : json) : res bool * list sevent :=
  match op, fs with
  | None, [] => (Ok true, [])
  | _, _ =>
      let '(r, es) := sapply_fns (rev fs) x in
      match r with
      | Exn e => (Exn e, es)
      | Ok v =>
          match op with
          | None => (Ok (truthy v), es)
          | Some (o, c) => match py_cmp o v c with Ok b => (Ok b, es) | Exn e => (Exn e, es) end
          end
      end
  end.

(* the nested answer is consumed up to the first selected value that passes the test (its own result events
   are not shown); an exception of the nested search or of the test surfaces; no success: False.
   (A nested stream never ends in StopIteration as an exception; that case is listed only so that the
   refinement proof need not show its impossibility.) *)
Fixpoint shas_scan (test : json -> res bool * list sevent) (es : list sevent) (ex : option exn)
  : res json * list sevent :=
  match es with
  | [] => (match ex with None | Some EStop => Ok (JBool false) | Some e => Exn e end, [])
  | SResult c :: r =>
      let '(t, tes) := test (cdata c) in
      match t with
      | Ok true => (Ok (JBool true), tes)
      | Ok false => let '(o, es') := shas_scan test r ex in (o, tes ++ es')
      | Exn e => (Exn e, tes)
      end
  | e :: r => let '(o, es') := shas_scan test r ex in (o, e :: es')
  end.

(* lambda m: get_match(p, m, must_match=must): the first result or None / NestedMatchNotFoundError *)
Fixpoint sgetmatch (must : bool) (es : list sevent) (ex : option exn) : res json * list sevent :=
  match es with
  | [] => (match ex with
           | None | Some EStop => if must then Exn ENestedMatchNotFound else Ok JNull
           | Some e => Exn e
           end, [])
  | SResult _ :: _ => (Ok (JBool true), [])
  | e :: r => let '(o, es') := sgetmatch must r ex in (o, e :: es')
  end.

Fixpoint seval_h (n : nat) (h : jpred) (c : jctx) {struct n} : res json * list sevent :=
  match n with
  | O => (Exn EFuel, [])
  | S n' =>
      match h with
      | HUser tag f => (f c, [SCall tag c])
      | HHas p op fs =>
          let r := sem jpred (seval_h n') 0 p (Some c) c in shas_scan (shas_test op fs) (fst r) (snd r)
      | HGetMatch p must =>
          let r := sem jpred (seval_h n') 0 p (Some c) c in sgetmatch must (fst r) (snd r)
      | HNot h' =>
          match seval_h n' h' c with
          | (Ok v, es) => (Ok (JBool (negb (truthy v))), es)
          | r => r
          end
      | HAll l =>
          (fix go (l : list jpred) : res json * list sevent :=
             match l with
             | [] => (Ok (JBool true), [])
             | h' :: r =>
                 match seval_h n' h' c with
                 | (Ok v, es) => if truthy v then let '(o, es') := go r in (o, es ++ es') else (Ok (JBool false), es)
                 | (Exn e, es) => (Exn e, es)
                 end
             end) l
      | HAny l =>
          (fix go (l : list jpred) : res json * list sevent :=
             match l with
             | [] => (Ok (JBool false), [])
             | h' :: r =>
                 match seval_h n' h' c with
                 | (Ok v, es) => if truthy v then (Ok (JBool true), es) else let '(o, es') := go r in (o, es ++ es')
                 | (Exn e, es) => (Exn e, es)
                 end
             end) l
      end
  end.
