(* Api.v -- has-family predicates (has_function.py, traverser_functions.py:359-476) and the read-only API
   functions find / find_matches / get / get_match with their nested_* variants.
   Model file: definitions only. *)
From Coq Require Import List ZArith String Bool PArith.
From TP Require Import Json PyPrim Machine.
Import ListNotations.
Open Scope list_scope.

Section Api.
Context {D : Type}.
Variable shape : D -> shp D.
Variable val : D -> json.          (* the Python value of a node, for comparisons and conversion functions *)
Variable B : positive.             (* the budget of every __next__ (1 000 000 in the library) *)
Variable H : positive.             (* fuel of a has-loop: only exhausted on infinite result streams (finding F2) *)

(* a conversion function / comparison helper supplied by the user, with a tag for the call log *)
Definition fn : Type := (nat * (json -> res json))%type.

(* predicates usable as filters: user callables (opaque functions of the public view of the candidate),
   the has family, and a custom predicate that searches on from the Match it receives *)
Inductive hpred :=
| HUser (tag : nat) (f : ctx D -> res json)
| HHas (p : list (vertex hpred)) (op : option (cmpop * json)) (fs : list fn)
| HAll (l : list hpred)
| HAny (l : list hpred)
| HNot (h : hpred)
| HGetMatch (p : list (vertex hpred)) (must : bool).

Notation tmD := (@tm D).
Notation eventD := (@event D).

(* for function in single_arg_functions[::-1]: value = function(value)   -- fs is given already reversed *)
Fixpoint apply_fns (fs : list fn) (v : json) : res json * list eventD :=
  match fs with
  | [] => (Ok v, [])
  | (tag, f) :: r =>
      match f v with
      | Ok v' => let '(o, es) := apply_fns r v' in (o, EvCallF tag v :: es)
      | Exn e => (Exn e, [EvCallF tag v])
      end
  end.

(* the test a has-loop applies to each selected value *)
Definition has_test (op : option (cmpop * json)) (fs : list fn) (x : D) : res bool * list eventD :=
  match op, fs with
  | None, [] => (Ok true, [])
  | _, _ =>
      let '(r, es) := apply_fns (rev fs) (val x) in
      match r with
      | Exn e => (Exn e, es)
      | Ok v =>
          match op with
          | None => (Ok (truthy v), es)
          | Some (o, c) => match py_cmp o v c with Ok b => (Ok b, es) | Exn e => (Exn e, es) end
          end
      end
  end.

(* results of a nested traverser are consumed by the predicate, not shown to the user *)
Definition nested_events (es : list eventD) : list eventD :=
  filter (fun e => match e with EvResult _ => false | _ => true end) es.

Section Level.
(* evaluator of the predicates occurring inside the nested path (one nesting level down) *)
Variable ev : hpred -> tmD -> @tracecfg D -> res json * list eventD.

Definition hacc : Type := (@state D * list eventD)%type.

(* for next_match in nested_find_matches(path, candidate): ... return True / return False *)
Definition has_body (p : list (vertex hpred)) (op : option (cmpop * json)) (fs : list fn)
           (m : tmD) (tr : @tracecfg D) (a : hacc) : hacc + (res json * list eventD) :=
  let '(z, evs) := a in
  match next shape hpred ev B (SrcMatch m) p tr z with
  | (OResult c, z', es) =>
      let '(t, tes) := has_test op fs (tdata c) in
      let evs' := evs ++ nested_events es ++ tes in
      match t with
      | Ok true => inr (Ok (JBool true), evs')
      | Ok false => inl (z', evs')
      | Exn e => inr (Exn e, evs')
      end
  | (ORaise EStop, _, es) => inr (Ok (JBool false), evs ++ nested_events es)
  | (ORaise e, _, es) => inr (Exn e, evs ++ nested_events es)
  end.

Definition has_loop p op fs (m : tmD) (tr : @tracecfg D) : res json * list eventD :=
  match iter_until H (has_body p op fs m tr) (init_state, []) with
  | inr r => r
  | inl (_, evs) => (Exn EFuel, evs)
  end.

(* lambda m: get_match(p, m, must_match=must) *)
Definition getmatch_pred p (must : bool) (m : tmD) (tr : @tracecfg D) : res json * list eventD :=
  match next shape hpred ev B (SrcMatch m) p tr init_state with
  | (OResult _, _, es) => (Ok (JBool true), nested_events es)          (* a Match object: truthy *)
  | (ORaise EStop, _, es) => (if must then Exn ENestedMatchNotFound else Ok JNull, nested_events es)
  | (ORaise e, _, es) => (Exn e, nested_events es)
  end.

End Level.

(* depth-indexed evaluation; eval_h n is adequate for predicates nested at most n deep *)
Fixpoint eval_h (n : nat) (h : hpred) (m : tmD) (tr : @tracecfg D) {struct n} : res json * list eventD :=
  match n with
  | O => (Exn EFuel, [])
  | S n' =>
      (* PredicateMatch.trace stamps the candidate; an inner stamp wins over an outer one *)
      let tr' : @tracecfg D := match tr with None => None | Some _ => Some (Some m) end in
      match h with
      | HUser tag f => (f (abs m), [EvCall tag m])
      | HHas p op fs => has_loop (eval_h n') p op fs m tr'
      | HGetMatch p must => getmatch_pred (eval_h n') p must m tr'
      | HNot h' =>
          match eval_h n' h' m tr with
          | (Ok v, es) => (Ok (JBool (negb (truthy v))), es)
          | r => r
          end
      | HAll l =>
          (fix go (l : list hpred) : res json * list eventD :=
             match l with
             | [] => (Ok (JBool true), [])
             | h' :: r =>
                 match eval_h n' h' m tr with
                 | (Ok v, es) => if truthy v then let '(o, es') := go r in (o, es ++ es')
                                 else (Ok (JBool false), es)
                 | (Exn e, es) => (Exn e, es)
                 end
             end) l
      | HAny l =>
          (fix go (l : list hpred) : res json * list eventD :=
             match l with
             | [] => (Ok (JBool false), [])
             | h' :: r =>
                 match eval_h n' h' m tr with
                 | (Ok v, es) => if truthy v then (Ok (JBool true), es)
                                 else let '(o, es') := go r in (o, es ++ es')
                 | (Exn e, es) => (Exn e, es)
                 end
             end) l
      end
  end.

(* ------------------------------------------------------------------ the read-only API *)
Variable depth : nat.   (* >= nesting depth of the predicates in the path *)

Definition path : Type := list (vertex hpred).

(* one next() on the iterator returned by find_matches / nested_find_matches *)
Definition api_next (src : @source D) (p : path) (tr : @tracecfg D) (z : @state D) :=
  next shape hpred (eval_h depth) B src p tr z.

Definition not_found (src : @source D) : exn :=
  match src with SrcDoc _ => EMatchNotFound | SrcMatch _ => ENestedMatchNotFound end.

(* get_match / nested_get_match *)
Definition get_match (src : @source D) (p : path) (must : bool) (tr : @tracecfg D)
  : res (option tmD) * list eventD :=
  match api_next src p tr init_state with
  | (OResult m, _, es) => (Ok (Some m), es)
  | (ORaise EStop, _, es) => (if must then Exn (not_found src) else Ok None, es)
  | (ORaise e, _, es) => (Exn e, es)
  end.

Inductive default :=
| DNotSet
| DConst (v : json)
| DCall (tag : nat) (v : json).      (* a callable default returning v *)

Inductive got := GData (m : tmD) | GDefault (v : json).

(* get without store_default *)
Definition get (src : @source D) (p : path) (dflt : default) (tr : @tracecfg D)
  : res got * list eventD :=
  let must := match dflt with DNotSet => true | _ => false end in
  match get_match src p must tr with
  | (Ok (Some m), es) => (Ok (GData m), es)
  | (Ok None, es) =>
      match dflt with
      | DCall tag v => (Ok (GDefault v), es ++ [EvCallF tag JNull])
      | DConst v => (Ok (GDefault v), es)
      | DNotSet => (Exn EAttr, es)      (* unreachable: must_match was True *)
      end
  | (Exn e, es) => (Exn e, es)
  end.

End Api.
