(* Obs.v -- canonical observations (DESIGN.md 4.2): a universal tree type, its boolean equality, and the
   rendering of matches, values, events and outcomes.  The harness builds the same trees from the
   implementation's public API.  Model file: definitions only. *)
From Coq Require Import List ZArith String Bool PArith DecimalString Ascii.
From TP Require Import Json PyPrim Machine.
Import ListNotations.
Open Scope list_scope.
Open Scope string_scope.

Inductive otree := ON (tag : string) (kids : list otree) | OZ (z : Z) | OS (s : string).

Fixpoint otree_eqb (a b : otree) : bool :=
  match a, b with
  | OZ x, OZ y => Z.eqb x y
  | OS x, OS y => String.eqb x y
  | ON t k, ON u l =>
      String.eqb t u &&
      (fix go (k l : list otree) : bool :=
         match k, l with
         | [], [] => true
         | x :: k', y :: l' => otree_eqb x y && go k' l'
         | _, _ => false
         end) k l
  | _, _ => false
  end.

(* indices (from 0) at which two observation lists differ; a length difference counts once *)
Fixpoint mismatches_from (i : nat) (a b : list otree) : list nat :=
  match a, b with
  | [], [] => []
  | x :: a', y :: b' => (if otree_eqb x y then [] else [i]) ++ mismatches_from (S i) a' b'
  | _, _ => [i]
  end.
Definition mismatches := mismatches_from 0.

Definition string_of_Z (z : Z) : string := NilZero.string_of_int (Z.to_int z).

Definition obool (b : bool) : otree := OZ (if b then 1 else 0).
Definition oopt {A} (f : A -> otree) (o : option A) : otree :=
  match o with None => ON "none" [] | Some a => ON "some" [f a] end.
Definition oname (n : name) : otree :=
  match n with NStr s => OS s | NInt z => OZ z end.

(* a value as the caller sees it: scalars by value, containers by the identity label of the object *)
Definition lval (v : json) : otree :=
  match v with
  | JNull => ON "null" []
  | JBool b => ON "bool" [obool b]
  | JInt z => ON "int" [OZ z]
  | JFloat h => ON "float" [OZ h]
  | JStr s => ON "str" [OS s]
  | JList i _ => ON "listref" [OZ (Z.of_nat i)]
  | JDict i _ => ON "dictref" [OZ (Z.of_nat i)]
  end.

(* deep snapshot: labels, key order, list order, scalar values *)
Fixpoint snapshot (v : json) : otree :=
  match v with
  | JList i l => ON "list" (OZ (Z.of_nat i) :: map snapshot l)
  | JDict i l => ON "dict" (OZ (Z.of_nat i) :: map (fun kx => ON "kv" [OS (fst kx); snapshot (snd kx)]) l)
  | _ => lval v
  end.

(* ------------------------------------------------------------------ matches *)
Notation jtm := (@tm json).

Definition name_str (n : name) : string :=
  match n with NStr s => s | NInt z => string_of_Z z end.

(* path_segment of the match classes *)
Fixpoint path_segment (m : jtm) : string :=
  match m with
  | TRoot _ _ => "$"
  | TNRoot _ o _ => path_segment o
  | TKey _ _ k _ _ _ => "." ++ k
  | TIdx _ _ i _ _ _ => "[" ++ string_of_Z i ++ "]"
  | TImag _ rp _ _ _ => path_segment rp
  | TPar _ _ _ nm _ _ _ => "<-" ++ name_str nm
  end.

Definition path_as_str (m : jtm) : string :=
  String.concat "" (map path_segment (path_match_list m)).

Definition okind (k : kind) : otree :=
  OS (match k with KRoot => "root" | KKey => "key" | KIdx => "idx" | KPar => "par" end).

(* the chain m, m.parent, m.parent.parent, ... *)
Fixpoint pchain (m : jtm) : list jtm :=
  match m with
  | TRoot _ _ => [m]
  | TNRoot _ o _ => m :: tl (pchain o)
  | TKey _ rp _ _ _ _ | TIdx _ rp _ _ _ _ | TPar _ _ rp _ _ _ _ => m :: pchain rp
  | TImag _ rp _ _ _ => m :: tl (pchain rp)
  end.

(* short reference to a match: where it is and what it holds *)
Definition mref (m : jtm) : otree :=
  ON "m" [OS (path_as_str m); oname (data_name m); lval (tdata m)].

(* everything the public Match API tells about m *)
Definition mdesc (m : jtm) : otree :=
  ON "match" [
    OS (path_as_str m);
    oname (data_name m);
    lval (tdata m);
    ON "pml" (map (fun x => ON "e" [OS (path_segment x); oname (data_name x); lval (tdata x)]) (path_match_list m));
    ON "parents" (map (fun x => ON "p" [oname (data_name x); lval (tdata x)]) (tl (pchain m)))
  ].

(* Match.__eq__: data, data_name and parent, recursively *)
Definition match_eq (a b : jtm) : bool :=
  (fix go (k l : list jtm) : bool :=
     match k, l with
     | [], [] => true
     | x :: k', y :: l' => py_eq (tdata x) (tdata y) && name_eqb (data_name x) (data_name y) && go k' l'
     | _, _ => false
     end) (pchain a) (pchain b).

(* ------------------------------------------------------------------ exceptions, events *)
Fixpoint oexn (e : exn) : otree :=
  match e with
  | EKey => OS "KeyError" | EIndex => OS "IndexError" | EType => OS "TypeError"
  | EAttr => OS "AttributeError" | EValue => OS "ValueError"
  | EUser n => ON "Boom" [OZ (Z.of_nat n)]
  | EMatchNotFound => OS "MatchNotFoundError" | ENestedMatchNotFound => OS "NestedMatchNotFoundError"
  | ESet => OS "SetError" | EPop => OS "PopError" | EInfiniteLoop => OS "InfiniteLoopDetected"
  | EStop => OS "StopIteration" | EPathSyntax => OS "PathSyntaxError"
  | ETraversing c => ON "TraversingError" [oexn c]
  | EFuel => OS "MODEL-OUT-OF-FUEL"
  end.

Definition oevent (e : @event json) : list otree :=
  match e with
  | EvTrace l n i pm => [ON "trace" [mref l; oopt mref n; OZ (Z.of_nat i); oopt mref pm]]
  | EvCall tag m => [ON "call" [OZ (Z.of_nat tag); mref m;
                                 oopt (fun x => OS (path_as_str x)) (parent m)]]
  | EvCallF tag a => [ON "callf" [OZ (Z.of_nat tag); snapshot a]]
  | EvResult _ => []
  end.
Definition oevents (es : list (@event json)) : otree := ON "events" (flat_map oevent es).
