(* Feasibility probe for DESIGN.md section 3.5: machine with pointer-linked resume chain
   refines the denotational event stream.  Reduced vertex set: key, key wildcard. *)
From Coq Require Import List ZArith String Bool Lia PeanoNat.
Import ListNotations.
Open Scope list_scope.

Inductive json := JNull | JInt (z : Z) | JList (l : list json) | JDict (l : list (string * json)).

Inductive vertex := VKey (k : string) | VWild | VRec.

(* immutable skeleton of a TraverserMatch *)
Inductive tm :=
| TRoot (id : nat) (d : json)
| TKey (id : nat) (rp : tm) (k : string) (d : json) (vx vi : nat)
| TImag (id : nat) (rp : tm) (d : json) (vi : nat).

Definition tid m := match m with TRoot i _ => i | TKey i _ _ _ _ _ => i | TImag i _ _ _ => i end.
Definition tdata m := match m with TRoot _ d => d | TKey _ _ _ d _ _ => d | TImag _ _ d _ => d end.
Definition tvi m := match m with TRoot _ _ => 0 | TKey _ _ _ _ _ v => v | TImag _ _ _ v => v end.
Definition tvx m := match m with TRoot _ _ => 0 | TKey _ _ _ _ x _ => x | TImag _ _ _ v => v end.

Inductive act := AMatch | ADone.
Inductive pcs := PReport | PMatch | PCatch | PDone.
Definition pc_of (a : act) := match a with AMatch => PMatch | ADone => PDone end.

Record mut := { cs : option (list (string * json)); ocm : option tm; oca : act }.

Record state := { cur : option tm; pc : pcs; st : nat -> mut; nid : nat }.

Definition upd (s : nat -> mut) (i : nat) (m : mut) : nat -> mut :=
  fun j => if Nat.eqb j i then m else s j.

Inductive event := ETrace (last : tm) (next : option tm) (i : nat) | EResult (m : tm).

Fixpoint assoc (k : string) (l : list (string * json)) : option json :=
  match l with [] => None | (k', v) :: r => if String.eqb k k' then Some v else assoc k r end.

Definition items (d : json) := match d with JDict l => Some l | _ => None end.

(* restore_on_catch (repaired variant) *)
Definition restore (m : tm) (s : nat -> mut) : nat -> mut :=
  match m with
  | TRoot i _ => upd s i {| cs := None; ocm := None; oca := ADone |}
  | TKey i rp _ _ _ _ => upd s i {| cs := None; ocm := ocm (s (tid rp)); oca := oca (s (tid rp)) |}
  | TImag i rp _ _ => upd s i {| cs := None; ocm := ocm (s (tid rp)); oca := oca (s (tid rp)) |}
  end.

Definition pop_next (m : tm) (i : nat) (s : nat -> mut) (n : nat) : option tm * (nat -> mut) * nat :=
  match cs (s (tid m)) with
  | Some ((k, x) :: rest) =>
      let mm := s (tid m) in
      let s1 := upd s (tid m) {| cs := Some rest; ocm := ocm mm; oca := oca mm |} in
      let c := TKey n m k x i i in
      (Some c, upd s1 n {| cs := None; ocm := ocm mm; oca := oca mm |}, S n)
  | Some [] => (None, restore m s, n)
  | None => (None, s, n)
  end.

Definition vmatch (v : vertex) (m : tm) (i : nat) (s : nat -> mut) (n : nat)
  : option tm * (nat -> mut) * nat :=
  match v with
  | VKey k =>
      match tdata m with
      | JDict l =>
          match assoc k l with
          | Some x => let mm := s (tid m) in
                      (Some (TKey n m k x i i), upd s n {| cs := None; ocm := ocm mm; oca := oca mm |}, S n)
          | None => (None, s, n)
          end
      | _ => (None, s, n)
      end
  | VWild =>
      match cs (s (tid m)) with
      | None =>
          match items (tdata m) with
          | None => (None, s, n)
          | Some its =>
              (* remember_on_catch *)
              pop_next m i (upd s (tid m) {| cs := Some its; ocm := Some m; oca := AMatch |}) n
          end
      | Some _ => pop_next m i s n
      end
  | VRec =>
      let mm := s (tid m) in
      match cs mm with
      | None =>
          match items (tdata m) with
          | None => (None, s, n)
          | Some its =>
              let s1 := upd s (tid m) {| cs := Some its; ocm := Some m; oca := AMatch |} in
              (Some (TImag n m (tdata m) i), upd s1 n {| cs := None; ocm := Some m; oca := AMatch |}, S n)
          end
      | Some ((k, x) :: rest) =>
          let s1 := upd s (tid m) {| cs := Some rest; ocm := ocm mm; oca := oca mm |} in
          let c := TKey n m k x i (pred i) in
          let s2 := upd s1 n {| cs := None; ocm := ocm mm; oca := oca mm |} in
          (* self.match(c, traverser, i): c has no iterator yet *)
          match items x with
          | None => (Some c, s2, S n)
          | Some its' =>
              let s3 := upd s2 n {| cs := Some its'; ocm := Some c; oca := AMatch |} in
              (Some (TImag (S n) c x i), upd s3 (S n) {| cs := None; ocm := Some c; oca := AMatch |}, S (S n))
          end
      | Some [] => (None, restore m s, n)
      end
  end.

Definition step (vp : list vertex) (z : state) : option (state * list event) :=
  match pc z, cur z with
  | PDone, _ => None
  | _, None => None
  | PReport, Some m =>
      if Nat.eqb (tvx m) (List.length vp)
      then Some ({| cur := Some m; pc := PCatch; st := st z; nid := nid z |}, [EResult m])
      else Some ({| cur := Some m; pc := PMatch; st := st z; nid := nid z |}, [])
  | PCatch, Some m =>
      let mm := st z (tid m) in
      Some ({| cur := ocm mm; pc := pc_of (oca mm); st := st z; nid := nid z |}, [])
  | PMatch, Some m =>
      match nth_error vp (tvi m) with
      | None => None
      | Some v =>
          let i := S (tvi m) in
          let '(r, s', n') := vmatch v m i (st z) (nid z) in
          match r with
          | Some c => Some ({| cur := Some c; pc := PReport; st := s'; nid := n' |}, [ETrace m r i])
          | None => let mm := s' (tid m) in
                    Some ({| cur := ocm mm; pc := pc_of (oca mm); st := s'; nid := n' |}, [ETrace m None i])
          end
      end
  end.

Fixpoint steps (vp : list vertex) (k : nat) (z : state) : state * list event :=
  match k with
  | 0 => (z, [])
  | S k' => match step vp z with
            | None => (z, [])
            | Some (z', ev) => let '(z'', ev') := steps vp k' z' in (z'', ev ++ ev')
            end
  end.

(* ------------------------------------------------------------------ spec *)
Definition ctx := (list string * json)%type.
Inductive sevent := STrace (last : ctx) (next : option ctx) (i : nat) | SResult (c : ctx).

(* pre-order walk below a container whose own continuation has been emitted already *)
Fixpoint rec_children (i : nat) (semr : ctx -> list sevent) (leaf : bool) (nm : list string) (d : json)
  : list sevent :=
  match d with
  | JDict l =>
      flat_map (fun kx =>
                  let c' := (nm ++ [fst kx], snd kx) in
                  STrace (nm, d) (Some c') i ::
                  match items (snd kx) with
                  | Some _ => semr c' ++ rec_children i semr leaf (nm ++ [fst kx]) (snd kx)
                  | None => if leaf then [SResult c'] else [STrace c' None i]
                  end) l
      ++ [STrace (nm, d) None i]
  | _ => []
  end.

Fixpoint sem (i : nat) (rest : list vertex) (c : ctx) : list sevent :=
  match rest with
  | [] => [SResult c]
  | VKey k :: r =>
      match snd c with
      | JDict l => match assoc k l with
                   | Some x => let c' := (fst c ++ [k], x) in STrace c (Some c') (S i) :: sem (S i) r c'
                   | None => [STrace c None (S i)]
                   end
      | _ => [STrace c None (S i)]
      end
  | VWild :: r =>
      match items (snd c) with
      | None => [STrace c None (S i)]
      | Some its =>
          flat_map (fun kx => let c' := (fst c ++ [fst kx], snd kx) in
                              STrace c (Some c') (S i) :: sem (S i) r c') its
          ++ [STrace c None (S i)]
      end
  | VRec :: r =>
      match items (snd c) with
      | None => [STrace c None (S i)]
      | Some _ =>
          STrace c (Some c) (S i) :: sem (S i) r c
          ++ rec_children (S i) (sem (S i) r) (match r with [] => true | _ => false end) (fst c) (snd c)
      end
  end.

Fixpoint names (m : tm) : list string :=
  match m with TRoot _ _ => [] | TKey _ rp k _ _ _ => names rp ++ [k] | TImag _ rp _ _ => names rp end.
Definition abs (m : tm) : ctx := (names m, tdata m).
Definition abs_ev (e : event) : sevent :=
  match e with
  | ETrace l n i => STrace (abs l) (option_map abs n) i
  | EResult m => SResult (abs m)
  end.

Definition mk c p s n := {| cur := c; pc := p; st := s; nid := n |}.
(* ------------------------------------------------------------------ proof *)
Inductive run (vp : list vertex) : state -> list event -> state -> Prop :=
| run_nil z : run vp z [] z
| run_cons z z1 ev z2 ev' : step vp z = Some (z1, ev) -> run vp z1 ev' z2 -> run vp z (ev ++ ev') z2.

Lemma run_trans vp z1 e1 z2 e2 z3 : run vp z1 e1 z2 -> run vp z2 e2 z3 -> run vp z1 (e1 ++ e2) z3.
Proof.
  induction 1; intros; simpl; auto.
  rewrite <- app_assoc. econstructor; eauto.
Qed.

Lemma run_one vp z z1 ev : step vp z = Some (z1, ev) -> run vp z ev z1.
Proof. intros. rewrite <- (app_nil_r ev). econstructor; eauto. constructor. Qed.

Definition agree_below (n : nat) (s s' : nat -> mut) := forall j, j < n -> s' j = s j.

Lemma agree_refl n s : agree_below n s s. Proof. red; auto. Qed.
Lemma agree_trans n s1 s2 s3 : agree_below n s1 s2 -> agree_below n s2 s3 -> agree_below n s1 s3.
Proof. unfold agree_below; intros. rewrite H0, H; auto. Qed.
Lemma agree_weaken n n' s s' : n' <= n -> agree_below n s s' -> agree_below n' s s'.
Proof. unfold agree_below; intros. apply H0. lia. Qed.
Lemma agree_upd n s i m : n <= i -> agree_below n s (upd s i m).
Proof. unfold agree_below, upd; intros. destruct (Nat.eqb_spec j i); auto. lia. Qed.

Lemma upd_same s i m : upd s i m i = m.
Proof. unfold upd. rewrite Nat.eqb_refl. auto. Qed.
Lemma upd_other s i m j : j <> i -> upd s i m j = s j.
Proof. unfold upd. intros. destruct (Nat.eqb_spec j i); congruence. Qed.

Definition ret_cur (m : tm) (s : nat -> mut) : option tm := ocm (s (tid m)).
Definition ret_pc (m : tm) (s : nat -> mut) : pcs := pc_of (oca (s (tid m))).

Definition ptr_ok (m : tm) (s : nat -> mut) : Prop :=
  match m with
  | TRoot i _ => ocm (s i) = Some m /\ oca (s i) = ADone
  | TKey i rp _ _ _ _ => tid rp < i /\ ocm (s i) = ocm (s (tid rp)) /\ oca (s i) = oca (s (tid rp))
  | TImag i rp _ _ => tid rp < i /\ ocm (s i) = ocm (s (tid rp)) /\ oca (s i) = oca (s (tid rp))
  end.

Definition fresh (m : tm) (s : nat -> mut) (n : nat) : Prop :=
  tid m < n /\ cs (s (tid m)) = None /\ ptr_ok m s.

Definition returned (m : tm) (s0 : nat -> mut) (z : state) : Prop :=
  pc z = ret_pc m s0 /\ (cur z = ret_cur m s0 \/ pc z = PDone).


Lemma step_report_leaf vp m s n :
  tvx m = List.length vp -> step vp (mk (Some m) PReport s n) = Some (mk (Some m) PCatch s n, [EResult m]).
Proof. intros H. unfold step, mk; simpl. rewrite H, Nat.eqb_refl. reflexivity. Qed.

Lemma step_report_inner vp m s n :
  tvx m <> List.length vp -> step vp (mk (Some m) PReport s n) = Some (mk (Some m) PMatch s n, []).
Proof. intros H. unfold step, mk; simpl. apply Nat.eqb_neq in H. rewrite H. reflexivity. Qed.

Lemma step_catch vp m s n :
  step vp (mk (Some m) PCatch s n) = Some (mk (ocm (s (tid m))) (pc_of (oca (s (tid m)))) s n, []).
Proof. reflexivity. Qed.

Lemma step_match_some vp m s n v c s' n' :
  nth_error vp (tvi m) = Some v ->
  vmatch v m (S (tvi m)) s n = (Some c, s', n') ->
  step vp (mk (Some m) PMatch s n) = Some (mk (Some c) PReport s' n', [ETrace m (Some c) (S (tvi m))]).
Proof. intros H1 H2. unfold step, mk; simpl. rewrite H1, H2. reflexivity. Qed.

Lemma step_match_none vp m s n v s' n' :
  nth_error vp (tvi m) = Some v ->
  vmatch v m (S (tvi m)) s n = (None, s', n') ->
  step vp (mk (Some m) PMatch s n) =
  Some (mk (ocm (s' (tid m))) (pc_of (oca (s' (tid m)))) s' n', [ETrace m None (S (tvi m))]).
Proof. intros H1 H2. unfold step, mk; simpl. rewrite H1, H2. reflexivity. Qed.

Lemma restore_ok m s0 s n :
  ptr_ok m s0 -> agree_below (tid m) s0 s ->
  returned m s0 (mk (ocm (restore m s (tid m))) (pc_of (oca (restore m s (tid m)))) (restore m s) n) /\
  agree_below (tid m) s0 (restore m s).
Proof.
  intros Hptr Hag.
  destruct m as [i d | i rp k d vx vi | i rp d vi]; simpl in *.
  - split.
    + red. unfold mk; simpl. rewrite upd_same. simpl.
      destruct Hptr as [_ Ha]. unfold ret_pc. simpl. rewrite Ha. simpl. auto.
    + eapply agree_trans; eauto. apply agree_upd. lia.
  - destruct Hptr as (Hlt & Ho & Ha). split.
    + red. unfold mk; simpl. rewrite upd_same. simpl.
      unfold ret_pc, ret_cur; simpl. rewrite Ho, Ha.
      rewrite (Hag (tid rp)) by lia. auto.
    + eapply agree_trans; eauto. apply agree_upd. lia.
  - destruct Hptr as (Hlt & Ho & Ha). split.
    + red. unfold mk; simpl. rewrite upd_same. simpl.
      unfold ret_pc, ret_cur; simpl. rewrite Ho, Ha.
      rewrite (Hag (tid rp)) by lia. auto.
    + eapply agree_trans; eauto. apply agree_upd. lia.
Qed.


Definition child_sem (i : nat) (rest : list vertex) (c : ctx) (kx : string * json) : list sevent :=
  let c' := (fst c ++ [fst kx], snd kx) in STrace c (Some c') (S i) :: sem (S i) rest c'.

(* The statement of the frame lemma for a given remaining path. *)
Definition frame_stmt (vp : list vertex) (rest : list vertex) (lpre : nat) : Prop :=
  forall m s n, tvi m = lpre -> tvx m = lpre -> fresh m s n ->
  exists z' ev,
    run vp (mk (Some m) PReport s n) ev z' /\
    map abs_ev ev = sem lpre rest (abs m) /\
    returned m s z' /\
    agree_below (tid m) s (st z') /\ n <= nid z'.

(* inner loop of the wildcard: iterate the remaining items of m's live iterator *)
Lemma wild_loop vp rest m :
  nth_error vp (tvi m) = Some VWild ->
  frame_stmt vp rest (S (tvi m)) ->
  forall s0, ptr_ok m s0 ->
  forall its s n,
    tid m < n -> agree_below (tid m) s0 s ->
    s (tid m) = {| cs := Some its; ocm := Some m; oca := AMatch |} ->
    exists z' ev,
      run vp (mk (Some m) PMatch s n) ev z' /\
      map abs_ev ev = flat_map (child_sem (tvi m) rest (abs m)) its ++ [STrace (abs m) None (S (tvi m))] /\
      returned m s0 z' /\ agree_below (tid m) s0 (st z') /\ n <= nid z'.
Proof.
  intros Hnth IH s0 Hptr its.
  induction its as [|[k x] its IHits]; intros s n Hid Hag Hm.
  - (* exhausted: restore *)
    assert (Hv : vmatch VWild m (S (tvi m)) s n = (None, restore m s, n)).
    { unfold vmatch. rewrite Hm. simpl. unfold pop_next. rewrite Hm. simpl. reflexivity. }
    eexists; eexists. split; [apply run_one; eapply step_match_none; eauto|].
    split; [reflexivity|].
    destruct (restore_ok m s0 s n Hptr Hag) as [Hr Ha]. split; [exact Hr|]. split; [exact Ha | simpl; lia].
  - (* next item *)
    set (s1 := upd s (tid m) {| cs := Some its; ocm := Some m; oca := AMatch |}).
    set (c := TKey n m k x (S (tvi m)) (S (tvi m))).
    set (s2 := upd s1 n {| cs := None; ocm := Some m; oca := AMatch |}).
    assert (Hv : vmatch VWild m (S (tvi m)) s n = (Some c, s2, S n)).
    { unfold vmatch. rewrite Hm. simpl. unfold pop_next. rewrite Hm. simpl. reflexivity. }
    assert (Hfc : fresh c s2 (S n)).
    { red. simpl. split; [lia|]. unfold s2. rewrite upd_same. simpl. split; [reflexivity|].
      split; [lia|]. rewrite upd_other by lia. unfold s1. rewrite upd_same. simpl. auto. }
    destruct (IH c s2 (S n) eq_refl eq_refl Hfc) as (z1 & ev1 & Hrun1 & Hev1 & Hret1 & Hag1 & Hn1).
    assert (Hs2m : s2 (tid m) = {| cs := Some its; ocm := Some m; oca := AMatch |}).
    { unfold s2. rewrite upd_other by lia. unfold s1. rewrite upd_same. reflexivity. }
    (* z1 is (m, PMatch, _, _) *)
    destruct Hret1 as [Hpc1 Hcur1]. unfold ret_pc, ret_cur in *. simpl in Hpc1, Hcur1.
    unfold s2 in Hpc1, Hcur1. rewrite upd_same in Hpc1, Hcur1. simpl in Hpc1, Hcur1.
    destruct Hcur1 as [Hcur1 | Hbad]; [|congruence].
    destruct z1 as [c1 p1 st1 n1]. simpl in *. subst c1 p1.
    assert (Hst1m : st1 (tid m) = {| cs := Some its; ocm := Some m; oca := AMatch |}).
    { rewrite Hag1 by lia. exact Hs2m. }
    assert (Hag01 : agree_below (tid m) s0 st1).
    { eapply agree_trans; [exact Hag|]. eapply agree_trans; [|eapply agree_weaken; [|exact Hag1]; lia].
      unfold s2, s1. eapply agree_trans; apply agree_upd; lia. }
    destruct (IHits st1 n1 ltac:(lia) Hag01 Hst1m) as (z2 & ev2 & Hrun2 & Hev2 & Hret2 & Hag2 & Hn2).
    exists z2. eexists. split.
    { eapply run_trans; [apply run_one; eapply step_match_some; eauto|].
      eapply run_trans; [exact Hrun1 | exact Hrun2]. }
    split.
    { rewrite !map_app. simpl. rewrite Hev1, Hev2. unfold child_sem at 2. simpl.
      unfold abs at 3. simpl. rewrite <- app_assoc. reflexivity. }
    split; [exact Hret2|]. split; [exact Hag2 | lia].
Qed.


(* ---- induction principle for the nested tree *)
Fixpoint json_ind' (P : json -> Prop)
  (Hn : P JNull) (Hi : forall z, P (JInt z))
  (Hl : forall l, Forall P l -> P (JList l))
  (Hd : forall l, Forall (fun kx => P (snd kx)) l -> P (JDict l))
  (j : json) : P j :=
  match j with
  | JNull => Hn
  | JInt z => Hi z
  | JList l => Hl l ((fix go (l : list json) : Forall P l :=
                        match l with [] => Forall_nil _ | x :: r => Forall_cons _ (json_ind' P Hn Hi Hl Hd x) (go r) end) l)
  | JDict l => Hd l ((fix go (l : list (string * json)) : Forall (fun kx => P (snd kx)) l :=
                        match l with [] => Forall_nil _ | x :: r => Forall_cons _ (json_ind' P Hn Hi Hl Hd (snd x)) (go r) end) l)
  end.

Definition rec_child_sem (i : nat) (semr : ctx -> list sevent) (leaf : bool) (nm : list string) (d : json)
  (kx : string * json) : list sevent :=
  let c' := (nm ++ [fst kx], snd kx) in
  STrace (nm, d) (Some c') i ::
  match items (snd kx) with
  | Some _ => semr c' ++ rec_children i semr leaf (nm ++ [fst kx]) (snd kx)
  | None => if leaf then [SResult c'] else [STrace c' None i]
  end.

Lemma rec_children_dict i semr leaf nm l :
  rec_children i semr leaf nm (JDict l) =
  flat_map (rec_child_sem i semr leaf nm (JDict l)) l ++ [STrace (nm, JDict l) None i].
Proof. reflexivity. Qed.

Definition leafb (rest : list vertex) := match rest with [] => true | _ => false end.

(* The loop of the recursive step at a match m whose iterator is live.  Stated for every tree d
   (the data of m) and every suffix `its` of its items. *)
Definition rec_loop_stmt (vp rest : list vertex) (p : nat) (d : json) : Prop :=
  forall m, tdata m = d -> tvi m = p ->
  forall s0, ptr_ok m s0 ->
  forall its s n,
    (exists done, items d = Some (done ++ its)) ->
    tid m < n -> agree_below (tid m) s0 s ->
    s (tid m) = {| cs := Some its; ocm := Some m; oca := AMatch |} ->
    exists z' ev,
      run vp (mk (Some m) PMatch s n) ev z' /\
      map abs_ev ev =
        flat_map (rec_child_sem (S (tvi m)) (sem (S (tvi m)) rest) (leafb rest) (names m) d) its
        ++ [STrace (abs m) None (S (tvi m))] /\
      returned m s0 z' /\ agree_below (tid m) s0 (st z') /\ n <= nid z'.

Lemma rec_loop_all vp rest p :
  nth_error vp p = Some VRec ->
  (leafb rest = true <-> S p = List.length vp) ->
  frame_stmt vp rest (S p) ->
  forall d, rec_loop_stmt vp rest p d.
Proof.
  intros Hnthp Hleafp IH d. induction d as [| z | l _ | l IHl] using json_ind';
    intros m Hd Hp s0 Hptr its s n [done Hsuf]; simpl in Hsuf; try discriminate.
  subst p. rename Hnthp into Hnth. rename Hleafp into Hleaf.
  injection Hsuf as Hsuf.
  revert done Hsuf s n.
  induction its as [|[k x] its IHits]; intros done Hsuf s n Hid Hag Hm.
  - (* exhausted *)
    assert (Hv : vmatch VRec m (S (tvi m)) s n = (None, restore m s, n)).
    { unfold vmatch. rewrite Hm. simpl. reflexivity. }
    eexists; eexists. split; [apply run_one; eapply step_match_none; eauto|].
    split; [reflexivity|].
    destruct (restore_ok m s0 s n Hptr Hag) as [Hr Ha]. split; [exact Hr|]. split; [exact Ha | simpl; lia].
  - (* next child (k, x) *)
    assert (Hin : In (k, x) l) by (subst l; apply in_or_app; right; left; reflexivity).
    assert (IHx : rec_loop_stmt vp rest (tvi m) x).
    { rewrite Forall_forall in IHl. exact (IHl (k, x) Hin). }
    set (i := S (tvi m)) in *.
    set (s1 := upd s (tid m) {| cs := Some its; ocm := Some m; oca := AMatch |}).
    set (c := TKey n m k x i (tvi m)).
    set (s2 := upd s1 n {| cs := None; ocm := Some m; oca := AMatch |}).
    assert (Hs2m : s2 (tid m) = {| cs := Some its; ocm := Some m; oca := AMatch |}).
    { unfold s2. rewrite upd_other by lia. unfold s1. rewrite upd_same. reflexivity. }
    assert (Hag02 : agree_below (tid m) s0 s2).
    { eapply agree_trans; [exact Hag|]. unfold s2, s1. eapply agree_trans; apply agree_upd; lia. }
    assert (Hnext : exists done', l = done' ++ its).
    { exists (done ++ [(k, x)]). rewrite <- app_assoc. exact Hsuf. }
    destruct Hnext as [done' Hsuf'].
    destruct (items x) as [its'|] eqn:Hix.
    + (* ---------- container child: imaginary match over c, then the loop of c, then back to m *)
      set (s3 := upd s2 n {| cs := Some its'; ocm := Some c; oca := AMatch |}).
      set (g := TImag (S n) c x i).
      set (s4 := upd s3 (S n) {| cs := None; ocm := Some c; oca := AMatch |}).
      assert (Hv : vmatch VRec m i s n = (Some g, s4, S (S n))).
      { unfold vmatch. rewrite Hm. simpl. rewrite Hix. reflexivity. }
      (* continuation of the path from g *)
      assert (Hfg : fresh g s4 (S (S n))).
      { red. simpl. split; [lia|]. unfold s4. rewrite upd_same. simpl. split; [reflexivity|].
        split; [lia|]. rewrite upd_other by lia. unfold s3. rewrite upd_same. simpl. auto. }
      destruct (IH g s4 (S (S n)) ltac:(simpl; lia) ltac:(simpl; lia) Hfg) as (z1 & ev1 & Hrun1 & Hev1 & Hret1 & Hag1 & Hn1).
      destruct Hret1 as [Hpc1 Hcur1]. unfold ret_pc, ret_cur in *. simpl in Hpc1, Hcur1, Hag1.
      unfold s4 in Hpc1, Hcur1. rewrite upd_same in Hpc1, Hcur1. simpl in Hpc1, Hcur1.
      destruct Hcur1 as [Hcur1 | Hbad]; [|congruence].
      destruct z1 as [c1 p1 st1 n1]. simpl in *. subst c1 p1.
      (* now the loop of c over its' *)
      assert (Hst1c : st1 (tid c) = {| cs := Some its'; ocm := Some c; oca := AMatch |}).
      { simpl. rewrite Hag1 by lia. unfold s4. rewrite upd_other by lia. unfold s3. apply upd_same. }
      assert (Hptrc : ptr_ok c s2).
      { simpl. split; [lia|]. unfold s2 at 1 3. rewrite upd_same. simpl. rewrite Hs2m. simpl. auto. }
      assert (Hagc : agree_below (tid c) s2 st1).
      { simpl. eapply agree_trans; [|eapply agree_weaken; [|exact Hag1]; lia].
        unfold s4, s3. eapply agree_trans; apply agree_upd; lia. }
      destruct (IHx c eq_refl eq_refl s2 Hptrc its' st1 n1 (ex_intro _ [] Hix) ltac:(simpl; lia) Hagc Hst1c)
        as (z2 & ev2 & Hrun2 & Hev2 & Hret2 & Hag2 & Hn2).
      destruct Hret2 as [Hpc2 Hcur2]. unfold ret_pc, ret_cur in *. simpl in Hpc2, Hcur2, Hag2.
      unfold s2 in Hpc2, Hcur2. rewrite upd_same in Hpc2, Hcur2. simpl in Hpc2, Hcur2.
      destruct Hcur2 as [Hcur2 | Hbad]; [|congruence].
      destruct z2 as [c2 p2 st2 n2]. simpl in *. subst c2 p2.
      (* back at m: continue with the remaining items *)
      assert (Hst2m : st2 (tid m) = {| cs := Some its; ocm := Some m; oca := AMatch |}).
      { rewrite Hag2 by lia. exact Hs2m. }
      assert (Hag0z : agree_below (tid m) s0 st2).
      { eapply agree_trans; [exact Hag02|]. eapply agree_weaken; [|exact Hag2]. lia. }
      destruct (IHits done' Hsuf' st2 n2 ltac:(lia) Hag0z Hst2m) as (z3 & ev3 & Hrun3 & Hev3 & Hret3 & Hag3 & Hn3).
      exists z3. eexists. split.
      { eapply run_trans; [apply run_one; eapply step_match_some; eauto|].
        eapply run_trans; [exact Hrun1|]. eapply run_trans; [exact Hrun2 | exact Hrun3]. }
      split.
      { rewrite !map_app. simpl. rewrite Hev1, Hev2, Hev3.
        unfold rec_child_sem at 3. simpl. rewrite Hix.
        destruct x; simpl in Hix; try discriminate. injection Hix as Hix. subst its'.
        rewrite rec_children_dict. unfold abs. simpl. rewrite ?Hd.
        rewrite <- !app_assoc. reflexivity. }
      split; [exact Hret3|]. split; [exact Hag3 | lia].
    + (* ---------- scalar child *)
      assert (Hv : vmatch VRec m i s n = (Some c, s2, S n)).
      { unfold vmatch. rewrite Hm. simpl. rewrite Hix. reflexivity. }
      destruct (Nat.eq_dec i (List.length vp)) as [Hlf | Hnlf].
      * (* rec is the last step: c is reported, then caught back to m *)
        assert (Hlb : leafb rest = true) by (apply Hleaf; exact Hlf).
        destruct (IHits done' Hsuf' s2 (S n) ltac:(lia) Hag02 Hs2m) as (z3 & ev3 & Hrun3 & Hev3 & Hret3 & Hag3 & Hn3).
        exists z3. eexists. split.
        { eapply run_trans; [apply run_one; eapply step_match_some; eauto|].
          eapply run_trans; [apply run_one; apply step_report_leaf; exact Hlf|].
          eapply run_trans; [apply run_one; apply step_catch|].
          simpl. unfold s2 at 1 2. rewrite upd_same. simpl. exact Hrun3. }
        split.
        { rewrite !map_app. simpl. rewrite Hev3. unfold rec_child_sem at 2. simpl. rewrite Hix, Hlb.
          unfold abs. simpl. rewrite ?Hd. reflexivity. }
        split; [exact Hret3|]. split; [exact Hag3 | lia].
      * (* rec is followed by more steps: the recursive step is re-applied to the scalar and fails *)
        assert (Hlb : leafb rest = false).
        { destruct (leafb rest) eqn:E; auto. exfalso. apply Hnlf. apply Hleaf. reflexivity. }
        assert (Hvc : vmatch VRec c (S (tvi c)) s2 (S n) = (None, s2, S n)).
        { unfold vmatch. simpl. unfold s2 at 1. rewrite upd_same. simpl. rewrite Hix. reflexivity. }
        destruct (IHits done' Hsuf' s2 (S n) ltac:(lia) Hag02 Hs2m) as (z3 & ev3 & Hrun3 & Hev3 & Hret3 & Hag3 & Hn3).
        exists z3. eexists. split.
        { eapply run_trans; [apply run_one; eapply step_match_some; eauto|].
          eapply run_trans; [apply run_one; apply step_report_inner; exact Hnlf|].
          eapply run_trans; [apply run_one; eapply step_match_none; [exact Hnth | exact Hvc]|].
          simpl. unfold s2 at 1 2. rewrite upd_same. simpl. exact Hrun3. }
        split.
        { rewrite !map_app. simpl. rewrite Hev3. unfold rec_child_sem at 2. simpl. rewrite Hix, Hlb.
          unfold abs. simpl. rewrite ?Hd. reflexivity. }
        split; [exact Hret3|]. split; [exact Hag3 | lia].
Qed.


Theorem frame vp :
  forall rest pre, vp = pre ++ rest -> frame_stmt vp rest (List.length pre).
Proof.
  induction rest as [|v rest IH]; intros pre Hvp m s n Hvi Hvx Hfresh.
  - subst vp. rewrite app_nil_r in *.
    eexists; eexists. split.
    + eapply run_trans; [apply run_one; apply step_report_leaf; auto | apply run_one; apply step_catch].
    + simpl. split; [reflexivity|]. split; [red; simpl; auto|]. split; [apply agree_refl | simpl; lia].
  - assert (Hnth : nth_error vp (tvi m) = Some v).
    { subst vp. rewrite Hvi. rewrite nth_error_app2 by lia. rewrite Nat.sub_diag. reflexivity. }
    assert (Hlen : tvx m <> List.length vp).
    { subst vp. rewrite Hvx, app_length. simpl. lia. }
    assert (Hvp' : vp = (pre ++ [v]) ++ rest) by (subst vp; rewrite <- app_assoc; reflexivity).
    assert (Hlen' : List.length (pre ++ [v]) = S (tvi m)) by (rewrite app_length; simpl; lia).
    assert (IH' := IH _ Hvp'). rewrite Hlen' in IH'.
    destruct Hfresh as (Hid & Hcs & Hptr).
    rewrite <- Hvi.
    destruct v as [k| |].
    + (* key *)
      destruct (tdata m) eqn:Hd; [| | |destruct (assoc k l) as [x|] eqn:Ha].
      1-3,5:
        (eexists; eexists; split;
         [ eapply run_trans; [apply run_one; apply step_report_inner; auto|];
           apply run_one; eapply step_match_none; eauto;
           unfold vmatch; rewrite Hd; try rewrite Ha; reflexivity
         | simpl; unfold abs; simpl; rewrite ?Hd; try rewrite Ha;
           split; [reflexivity|]; split; [red; simpl; auto|]; split; [apply agree_refl | simpl; lia] ]).
      set (c := TKey n m k x (S (tvi m)) (S (tvi m))).
      set (s1 := upd s n {| cs := None; ocm := ocm (s (tid m)); oca := oca (s (tid m)) |}).
      assert (Hv : vmatch (VKey k) m (S (tvi m)) s n = (Some c, s1, S n)).
      { unfold vmatch. rewrite Hd, Ha. reflexivity. }
      assert (Hfc : fresh c s1 (S n)).
      { red; simpl. split; [lia|]. unfold s1. rewrite upd_same; simpl. split; [reflexivity|].
        split; [lia|]. rewrite upd_other by lia. auto. }
      destruct (IH' c s1 (S n) eq_refl eq_refl Hfc) as (z1 & ev1 & Hrun1 & Hev1 & Hret1 & Hag1 & Hn1).
      exists z1. eexists. split.
      { eapply run_trans; [apply run_one; apply step_report_inner; auto|].
        eapply run_trans; [apply run_one; eapply step_match_some; eauto | exact Hrun1]. }
      split.
      { simpl. rewrite Hev1. unfold abs. simpl. rewrite Hd, Ha. rewrite ?Hd. reflexivity. }
      split.
      { destruct Hret1 as [Hp Hc]. unfold ret_pc, ret_cur in *. simpl in *. unfold s1 in Hp, Hc.
        rewrite upd_same in Hp, Hc. simpl in *. split; auto. }
      split; [|lia].
      eapply agree_trans; [|eapply agree_weaken; [|exact Hag1]; simpl; lia].
      apply agree_upd. lia.
    + (* wildcard *)
      destruct (items (tdata m)) as [its|] eqn:Hit.
      * set (s1 := upd s (tid m) {| cs := Some its; ocm := Some m; oca := AMatch |}).
        destruct (wild_loop vp rest m Hnth IH' s Hptr its s1 n Hid) as (z' & ev & Hrun & Hev & Hret & Hag & Hn).
        { apply agree_upd. lia. }
        { unfold s1. apply upd_same. }
        assert (Hstep : step vp (mk (Some m) PMatch s n) = step vp (mk (Some m) PMatch s1 n)).
        { assert (Hs1 : s1 (tid m) = {| cs := Some its; ocm := Some m; oca := AMatch |}) by apply upd_same.
          unfold step, mk; simpl. rewrite Hnth. unfold vmatch. rewrite Hcs, Hit, Hs1. reflexivity. }
        exists z', ev. split.
        { eapply run_trans with (e1 := []); [apply run_one; apply step_report_inner; auto|].
          inversion Hrun; subst.
          - exfalso. apply (f_equal (@List.length _)) in Hev. rewrite app_length in Hev. simpl in Hev. lia.
          - econstructor; [rewrite Hstep; eassumption | assumption]. }
        split.
        { rewrite Hev. simpl. unfold abs at 1. simpl. rewrite Hit. reflexivity. }
        auto.
      * eexists; eexists. split.
        { eapply run_trans; [apply run_one; apply step_report_inner; auto|].
          apply run_one. eapply step_match_none; eauto. unfold vmatch. rewrite Hcs, Hit. reflexivity. }
        simpl. unfold abs at 1. simpl. rewrite Hit.
        split; [reflexivity|]. split; [red; simpl; auto|]. split; [apply agree_refl | simpl; lia].
    + (* recursive step *)
      destruct (items (tdata m)) as [its|] eqn:Hit.
      * set (s1 := upd s (tid m) {| cs := Some its; ocm := Some m; oca := AMatch |}).
        set (g := TImag n m (tdata m) (S (tvi m))).
        set (s2 := upd s1 n {| cs := None; ocm := Some m; oca := AMatch |}).
        assert (Hv : vmatch VRec m (S (tvi m)) s n = (Some g, s2, S n)).
        { unfold vmatch. rewrite Hcs, Hit. reflexivity. }
        assert (Hfg : fresh g s2 (S n)).
        { red. simpl. split; [lia|]. unfold s2. rewrite upd_same. simpl. split; [reflexivity|].
          split; [lia|]. rewrite upd_other by lia. unfold s1. rewrite upd_same. simpl. auto. }
        destruct (IH' g s2 (S n) eq_refl eq_refl Hfg) as (z1 & ev1 & Hrun1 & Hev1 & Hret1 & Hag1 & Hn1).
        destruct Hret1 as [Hpc1 Hcur1]. unfold ret_pc, ret_cur in *. simpl in Hpc1, Hcur1, Hag1.
        unfold s2 in Hpc1, Hcur1. rewrite upd_same in Hpc1, Hcur1. simpl in Hpc1, Hcur1.
        destruct Hcur1 as [Hcur1 | Hbad]; [|congruence].
        destruct z1 as [c1 p1 st1 n1]. simpl in *. subst c1 p1.
        assert (Hst1m : st1 (tid m) = {| cs := Some its; ocm := Some m; oca := AMatch |}).
        { rewrite Hag1 by lia. unfold s2. rewrite upd_other by lia. unfold s1. apply upd_same. }
        assert (Hag01 : agree_below (tid m) s st1).
        { eapply agree_trans; [|eapply agree_weaken; [|exact Hag1]; lia].
          unfold s2, s1. eapply agree_trans; apply agree_upd; lia. }
        assert (Hleaf : leafb rest = true <-> S (tvi m) = List.length vp).
        { subst vp. rewrite app_length. simpl. rewrite Hvi. destruct rest; simpl; split; intros; try lia; try discriminate; auto. }
        destruct (rec_loop_all vp rest (tvi m) Hnth Hleaf IH' (tdata m) m eq_refl eq_refl s Hptr its st1 n1
                    (ex_intro _ [] Hit) ltac:(lia) Hag01 Hst1m)
          as (z2 & ev2 & Hrun2 & Hev2 & Hret2 & Hag2 & Hn2).
        exists z2. eexists. split.
        { eapply run_trans with (e1 := []); [apply run_one; apply step_report_inner; auto|].
          eapply run_trans; [apply run_one; eapply step_match_some; eauto|].
          eapply run_trans; [exact Hrun1 | exact Hrun2]. }
        split.
        { simpl. rewrite !map_app. rewrite Hev1, Hev2. unfold abs. simpl. rewrite Hit.
          destruct (tdata m) eqn:Hd; simpl in Hit; try discriminate. injection Hit as Hit. subst its.
          rewrite rec_children_dict. reflexivity. }
        split; [exact Hret2|]. split; [exact Hag2 | lia].
      * eexists; eexists. split.
        { eapply run_trans; [apply run_one; apply step_report_inner; auto|].
          apply run_one. eapply step_match_none; eauto. unfold vmatch. rewrite Hcs, Hit. reflexivity. }
        simpl. unfold abs at 1. simpl. rewrite Hit.
        split; [reflexivity|]. split; [red; simpl; auto|]. split; [apply agree_refl | simpl; lia].
Qed.


Definition init (d : json) : state :=
  mk (Some (TRoot 0 d)) PReport (fun j => {| cs := None; ocm := Some (TRoot 0 d); oca := ADone |}) 1.

(* every query: the machine's complete event stream is the denotational one, and it ends in the
   absorbing done state (so a later next() stops again: the repaired restore_on_catch) *)
Theorem refinement vp d :
  exists z ev, run vp (init d) ev z /\ map abs_ev ev = sem 0 vp ([], d) /\ pc z = PDone /\ step vp z = None.
Proof.
  destruct (frame vp vp [] eq_refl (TRoot 0 d) (st (init d)) 1 eq_refl eq_refl) as (z & ev & Hrun & Hev & Hret & _ & _).
  { red. simpl. split; [lia|]. split; [reflexivity|]. split; reflexivity. }
  exists z, ev. split; [exact Hrun|]. split; [exact Hev|].
  destruct Hret as [Hpc _]. unfold ret_pc in Hpc. simpl in Hpc.
  split; [exact Hpc|]. unfold step. rewrite Hpc. reflexivity.
Qed.

Print Assumptions refinement.

