(* Feasibility probe for DESIGN.md section 3.5 "chain lemma" (C13, defect D2):
   the pointer-chasing remembered_parent of the repaired code agrees with the stack discipline of the
   specification on every well-formed match skeleton; the pinned definition does not. *)
From Coq Require Import List String Bool Lia ZArith.
Import ListNotations.
Open Scope list_scope.

Inductive json := JNull | JInt (z : Z) | JDict (l : list (string * json)).
Inductive name := NRoot | NKey (k : string).

(* immutable skeleton; ids and vertex indices are irrelevant here *)
Inductive tm :=
| TRoot (d : json)
| TKey (rp : tm) (k : string) (d : json)
| TImag (rp : tm) (d : json)
| TPar (remembered rp : tm) (nm : name) (d : json).

Definition tdata m := match m with TRoot d => d | TKey _ _ d => d | TImag _ d => d | TPar _ _ _ d => d end.

(* data_name: ImaginaryMatch forwards, everything else answers real_data_name *)
Fixpoint data_name (m : tm) : name :=
  match m with TRoot _ => NRoot | TKey _ k _ => NKey k | TImag rp _ => data_name rp | TPar _ _ nm _ => nm end.

(* .parent: real_parent, except that ImaginaryMatch forwards to real_parent.parent *)
Fixpoint parent (m : tm) : option tm :=
  match m with TRoot _ => None | TKey rp _ _ => Some rp | TImag rp _ => parent rp | TPar _ rp _ _ => Some rp end.

(* remembered_parent as on the pinned commit *)
Definition remembered_parent_pinned (m : tm) : option tm :=
  match m with
  | TPar rem _ _ _ => parent rem          (* ParentMatch: self._remembered_parent.parent *)
  | _ => parent m                         (* TraverserMatch / ImaginaryMatch: self.parent *)
  end.

(* remembered_parent with repair D2 *)
Fixpoint remembered_parent (m : tm) : option tm :=
  match m with
  | TRoot _ => None
  | TKey rp _ _ => Some rp
  | TImag rp _ => remembered_parent rp
  | TPar rem _ _ _ => remembered_parent rem
  end.

(* ParentVertex.match *)
Definition parent_step (rp_of : tm -> option tm) (m : tm) : option tm :=
  match rp_of m with None => None | Some r => Some (TPar r m (data_name r) (tdata r)) end.

(* ---------------- specification side: derivation chain and stack discipline *)
Inductive kind := KRoot | KKey | KPar.
Definition entry := (kind * name * json)%type.
Definition ctx := list entry.

Definition push_pop (st : list (name * json)) (e : entry) : list (name * json) :=
  match e with
  | (KPar, _, _) => tl st
  | (_, n, d) => (n, d) :: st
  end.
Definition stack (c : ctx) : list (name * json) := fold_left push_pop c [].

Definition spec_parent (c : ctx) : option ctx :=
  match stack c with
  | _ :: (n, d) :: _ => Some (c ++ [(KPar, n, d)])
  | _ => None
  end.

Fixpoint abs (m : tm) : ctx :=
  match m with
  | TRoot d => [(KRoot, NRoot, d)]
  | TKey rp k d => abs rp ++ [(KKey, NKey k, d)]
  | TImag rp _ => abs rp
  | TPar _ rp nm d => abs rp ++ [(KPar, nm, d)]
  end.

(* well-formed skeletons: what the constructors of the machine guarantee *)
Fixpoint wf (m : tm) : Prop :=
  match m with
  | TRoot _ => True
  | TKey rp _ _ => wf rp
  | TImag rp d => wf rp /\ d = tdata rp
  | TPar rem rp nm d => wf rp /\ wf rem /\ remembered_parent rp = Some rem /\ nm = data_name rem /\ d = tdata rem
  end.

Lemma stack_snoc c e : stack (c ++ [e]) = push_pop (stack c) e.
Proof. unfold stack. rewrite fold_left_app. reflexivity. Qed.

(* The chain lemma. *)
Lemma chain m :
  wf m ->
  hd_error (stack (abs m)) = Some (data_name m, tdata m) /\
  match remembered_parent m with
  | None => tl (stack (abs m)) = []
  | Some r => stack (abs r) = tl (stack (abs m))
  end.
Proof.
  induction m as [d | rp IH k d | rp IH d | rem IHrem rp IHrp nm d]; simpl; intros Hwf.
  - split; reflexivity.
  - rewrite stack_snoc. simpl. split; reflexivity.
  - destruct Hwf as [Hwf ->]. destruct (IH Hwf) as [Ha Hb]. split; assumption.
  - destruct Hwf as (Hrp & Hrem & Hrm & -> & ->).
    destruct (IHrp Hrp) as [_ Hb]. rewrite Hrm in Hb.
    destruct (IHrem Hrem) as [Ha' Hb'].
    rewrite stack_snoc. simpl. rewrite <- Hb. split; assumption.
Qed.

(* C13 on the machine side: the parent step of the repaired code is the specification's parent step *)
Theorem parent_step_refines m :
  wf m ->
  option_map abs (parent_step remembered_parent m) = spec_parent (abs m) /\
  (forall p, parent_step remembered_parent m = Some p -> wf p).
Proof.
  intros Hwf. destruct (chain m Hwf) as [Ha Hb]. unfold parent_step, spec_parent.
  destruct (remembered_parent m) as [r|] eqn:Hr.
  - assert (Hwr : wf r).
    { clear Ha Hb. revert r Hr. induction m as [d | rp IH k d | rp IH d | rem IHrem rp IHrp nm d]; simpl in *; intros r Hr.
      - discriminate.
      - injection Hr as <-. exact Hwf.
      - destruct Hwf as [Hwf _]. auto.
      - destruct Hwf as (_ & Hrem & _). auto. }
    destruct (chain r Hwr) as [Har _]. rewrite Hb in Har.
    destruct (stack (abs m)) as [|top rest]; [discriminate|]. simpl in Har.
    destruct rest as [|[n d] rest']; [discriminate|]. simpl in Har. injection Har as -> ->.
    split; [reflexivity|]. intros p Hp. injection Hp as <-. simpl. auto.
  - destruct (stack (abs m)) as [|top rest]; [split; [reflexivity | discriminate]|].
    simpl in Hb. subst rest. split; [reflexivity | discriminate].
Qed.

Print Assumptions parent_step_refines.

(* n consecutive parent steps climb n levels or select nothing *)
Fixpoint climb (n : nat) (m : tm) : option tm :=
  match n with 0 => Some m | S n' => match parent_step remembered_parent m with None => None | Some p => climb n' p end end.
Fixpoint spec_climb (n : nat) (c : ctx) : option ctx :=
  match n with 0 => Some c | S n' => match spec_parent c with None => None | Some p => spec_climb n' p end end.
Theorem climb_refines n : forall m, wf m -> option_map abs (climb n m) = spec_climb n (abs m).
Proof.
  induction n as [|n IH]; intros m Hwf; simpl; [reflexivity|].
  destruct (parent_step_refines m Hwf) as [He Hw].
  destruct (parent_step remembered_parent m) as [p|]; simpl in He; rewrite <- He; [apply IH; auto | reflexivity].
Qed.

(* ---------------- the pinned definition is refuted by the document of C13's text *)
Open Scope string_scope.
Definition dk := JDict [("z", JInt 1)].
Definition da := JDict [("b", JInt 7); ("k", dk)].
Definition droot := JDict [("a", da); ("x", JInt 5)].
Definition m_a := TKey (TRoot droot) "a" da.
Definition m_b := TKey m_a "b" (JInt 7).
Definition step_par (rp_of : tm -> option tm) (o : option tm) := match o with Some m => parent_step rp_of m | None => None end.
Definition step_key (k : string) (d : json) (o : option tm) := option_map (fun m => TKey m k d) o.
(* path.a.b.parent.k.parent.parent *)
Definition run_with rp_of := step_par rp_of (step_par rp_of (step_key "k" dk (step_par rp_of (Some m_b)))).

Example repaired_lands_on_root : option_map tdata (run_with remembered_parent) = Some droot.
Proof. reflexivity. Qed.
Example pinned_refuted : option_map tdata (run_with remembered_parent_pinned) = Some (JInt 7).
Proof. reflexivity. Qed.
(* and path.a.parent.a.parent.parent yields a node although the root has no parent *)
Example pinned_refuted_root :
  step_par remembered_parent_pinned (step_par remembered_parent_pinned (step_key "a" da (step_par remembered_parent_pinned (Some m_a)))) <> None
  /\ step_par remembered_parent (step_par remembered_parent (step_key "a" da (step_par remembered_parent (Some m_a)))) = None.
Proof. split; [discriminate | reflexivity]. Qed.
