(* Feasibility probe for DESIGN.md C19: DocumentList.keep_all compacts the list in place while a live list
   iterator reads it; correct because the write index never overtakes the read index. *)
From Coq Require Import List Arith Lia.
Import ListNotations.

Section KeepAll.
Variables (J W : Type) (to_wrapped : J -> W) (to_json : W -> J) (is_keep : W -> bool).

Fixpoint set_nth (l : list J) (i : nat) (v : J) : list J :=
  match l, i with
  | [], _ => []                      (* IndexError in Python; never reached, see keep_all_no_index_error *)
  | _ :: r, 0 => v :: r
  | x :: r, S i' => x :: set_nth r i' v
  end.

(* for last_index, json_value in enumerate(map(to_json, filter(is_keep, self))): data[last_index] = json_value
   -- one iteration of the underlying list iterator per unit of fuel; it stops when r >= len(data) *)
Fixpoint loop (fuel : nat) (data : list J) (r w : nat) : list J * nat :=
  match fuel with
  | 0 => (data, w)
  | S f =>
      match nth_error data r with
      | None => (data, w)
      | Some x =>
          let wx := to_wrapped x in
          if is_keep wx then loop f (set_nth data w (to_json wx)) (S r) (S w) else loop f data (S r) w
      end
  end.

(* then: for index in range(last_index + 1, original_length): data.pop() *)
Definition keep_all (data : list J) : list J :=
  let '(d, w) := loop (S (length data)) data 0 0 in firstn w d.

Definition rt (x : J) : J := to_json (to_wrapped x).
Definition kept (l : list J) : list J := map rt (filter (fun x => is_keep (to_wrapped x)) l).

Lemma set_nth_app pre v x rest : set_nth (pre ++ x :: rest) (length pre) v = pre ++ v :: rest.
Proof. induction pre; simpl; congruence. Qed.

Lemma nth_error_mid (pre mid : list J) x suf :
  nth_error (pre ++ mid ++ x :: suf) (length pre + length mid) = Some x.
Proof.
  rewrite app_assoc. rewrite <- app_length. rewrite nth_error_app2 by lia. rewrite Nat.sub_diag. reflexivity.
Qed.

Ltac fin junk He Hl :=
  exists junk; split;
  [ rewrite He; unfold kept, rt; rewrite <- ?app_assoc; simpl; f_equal; lia
  | unfold kept in *; rewrite ?app_length in *; simpl in *; rewrite ?app_length in *; simpl in *; lia ].

(* invariant: data = written prefix ++ stale middle ++ unread suffix; w = |prefix| <= r = |prefix|+|middle| *)
Lemma loop_spec : forall suf fuel pre mid,
  length suf < fuel ->
  exists junk,
    loop fuel (pre ++ mid ++ suf) (length pre + length mid) (length pre)
    = (pre ++ kept suf ++ junk, length pre + length (kept suf))
    /\ length (kept suf ++ junk) = length (mid ++ suf).
Proof.
  induction suf as [|x s IH]; intros fuel pre mid Hf.
  - destruct fuel; [simpl in Hf; lia|]. cbn [loop]. rewrite app_nil_r.
    rewrite nth_error_app2 by lia.
    replace (length pre + length mid - length pre) with (length mid) by lia.
    rewrite (proj2 (nth_error_None mid (length mid))) by lia.
    exists mid. unfold kept. simpl. rewrite Nat.add_0_r. split; reflexivity.
  - destruct fuel; [simpl in Hf; lia|]. simpl in Hf. cbn [loop]. rewrite nth_error_mid.
    unfold kept. cbn [filter]. destruct (is_keep (to_wrapped x)) eqn:Hk; cbn [map].
    + (* kept: written at index w = |pre| *)
      destruct mid as [|y mid'].
      * simpl app at 1. rewrite set_nth_app. simpl length. rewrite Nat.add_0_r.
        destruct (IH fuel (pre ++ [rt x]) [] ltac:(lia)) as (junk & He & Hl).
        rewrite app_length in He. simpl in He. rewrite Nat.add_0_r in He.
        rewrite <- app_assoc in He. simpl in He.
        replace (S (length pre)) with (length pre + 1) by lia.
        unfold rt in He. fin junk He Hl.
      * simpl app at 1. rewrite set_nth_app.
        destruct (IH fuel (pre ++ [rt x]) (mid' ++ [x]) ltac:(lia)) as (junk & He & Hl).
        rewrite !app_length in He. simpl in He.
        replace ((pre ++ [rt x]) ++ (mid' ++ [x]) ++ s) with (pre ++ to_json (to_wrapped x) :: mid' ++ x :: s) in He
          by (unfold rt; rewrite <- !app_assoc; reflexivity).
        simpl length.
        replace (S (length pre + S (length mid'))) with (length pre + 1 + (length mid' + 1)) by lia.
        replace (S (length pre)) with (length pre + 1) by lia.
        fin junk He Hl.
    + (* dropped *)
      destruct (IH fuel pre (mid ++ [x]) ltac:(lia)) as (junk & He & Hl).
      rewrite app_length in He. simpl in He.
      replace (pre ++ (mid ++ [x]) ++ s) with (pre ++ mid ++ x :: s) in He by (rewrite <- !app_assoc; reflexivity).
      replace (S (length pre + length mid)) with (length pre + (length mid + 1)) by lia.
      fin junk He Hl.
Qed.

Theorem keep_all_spec data : keep_all data = map rt (filter (fun x => is_keep (to_wrapped x)) data).
Proof.
  unfold keep_all.
  destruct (loop_spec data (S (length data)) [] [] ltac:(lia)) as (junk & He & _).
  cbn [app length Nat.add] in He. rewrite He. fold (kept data).
  rewrite firstn_app, firstn_all, Nat.sub_diag. simpl. apply app_nil_r.
Qed.
End KeepAll.

Print Assumptions keep_all_spec.
